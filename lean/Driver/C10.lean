/- driver for the teardown model (C10): one line per generated crash point with the predicted ledgers -/
import GeckoModel.Model.Teardown
open GeckoModel GeckoModel.Generated

def b (x : Bool) : String := if x then "1" else "0"
def showL (l : Ledger) : String := s!"endpointOpen={b l.endpointOpen} tasksAlive={b l.tasksAlive} observersLeft={b l.observersLeft} pumpAlive={b l.pumpAlive}"

partial def loop (h : IO.FS.Stream) : IO Unit := do
  let line ← h.getLine
  if line.isEmpty then return ()
  match line.trimAscii.toString.splitOn " " with
  | ["point", proc, ln] =>
    match crashPoints.find? (fun p => p.proc == proc && toString p.line == ln) with
    | some p => IO.println s!"reset: {showL (afterReset teardownFacts p)} | exit: {showL (afterExit teardownFacts p)}"
    | none => IO.println "unknown-point"
  | ["errreset", o, y] =>
    let s := runReset resetSteps spaDisconnectSteps facadeDisconnectSteps (if o == "self" then .spaTask else .user) (y == "1")
    IO.println s!"{showL s.ledger} completed={b s.completed}"
  | ["discoverexit", y] =>
    let s := runDiscoverFinally discoverFinallySteps (y == "1")
    IO.println s!"closed={b s.closed} locCancelled={b s.locCancelled}"
  | ["cycles", n] => IO.println s!"{openAfterCycles teardownFacts (n.toNat?.getD 0)}"
  | ["count"] => IO.println s!"{crashPoints.length}"
  | _ => IO.println "bad-op"
  loop h

def main : IO Unit := do loop (← IO.getStdin)
