/- line-protocol driver for the inventory model (C12) over the regenerated pack tables -/
import GeckoModel.Model.DriverUtil
import GeckoModel.Model.Inventory
import GeckoModel.Generated.PacksIndex
open GeckoModel GeckoModel.Generated GeckoModel.Inventory Drv

structure St where
  blocks : List (String × Block) := []

def St.block (s : St) (id : String) : Option Block := (s.blocks.find? (·.1 == id)).map (·.2)

def findMod (m : String) : Option PackModule := Packs.allModules.find? (·.file == m)

/-- "pos=byte,pos=byte" over a zero block -/
def parseAsg (t : String) : Option Block :=
  let base : List UInt8 := List.replicate blockSize 0
  if t == "-" then some base else
  (t.splitOn ",").foldlM (fun (b : List UInt8) kv =>
    match kv.splitOn "=" with
    | [p, v] => match p.toNat?, v.toNat? with
      | some pos, some byte => if pos < b.length ∧ byte < 256 then some (b.set pos (UInt8.ofNat byte)) else none
      | _, _ => none
    | _ => none) base

def showModes : Option (Option (List String)) → String
  | none => "-"
  | some none => "None"
  | some (some l) => "/".intercalate l

def showDev (d : Dev) : String :=
  s!"{d.key};{d.name};{d.keypad};{d.stateKey};{d.cls};{d.demand.getD "-"};{showModes d.modes}"

def showSensor (s : Sensor) : String := s!"{s.key};{s.name};{s.accessorKey}"

def showKeys : Except InvErr (List String) → String
  | .ok ks => "ok:" ++ ",".intercalate ks
  | .error .attributeError => "err:AttributeError"
  | .error .keyError => "err:KeyError"

def showGet : Except InvErr (Option Entry) → String
  | .ok (some e) => s!"{e.key}>{e.name}@{e.slot}"
  | .ok none => "none"
  | .error .attributeError => "err:AttributeError"
  | .error .keyError => "err:KeyError"

def dump (w : Wiring) : String :=
  match scanOutputsE w with
  | .error _ => "E=KeyError"
  | .ok inv =>
    let aud := ",".intercalate (inv.userDevices.map (fun u => s!"{u.device}:{w.demandTag u.demandKey}:{showModes (some (w.demandOptions u.demandKey))}"))
    let keys := (presentEntries asyncAutomationOrder inv).map (·.key)
    let gets := ",".intercalate (keys.map (fun k => showGet (getDevice asyncAutomationOrder inv k)))
    let sgets := ",".intercalate (((presentEntries syncAutomationOrder inv).map (·.key)).map (fun k => showGet (getDevice syncAutomationOrder inv k)))
    s!"E=ok|aud={aud}|pumps={",".intercalate (inv.pumps.map showDev)}|blowers={",".intercalate (inv.blowers.map showDev)}" ++
    s!"|lights={",".intercalate (inv.lights.map showDev)}|sensors={",".intercalate (inv.sensors.map showSensor)}" ++
    s!"|bsensors={",".intercalate (inv.binarySensors.map showSensor)}|eco={match inv.eco with | some d => showDev d | none => "None"}" ++
    s!"|devices={showKeys (devices asyncAutomationOrder inv)}|get={gets}|absent={showGet (getDevice asyncAutomationOrder inv "NO-SUCH-KEY")}" ++
    s!"|sdevices={showKeys (devices syncAutomationOrder inv)}|sget={sgets}"

def step' (s : St) (line : String) : St × String :=
  match line.trimAscii.toString.splitOn " " with
  | ["asg", id, t] =>
    match parseAsg t with
    | some b => ({ s with blocks := (id, b) :: (s.blocks.filter (·.1 != id)).take 3 }, "ok")   -- only the latest blocks are kept
    | none => (s, "bad-op")
  | ["scan", c, l, bid] =>
    match findMod c, findMod l, s.block bid with
    | some cfg, some log, some b =>
      let w0 := wiringOf cfg log b
      -- same wiring, with the output values decoded once (the scan reads each several times)
      let tbl := w0.allOutputs.map (fun o => (o, w0.val o))
      let w := { w0 with val := fun o => match tbl.find? (·.1 == o) with | some p => p.2 | none => w0.val o }
      let vals := ",".intercalate (w.allOutputs.map (fun o => s!"{o}={w.val o}"))
      (s, s!"vals={vals}|" ++ dump w)
    | _, _, _ => (s, "bad-op")
  | _ => (s, "bad-op")

partial def loop (h : IO.FS.Stream) (s : St) : IO Unit := do
  let line ← h.getLine
  if line.isEmpty then return ()
  let (s', out) := step' s line
  IO.println out
  loop h s'

def main : IO Unit := do loop (← IO.getStdin) {}
