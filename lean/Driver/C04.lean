/- line-protocol driver for the wire-format model (C04): one op per line, one answer line per op

  enc <p2> <p3> <form> <args…>   send_bytes of the handler built by the constructor, parms = (_, _, p2, p3)
  dec <handler> <hex>            attributes of a fresh handler after handle(bytes)
  claim <hex>                    the handler classes whose can_handle accepts the bytes
  ext <hex>                      _extract_packet_parts(bytes)
  reply <hex> <hex>              send_bytes of a reply built with the parms held after handle(received)

bytes are hex ("-" = empty); ints decimal; lists "a:b,a:b" ("-" = empty)
-/
import GeckoModel.Model.DriverUtil
import GeckoModel.Model.Packet
open GeckoModel.Wire

namespace C04Drv

def errName : Err → String
  | .structErr => "E_STRUCT" | .valueErr => "E_VALUE" | .indexErr => "E_INDEX" | .overflowErr => "E_OVERFLOW"
  | .typeErr => "E_TYPE" | .outOfModel => "E_OUTOFMODEL"

def hx (b : Bytes) : String := Drv.hex b

def showVal : Val → String
  | .none => "None"
  | .int v => s!"i{v}"
  | .bool b => if b then "b1" else "b0"
  | .bytes b => "x" ++ hx b
  | .pairs l => "p[" ++ ",".intercalate (l.map fun (a, b) => s!"{a}:{b}") ++ "]"
  | .changes l => "c[" ++ ",".intercalate (l.map fun (a, b) => s!"{a}:{hx b}") ++ "]"

def showDecoded : Except Err Decoded → String
  | .ok d => "ok " ++ ";".intercalate (d.attrs.map fun (a, v) => s!"{a}={showVal v}")
  | .error e => "err:" ++ errName e

def handlerName : Handler → String
  | .hello => "Hello" | .packet => "Packet" | .ping => "Ping" | .version => "Version" | .channel => "GetChannel"
  | .config => "ConfigFile" | .status => "StatusBlock" | .partialStatus => "PartialStatusBlock"
  | .asyncPartialStatus => "AsyncPartialStatusBlock" | .watercare => "Watercare" | .wcerr => "WatercareError"
  | .firmware => "UpdateFirmware" | .reminders => "Reminders" | .rferr => "RFErr" | .pack => "PackCommand"
  | .unhandled => "Unhandled"

def handlerOf (s : String) : Option Handler := allHandlers.find? fun k => handlerName k == s

def int? (s : String) : Option Int := s.toInt?
def nat? (s : String) : Option Nat := s.toNat?
def bytes? (s : String) : Option Bytes := Drv.unhex s

def pairs? (s : String) : Option (List (Int × Int)) :=
  if s == "-" then some []
  else (s.splitOn ",").mapM fun item =>
    match item.splitOn ":" with
    | [a, b] => do let x ← int? a; let y ← int? b; pure (x, y)
    | _ => none

def changes? (s : String) : Option (List (Int × Bytes)) :=
  if s == "-" then some []
  else (s.splitOn ",").mapM fun item =>
    match item.splitOn ":" with
    | [a, b] => do let x ← int? a; let y ← bytes? b; pure (x, y)
    | _ => none

def msg? : List String → Option Msg
  | ["helloBroadcast"] => some .helloBroadcast
  | ["helloClient", a] => do pure (.helloClient (← bytes? a))
  | ["helloResponse", a, b] => do pure (.helloResponse (← bytes? a) (← bytes? b))
  | ["pingRequest"] => some .pingRequest
  | ["pingResponse"] => some .pingResponse
  | ["versionRequest", a] => do pure (.versionRequest (← int? a))
  | ["versionResponse", a, b, c, d, e, f] => do
    pure (.versionResponse (← int? a) (← int? b) (← int? c) (← int? d) (← int? e) (← int? f))
  | ["channelRequest", a] => do pure (.channelRequest (← int? a))
  | ["channelResponse", a, b] => do pure (.channelResponse (← int? a) (← int? b))
  | ["configRequest", a] => do pure (.configRequest (← int? a))
  | ["configResponse", a, b, c] => do pure (.configResponse (← bytes? a) (← nat? b) (← nat? c))
  | ["statusRequest", a, b, c] => do pure (.statusRequest (← int? a) (← int? b) (← int? c))
  | ["statusSegment", a, b, c] => do pure (.statusSegment (← int? a) (← int? b) (← bytes? c))
  | ["partialUpdate", a] => do pure (.partialUpdate (← changes? a))
  | ["partialAck", a] => do pure (.partialAck (← int? a))
  | ["keypress", a, b, c] => do pure (.keypress (← int? a) (← int? b) (← int? c))
  | ["setValue", a, b, c, d, e, f, g] => do
    pure (.setValue (← int? a) (← int? b) (← int? c) (← int? d) (← int? e) (← int? f) (← int? g))
  | ["packResponse"] => some .packResponse
  | ["wcRequest", a] => do pure (.wcRequest (← int? a))
  | ["wcSet", a, b] => do pure (.wcSet (← int? a) (← int? b))
  | ["wcResponse", a] => do pure (.wcResponse (← int? a))
  | ["wcGiveSchedule"] => some .wcGiveSchedule
  | ["remindersRequest", a] => do pure (.remindersRequest (← int? a))
  | ["remindersResponse", a] => do pure (.remindersResponse (← pairs? a))
  | ["firmwareRequest", a] => do pure (.firmwareRequest (← int? a))
  | ["firmwareResponse"] => some .firmwareResponse
  | ["rferr"] => some .rferr
  | _ => none

def step (line : String) : String :=
  match line.trimAscii.toString.splitOn " " with
  | "enc" :: p2 :: p3 :: rest =>
    match bytes? p2, bytes? p3, msg? rest with
    | some a, some b, some m =>
      match m.sendBytes a b with
      | .ok bs => "ok " ++ hx bs
      | .error e => "err:" ++ errName e
    | _, _, _ => "bad-op"
  | ["dec", k, h] =>
    match handlerOf k, bytes? h with
    | some k, some bs => showDecoded (decode k bs)
    | _, _ => "bad-op"
  | ["claim", h] =>
    match bytes? h with
    | some bs => "claim " ++ ",".intercalate ((allHandlers.filter fun k => canHandle k bs).map handlerName)
    | none => "bad-op"
  | ["ext", h] =>
    match bytes? h with
    | some bs =>
      match extract bs with
      | some (a, b, c) => s!"some {hx a} {hx b} {hx c}"
      | none => "none"
    | none => "bad-op"
  | ["reply", h, r] =>
    match bytes? h, bytes? r with
    | some bs, some rb =>
      match replyTo bs rb with
      | some out => "ok " ++ hx out
      | none => "none"
    | _, _ => "bad-op"
  | _ => "bad-op"

partial def loop (h : IO.FS.Stream) : IO Unit := do
  let line ← h.getLine
  if line.isEmpty then return ()
  IO.println (step line)
  loop h

end C04Drv

def main : IO Unit := do C04Drv.loop (← IO.getStdin)
