/- line-protocol driver for the transfer model (C01) -/
import GeckoModel.Model.DriverUtil
import GeckoModel.Model.Transfer
open GeckoModel GeckoModel.Generated Drv

def checksum (b : Block) : Nat :=
  (b.foldl (fun (acc : Nat × Nat) x => (acc.1 + 1, (acc.2 + (acc.1 + 1) * x.toNat) % 4294967291)) (0, 0)).2

structure St where
  spa : Block := []
  cli : Block := []

/-- events: `s<i>` genuine segment i of the chain, `t` timeout, separated by commas; `-` = none -/
def parseEvs (spa : Block) (start len : Nat) (s : String) : Option (List Ev) :=
  if s == "-" then some [] else
  (s.splitOn ",").mapM fun tok =>
    if tok == "t" then some Ev.timeout
    else if tok.startsWith "s" then (tok.drop 1).toNat?.map (fun i => Ev.seg (simSeg spa start len i))
    else none

def step (st : St) (line : String) : St × String :=
  match line.trimAscii.toString.splitOn " " with
  | ["blk", "spa", h] => match unhex h with
    | some b => ({ st with spa := b }, "ok")
    | none => (st, "bad-op")
  | ["blk", "cli", h] => match unhex h with
    | some b => ({ st with cli := b }, "ok")
    | none => (st, "bad-op")
  | ["chain", a, b] => match a.toNat?, b.toNat? with
    | some start, some len =>
      (st, " ".intercalate ((simChain st.spa start len).map fun s => s!"{s.idx}:{s.next}:{s.data.length}:{checksum s.data}"))
    | _, _ => (st, "bad-op")
  | ["async", a, b, r, evs] => match a.toNat?, b.toNat?, r.toNat? with
    | some start, some len, some retry =>
      match parseEvs st.spa start len evs with
      | some es => let g := asyncGet retry es st.cli start 0
                   (st, s!"ok={if g.ok then 1 else 0} sends={g.sends} chk={checksum g.block} len={g.block.length}")
      | none => (st, "bad-op")
    | _, _, _ => (st, "bad-op")
  | ["sync", a, b, r, evs] => match a.toNat?, b.toNat?, r.toNat? with
    | some start, some len, some budget =>
      match parseEvs st.spa start len evs with
      | some es => let g := (SyncAsm.start st.cli budget).run start es
                   (st, s!"ok={if g.installed then 1 else 0} sends={g.sends} chk={checksum g.cli} len={g.cli.length}")
      | none => (st, "bad-op")
    | _, _, _ => (st, "bad-op")
  | ["synch", xs] =>
    -- a history of transfers on one structure: start:len:budget:evs;...
    let parsed := (xs.splitOn ";").mapM fun x => match x.splitOn ":" with
      | [a, b, r, evs] => match a.toNat?, b.toNat?, r.toNat? with
        | some start, some len, some budget => (parseEvs st.spa start len evs).map fun es => (⟨st.spa, start, len, budget, es⟩ : Xfer)
        | _, _, _ => none
      | _ => none
    match parsed with
    | some xfers =>
      let states := SyncAsm.history (SyncAsm.fresh st.cli) xfers
      (st, " | ".intercalate (states.map fun g => s!"ok={if g.installed then 1 else 0} sends={g.sends} chk={checksum g.cli} len={g.cli.length}"))
    | none => (st, "bad-op")
  | _ => (st, "bad-op")

partial def loop (h : IO.FS.Stream) (s : St) : IO Unit := do
  let line ← h.getLine
  if line.isEmpty then return ()
  let (s', out) := step s line
  IO.println out
  loop h s'

def main : IO Unit := do loop (← IO.getStdin) {}
