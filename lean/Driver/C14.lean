/- line-protocol driver for the temperature model (C14): exact rationals in, exact rationals out (num/den) -/
import GeckoModel.Model.DriverUtil
import GeckoModel.Model.Temp
import GeckoModel.Generated.PacksIndex
open GeckoModel GeckoModel.Generated GeckoModel.Temp Drv

structure St where
  blocks : List (String × Block) := []
  modCache : Option PackModule := none

def St.block (s : St) (id : String) : Option Block := (s.blocks.find? (·.1 == id)).map (·.2)

def St.setBlock (s : St) (id : String) (b : Block) : St :=
  { s with blocks := (id, b) :: s.blocks.filter (·.1 != id) }

def findItem (s : St) (m tag : String) : St × Option Item :=
  let pm := match s.modCache with
    | some c => if c.file == m then some c else Packs.allModules.find? (·.file == m)
    | none => Packs.allModules.find? (·.file == m)
  match pm with
  | some c => ({ s with modCache := some c }, c.items.find? (·.key == tag))
  | none => (s, none)

def showRat (r : Rat) : String := s!"{r.num}/{r.den}"

def parseRat (n d : String) : Option Rat :=
  match n.toInt?, d.toNat? with
  | some a, some b => if b = 0 then none else some ((a : Rat) / (b : Rat))
  | _, _ => none

def parseFlag : String → Option (Option Bool)
  | "n" => some none
  | "0" => some (some false)
  | "1" => some (some true)
  | _ => none

def step' (s : St) (line : String) : St × String :=
  match line.trimAscii.toString.splitOn " " with
  | ["blk", id, h] =>
    match unhex h with
    | some b => (s.setBlock id b, "ok")
    | none => (s, "bad-op")
  | ["rw", uh, raw] =>
    match strOfHex uh, raw.toNat? with
    | some u, some r =>
      let v := Temp.read u r
      (s, s!"{showRat v} {write u v} {tempWriteAsync id u v}")
    | _, _ => (s, "bad-op")
  | ["wr", uh, n, d] =>
    match strOfHex uh, parseRat n d with
    | some u, some t => (s, s!"{write u t} {tempWriteAsync id u t}")
    | _, _ => (s, "bad-op")
  | ["hv", uh] =>
    match strOfHex uh with
    | some u => let (sym, lo, hi) := heaterView u; (s, s!"{hexOfStr sym} {lo} {hi}")
    | none => (s, "bad-op")
  | ["op", h, c, cn, cd, tn, td] =>
    match parseFlag h, parseFlag c, parseRat cn cd, parseRat tn td with
    | some hh, some cc, some cur, some tgt => (s, s!"{(ladder hh cc cur tgt).name} {heaterCurrentOperation hh cc cur tgt}")
    | _, _, _, _ => (s, "bad-op")
  | ["ison", k, v] =>
    match parseValue k v with
    | some x => (s, if isOn x then "1" else "0")
    | none => (s, "bad-op")
  | ["tv", m, tag, uh, bid] =>
    match findItem s m tag, strOfHex uh, s.block bid with
    | (s', some it), some u, some b =>
      (s', match Item.tempValue it b u with
           | .ok r => showRat r
           | .error e => "err:" ++ errName e)
    | (s', _), _, _ => (s', "bad-op")
  | ["te", m, tag, uh, bid, n, d] =>
    match findItem s m tag, strOfHex uh, s.block bid, parseRat n d with
    | (s', some it), some u, some b, some t =>
      (s', match Item.tempEncode it b u t with
           | .ok w => s!"w:{w.pos}:{w.len}:{w.value}"
           | .error e => "err:" ++ errName e)
    | (s', _), _, _, _ => (s', "bad-op")
  | _ => (s, "bad-op")

partial def loop (h : IO.FS.Stream) (s : St) : IO Unit := do
  let line ← h.getLine
  if line.isEmpty then return ()
  let (s', out) := step' s line
  IO.println out
  loop h s'

def main : IO Unit := do loop (← IO.getStdin) {}
