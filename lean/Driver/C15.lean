/- line-protocol driver for the discovery model (C15); bytes as lowercase hex ("-" = empty)
   cfg <unitsPerSecond> <filterIdHex|none> <hasAddr 0|1>   reset; answers `ok <initial> <timeout>`
   dg <payloadHex> <ipHex> <port> | tick <n> | consume <0|1> | resume | poll | cancel | dump
   sync <toFindHex|none> <hasStaticIp 0|1>  /  sd <payloadHex> <ipHex> <port>      the threaded twin's `_on_discovered` -/
import GeckoModel.Model.Discovery
open GeckoModel.Discovery

/- hex helpers (same conventions as Model/DriverUtil.lean; kept local so that the driver depends only on this property's modules) -/
def hexDigit (c : Char) : Option Nat :=
  if '0' ≤ c ∧ c ≤ '9' then some (c.toNat - 48)
  else if 'a' ≤ c ∧ c ≤ 'f' then some (c.toNat - 87)
  else if 'A' ≤ c ∧ c ≤ 'F' then some (c.toNat - 55) else none

partial def unhexAux : List Char → List UInt8 → Option (List UInt8)
  | [], acc => some acc.reverse
  | [_], _ => none
  | a :: b :: rest, acc =>
    match hexDigit a, hexDigit b with
    | some x, some y => unhexAux rest (UInt8.ofNat (x * 16 + y) :: acc)
    | _, _ => none

/-- "-" is the empty byte string -/
def unhex (s : String) : Option (List UInt8) := if s == "-" then some [] else unhexAux s.toList []

def hexNib (n : Nat) : Char := if n < 10 then Char.ofNat (48 + n) else Char.ofNat (87 + n)

def hex (bs : List UInt8) : String :=
  if bs.isEmpty then "-" else String.ofList (bs.flatMap fun b => [hexNib (b.toNat / 16), hexNib (b.toNat % 16)])

structure St where
  cfg : DCfg := ⟨0, 0⟩
  flt : Filter := ⟨none, false⟩
  s : DState := DState.init
  toFind : Option Bytes := none
  hasIp : Bool := false
  sync : SyncState := ⟨[], [], false⟩

def showDesc (d : Desc) : String := s!"{hex d.id}/{hex d.name}/{hex d.addr.ip}/{d.addr.port}"
def showSpas (l : List Desc) : String := if l.isEmpty then "none" else ",".intercalate (l.map showDesc)
def showErr : HelloErr → String
  | .valueErr => "E_VALUE" | .assertErr => "E_ASSERT"
def showMain : Main → String
  | .running => "running" | .returned r => s!"returned:{r}" | .cancelled r => s!"cancelled:{r}"
def showConsumer : Consumer → String
  | .idle => "idle" | .inHandler => "inHandler" | .dead e => "dead:" ++ showErr e | .cancelled => "cancelled"
def b01 (b : Bool) : String := if b then "1" else "0"

def ticks (c : DCfg) (f : Filter) : Nat → DState → DState
  | 0, s => s
  | n + 1, s => ticks c f n (step c f s .tick)

def parseOptBytes (x : String) : Option (Option Bytes) :=
  if x == "none" then some none else (unhex x).map some

def stepLine (st : St) (line : String) : St × String :=
  match line.trimAscii.toString.splitOn " " with
  | ["cfg", u, fid, ha] =>
    match u.toNat?, parseOptBytes fid with
    | some u, some fid =>
      match discoveryCfg u with
      | some c => ({ st with cfg := c, flt := ⟨fid, ha == "1"⟩, s := DState.init }, s!"ok {c.initial} {c.timeout}")
      | none => (st, "E_CFG")
    | _, _ => (st, "bad-op")
  | ["dg", p, ip, port] =>
    match unhex p, unhex ip, port.toNat? with
    | some p, some ip, some port => ({ st with s := step st.cfg st.flt st.s (.datagram ⟨p, ⟨ip, port⟩⟩) }, "ok")
    | _, _, _ => (st, "bad-op")
  | ["tick", n] =>
    match n.toNat? with
    | some n => ({ st with s := ticks st.cfg st.flt n st.s }, "ok")
    | none => (st, "bad-op")
  | ["consume", b] => ({ st with s := step st.cfg st.flt st.s (.consume (b == "1")) }, "ok")
  | ["resume"] => ({ st with s := step st.cfg st.flt st.s .resume }, "ok")
  | ["poll"] =>
    let s' := step st.cfg st.flt st.s .poll
    ({ st with s := s' }, showMain s'.main)
  | ["cancel"] =>
    let s' := step st.cfg st.flt st.s .cancel
    ({ st with s := s' }, showMain s'.main)
  | ["dump"] =>
    let s := st.s
    (st, s!"main={showMain s.main} closed={b01 s.closed} bcast={b01 s.bcastAlive} consumer={showConsumer s.consumer} found={b01 s.found} queue={s.queue.length} spas={showSpas s.spas}")
  | ["sync", tf, ip] =>
    match parseOptBytes tf with
    | some tf => ({ st with toFind := tf, hasIp := ip == "1", sync := ⟨[], [], false⟩ }, "ok")
    | none => (st, "bad-op")
  | ["sd", p, ip, port] =>
    match unhex p, unhex ip, port.toNat? with
    | some p, some ip, some port =>
      if canHandle p then
        match codeParse p with
        | .error e => (st, "err:" ++ showErr e)
        | .ok (i, n) =>
          let y := onDiscoveredSync st.toFind st.hasIp st.sync ⟨i, n, ⟨ip, port⟩⟩
          ({ st with sync := y }, s!"found={b01 y.found} spas={showSpas y.spas}")
      else (st, "unhandled")
    | _, _, _ => (st, "bad-op")
  | _ => (st, "bad-op")

partial def loop (h : IO.FS.Stream) (st : St) : IO Unit := do
  let line ← h.getLine
  if line.isEmpty then return ()
  let (st', out) := stepLine st line
  IO.println out
  loop h st'

def main : IO Unit := do loop (← IO.getStdin) {}
