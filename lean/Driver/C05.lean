/- line-protocol driver for the partial-update model (C05): `a ...` = async client, `s ...` = threaded client -/
import GeckoModel.Model.DriverUtil
import GeckoModel.Model.Partial
open GeckoModel GeckoModel.Generated Drv

def checksum (b : Block) : Nat :=
  (b.foldl (fun (acc : Nat × Nat) x => (acc.1 + 1, (acc.2 + (acc.1 + 1) * x.toNat) % 4294967291)) (0, 0)).2

def showC (c : PClient) : String :=
  s!"{checksum c.block} len={c.block.length} pending={c.changes.length} acks={c.acks.length} last={c.acks.getLast?.getD 0}"

def stepC (isAsync : Bool) (c : PClient) (args : List String) : PClient × String :=
  match args with
  | ["new", h] => match unhex h with
    | some b => let c' : PClient := ⟨b, [], if isAsync then seqInitAsync else seqInitSync, []⟩; (c', showC c')
    | none => (c, "bad-op")
  | ["statp", h] => match unhex h with
    | some rem => (match (if isAsync then c.statpAsync rem else c.statpSync rem) with
      | some c' => (c', showC c')
      | none => (c, "err:E_STRUCT"))
    | none => (c, "bad-op")
  | ["refresh", off, h] => match off.toNat?, unhex h with
    | some o, some seg => let c' := c.refresh o seg; (c', showC c')
    | _, _ => (c, "bad-op")
  | _ => (c, "bad-op")

partial def loop (h : IO.FS.Stream) (a s : PClient) : IO Unit := do
  let line ← h.getLine
  if line.isEmpty then return ()
  match line.trimAscii.toString.splitOn " " with
  | "a" :: rest => let (a', out) := stepC true a rest; IO.println out; loop h a' s
  | "s" :: rest => let (s', out) := stepC false s rest; IO.println out; loop h a s'
  | _ => IO.println "bad-op"; loop h a s

def main : IO Unit := do loop (← IO.getStdin) ⟨[], [], seqInitAsync, []⟩ ⟨[], [], seqInitSync, []⟩
