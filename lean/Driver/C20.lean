/- line-protocol driver for the threaded engine model (C20).  Times are MICROSECONDS.
   new <t0>
   spec <id> <rawmask> <pk 0|1> <timeout> <retries> <onfail n|r|x> <sendable 0|1>      (also constructs the instance at the current clock)
   react <id> <h|o> <*|p|verb> <acts|-> <raises 0|1>       acts: R | S<h>:<dest|n> | C<h> | A<h> | U | T   comma separated
   loopraise <0|1>
   create <id> | reg <id> | qs <id> <dest|n> | iter <dtPre> <dtRecv> <dgram|->            dgram: p*<verb>
   blk spa|cli <hex> | hs <budget> <start> <len> <events>    events: V C F s<i> t  comma separated, `-` = none -/
import GeckoModel.Model.DriverUtil
import GeckoModel.Model.Threaded
open GeckoModel GeckoModel.Generated GeckoModel.Threaded Drv

inductive Key
  | any | packet | verb (n : Nat)
deriving DecidableEq

structure Row where
  id : Nat
  mask : Nat
  pk : Bool
  timeout : Nat
  retries : Nat
  onFail : OnFail
  sendable : Bool
  hreact : List (Key × List Act × Bool) := []
  oreact : List (Key × List Act × Bool) := []

structure St where
  rows : List Row := []
  loopRaises : Bool := false
  eng : Engine Nat := Engine.new (fun _ => ⟨0, 0, false, none⟩) 0 0
  spa : Block := []
  cli : Block := []

def lookupReact (tbl : List (Key × List Act × Bool)) (d : Dgram) : List Act × Bool :=
  let k := match d with
    | .raw v => Key.verb v
    | .pkt _ => Key.packet
  match tbl.find? (fun r => r.1 == k) with
  | some r => r.2
  | none =>
    match tbl.find? (fun r => r.1 == Key.any) with
    | some r => r.2
    | none => ([], false)

def rowSpec (r : Row) : Spec Nat :=
  { canHandle := fun d => match d with
      | .raw v => r.mask.testBit v
      | .pkt _ => r.pk
    timeout := r.timeout, retries := r.retries, onFail := r.onFail, sendable := r.sendable
    handle := fun c d => let x := lookupReact r.hreact d; ⟨c + 1, x.1, x.2⟩
    onHandled := fun c d => let x := lookupReact r.oreact d; ⟨c, x.1, x.2⟩ }

def nullSpec : Spec Nat :=
  { canHandle := fun _ => false, timeout := 0, retries := 0, onFail := .none, sendable := false
    handle := fun c _ => ⟨c, [], false⟩, onHandled := fun c _ => ⟨c, [], false⟩ }

def St.prog (s : St) : Prog Nat :=
  { spec := fun h => match s.rows.find? (fun r => r.id == h) with
      | some r => rowSpec r
      | none => nullSpec
    loopFunc := fun c => (c, s.loopRaises) }

def showOptDest : Option Nat → String
  | none => "n"
  | some d => toString d

def showDgram : Dgram → String
  | .raw v => toString v
  | .pkt i => "p" ++ showDgram i

def showOut : Out → String
  | .enq h d => s!"enq({h},{showOptDest d})"
  | .sent h d t => s!"sent({h},{d},{t})"
  | .sendFailed h d => s!"fail({h},{showOptDest d})"
  | .handled h d => s!"hd({h},{showDgram d})"
  | .unhandled d => s!"un({showDgram d})"
  | .raised h => s!"raise({h})"
  | .timedOut h => s!"to({h})"
  | .failed h => s!"rf({h})"
  | .died => "died"

def joinOr (xs : List String) (sep : String) : String := if xs.isEmpty then "-" else sep.intercalate xs

def showState (s : St) (o : List Out) : String :=
  let e := s.eng
  let q := e.sendq.map fun x => s!"{x.1}:{showOptDest x.2}"
  let hs := s.rows.map fun r =>
    let x := e.hs r.id
    s!"{r.id}:{x.start}:{x.retries}:{if x.remove then 1 else 0}:{showOptDest x.lastDest}"
  s!"t={e.clock} ls={e.lastSend} q={joinOr q ","} H={joinOr (e.handlers.map toString) ","} S={joinOr hs ";"} c={e.client} alive={if e.alive then 1 else 0} out={joinOr (o.map showOut) " "}"

def parseOptDest (x : String) : Option (Option Nat) :=
  if x == "n" then some none else x.toNat?.map some

def parseAct (tok : String) : Option Act :=
  if tok == "R" then some .markRemove
  else if tok == "U" then some .unwrap
  else if tok == "T" then some .retryOrRaise
  else if tok.startsWith "C" then (tok.drop 1).toNat?.map Act.create
  else if tok.startsWith "A" then (tok.drop 1).toNat?.map Act.add
  else if tok.startsWith "S" then
    match (tok.drop 1).toString.splitOn ":" with
    | [h, d] =>
      match h.toNat?, parseOptDest d with
      | some h, some d => some (.send h d)
      | _, _ => none
    | _ => none
  else none

def parseActs (x : String) : Option (List Act) := if x == "-" then some [] else (x.splitOn ",").mapM parseAct

def parseKey (x : String) : Option Key :=
  if x == "*" then some .any else if x == "p" then some .packet else x.toNat?.map Key.verb

partial def parseDgram (x : String) : Option Dgram :=
  if x.startsWith "p" then (parseDgram (x.drop 1).toString).map Dgram.pkt else x.toNat?.map Dgram.raw

def parseOnFail (x : String) : Option OnFail :=
  if x == "n" then some .none else if x == "r" then some .remove else if x == "x" then some .raises else none

def checksum (b : Block) : Nat :=
  (b.foldl (fun (acc : Nat × Nat) x => (acc.1 + 1, (acc.2 + (acc.1 + 1) * x.toNat) % 4294967291)) (0, 0)).2

def parseHEvs (spa : Block) (start len : Nat) (s : String) : Option (List HEv) :=
  if s == "-" then some [] else
  (s.splitOn ",").mapM fun tok =>
    if tok == "t" then some HEv.timeout
    else if tok == "V" then some HEv.svers
    else if tok == "C" then some HEv.chcur
    else if tok == "F" then some HEv.files
    else if tok.startsWith "s" then (tok.drop 1).toNat?.map (fun i => HEv.seg (simSeg spa start len i))
    else none

def showStage : Stage → String
  | .version => "version" | .channel => "channel" | .config => "config" | .block => "block" | .connected => "connected" | .stalled => "stalled"

def doStep (s : St) (st : Step) : St × String :=
  let r := step s.prog s.eng st
  let s' := { s with eng := r.1 }
  (s', showState s' r.2)

def stepLine (s : St) (line : String) : St × String :=
  match line.trimAscii.toString.splitOn " " with
  | ["new", t] =>
    match t.toNat? with
    | some t => let s' : St := { spa := s.spa, cli := s.cli, eng := Engine.new (fun _ => ⟨0, 0, false, none⟩) 0 t }
                (s', showState s' [])
    | none => (s, "bad-op")
  | ["spec", id, mask, pk, tmo, rc, onf, snd] =>
    match id.toNat?, mask.toNat?, tmo.toNat?, rc.toNat?, parseOnFail onf with
    | some id, some mask, some tmo, some rc, some onf =>
      let row : Row := { id := id, mask := mask, pk := pk == "1", timeout := tmo, retries := rc, onFail := onf, sendable := snd == "1" }
      let s1 := { s with rows := (s.rows.filter (fun r => r.id != id)) ++ [row] }
      doStep s1 (.create id)
    | _, _, _, _, _ => (s, "bad-op")
  | ["react", id, which, key, acts, raises] =>
    match id.toNat?, parseKey key, parseActs acts with
    | some id, some key, some acts =>
      let rows := s.rows.map fun r =>
        if r.id == id then
          (if which == "h" then { r with hreact := r.hreact ++ [(key, acts, raises == "1")] }
           else { r with oreact := r.oreact ++ [(key, acts, raises == "1")] })
        else r
      ({ s with rows := rows }, "ok")
    | _, _, _ => (s, "bad-op")
  | ["loopraise", b] => ({ s with loopRaises := b == "1" }, "ok")
  | ["create", id] =>
    match id.toNat? with
    | some id => doStep s (.create id)
    | none => (s, "bad-op")
  | ["reg", id] =>
    match id.toNat? with
    | some id => doStep s (.register id)
    | none => (s, "bad-op")
  | ["qs", id, d] =>
    match id.toNat?, parseOptDest d with
    | some id, some d => doStep s (.queueSend id d)
    | _, _ => (s, "bad-op")
  | ["iter", a, b, d] =>
    match a.toNat?, b.toNat?, (if d == "-" then some none else (parseDgram d).map some) with
    | some a, some b, some d => doStep s (.iter ⟨a, b, d⟩)
    | _, _, _ => (s, "bad-op")
  | ["blk", "spa", h] => match unhex h with
    | some b => ({ s with spa := b }, "ok")
    | none => (s, "bad-op")
  | ["blk", "cli", h] => match unhex h with
    | some b => ({ s with cli := b }, "ok")
    | none => (s, "bad-op")
  | ["hs", b, a, l, evs] =>
    match b.toNat?, a.toNat?, l.toNat? with
    | some budget, some start, some len =>
      match parseHEvs s.spa start len evs with
      | some es =>
        let h := (HS.init s.cli budget).run s.cli budget start es
        (s, s!"stage={showStage h.stage} sv={h.sendsV} sc={h.sendsC} sf={h.sendsF} sb={h.asm.sends} inst={if h.asm.installed then 1 else 0} chk={checksum h.asm.cli} len={h.asm.cli.length}")
      | none => (s, "bad-op")
    | _, _, _ => (s, "bad-op")
  | _ => (s, "bad-op")

partial def loop (h : IO.FS.Stream) (s : St) : IO Unit := do
  let line ← h.getLine
  if line.isEmpty then return ()
  let (s', out) := stepLine s line
  IO.println out
  loop h s'

def main : IO Unit := do loop (← IO.getStdin) {}
