/- trace validator for the dispatch model (C07): replays an observed trace of the real queue through the model and
   reports the first observed step the model does not allow / predicts differently.
   lines:  acc <k> <v>           consumer k accepts verb class v (declared before the trace)
           mode fair|unfair
           t <ms>                advance time to <ms> (absolute)
           put <id> <verb>
           pop <k> <id>          capable consumer / waiter k popped datagram <id>
           ufirst <outcome>      unhandled consumer's `is_marked` check: outcome `pop:<id>` or `none`
           usecond <outcome>     unhandled consumer's `head` check: outcome `mark:<id>` or `none`
           end                   prints summary -/
import GeckoModel.Model.Dispatch
import GeckoModel.Model.PacketConsumer
import GeckoModel.Model.DriverUtil
open GeckoModel.Dispatch

structure V where
  s : Sys := init
  acc : List (Nat × Nat) := []
  fair : Bool := true
  maxHeadAge : Nat := 0
  steps : Nat := 0
  pc : GeckoModel.PacketConsumer.PC := {}
  conn : GeckoModel.PacketConsumer.Conn := ⟨[], 0, [], []⟩

def V.accepts (v : V) : Accepts := fun k x => v.acc.contains (k, x)

def V.act (v : V) (a : Act) : Option V :=
  if enabled v.accepts v.fair v.s a then
    let s' := step v.s a
    some { v with s := s', steps := v.steps + 1 }
  else none

def V.noteAge (v : V) : V :=
  if v.s.queue.isEmpty then v else { v with maxHeadAge := max v.maxHeadAge (v.s.now - v.s.headSince) }

def stepLine (v : V) (line : String) : V × String :=
  match line.trimAscii.toString.splitOn " " with
  | ["acc", k, x] => match k.toNat?, x.toNat? with
    | some k, some x => ({ v with acc := (k, x) :: v.acc }, "ok")
    | _, _ => (v, "bad-op")
  | ["mode", m] => ({ v with fair := m == "fair" }, "ok")
  | ["t", ms] => match ms.toNat? with
    | some t =>
      if t < v.s.now then (v, s!"rejected: time goes backwards {t} < {v.s.now}")
      else if t == v.s.now then (v, "ok")
      else match v.act (.tick (t - v.s.now)) with
        | some v' => (v'.noteAge, "ok")
        | none => (v, s!"rejected: tick to {t} not enabled (unhandled consumer due at {v.s.u.wake})")
    | none => (v, "bad-op")
  | ["put", i, x] => match i.toNat?, x.toNat? with
    | some i, some x => (match v.act (.put ⟨i, x⟩) with
      | some v' => (v', "ok")
      | none => (v, "rejected: duplicate datagram id"))
    | _, _ => (v, "bad-op")
  | ["pop", k, i] => match k.toNat?, i.toNat? with
    | some k, some i =>
      (match v.s.queue with
      | [] => (v, "rejected: pop from an empty queue")
      | d :: _ =>
        if d.id != i then (v, s!"rejected: popped {i} but the model's head is {d.id}")
        else match v.act (.popBy k) with
          | some v' => (v', "ok")
          | none => (v, s!"rejected: consumer {k} does not accept verb {d.verb} of datagram {d.id}"))
    | _, _ => (v, "bad-op")
  | ["ufirst", out] =>
    (match v.s.u with
    | .second _ => (v, "rejected: unhandled consumer checked is_marked but the model has it at the head check")
    | .first _ =>
      let predicted := if v.s.marked then (match v.s.queue with | d :: _ => s!"pop:{d.id}" | [] => "pop:?") else "none"
      if predicted != out then (v, s!"rejected: unhandled first-step outcome {out}, model predicts {predicted}")
      else match v.act .ustep with
        | some v' => (v', "ok")
        | none => (v, s!"rejected: unhandled consumer ran at {v.s.now} before its wake-up {v.s.u.wake}"))
  | ["usecond", out] =>
    (match v.s.u with
    | .first _ => (v, "rejected: unhandled consumer checked head but the model has it at the is_marked check")
    | .second _ =>
      let predicted := match v.s.queue with | d :: _ => s!"mark:{d.id}" | [] => "none"
      if predicted != out then (v, s!"rejected: unhandled second-step outcome {out}, model predicts {predicted}")
      else match v.act .ustep with
        | some v' => (v', "ok")
        | none => (v, s!"rejected: unhandled consumer ran at {v.s.now} before its wake-up {v.s.u.wake}"))
  | ["end"] => (v, s!"end steps={v.steps} pops={v.s.pops.length} queued={v.s.queue.length} maxHeadAge={v.maxHeadAge} now={v.s.now}")
  | ["reset"] => ({}, "ok")
  -- the long-lived packet consumer at the byte level (Model/PacketConsumer.lean)
  | ["pc-new", ip, port, spa, cli] => (match Drv.unhex ip, port.toNat?, Drv.unhex spa, Drv.unhex cli with
    | some ip, some port, some spa, some cli => ({ v with pc := {}, conn := ⟨ip, port, spa, cli⟩ }, "ok")
    | _, _, _, _ => (v, "bad-op"))
  | ["pc-dg", dg, ip, port] => (match Drv.unhex dg, Drv.unhex ip, port.toNat? with
    | some dg, some ip, some port =>
      if !GeckoModel.PacketConsumer.canHandle dg then (v, "no-claim")
      else
        let c := GeckoModel.PacketConsumer.handle v.pc dg ip port
        ({ v with pc := c }, match GeckoModel.PacketConsumer.requeue v.conn c with
          | some (some x) => s!"requeue {Drv.hex x}"
          | some none => "requeue none"
          | none => "drop")
    | _, _, _ => (v, "bad-op"))
  | _ => (v, "bad-op")

partial def loop (h : IO.FS.Stream) (v : V) : IO Unit := do
  let line ← h.getLine
  if line.isEmpty then return ()
  let (v', out) := stepLine v line
  IO.println out
  loop h v'

def main : IO Unit := do loop (← IO.getStdin) {}
