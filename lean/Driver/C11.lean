/- line-protocol driver for the facade model (C11) over the regenerated combinations -/
import GeckoModel.Model.DriverUtil
import GeckoModel.Model.Facade
import GeckoModel.Generated.C11CombosIndex
open GeckoModel GeckoModel.Facade GeckoModel.Generated Drv

def ferrName : FErr → String
  | .keyErr => "key" | .attrErr => "attr" | .indexErr => "index" | .structErr => "struct"
  | .typeErr => "type" | .valueErr => "value" | .recursionErr => "recursion"

def showRV : RV → String
  | .str s => "s=" ++ hexOfStr s
  | .anyStr => "s"
  | .int n => "i=" ++ toString n
  | .bool b => if b then "b=1" else "b=0"
  | .anyBool => "b"
  | .float => "f"
  | .none => "n"
  | .list n => "l=" ++ toString n
  | .strs l => if l.isEmpty then "l=0" else "L=" ++ ",".intercalate (l.map hexOfStr)
  | .obj c => "o=" ++ c
  | .anyObj => "o"

def showRes : Except FErr RV → String
  | .ok v => showRV v
  | .error e => "E=" ++ ferrName e

/-- every member name without an argument -/
def simpleMems : List (String × Mem) := [
  ("name", .name), ("parent_name", .parent_name), ("key", .key), ("unique_id", .unique_id),
  ("parent_unique_id", .parent_unique_id), ("monitor", .monitor), ("facade", .facade), ("has_observers", .has_observers),
  ("__str__", .str_), ("__repr__", .repr_), ("state", .state), ("unit_of_measurement", .unit_of_measurement),
  ("device_class", .device_class), ("accessor", .accessor), ("is_on", .is_on), ("ui_key", .ui_key),
  ("state_sensor()", .state_sensor), ("mode", .mode), ("modes", .modes), ("is_present", .is_present),
  ("target_temperature", .target_temperature), ("real_target_temperature", .real_target_temperature),
  ("current_temperature", .current_temperature), ("min_temp", .min_temp), ("max_temp", .max_temp),
  ("temperature_unit", .temperature_unit), ("current_operation", .current_operation), ("MAX_TEMP_C", .MAX_TEMP_C),
  ("MAX_TEMP_F", .MAX_TEMP_F), ("MIN_TEMP_C", .MIN_TEMP_C), ("MIN_TEMP_F", .MIN_TEMP_F), ("TEMP_CELCIUS", .TEMP_CELCIUS),
  ("TEMP_FARENHEIGHT", .TEMP_FARENHEIGHT), ("format_temperature(20.5)", .format_temperature),
  ("active_mode", .active_mode), ("reminders", .reminders), ("last_update", .last_update), ("type", .type),
  ("description", .description), ("days", .days), ("actual_user_devices", .actual_user_devices),
  ("all_automation_devices", .all_automation_devices), ("all_config_change_devices", .all_config_change_devices),
  ("all_user_devices", .all_user_devices), ("binary_sensors", .binary_sensors), ("blowers", .blowers), ("lights", .lights),
  ("pumps", .pumps), ("sensors", .sensors), ("devices", .devices), ("eco_mode", .eco_mode), ("error_sensor", .error_sensor),
  ("keypad", .keypad), ("water_care", .water_care), ("water_heater", .water_heater),
  ("reminders_manager", .reminders_manager), ("spa", .spa), ("identifier", .identifier), ("is_connected", .is_connected),
  ("is_in_error", .is_in_error)]

def memsFor (keys : List String) : List (String × Mem) :=
  simpleMems ++ (List.range 8).map (fun t => (s!"get_reminder({t})", Mem.get_reminder t)) ++
  keys.map (fun k => ("get_device(" ++ hexOfStr k ++ ")", Mem.get_device k))

/-- the reachable objects of a built facade with the names the harness uses -/
def objectsOf (f : Facade) (d : Dyn) : List (String × Obj) :=
  let sw (pre : String) (mk mks : Nat → Obj) (l : List Switch) : List (String × Obj) :=
    (l.zipIdx.flatMap fun (s, i) => [(pre ++ ":" ++ hexOfStr s.key, mk i), (pre ++ ":" ++ hexOfStr s.key ++ "/state", mks i)])
  [("facade", .facade), ("heater", .heater), ("watercare", .watercare), ("reminders", .reminders), ("keypad", .keypad),
   ("error_sensor", .errorSensor), ("eco", .eco), ("eco/state", .ecoState)] ++
  f.pumps.zipIdx.map (fun (s, i) => ("pump:" ++ hexOfStr s.key, Obj.pump i)) ++ sw "blower" .blower .blowerState f.blowers ++ sw "light" .light .lightState f.lights ++
  (List.range f.sensors.length).map (fun i => (s!"sensor:{i}", Obj.sensor i)) ++
  (List.range f.binarySensors.length).map (fun i => (s!"bsensor:{i}", Obj.binarySensor i)) ++
  (match f.ident.flavor, d.rems with
   | .async, some rs => (List.range (activeReminders rs).length).map (fun i => (s!"reminder:{i}", Obj.reminder i))
   | _, _ => [])

def dump (f : Facade) (d : Dyn) (keys : List String) : String :=
  let ms := memsFor keys
  let pub := (objectsOf f d).flatMap fun (on, o) =>
    ms.filterMap fun (mn, m) => (evalObj f d o m).map fun r => on ++ "." ++ mn ++ "=" ++ showRes r
  -- the threaded facade's PRIVATE reminders manager: modelled, compared, not part of the public surface
  let priv := match f.ident.flavor with
    | .sync => ms.filterMap fun (mn, m) => (remindersMember f.ident d.rems m).map fun r => "_reminders." ++ mn ++ "=" ++ showRes r
    | .async => []
  ";".intercalate (pub ++ priv)

structure St where
  blocks : List (String × Block) := []
  combo : Option Combo := none
  ident : Ident := { flavor := .async, uid := "", name := "" }

def St.block (s : St) (id : String) : Option Block := (s.blocks.find? (·.1 == id)).map (·.2)

def parseMode (s : String) : Option (Option Int) := if s == "none" then some none else s.toInt?.map some

def parseRems (s : String) : Option (Option (List (Nat × Int))) :=
  if s == "none" then some none
  else if s == "-" then some (some [])
  else
    let parts := s.splitOn ","
    let recs := parts.filterMap fun p => match p.splitOn ":" with
      | [a, b] => match a.toNat?, b.toInt? with
        | some t, some d => some (t, d)
        | _, _ => none
      | _ => none
    if recs.length == parts.length then some (some recs) else none

def parseKeys (s : String) : Option (List String) :=
  if s == "-" then some []
  else
    let parts := s.splitOn ","
    let ks := parts.filterMap strOfHex
    if ks.length == parts.length then some ks else none

def step (s : St) (line : String) : St × String :=
  match line.trimAscii.toString.splitOn " " with
  | ["blk", id, h] =>
    match unhex h with
    | some b => ({ s with blocks := (id, b) :: s.blocks.filter (·.1 != id) }, "ok")
    | none => (s, "bad-op")
  | ["ncombos"] => (s, toString C11Combos.allCombos.length)
  | ["combo", p, c, l] =>
    match strOfHex p, c.toNat?, l.toNat? with
    | some pn, some cv, some lv =>
      match C11Combos.allCombos.find? (fun x => x.platform == pn && x.cfg.version == cv && x.log.version == lv) with
      | some x => ({ s with combo := some x }, if decide (x.id ∈ knownUnbuildable) then "listed" else "ok")
      | none => ({ s with combo := none }, "no-combo")
    | _, _, _ => (s, "bad-op")
  | ["ident", fl, u, n, i] =>
    match strOfHex u, strOfHex n, strOfHex i with
    | some uid, some name, some ident =>
      ({ s with ident := { flavor := if fl == "s" then .sync else .async, uid := uid, name := name, identifier := ident } }, "ok")
    | _, _, _ => (s, "bad-op")
  | ["eval", b0, b, mode, rems, keys] =>
    match s.combo, s.block b0, s.block b, parseMode mode, parseRems rems, parseKeys keys with
    | some c, some blk0, some blk, some m, some r, some ks =>
      match construct c.profile s.ident blk0 with
      | .error e => (s, "construct:E=" ++ ferrName e)
      | .ok f => (s, "ok;" ++ dump f { block := blk, mode := m, rems := r } ks)
    | _, _, _, _, _, _ => (s, "bad-op")
  | ["wc", old, new] =>
    match parseMode old, parseMode new with
    | some o, some m =>
      let sh := fun (e : Except FErr String) => match e with | .ok x => "s=" ++ hexOfStr x | .error er => "E=" ++ ferrName er
      (s, s!"str={sh (wcStr m)} monitor={sh (wcMonitor m)} change={match wcChange o m with | .ok _ => "n" | .error er => "E=" ++ ferrName er}")
    | _, _ => (s, "bad-op")
  | _ => (s, "bad-op")

partial def loop (h : IO.FS.Stream) (s : St) : IO Unit := do
  let line ← h.getLine
  if line.isEmpty then return ()
  let (s', out) := step s line
  IO.println out
  loop h s'

def main : IO Unit := do loop (← IO.getStdin) {}
