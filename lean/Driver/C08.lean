/- line-protocol driver for the lifecycle model (C08)
   new <ident01> <name01>            fresh manager
   start <base> <stop|->             a new task calls into the manager (parks at its (stop+1)-th suspension point)
   resume <t> <stop|->               the t-th parked task continues
   base: enter | exit | reset | locate:<f|r><n> | connect:<path>:<fr01> | aconnect:<f|r><n>:<path>:<fr01> | ev:<EVENT>
         | pingmiss:<01> | rferr:<01> | wcerr:<01> | info:<i01><n01>        path: '-' or EVENT|SET|RAISE|OPEN|USE joined by ','
   answer: D=<event>,<state>,<facadeNone01>,<sensor text|->;...|S=<state> f<01> s<01> c<01> p<01> d<01> n<01> r<01> h<01> t=<text|->|O=<outcome>|P=<pool size> -/
import GeckoModel.Generated.LifecycleTable
import GeckoModel.Model.Lifecycle
open GeckoModel.Lifecycle

def b01 (b : Bool) : String := if b then "1" else "0"
def p01 (s : String) : Option Bool := if s == "1" then some true else if s == "0" then some false else none

def txt (sensor : Bool) (st : Option SpaState) : String :=
  if sensor then (statusText st).replace " " "_" else "-"

def showD (d : Delivered) : String := s!"{d.event.name},{d.state.name},{b01 d.facadeNone},{txt d.sensor d.status}"

def showO : Outcome → String
  | .done => "done" | .raised => "raised" | .parked => "parked" | .outOfFuel => "outOfFuel"

def showS (s : MState) (ds : List Delivered) : String :=
  let m := s.m
  s!"D={";".intercalate (ds.map showD)}|S={m.state.name} f{b01 m.facade} s{b01 m.spa} c{b01 m.spaConn} p{b01 m.proto} d{b01 m.desc} " ++
  s!"n{b01 m.sensor} r{b01 m.radio} h{b01 m.chan} t={txt m.sensor m.status}|O={showO s.last}|P={s.pool.length}"

def parseEvent (s : String) : Option Event := Event.all.find? (·.name == s)

def parseStep (s : String) : Option CStep :=
  if s == "SET" then some .setConnected else if s == "RAISE" then some .raise_
  else if s == "OPEN" then some .openProtocol else if s == "USE" then some .useProtocol else (parseEvent s).map .ev

def parsePath (s : String) : Option (List CStep) :=
  if s == "-" then some [] else (s.splitOn ",").mapM parseStep

def parseLoc (s : String) : Option LocOutcome :=
  match s.toList with
  | 'f' :: r => (String.ofList r).toNat?.map .found
  | 'r' :: r => (String.ofList r).toNat?.map .raises
  | _ => none

def parseBase (s : String) : Option Base :=
  match s.splitOn ":" with
  | ["enter"] => some .enter
  | ["exit"] => some .exit
  | ["reset"] => some .reset
  | ["locate", o] => (parseLoc o).map .locate
  | ["connect", p, fr] => do some (.connectTo (← parsePath p) (← p01 fr))
  | ["aconnect", o, p, fr] => do some (.asyncConnect (← parseLoc o) (← parsePath p) (← p01 fr))
  | ["ev", e] => (parseEvent e).map .ev
  | ["pingmiss", b] => (p01 b).map .pingMiss
  | ["rferr", b] => (p01 b).map .rfErr
  | ["wcerr", b] => (p01 b).map .wcErr
  | ["info", bs] => match bs.toList with
    | [i, n] => do some (.setSpaInfo (← p01 (String.singleton i)) (← p01 (String.singleton n)))
    | _ => none
  | _ => none

def parseStop (s : String) : Option (Option Nat) := if s == "-" then some none else s.toNat?.map some

partial def loop (h : IO.FS.Stream) (s : MState) : IO Unit := do
  let line ← h.getLine
  if line.isEmpty then return ()
  match line.trimAscii.toString.splitOn " " with
  | ["new", i, n] =>
      match p01 i, p01 n with
      | some i, some n => let s' : MState := ⟨init table i n, [], .done⟩; IO.println (showS s' []); loop h s'
      | _, _ => IO.println "bad-op"; loop h s
  | ["start", b, st] =>
      match parseBase b, parseStop st with
      | some b, some st => let r := step table s (.start b st); IO.println (showS r.1 r.2); loop h r.1
      | _, _ => IO.println "bad-op"; loop h s
  | ["resume", t, st] =>
      match t.toNat?, parseStop st with
      | some t, some st => let r := step table s (.resume t st); IO.println (showS r.1 r.2); loop h r.1
      | _, _ => IO.println "bad-op"; loop h s
  | _ => IO.println "bad-op"; loop h s

def main : IO Unit := do loop (← IO.getStdin) ⟨init table true false, [], .done⟩
