/- line-protocol driver for the structure / observable model (C03) -/
import GeckoModel.Model.DriverUtil
import GeckoModel.Model.Struct
import GeckoModel.Model.ObserverDispatch
import GeckoModel.Generated.PacksIndex
open GeckoModel GeckoModel.Generated Drv

def checksum (b : Block) : Nat :=
  (b.foldl (fun (acc : Nat × Nat) x => (acc.1 + 1, (acc.2 + (acc.1 + 1) * x.toNat) % 4294967291)) (0, 0)).2

def showNotif (cur : Block) (n : Notif) : String :=
  s!"{n.key}:{n.observer}:{showExceptValue n.old}>{showExceptValue n.new}:{if n.blockSeen == cur then 1 else 0}"

open GeckoModel.ObserverDispatch in
/-- `notify <live ids .-separated | -> <reactions id:kind:arg ;-separated | ->`  (kinds: u = unwatch arg, a = unwatch_all, w = watch arg) -/
def notifyLine (live reacts : String) : String :=
  let ids (t : String) : List Nat := if t == "-" then [] else (t.splitOn ".").filterMap (·.toNat?)
  let table : List (Nat × React) := if reacts == "-" then [] else (reacts.splitOn ";").filterMap fun r =>
    match r.splitOn ":" with
    | [i, "u", a] => match i.toNat?, a.toNat? with
      | some i, some a => some (i, React.unwatch a)
      | _, _ => none
    | [i, "a", _] => i.toNat?.map fun i => (i, React.unwatchAll)
    | [i, "w", a] => match i.toNat?, a.toNat? with
      | some i, some a => some (i, React.watch a)
      | _, _ => none
    | _ => none
  let react (o : Nat) : React := ((table.find? (·.1 == o)).map (·.2)).getD .nothing
  let r := notify react (ids live)
  let sh (l : List Nat) : String := if l.isEmpty then "-" else ".".intercalate (l.map toString)
  s!"called={sh r.1} live={sh r.2}"

def step (s : StructState) (line : String) : StructState × String :=
  match line.trimAscii.toString.splitOn " " with
  | ["notify", live, reacts] => (s, notifyLine live reacts)
  | ["new", c, l, h] =>
    match Packs.allModules.find? (·.file == c), Packs.allModules.find? (·.file == l), unhex h with
    | some cm, some lm, some b => (⟨b, mergeItems cm.items lm.items, []⟩, s!"ok {(mergeItems cm.items lm.items).length}")
    | _, _, _ => (s, "bad-op")
  | ["watch", k, o] => match o.toNat? with
    | some n => (s.watch k n, "ok")
    | none => (s, "bad-op")
  | ["unwatch", k, o] => match o.toNat? with
    | some n => (match s.unwatch k n with
      | some s' => (s', "ok")
      | none => (s, "err:E_VALUE"))
    | none => (s, "bad-op")
  | ["unwatchall", k] => (s.unwatchAll k, "ok")
  | ["load", h] =>           -- set_status_block: the block is replaced wholesale, nobody is notified
    match unhex h with
    | some b => ({ s with block := b }, s!"ok {checksum b}")
    | none => (s, "bad-op")
  | ["patch", off, h] =>
    match off.toNat?, unhex h with
    | some o, some seg =>
      let (s', ns) := s.replaceAndNotify o seg
      (s', s!"{checksum s'.block} " ++ (if ns.isEmpty then "none" else ";".intercalate (ns.map (showNotif s'.block))))
    | _, _ => (s, "bad-op")
  | _ => (s, "bad-op")

partial def loop (h : IO.FS.Stream) (s : StructState) : IO Unit := do
  let line ← h.getLine
  if line.isEmpty then return ()
  let (s', out) := step s line
  IO.println out
  loop h s'

def main : IO Unit := do loop (← IO.getStdin) ⟨[], [], []⟩
