/- line-protocol driver for the generated sequence counters: `a t|f` steps the async counter, `s t|f` the threaded one -/
import GeckoModel.Generated.SeqCounter
open GeckoModel.Generated

def stepLine (a s : SeqState) (line : String) : SeqState × SeqState × String :=
  match line.trimAscii.toString.splitOn " " with
  | ["a", k] => let r := nextSeqAsync a (k == "t"); (r.1, s, toString r.2)
  | ["s", k] => let r := nextSeqSync s (k == "t"); (a, r.1, toString r.2)
  | ["reset"] => (seqInitAsync, seqInitSync, "ok")
  | _ => (a, s, "bad-op")

partial def loop (h : IO.FS.Stream) (a s : SeqState) : IO Unit := do
  let line ← h.getLine
  if line.isEmpty then return ()
  let (a', s', out) := stepLine a s line
  IO.println out
  loop h a' s'

def main : IO Unit := do loop (← IO.getStdin) seqInitAsync seqInitSync
