/- line-protocol driver for the generated sequence counters: `a t|f` / `b t|f` step two independent async protocol objects,
   `s t|f` / `t t|f` two independent threaded sockets (the counters are per connection) -/
import GeckoModel.Generated.SeqCounter
open GeckoModel.Generated

structure St where
  a : SeqState := seqInitAsync
  b : SeqState := seqInitAsync
  s : SeqState := seqInitSync
  t : SeqState := seqInitSync

def stepLine (st : St) (line : String) : St × String :=
  match line.trimAscii.toString.splitOn " " with
  | ["a", k] => let r := nextSeqAsync st.a (k == "t"); ({ st with a := r.1 }, toString r.2)
  | ["b", k] => let r := nextSeqAsync st.b (k == "t"); ({ st with b := r.1 }, toString r.2)
  | ["s", k] => let r := nextSeqSync st.s (k == "t"); ({ st with s := r.1 }, toString r.2)
  | ["t", k] => let r := nextSeqSync st.t (k == "t"); ({ st with t := r.1 }, toString r.2)
  | ["reset"] => ({}, "ok")
  | _ => (st, "bad-op")

partial def loop (h : IO.FS.Stream) (st : St) : IO Unit := do
  let line ← h.getLine
  if line.isEmpty then return ()
  let (st', out) := stepLine st line
  IO.println out
  loop h st'

def main : IO Unit := do loop (← IO.getStdin) {}
