/- trace validator for the request engine model (C06).
   lines:  mode fair|unfair | reset
           t <ms>
           call <id> <retry> <timeoutMs> <pauseMs>
           handoff <id>                  the parked caller <id> takes the lock
           poll <id> <replyId|->         the holder looks at the queue
           resume <id>                   the holder's pause ends
           send <id>                     a request datagram of <id> went out now  (checked against the model's send log)
           done <id> <replyId|none>      get() returned
           end -/
import GeckoModel.Model.Request
open GeckoModel.Request

structure V where
  s : RSys := init
  fair : Bool := true
  steps : Nat := 0

def V.act (v : V) (a : Act) : Option V :=
  if enabled v.fair v.s a then some { v with s := step v.s a, steps := v.steps + 1 } else none

def showPc : Pc → String
  | .waiting => "waiting" | .polling a b => s!"polling({a},{b})" | .pausing u => s!"pausing({u})"
  | .done none => "done(none)" | .done (some r) => s!"done({r})"

def stepLine (v : V) (line : String) : V × String :=
  match line.trimAscii.toString.splitOn " " with
  | ["reset"] => ({}, "ok")
  | ["mode", m] => ({ v with fair := m == "fair" }, "ok")
  | ["t", ms] => match ms.toNat? with
    | some t =>
      if t < v.s.now then (v, s!"rejected: time goes backwards")
      else if t == v.s.now then (v, "ok")
      else match v.act (.tick (t - v.s.now)) with
        | some v' => (v', "ok")
        | none => (v, s!"rejected: time cannot pass to {t}: a step of the lock holder (or a hand-off) is due at {(dueBy v.s).getD 0}")
    | none => (v, "bad-op")
  | ["call", i, r, t, p] => match i.toNat?, r.toNat?, t.toNat?, p.toNat? with
    | some i, some r, some t, some p => (match v.act (.call i r t p) with
      | some v' => (v', "ok")
      | none => (v, "rejected: duplicate caller id"))
    | _, _, _, _ => (v, "bad-op")
  | ["handoff", i] => match i.toNat? with
    | some i =>
      if v.s.waitq.head? != some i then (v, s!"rejected: {i} took the lock but the model's first parked caller is {v.s.waitq.head?}")
      else (match v.act .handoff with
        | some v' => (v', "ok")
        | none => (v, s!"rejected: hand-off while the lock is held by {v.s.holder}"))
    | none => (v, "bad-op")
  | ["poll", i, r] => match i.toNat? with
    | some i =>
      let reply := if r == "-" then none else r.toNat?
      (match v.act (.pollStep i reply) with
      | some v' => (v', "ok")
      | none => (v, s!"rejected: poll by {i} not enabled (holder {v.s.holder}, pc {(v.s.callers i).map (fun c => showPc c.pc)})"))
    | none => (v, "bad-op")
  | ["resume", i] => match i.toNat? with
    | some i => (match v.act (.resume i) with
      | some v' => (v', "ok")
      | none => (v, s!"rejected: resume of {i} not enabled (holder {v.s.holder}, pc {(v.s.callers i).map (fun c => showPc c.pc)})"))
    | none => (v, "bad-op")
  | ["send", i] => match i.toNat? with
    | some i => (match v.s.callers i with
      | some c => if c.sends.getLast? == some v.s.now then (v, "ok")
                  else (v, s!"rejected: datagram of {i} at {v.s.now} but the model's send log is {c.sends}")
      | none => (v, "rejected: send by unknown caller"))
    | none => (v, "bad-op")
  | ["done", i, r] => match i.toNat? with
    | some i => (match v.s.callers i with
      | some c =>
        let want : Pc := if r == "none" then .done none else .done r.toNat?
        if c.pc == want then (v, "ok") else (v, s!"rejected: {i} returned {r} but the model has it at {showPc c.pc}")
      | none => (v, "rejected: return of unknown caller"))
    | none => (v, "bad-op")
  | ["end"] => (v, s!"end steps={v.steps} now={v.s.now} acquired={v.s.acquired} waitq={v.s.waitq}")
  | _ => (v, "bad-op")

partial def loop (h : IO.FS.Stream) (v : V) : IO Unit := do
  let line ← h.getLine
  if line.isEmpty then return ()
  let (v', out) := stepLine v line
  IO.println out
  loop h v'

def main : IO Unit := do loop (← IO.getStdin) {}
