/- line-protocol driver for the snapshot model (C19).  Text travels as hex of its UTF-8 bytes ("-" = empty). -/
import GeckoModel.Model.DriverUtil
import GeckoModel.Model.Snapshot
open GeckoModel GeckoModel.Snapshot Drv

def textOfHex (h : String) : Option Text := (strOfHex h).map String.toList
def hexOfText (t : Text) : String := hexOfStr (String.ofList t)

def showErr : PErr → String
  | .valueError => "E_VALUE" | .syntaxError => "E_SYNTAX" | .structError => "E_STRUCT" | .outOfModel => "E_OUTOFMODEL"

def optText : Option Text → String
  | none => "None"
  | some t => "s" ++ hexOfText t

def tupText (l : List Text) : String := "(" ++ ",".intercalate (l.map hexOfText) ++ ")"

/-- the private fields of a GeckoSnapshot, in a fixed order -/
def showSnap (s : Snap) : String :=
  "|".intercalate [optText s.name, optText s.packType, optText s.confId, optText s.confRev, optText s.confRel,
    tupText s.en, tupText s.co, optText s.cfg, optText s.log, hex s.bytes]

/-- split after every '\n' (what iterating over a text-mode file yields; the harness never sends '\r') -/
def splitLines (t : Text) : List Text :=
  let rec go : Text → Text → List Text → List Text
    | [], cur, acc => (if cur.isEmpty then acc else cur.reverse :: acc).reverse
    | c :: s, cur, acc => if c == '\n' then go s [] ((c :: cur).reverse :: acc) else go s (c :: cur) acc
  go t [] []

def regexByNo : Nat → Option (List Atom)
  | 2 => some reSnapshotAlt | 3 => some reSpaPack | 4 => some reIntouchEN | 5 => some reIntouchCO
  | 6 => some reConfigVersion | 7 => some reLogVersion | 9 => some rePackType | 10 => some rePackId
  | 11 => some rePackRev | 12 => some rePackRel | 13 => some reSoftware | 14 => some reConfigAndLog
  | 15 => some reStatv | _ => none

def parseHeader (f : List String) : Option Header :=
  match f with
  | [lib, rev, a, b, c, d, e, g, pack, i, r, l, cn, cfg, log, pt] =>
    match textOfHex lib, textOfHex rev, textOfHex pack,
      [a, b, c, d, e, g, i, r, l, cn, cfg, log, pt].mapM String.toNat? with
    | some lib, some rev, some pack, some [a, b, c, d, e, g, i, r, l, cn, cfg, log, pt] =>
      some ⟨lib, rev, a, b, c, d, e, g, pack, i, r, l, cn, cfg, log, pt⟩
    | _, _, _, _ => none
  | _ => none

def showLit : Except PErr (List Byte) → String
  | .ok bs => "ok:" ++ hex bs
  | .error e => "err:" ++ showErr e

def step (line : String) : String :=
  match line.trimAscii.toString.splitOn " " with
  -- str([hex(b) for b in bs]) and its way back
  | ["blk", h] =>
    match unhex h with
    | some bs =>
      let r := renderBlockL bs
      let back := match dataLine r with
        | .noMatch => "nomatch" | .raises => "raises" | .bytes b => "bytes:" ++ hex b
      hexOfText r ++ " " ++ back
    | none => "bad-op"
  -- `_re_data` on an arbitrary line
  | ["dline", h] =>
    match textOfHex h with
    | some t => match dataLine t with
      | .noMatch => "nomatch" | .raises => "raises" | .bytes b => "bytes:" ++ hex b
    | none => "bad-op"
  -- one expression of the table on an arbitrary line
  | ["re", k, h] =>
    match k.toNat?.bind regexByNo, textOfHex h with
    | some re, some t =>
      let gs := if k == "15" then (searchRe re t).map (fun g => g.map (t!"STATV" ++ ·)) else searchRe re t
      match gs with
      | some gs => "m:" ++ ",".intercalate (gs.map hexOfText)
      | none => "none"
    | _, _ => "bad-op"
  -- repr(bytes) and the way back through replace + literal_eval
  | ["rt", h] =>
    match unhex h with
    | some bs =>
      let q := quoteOf bs
      hexOfText (pyReprBytesL bs) ++ " " ++ showLit (litEval (fixQuotes (escBytes q bs)))
    | none => "bad-op"
  -- replace + literal_eval on arbitrary text
  | ["lit", h] =>
    match textOfHex h with
    | some t => showLit (litEval (fixQuotes t))
    | none => "bad-op"
  -- the writer
  | "write" :: name :: blk :: stamps :: hdr =>
    match textOfHex name, unhex blk, (stamps.splitOn ",").mapM textOfHex, parseHeader hdr with
    | some name, some bs, some st, some h => hexOfText (writeSnapshot st name h bs).flatten
    | _, _, _, _ => "bad-op"
  -- parse_log_file on a whole text
  | ["parse", h] =>
    match textOfHex h with
    | some t =>
      match parseLogFile (splitLines t) with
      | .ok snaps => "ok:" ++ toString snaps.length ++ ":" ++ ";".intercalate (snaps.map showSnap)
      | .error e => "err:" ++ showErr e
    | none => "bad-op"
  -- the decidable hypotheses of the theorems
  | ["safe", h] =>
    match textOfHex h with
    | some name =>
      let a := name.all printable
      let c := decide (searchRe reStatv (nameTail name) = none)
      let d := !hasSub t!"Starting spa connection handshake..." (nameTail name)
      s!"safe:{if decide (SafeName name) then 1 else 0} printable:{a} statv:{c} conn:{d}"
    | none => "bad-op"
  | _ => "bad-op"

partial def loop (h : IO.FS.Stream) : IO Unit := do
  let line ← h.getLine
  if line.isEmpty then return ()
  IO.println (step line)
  loop h

def main : IO Unit := do loop (← IO.getStdin)
