/- driver for the recovery model (C09): applies macro inputs, prints the record -/
import GeckoModel.Model.Recovery
open GeckoModel.Recovery GeckoModel.Generated

def showR (s : R) : String :=
  let b := fun (x : Bool) => if x then "1" else "0"
  s!"{s.st} descriptors={b s.descriptors} facade={b s.facade} spa={b s.spaAlive} pump={b s.pump} stuck={b (Stuck s)}"

def parseIn : String → Option In
  | "pump+" => some (.pumpTurn true)
  | "pump-" => some (.pumpTurn false)
  | "pump~" => some .pumpTurnHandshakeFails
  | "ping+" => some (.ping true)
  | "ping-" => some (.ping false)
  | "rferr" => some .rfErr
  | "retryx" => some .retryExceeded
  | "reset" => some (.userReset false)
  | "reset!" => some (.userReset true)
  | "resetL" => some .resetInLocate
  | "resetP" => some .locateInReset
  | _ => none

partial def loop (h : IO.FS.Stream) (s : R) : IO Unit := do
  let line ← h.getLine
  if line.isEmpty then return ()
  match line.trimAscii.toString.splitOn " " with
  | ["init"] => IO.println (showR init); loop h init
  | ["in", x] => match parseIn x with
    | some i => let s' := step s i; IO.println (showR s'); loop h s'
    | none => IO.println "bad-op"; loop h s
  | ["healthy"] => let s' := run s healthySeq; IO.println (showR s'); loop h s'
  | ["bounds"] => IO.println s!"{recoveryBound Config.idleTable} {recoveryBound Config.activeTable} {unreachableBound Config.idleTable} {unreachableBound Config.activeTable}"; loop h s
  | _ => IO.println "bad-op"; loop h s

def main : IO Unit := do loop (← IO.getStdin) init
