/- line-protocol driver for the accessor model over the regenerated pack tables -/
import GeckoModel.Model.DriverUtil
import GeckoModel.Generated.PacksIndex
open GeckoModel GeckoModel.Generated Drv

structure St where
  blocks : List (String × Block) := []
  modCache : Option PackModule := none

def St.block (s : St) (id : String) : Option Block := (s.blocks.find? (·.1 == id)).map (·.2)

def St.setBlock (s : St) (id : String) (b : Block) : St :=
  { s with blocks := (id, b) :: s.blocks.filter (·.1 != id) }

def findItem (s : St) (m tag : String) : St × Option Item :=
  let pm := match s.modCache with
    | some c => if c.file == m then some c else Packs.allModules.find? (·.file == m)
    | none => Packs.allModules.find? (·.file == m)
  match pm with
  | some c => ({ s with modCache := some c }, c.items.find? (·.key == tag))
  | none => (s, none)

def showWrite : Except Err DevWrite → String
  | .ok w => s!"w:{w.pos}:{w.len}:{w.value}"
  | .error e => "err:" ++ errName e

def changedBytes (a b : Block) : String :=
  let rec go (i : Nat) : List UInt8 → List UInt8 → List String
    | x :: xs, y :: ys => if x == y then go (i + 1) xs ys else s!"{i}={hex [y]}" :: go (i + 1) xs ys
    | _, _ => []
  let l := go 0 a b
  if l.isEmpty then "none" else ",".intercalate l

def step (s : St) (line : String) : St × String :=
  match line.trimAscii.toString.splitOn " " with
  | ["blk", id, h] =>
    match unhex h with
    | some b => (s.setBlock id b, "ok")
    | none => (s, "bad-op")
  | ["dec", m, tag, bid] =>
    match findItem s m tag, s.block bid with
    | (s', some it), some b =>
      -- temp items: the stored reading (unit conversion is C14's model)
      (s', showExceptValue (it.decode b))
    | (s', _), _ => (s', "bad-op")
  | ["wr", m, tag, bid, vk, vv, nid] =>
    match findItem s m tag, s.block bid, parseValue vk vv with
    | (s', some it), some b, some v =>
      let e1 := it.encode b v
      let e2 := it.encodeAsync b v
      match e1 with
      | .ok w =>
        match applyWrite b w with
        | some b' => (s'.setBlock nid b', s!"{showWrite e1} {showWrite e2} applied {changedBytes b b'} {showExceptValue (it.decode b')}")
        | none => (s', s!"{showWrite e1} {showWrite e2} apply-err:E_STRUCT")
      | .error _ => (s', s!"{showWrite e1} {showWrite e2}")
    | (s', _), _, _ => (s', "bad-op")
  | _ => (s, "bad-op")

partial def loop (h : IO.FS.Stream) (s : St) : IO Unit := do
  let line ← h.getLine
  if line.isEmpty then return ()
  let (s', out) := step s line
  IO.println out
  loop h s'

def main : IO Unit := do loop (← IO.getStdin) {}
