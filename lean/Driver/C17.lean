/- line-protocol driver for the config model (C17)
   reset | sleep <id> <delay> | mode <0|1> | tick <n> | cancel <id> | dump | facade <pumps> <blowers>
   device lists: comma separated `f0` `f1` (BOOL accessor) or `l<LABEL>` (ENUM label), `-` for none -/
import GeckoModel.Model.Config
open GeckoModel.Config GeckoModel.Generated.Config

def showTable (t : Table) : String := ";".intercalate (t.map fun kv => s!"{kv.1}={kv.2}")

def showCause : Cause → String
  | .timeout => "timeout" | .switch => "switch" | .cancelled => "cancelled"

def showSys (s : Sys) : String :=
  let w := s.woken.reverse.map fun w => s!"{w.id}:{w.start}:{w.at_}:{showCause w.cause}"
  let sl := s.sleepers.map fun sl => s!"{sl.id}:{sl.start}:{sl.deadline}"
  s!"t={s.t} gen={s.gen} done={if s.done then 1 else 0} woken={if w.isEmpty then "-" else ",".intercalate w} waiting={if sl.isEmpty then "-" else ",".intercalate sl}"

def parseDevs (x : String) : Option (List DevState) :=
  if x == "-" then some [] else
  (x.splitOn ",").mapM fun tok =>
    if tok == "f0" then some (.flag false) else if tok == "f1" then some (.flag true)
    else if tok.startsWith "l" then some (.label (tok.drop 1).toString) else none

def ticks : Nat → Sys → Sys
  | 0, s => s
  | n + 1, s => ticks n (step s .tick).1

def stepLine (s : Sys) (line : String) : Sys × String :=
  match line.trimAscii.toString.splitOn " " with
  | ["reset"] => (Sys.init, "ok")
  | ["sleep", id, d] =>
    match id.toNat?, d.toNat? with
    | some id, some d => ((step s (.sleep id d)).1, "ok")
    | _, _ => (s, "bad-op")
  | ["mode", b] =>
    let r := step s (.setMode (b == "1"))
    let tag := match r.2 with
      | .ok _ => "ok" | .error .assertErr => "E_ASSERT" | .error .attrErr => "E_ATTR"
    (r.1, s!"{tag} {showTable r.1.live}")
  | ["tick", n] =>
    match n.toNat? with
    | some n => (ticks n s, "ok")
    | none => (s, "bad-op")
  | ["cancel", id] =>
    match id.toNat? with
    | some id => ((step s (.cancel id)).1, "ok")
    | none => (s, "bad-op")
  | ["dump"] => (s, showSys s)
  | ["facade", p, b] =>
    match parseDevs p, parseDevs b with
    | some p, some b => (s, if facadeMode p b then "1" else "0")
    | _, _ => (s, "bad-op")
  | _ => (s, "bad-op")

partial def loop (h : IO.FS.Stream) (s : Sys) : IO Unit := do
  let line ← h.getLine
  if line.isEmpty then return ()
  let (s', out) := stepLine s line
  IO.println out
  loop h s'

def main : IO Unit := do loop (← IO.getStdin) Sys.init
