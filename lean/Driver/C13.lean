/- line-protocol driver for the facade command model (C13) -/
import GeckoModel.Model.DriverUtil
import GeckoModel.Model.Commands
import GeckoModel.Model.Struct
import GeckoModel.Generated.PacksIndex
open GeckoModel GeckoModel.Generated Drv

structure St where
  blocks : List (String × Block) := []

def findItem (m tag : String) : Option Item :=
  (Packs.allModules.find? (·.file == m)).bind (fun pm => pm.items.find? (·.key == tag))

def showEmits : List Emit → String
  | [] => "none"
  | es => ";".intercalate (es.map fun
      | .keyPress k => s!"key:{k}"
      | .setValue w => s!"set:{w.pos}:{w.len}:{w.value}"
      | .setWC m => s!"setwc:{m}")

def step (s : St) (line : String) : St × String :=
  match line.trimAscii.toString.splitOn " " with
  | ["blk", id, h] => match unhex h with
    | some b => ({ s with blocks := (id, b) :: s.blocks.filter (·.1 != id) }, "ok")
    | none => (s, "bad-op")
  | ["switch", m, tag, k, want, bid] =>
    match findItem m tag, k.toNat?, (s.blocks.find? (·.1 == bid)).map (·.2) with
    | some it, some k, some b => (s, showEmits (cmdSwitch it k (want == "1") b) ++ s!" on={if it.isOn b then 1 else 0}")
    | _, _, _ => (s, "bad-op")
  | ["pump", m, tag, mode, bid] =>
    match findItem m tag, strOfHex mode, (s.blocks.find? (·.1 == bid)).map (·.2) with
    | some it, some md, some b => (s, showEmits (cmdPumpMode it md b))
    | _, _, _ => (s, "bad-op")
  | ["unit", m, tag, u, bid] =>
    match findItem m tag, strOfHex u, (s.blocks.find? (·.1 == bid)).map (·.2) with
    | some it, some u, some b => (s, showEmits (cmdTempUnit it u b))
    | _, _, _ => (s, "bad-op")
  | ["wc", l] => match strOfHex l with
    | some l => (s, match cmdWatercare l with | some e => showEmits [e] | none => "err:E_VALUE")
    | none => (s, "bad-op")
  | _ => (s, "bad-op")

partial def loop (h : IO.FS.Stream) (s : St) : IO Unit := do
  let line ← h.getLine
  if line.isEmpty then return ()
  let (s', out) := step s line
  IO.println out
  loop h s'

def main : IO Unit := do loop (← IO.getStdin) {}
