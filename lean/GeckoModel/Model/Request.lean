/-
C06 model — `GeckoAsyncUdpProtocol.get` (and `GeckoAsyncStructure.get`, same skeleton) for any number of concurrent
callers on one connection.

  async with self.Lock:                      -- asyncio.Lock: FIFO hand-off (trusted); no suspension when free and nobody queued
      while retry_count > 0:
          request = create_func()            -- fresh handler: start_time = now
          self.queue_send(request)           -- one datagram
          if await request.wait_for_response(self): return request     -- poll every 100 ms; reply iff head && can_handle;
                                                                       -- failure at the first poll with age > timeout
          retry_count -= 1
          await config_sleep(PAUSE)          -- up to PAUSE (a config switch may end it early)
      return None

Atomic steps = code between two awaits.  Whether a poll finds an acceptable reply at the head of the queue is the
adversary's choice (`reply?`), which covers every reply loss / delay / duplication pattern; the queue itself is C07's.
Time in ms.
-/
namespace GeckoModel.Request

def poll : Nat := 100

inductive Pc
  | waiting                              -- queued on the lock
  | polling (since nextPoll : Nat)       -- in wait_for_response: handler built at `since`, next look at the queue at `nextPoll`
  | pausing (untilMs : Nat)                -- in config_sleep after a failed attempt
  | done (reply : Option Nat)            -- returned: the reply datagram, or None
deriving Repr, DecidableEq

structure Caller where
  id : Nat
  retry0 : Nat          -- retry_count argument
  timeout : Nat         -- ms
  pause : Nat           -- ms
  retry : Nat           -- remaining
  pc : Pc
  sends : List Nat      -- time of every request datagram of this call
  acquiredAt : Nat
deriving Repr, DecidableEq

structure RSys where
  now : Nat
  holder : Option Nat        -- who is inside `async with self.Lock`
  waitq : List Nat           -- FIFO of callers parked on the lock
  callers : Nat → Option Caller
  -- ghost
  called : List Nat          -- ids in call order
  acquired : List Nat        -- ids in acquisition order

def init : RSys := { now := 0, holder := none, waitq := [], callers := fun _ => none, called := [], acquired := [] }

def RSys.get (s : RSys) (id : Nat) : Option Caller := s.callers id

def RSys.set (s : RSys) (c : Caller) : RSys :=
  { s with callers := fun i => if i = c.id then some c else s.callers i }

inductive Act
  | call (id retry timeout pause : Nat)      -- a task enters get()
  | handoff                                   -- the first parked caller is resumed and takes the released lock
  | pollStep (id : Nat) (reply : Option Nat)  -- the holder looks at the queue: `reply` = an acceptable head datagram, if any
  | resume (id : Nat)                         -- the holder's pause ends (timer, or a config switch)
  | tick (dt : Nat)
deriving Repr

/-- first atomic span after acquiring: build, send, first look at the queue happens in the same step as `pollStep` would;
we split it: acquisition sends and schedules an immediate poll -/
def startAttempt (now : Nat) (c : Caller) : Caller :=
  { c with pc := .polling now now, sends := c.sends ++ [now] }

def acquire (s : RSys) (c : Caller) : RSys :=
  let c1 : Caller := { c with acquiredAt := s.now }
  let c2 := if c1.retry = 0 then { c1 with pc := .done none } else startAttempt s.now c1
  let s' := { s with acquired := s.acquired ++ [c.id] }
  if c1.retry = 0 then { (s'.set c2) with holder := none } else { (s'.set c2) with holder := some c.id }

/-- fairness: time may not pass a due step of the lock holder, nor leave a free lock with parked callers -/
def dueBy (s : RSys) : Option Nat :=
  match s.holder with
  | none => if s.waitq.isEmpty then none else some s.now
  | some h =>
    match s.get h with
    | some c => (match c.pc with
      | .polling _ np => some np
      | .pausing u => some u
      | _ => none)
    | none => none

def enabled (fair : Bool) (s : RSys) : Act → Bool
  | .call id _ _ _ => !(s.called.contains id)
  | .handoff => s.holder.isNone && !s.waitq.isEmpty
  | .pollStep id _ =>
    s.holder == some id &&
    (match s.get id with
     | some c => (match c.pc with | .polling _ np => decide (np ≤ s.now) | _ => false)
     | none => false)
  | .resume id =>
    s.holder == some id &&
    (match s.get id with
     | some c => (match c.pc with | .pausing _ => true | _ => false)
     | none => false)
  | .tick dt => if fair then (match dueBy s with | some d => decide (s.now + dt ≤ d) | none => true) else true

def release (s : RSys) : RSys := { s with holder := none }

def step (s : RSys) : Act → RSys
  | .call id retry timeout pause =>
    let c : Caller := { id := id, retry0 := retry, timeout := timeout, pause := pause, retry := retry, pc := .waiting,
                        sends := [], acquiredAt := 0 }
    let s1 := { (s.set c) with called := s.called ++ [id] }
    if s1.holder.isNone && s1.waitq.isEmpty then acquire s1 c
    else { s1 with waitq := s1.waitq ++ [id] }
  | .handoff =>
    match s.waitq with
    | [] => s
    | id :: rest =>
      match s.get id with
      | some c => acquire { s with waitq := rest } c
      | none => s
  | .pollStep id reply =>
    match s.get id with
    | none => s
    | some c =>
      match c.pc with
      | .polling since _ =>
        match reply with
        | some r => release (s.set { c with pc := .done (some r) })
        | none =>
          if s.now - since > c.timeout then
            s.set { c with retry := c.retry - 1, pc := .pausing (s.now + c.pause) }
          else s.set { c with pc := .polling since (s.now + poll) }
      | _ => s
  | .resume id =>
    match s.get id with
    | none => s
    | some c =>
      match c.pc with
      | .pausing _ =>
        if c.retry = 0 then release (s.set { c with pc := .done none })
        else s.set (startAttempt s.now c)
      | _ => s
  | .tick dt => { s with now := s.now + dt }

inductive Reach (fair : Bool) : RSys → Prop
  | init : Reach fair init
  | step (s : RSys) (a : Act) : Reach fair s → enabled fair s a = true → Reach fair (step s a)

def run (fair : Bool) : RSys → List Act → Option RSys
  | s, [] => some s
  | s, a :: as => if enabled fair s a then run fair (step s a) as else none

/-- is the caller inside an exchange (has the connection to itself)? -/
def Caller.inExchange (c : Caller) : Bool :=
  match c.pc with
  | .polling _ _ => true
  | .pausing _ => true
  | _ => false

end GeckoModel.Request
