/-
C09 model — self-healing of the manager, at the level of "who moves it out of which state".

State = the manager's state name, whether descriptors / a facade / a spa with a running ping loop exist, and whether
the sequence pump is alive.  Inputs are macro steps whose durations are bounded by theorems of other properties
(a discovery: C15; a request with retries: C06; the block transfer: C01): one iteration of the pump under a healthy or a
dead network, a ping outcome, an RF error, retry exhaustion (reported by the live spa or by an attempt a reset has abandoned),
a user reset (possibly landing inside `_connect`).
Which states the pump acts in, which states a received ping resets from, where each failure event lands and whether the
pump survives exceptions are GENERATED facts (`Generated/RecoveryFacts.lean`).
-/
import GeckoModel.Generated.RecoveryFacts
import GeckoModel.Generated.ConfigTables

namespace GeckoModel.Recovery
open GeckoModel.Generated

structure R where
  st : String
  descriptors : Bool     -- `_spa_descriptors is not None`
  facade : Bool
  spaAlive : Bool        -- a spa object exists and its ping loop runs
  pump : Bool            -- the sequence pump task is alive
deriving Repr, DecidableEq

def init : R := { st := "IDLE", descriptors := false, facade := false, spaAlive := false, pump := true }

inductive In
  | pumpTurn (healthy : Bool)   -- one pump iteration; `healthy`: discovery and the whole handshake get through during it
  | pumpTurnHandshakeFails      -- the spa is found but a handshake request runs out of retries
  | ping (answered : Bool)      -- the ping loop of the existing spa: a reply / no reply beyond the not-responding timeout
  | rfErr
  | retryExceeded
  | userReset (inConnect : Bool)
  | resetInLocate               -- a user reset that lands while a discovery (the pump's own or async_connect's) is in flight;
                                -- the step ends when that discovery has returned on a healthy network
  | locateInReset               -- the converse: a reset whose announcements take the client's handlers long enough for the PUMP (another
                                -- task) to run a whole discovery in between - the reset has cleared the descriptors and the state says
                                -- IDLE when the pump looks, the discovery completes, then the reset's last statements run
deriving Repr, DecidableEq

def resetR (s : R) : R := { s with st := "IDLE", descriptors := false, facade := false, spaAlive := false }

def connectR (s : R) (outcome : Option Bool) : R :=
  -- `outcome`: none = spa not found, some true = connected, some false = found but handshake failed
  match outcome with
  | none => { s with st := stateOnSpaNotFound, descriptors := true }
  | some true => { s with st := "CONNECTED", descriptors := true, facade := true, spaAlive := true }
  | some false => { s with st := stateOnRetryExceeded, descriptors := true, spaAlive := true }

/-- the end of `async_locate_spas`: `self._spa_descriptors = locator.spas`, then LOCATING_FINISHED, which moves the manager
to `stateOnLocatingFinished` - from any state, or only from the generated guard states when the branch has a guard -/
def locateFinish (s : R) : R :=
  let s := { s with descriptors := true }
  if locatingFinishedGuard.isEmpty || locatingFinishedGuard.contains s.st then { s with st := stateOnLocatingFinished } else s

/-- a whole `async_locate_spas`: LOCATING_STARTED, the discovery (during which a user reset may land), the end -/
def locateR (s : R) (resetInFlight : Bool) : R :=
  let s := { s with st := stateOnLocatingStarted }
  locateFinish (if resetInFlight then resetR s else s)

def pumpR (s : R) (outcome : Option Bool) : R :=
  if !s.pump then s else
  let s1 := if pumpLocateStates.contains s.st && !s.descriptors then locateR s false else s
  let s2 := if pumpConnectStates.contains s1.st && !s1.facade then connectR s1 outcome else s1
  -- the retry rule (third `if` of the same turn): after a pause, a manager still parked in one of these states is reset
  if pumpRetryStates.contains s2.st then resetR s2 else s2

def step (s : R) : In → R
  | .pumpTurn true => pumpR s (some true)
  | .pumpTurn false => pumpR s none
  | .pumpTurnHandshakeFails => pumpR s (some false)
  | .ping true => if s.spaAlive && pingResetStates.contains s.st then resetR s else s
  | .ping false => if s.spaAlive && s.st == "CONNECTED" then { s with st := stateOnPingNoResponse } else s
  | .rfErr => if s.spaAlive && s.st == "CONNECTED" then { s with st := stateOnRfError } else s
  -- a retry-exceeded report: from the live spa, or (spaAlive = false) from a connection attempt that a reset has abandoned
  | .retryExceeded => if s.spaAlive || !retryExceededNeedsSpa then { s with st := stateOnRetryExceeded } else s
  | .userReset inConnect => { resetR s with pump := s.pump && (!inConnect || pumpCatchesExceptions) }
  | .resetInLocate => if s.pump then locateR s true else resetR s
  | .locateInReset =>
    if s.pump && pumpLocateStates.contains "IDLE" then
      let s1 := locateR { s with st := "IDLE", descriptors := false } false
      { s1 with st := "IDLE", facade := false, spaAlive := false, descriptors := s1.descriptors && !resetForgetsDescriptorsLast }
    else resetR s

def run (s : R) : List In → R
  | [] => s
  | i :: is => run (step s i) is

/-- the state names that occur -/
def stateNames : List String :=
  ["IDLE", "LOCATED_SPAS", "CONNECTED", "ERROR_SPA_NOT_FOUND", "ERROR_NEEDS_ATTENTION", "ERROR_PING_MISSED", "ERROR_RF_FAULT"]

def bools : List Bool := [true, false]

/-- every state record over those names -/
def allR : List R :=
  stateNames.flatMap fun st => bools.flatMap fun d => bools.flatMap fun f => bools.flatMap fun a => bools.map fun p => ⟨st, d, f, a, p⟩

def allIn : List In :=
  [.pumpTurn true, .pumpTurn false, .pumpTurnHandshakeFails, .ping true, .ping false, .rfErr, .retryExceeded, .userReset true, .userReset false,
   .resetInLocate, .locateInReset]

/-- coherence of reachable records: the facts the code maintains between macro steps -/
def Coherent (s : R) : Bool :=
  (s.st != "IDLE" || (!s.descriptors && !s.facade && !s.spaAlive)) &&
  (s.st != "CONNECTED" || (s.facade && s.spaAlive)) &&
  (!s.facade || s.spaAlive) &&
  (s.st != "LOCATED_SPAS" || (s.descriptors && !s.facade && !s.spaAlive)) &&
  (s.st != "ERROR_SPA_NOT_FOUND" || (!s.facade && !s.spaAlive)) &&
  (!(s.st == "ERROR_PING_MISSED" || s.st == "ERROR_RF_FAULT" || s.st == "ERROR_NEEDS_ATTENTION") || s.spaAlive)

def connected (s : R) : Bool := s.st == "CONNECTED" && s.facade && s.spaAlive

/-- nothing can move the manager any more: the pump is dead, or the state is one neither the pump nor a ping acts on -/
def Stuck (s : R) : Bool :=
  !connected s &&
  (!s.pump ||
   !(pumpLocateStates.contains s.st && !s.descriptors) && !(pumpConnectStates.contains s.st && !s.facade) &&
   !pumpRetryStates.contains s.st &&
   !(s.spaAlive && pingResetStates.contains s.st))

/-- what a healthy network does next: the ping of an existing spa is answered, then the pump gets two turns -/
def healthySeq : List In := [.ping true, .pumpTurn true, .pumpTurn true]

def cfg (t : Config.Table) (k : String) : Nat := ((t.find? (·.1 == k)).map (·.2.toNat)).getD 0

/-- time (s) a healthy network needs at most for `healthySeq`, from the given timing table: the next ping
(frequency + one attempt), two discoveries (the pump's and async_connect's), four requests with all their retries
(version, channel, config file, status block), with 1 s of polling slack each -/
def recoveryBound (t : Config.Table) : Nat :=
  let tmo := cfg t "PROTOCOL_TIMEOUT_IN_SECONDS"
  let pause := cfg t "PAUSE_BETWEEN_RETRIES_IN_SECONDS"
  let r := cfg t "PROTOCOL_RETRY_COUNT"
  cfg t "PING_FREQUENCY_IN_SECONDS" + (tmo + 1 + pause) + 2 * (cfg t "DISCOVERY_TIMEOUT_IN_SECONDS" + 1) + 4 * r * (tmo + 1 + pause)

/-- time (s) after which an unreachable spa is reported: ping period + the not-responding timeout + one attempt -/
def unreachableBound (t : Config.Table) : Nat :=
  cfg t "PING_FREQUENCY_IN_SECONDS" + cfg t "PING_DEVICE_NOT_RESPONDING_TIMEOUT_IN_SECONDS" +
    (cfg t "PROTOCOL_TIMEOUT_IN_SECONDS" + 1 + cfg t "PAUSE_BETWEEN_RETRIES_IN_SECONDS") + cfg t "PING_FREQUENCY_IN_SECONDS"

end GeckoModel.Recovery
