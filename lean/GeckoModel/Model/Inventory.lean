/-
Device inventory (C12): hand model of `GeckoAsyncFacade._scan_outputs` / `GeckoFacade.scan_outputs`, of
`all_automation_devices`, `devices`, `get_device` and `unique_id`, over the generated constants of
`Generated/DeviceTable.lean` (DEVICES / SENSORS / BINARY_SENSORS, the fixed keys, the composition order of
`all_automation_devices` of both facades, and which de-duplication each facade uses).

The comprehensions of the source are transcribed one by one as `map` / `filter` / `flatMap` over `List String`;
`list(dict.fromkeys(..))` is `dedup` (first occurrence kept, order preserved).  Tied to the code by the correspondence
check `harness/props/c12.py`, which builds the real facades on stub spas.  Core Lean only.
-/
import GeckoModel.Model.Accessor
import GeckoModel.Generated.DeviceTable

namespace GeckoModel.Inventory
open GeckoModel GeckoModel.Generated

/-- Python `s.startswith(p)` -/
def startsWith (s p : String) : Bool := p.toList.isPrefixOf s.toList

/-- Python `s.upper()` (ASCII: every key of the shipped tables is ASCII, `C12.shipped_side_conditions`) -/
def upper (s : String) : String := s.toUpper

/-- `list(dict.fromkeys(l))`: first occurrences, in order; `seen` = keys already in the dictionary -/
def dedupAux (seen : List String) : List String → List String
  | [] => []
  | x :: xs => if x ∈ seen then dedupAux seen xs else x :: dedupAux (x :: seen) xs

def dedup (l : List String) : List String := dedupAux [] l

/-- what the output scan reads from the spa -/
structure Wiring where
  allOutputs : List String                      -- struct.all_outputs  (config_class.output_keys)
  allDevices : List String                      -- struct.all_devices  (log_class.all_device_keys)
  userDemands : List String                     -- struct.user_demands (log_class.user_demand_keys)
  val : String → String                         -- accessors[output].value
  hasKey : String → Bool                        -- `key in accessors`
  demandTag : String → String                   -- accessors[ud].tag
  demandOptions : String → Option (List String) -- accessors[ud].items

/-- `{output: accessors[output].value for output in all_outputs}` (a dict: one entry per distinct key) -/
def Wiring.connections (w : Wiring) : List (String × String) := (dedup w.allOutputs).map (fun o => (o, w.val o))

/-- `{tag: val for (tag, val) in all_output_connections.items() if val != "NA"}` -/
def Wiring.actualConnections (w : Wiring) : List (String × String) := w.connections.filter (fun c => c.2 != "NA")

/-- `[device for device in all_devices for val in actual_connections.values() if val.startswith(device)]` -/
def Wiring.candidates (w : Wiring) : List String :=
  w.allDevices.flatMap (fun d => (w.actualConnections.filter (fun c => startsWith c.2 d)).map (fun _ => d))

/-- `list(dict.fromkeys(..))` of the candidates: the async facade's `actual_devices` -/
def Wiring.actualDevices (w : Wiring) : List String := dedup w.candidates

/-- `f"Ud{device}".upper() == ud.upper()` -/
def matchesDemand (d ud : String) : Bool := upper ("Ud" ++ d) == upper ud

structure UserDevice where
  device : String
  demandKey : String      -- the user demand key `ud`
deriving Repr, DecidableEq

/-- `[{device, user_demand} for device in actual_devices for ud in user_demands if ...]`, for a given iteration order of
`actual_devices` -/
def userDevicesOf (order : List String) (w : Wiring) : List UserDevice :=
  order.flatMap (fun d => (w.userDemands.filter (matchesDemand d)).map (fun ud => ⟨d, ud⟩))

/-- `GeckoConstants.DEVICES[d]` (`none` = KeyError) -/
def lookupRow (d : String) : Option DeviceRow := devicesTable.find? (fun r => r.id == d)

/-- `d in GeckoConstants.DEVICES` -/
def inTable (d : String) : Bool := (lookupRow d).isSome

/-- "Remove unknown device classes" -/
def handledOf (order : List String) (w : Wiring) : List UserDevice :=
  (userDevicesOf order w).filter (fun u => inTable u.device)

/-- a GeckoPump / GeckoBlower / GeckoLight (or the eco GeckoSwitch) -/
structure Dev where
  key : String                          -- automation key = the device id
  name : String                         -- props[0]
  keypad : Nat                          -- props[1]
  stateKey : String                     -- props[2]
  cls : String                          -- props[3]
  demand : Option String                -- pumps: user_demand["demand"]; switches do not keep it
  modes : Option (Option (List String)) -- pumps: user_demand["options"] (inner none = Python None)
deriving Repr, DecidableEq

/-- the comprehension `[Cls(self, d, DEVICES[d], ...) for device in actual_user_devices if DEVICES[d][3] == cls]` -/
def devsOfClass (cls : String) (isPump : Bool) (handled : List UserDevice) (w : Wiring) : List Dev :=
  handled.filterMap (fun u =>
    match lookupRow u.device with
    | some r =>
      if r.cls == cls then
        some ⟨u.device, r.name, r.keypad, r.stateKey, r.cls,
              if isPump then some (w.demandTag u.demandKey) else none,
              if isPump then some (w.demandOptions u.demandKey) else none⟩
      else none
    | none => none)      -- unreachable after `handledOf` (C12.classes_right)

structure Sensor where
  key : String           -- name.upper()
  name : String
  accessorKey : String
deriving Repr, DecidableEq

/-- `[GeckoSensor(self, s[0], accessors[s[1]]) for s in TABLE if s[1] in accessors]` -/
def sensorsOf (tbl : List SensorRow) (w : Wiring) : List Sensor :=
  (tbl.filter (fun s => w.hasKey s.key)).map (fun s => ⟨upper s.name, s.name, s.key⟩)

structure Inv where
  userDevices : List UserDevice      -- facade.actual_user_devices
  pumps : List Dev
  blowers : List Dev
  lights : List Dev
  sensors : List Sensor
  binarySensors : List Sensor
  eco : Option Dev                   -- None when KEY_ECON_ACTIVE is not an accessor
deriving Repr, DecidableEq

/-- the output scan for a given iteration order of the de-duplicated devices -/
def scanWith (order : List String) (w : Wiring) : Inv :=
  let handled := handledOf order w
  { userDevices := handled
    pumps := devsOfClass classPump true handled w
    blowers := devsOfClass classBlower false handled w
    lights := devsOfClass classLight false handled w
    sensors := sensorsOf sensorsTable w
    binarySensors := sensorsOf binarySensorsTable w
    eco := if w.hasKey ecoRow.stateKey then
             some ⟨ecoRow.id, ecoRow.name, ecoRow.keypad, ecoRow.stateKey, ecoRow.cls, none, none⟩ else none }

/-! the facade OBJECT across several scans (the blocking client calls `_on_connected` -> `scan_outputs` again on the same
facade after every reconnect): each inventory list is either rebuilt by assignment or grown in place
(`Generated.syncScanUpdates` / `asyncScanUpdates`, read from the source) -/

def assigned (ups : List (String × Bool)) (name : String) : Bool := (ups.find? (·.1 == name)).map (·.2) == some true

def upd {α : Type} (ups : List (String × Bool)) (name : String) (old new : List α) : List α :=
  if assigned ups name then new else old ++ new

/-- one more scan on an object that already holds `old` -/
def rescan (ups : List (String × Bool)) (old : Inv) (fresh : Inv) : Inv :=
  { userDevices := upd ups "actual_user_devices" old.userDevices fresh.userDevices
    pumps := upd ups "_pumps" old.pumps fresh.pumps
    blowers := upd ups "_blowers" old.blowers fresh.blowers
    lights := upd ups "_lights" old.lights fresh.lights
    sensors := upd ups "_sensors" old.sensors fresh.sensors
    binarySensors := upd ups "_binary_sensors" old.binarySensors fresh.binarySensors
    eco := fresh.eco }

def emptyInv : Inv := ⟨[], [], [], [], [], [], none⟩

/-- the object after `n + 1` scans of the same wiring -/
def scans (ups : List (String × Bool)) (fresh : Inv) : Nat → Inv
  | 0 => rescan ups emptyInv fresh
  | n + 1 => rescan ups (scans ups fresh n) fresh

/-- **`GeckoAsyncFacade._scan_outputs`** -/
def scanOutputs (w : Wiring) : Inv := scanWith w.actualDevices w

/-- the iteration orders the threaded `GeckoFacade.scan_outputs` may use: with `set(..)` any arrangement of the same
devices (the order follows string hashing, i.e. PYTHONHASHSEED); with an order-preserving de-dup only the table order -/
def SyncOrder (w : Wiring) (order : List String) : Prop :=
  match syncDedup with
  | .hashSet => order.Perm w.actualDevices
  | .orderPreserving => order = w.actualDevices

inductive InvErr
  | keyError          -- accessors[<state key>] of a device being constructed
  | attributeError    -- `.key` / `.watch` on the `None` that stands for a missing eco switch
deriving Repr, DecidableEq

/-- the state keys the constructors look up: `self._spa.accessors[props[2]]` -/
def Inv.stateKeys (inv : Inv) : List String := (inv.pumps ++ inv.blowers ++ inv.lights).map (·.stateKey)

/-- the scan including the KeyError a constructor raises when a device's state key is not an accessor -/
def scanOutputsE (w : Wiring) : Except InvErr Inv :=
  let inv := scanOutputs w
  if inv.stateKeys.all w.hasKey then .ok inv else .error .keyError

/-! ### all_automation_devices / devices / get_device / unique_id -/

structure Entry where
  key : String
  name : String
  slot : String
deriving Repr, DecidableEq

def devEntry (slot : String) (d : Dev) : Entry := ⟨d.key, d.name, slot⟩
def sensorEntry (slot : String) (s : Sensor) : Entry := ⟨s.key, s.name, slot⟩

/-- the objects one slot of `all_automation_devices` contributes; `none` = the Python `None` of a missing eco switch -/
def slotEntries (inv : Inv) (slot : String) : List (Option Entry) :=
  if slot = "pumps" then inv.pumps.map (fun d => some (devEntry slot d))
  else if slot = "blowers" then inv.blowers.map (fun d => some (devEntry slot d))
  else if slot = "lights" then inv.lights.map (fun d => some (devEntry slot d))
  else if slot = "sensors" then inv.sensors.map (fun s => some (sensorEntry slot s))
  else if slot = "binary_sensors" then inv.binarySensors.map (fun s => some (sensorEntry slot s))
  else if slot = "eco_mode" then [inv.eco.map (devEntry slot)]
  else match fixedKeys.find? (fun f => f.1 == slot) with
    | some (_, n, k) => [some ⟨k, n, slot⟩]
    | none => []

/-- `all_automation_devices` in the order the facade composes it (`asyncAutomationOrder` / `syncAutomationOrder`) -/
def allAutomation (order : List String) (inv : Inv) : List (Option Entry) := order.flatMap (slotEntries inv)

/-- `get_device(key)`: linear search; reaching the `None` entry raises AttributeError -/
def getDeviceIn : List (Option Entry) → String → Except InvErr (Option Entry)
  | [], _ => .ok none
  | none :: _, _ => .error .attributeError
  | some e :: rest, key => if e.key == key then .ok (some e) else getDeviceIn rest key

def getDevice (order : List String) (inv : Inv) (key : String) : Except InvErr (Option Entry) :=
  getDeviceIn (allAutomation order inv) key

/-- `devices`: `[device.key for device in all_automation_devices]` -/
def keysOf : List (Option Entry) → Except InvErr (List String)
  | [] => .ok []
  | none :: _ => .error .attributeError
  | some e :: rest => match keysOf rest with
    | .ok ks => .ok (e.key :: ks)
    | .error x => .error x

def devices (order : List String) (inv : Inv) : Except InvErr (List String) := keysOf (allAutomation order inv)

/-- the entries that are objects -/
def presentEntries (order : List String) (inv : Inv) : List Entry := (allAutomation order inv).filterMap id

/-- `unique_id = f"{parent}-{key}"` -/
def uniqueId (parent key : String) : String := parent ++ uniqueIdSep ++ key

/-! ### the declarative reading of the property statement -/

/-- device `d` is wired: some output's value is not "NA" and starts with `d` (the only relation the library defines) -/
def Wiring.wired (w : Wiring) (d : String) : Bool :=
  w.allOutputs.any (fun o => w.val o != "NA" && startsWith (w.val o) d)

/-- a user demand exists for `d` -/
def Wiring.hasDemand (w : Wiring) (d : String) : Bool := w.userDemands.any (matchesDemand d)

/-- exactly the devices of the table order that are wired, have a user demand and are in DEVICES - each once -/
def specDevices (w : Wiring) : List String :=
  (dedup w.allDevices).filter (fun d => w.wired d && w.hasDemand d && inTable d)

/-- … each with its demand item -/
def specInventory (w : Wiring) : List UserDevice :=
  (dedup w.allDevices).filterMap (fun d =>
    if w.wired d && inTable d then (w.userDemands.find? (matchesDemand d)).map (fun ud => ⟨d, ud⟩) else none)

/-- no two user-demand keys are equal, not even up to case -/
def NoCaseDupDemands (uds : List String) : Prop :=
  uds.Nodup ∧ ∀ a ∈ uds, ∀ b ∈ uds, upper a = upper b → a = b

/-! ### instantiation from pack tables (used by the driver and by the side conditions) -/

/-- `dict(config.accessors, **log.accessors)[k]`: the log entry wins -/
def mergedItem (cfg log : PackModule) (k : String) : Option Item :=
  match log.items.find? (fun it => it.key == k) with
  | some it => some it
  | none => cfg.items.find? (fun it => it.key == k)

/-- the wiring the facade sees on a cfg/log pair and a status block; an output whose value is not a string (or does not
decode) is shown as a marker no device name is a prefix of -/
def wiringOf (cfg log : PackModule) (b : Block) : Wiring :=
  { allOutputs := cfg.outputKeys
    allDevices := log.deviceKeys
    userDemands := log.userDemandKeys
    val := fun o => match mergedItem cfg log o with
      | some it => (match it.decode b with | .ok (.str s) => s | _ => "\u0000<not-a-string>")
      | none => "\u0000<key-error>"
    hasKey := fun k => (mergedItem cfg log k).isSome
    demandTag := fun ud => match mergedItem cfg log ud with | some it => it.tag | none => "\u0000<key-error>"
    demandOptions := fun ud => match mergedItem cfg log ud with
      | some it => if it.hasLabels then some it.labels else none
      | none => none }

end GeckoModel.Inventory
