/-
Hand model of `geckolib/driver/accessor.py` (GeckoStructAccessor and its subclasses): reading an item out of a
status block and turning a value into the device write `(pos, length, newvalue)`.

The shift / mask / merge arithmetic is NOT written here: it is `Generated.rawExtract`, `Generated.mergeSync`,
`Generated.mergeAsync`, regenerated from the source on every run.  Everything else in this file (type dispatch,
label lookup, time formatting, string forms, error cases) is tied to the code by the correspondence check
`harness/props/c02.py`, which runs the real accessors on the same inputs.

Python exceptions are explicit (`Except Err`); nothing is defaulted.
-/
import GeckoModel.Model.Bytes
import GeckoModel.Model.PackTable
import GeckoModel.Generated.AccessorArith

namespace GeckoModel
open GeckoModel.Generated

inductive Err
  | notWritable   -- Exception("Cannot set value ... doesn't allow writing")
  | structErr     -- struct.error: short slice on read / value out of range on pack
  | valueErr      -- ValueError: label not in list, int() of a non-number
  | indexErr      -- IndexError: "HH" without ":MM"
  | typeErr       -- TypeError: e.g. labels missing
  | outOfModel    -- a value the model does not cover (negative numbers, exotic int() syntax); never compared
deriving Repr, DecidableEq

/-- values crossing the accessor API -/
inductive Value
  | int (n : Nat)
  | bool (b : Bool)
  | str (s : String)
deriving Repr, DecidableEq

instance : DecidableEq (Except Err Value) := fun a b =>
  match a, b with
  | .ok x, .ok y => if h : x = y then isTrue (by rw [h]) else isFalse (by intro e; cases e; exact h rfl)
  | .error x, .error y => if h : x = y then isTrue (by rw [h]) else isFalse (by intro e; cases e; exact h rfl)
  | .ok _, .error _ => isFalse (by intro e; cases e)
  | .error _, .ok _ => isFalse (by intro e; cases e)

def pad2 (n : Nat) : String := if n < 10 then "0" ++ toString n else toString n

/-- decimal digits only (what the property's "string forms of numbers" means); anything else is out of model -/
def parseDec (s : String) : Option Nat :=
  let cs := s.toList
  if cs.isEmpty then none
  else if cs.all Char.isDigit then some (Nat.ofDigitChars 10 cs 0) else none

/-- the unsigned word under the item, `none` = struct.error -/
def Item.word (it : Item) (b : Block) : Option Nat := readBE b it.pos it.len

/-- `_get_raw_value` -/
def Item.rawRead (it : Item) (b : Block) : Option Nat :=
  match it.word b with
  | none => none
  | some data =>
    match it.bitpos with
    | some p => some (rawExtract data p it.mask)
    | none => some data

/-- the tail of `_get_value`: raw field contents -> value -/
def Item.decodeRaw (it : Item) (data : Nat) : Except Err Value :=
  match it.kind with
  | .bool => .ok (.bool (data == 1))
  | .enum =>
    if it.hasLabels then
      match it.labels[data]? with
      | some l => .ok (.str l)
      | none => .ok (.str "Unknown")        -- IndexError is caught by the code
    else .error .typeErr
  | .time => .ok (.str (pad2 (data / 256) ++ ":" ++ pad2 (data % 256)))
  | .byte | .word | .temp => .ok (.int data)

/-- `_get_value` (for `temp` items: the stored reading, the unit conversion is in Model/Temp.lean) -/
def Item.decode (it : Item) (b : Block) : Except Err Value :=
  match it.rawRead b with
  | none => .error .structErr
  | some data => it.decodeRaw data

/-- the type dispatch at the top of `_set_value` / `async_set_value`: value -> integer to store -/
def Item.toRaw (it : Item) (v : Value) : Except Err Nat :=
  match it.kind, v with
  | .enum, .str s =>
    if it.hasLabels then
      match it.labels.idxOf? s with
      | some i => .ok i
      | none => .error .valueErr
    else .error .typeErr
  | .enum, _ => .error .outOfModel
  | .time, .str s =>
    match s.splitOn ":" with
    | [_] => .error .indexErr
    | h :: m :: _ =>
      match parseDec h, parseDec m with
      | some hh, some mm => .ok (hh * 256 + mm % 256)
      | _, _ => .error .outOfModel
    | [] => .error .outOfModel
  | .time, _ => .error .outOfModel
  | .byte, .str s | .word, .str s | .temp, .str s =>
    match parseDec s with
    | some n => .ok n
    | none => .error .outOfModel
  | .byte, .int n | .word, .int n | .temp, .int n => .ok n
  | .byte, .bool b | .word, .bool b | .temp, .bool b => .ok (if b then 1 else 0)
  | .bool, .str s => .ok (if s.toLower == "true" then 1 else 0)
  | .bool, .bool b => .ok (if b then 1 else 0)
  | .bool, .int n => .ok n

/-- a device write: `struct.set_value(pos, length, newvalue)` -/
structure DevWrite where
  pos : Nat
  len : Nat
  value : Nat
deriving Repr, DecidableEq

/-- `_set_value` (blocking path) with the generated merge -/
def Item.encodeWith (merge : Nat → Nat → Nat → Nat → Nat) (it : Item) (b : Block) (v : Value) : Except Err DevWrite :=
  if it.rw.isNone then .error .notWritable
  else
    match it.toRaw v with
    | .error e => .error e
    | .ok nv =>
      match it.word b with
      | none => .error .structErr
      | some existing =>
        match it.bitpos with
        | some p => .ok ⟨it.pos, it.len, merge existing nv it.mask p⟩
        | none => .ok ⟨it.pos, it.len, nv⟩

def Item.encode := Item.encodeWith mergeSync          -- `_set_value`
def Item.encodeAsync := Item.encodeWith mergeAsync    -- `async_set_value`

/-- the spa applies a device write: `struct.pack(">B"|">H", value)` at `pos` (what `GeckoSimulator._on_set_value`
and a real spa do); `none` = struct.error -/
def applyWrite (b : Block) (w : DevWrite) : Option Block :=
  match packBE w.len w.value with
  | some bytes => some (replaceSeg b w.pos bytes)
  | none => none

/-- which bit of the item's big-endian word lives at bit `j` of byte `i` of the block -/
def Item.wordBitAt (it : Item) (i j : Nat) : Option Nat :=
  if j < 8 then
    if it.len = 1 then (if i = it.pos then some j else none)
    else if it.len = 2 then (if i = it.pos then some (j + 8) else if i = it.pos + 1 then some j else none)
    else none
  else none

/-- **the item's own field**: the set of (byte, bit) positions of the block that belong to the item -/
def Item.owns (it : Item) (i j : Nat) : Bool :=
  match it.wordBitAt i j with
  | none => false
  | some t =>
    match it.bitpos with
    | none => true
    | some p =>
      match maskWidth it.mask with
      | some k => decide (p ≤ t ∧ t < p + k)
      | none => true

end GeckoModel
