/-
C07 — the connection's packet consumer as the LONG-LIVED object it is.

`GeckoAsyncSpa._connect` starts ONE `GeckoPacketProtocolHandler(async_on_handled=self._async_on_packet).consume(protocol)`
task per connection.  For every datagram it pops (`can_handle`: starts with `<PACKT>` and ends with `</PACKT>`):

    handle(bytes, sender):        (src, dst, self._packet_content) = _extract_packet_parts(bytes[7:-8])   -- three None on no match
                                  self._parms = (sender[0], sender[1], src, dst)
    _async_on_packet(handler, _): if handler.parms == self.sendparms: protocol.datagram_received(handler.packet_content, handler.parms)

The object's two attributes are model state; `extract` is the byte-level regex model of C04 (`Model/Packet.lean`).
-/
import GeckoModel.Model.Packet

namespace GeckoModel.PacketConsumer
open GeckoModel.Wire
open GeckoModel.Generated.WireFormats

/-- `(sender ip, sender port, SRCCN, DESCN)`; the two identifiers are `None` when the inner parts do not parse -/
abbrev Parms := Bytes × Nat × Option Bytes × Option Bytes

structure PC where
  parms   : Option Parms := none     -- `_parms` (None on a fresh instance)
  content : Option Bytes := none     -- `_packet_content`
deriving Repr, DecidableEq

/-- `sendparms = (destination ip, destination port, spa identifier, client identifier)` -/
structure Conn where
  ip : Bytes
  port : Nat
  spaId : Bytes
  clientId : Bytes
deriving Repr, DecidableEq

/-- `can_handle`, with the two tags read from the source (`Generated.WireFormats.tags_Packet`) -/
def canHandle (bs : Bytes) : Bool := startsWith bs tags_Packet.1 && endsWith bs tags_Packet.2

/-- packet.py `handle` on the long-lived instance: BOTH attributes are overwritten, whatever they held -/
def handle (_c : PC) (bs : Bytes) (ip : Bytes) (port : Nat) : PC :=
  match extract (sliceNegEnd 7 8 bs) with
  | some (src, dst, data) => { parms := some (ip, port, some src, some dst), content := some data }
  | none => { parms := some (ip, port, none, none), content := none }

/-- `_async_on_packet`: what is put back on the queue (`none` = dropped with a warning) -/
def requeue (sp : Conn) (c : PC) : Option (Option Bytes) :=
  if c.parms = some (sp.ip, sp.port, some sp.spaId, some sp.clientId) then some c.content else none

/-- the consume loop over the datagrams this consumer pops: the re-queued contents, in order, and the final object -/
def consume (sp : Conn) : PC → List (Bytes × Bytes × Nat) → List (Option Bytes) × PC
  | c, [] => ([], c)
  | c, (bs, ip, port) :: rest =>
    let c' := handle c bs ip port
    let r := consume sp c' rest
    match requeue sp c' with
    | some x => (x :: r.1, r.2)
    | none => r

/-- the specification: a datagram is re-queued iff it parses and carries exactly this connection's address and
identifier pair; what is re-queued is its DATAS content; nothing depends on earlier datagrams -/
def requeueSpec (sp : Conn) (d : Bytes × Bytes × Nat) : Option (Option Bytes) :=
  match extract (sliceNegEnd 7 8 d.1) with
  | some (src, dst, data) => if d.2.1 = sp.ip ∧ d.2.2 = sp.port ∧ src = sp.spaId ∧ dst = sp.clientId then some (some data) else none
  | none => none

end GeckoModel.PacketConsumer
