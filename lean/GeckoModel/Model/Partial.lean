/-
Hand model of the partial-update (STATP / STATQ) path of both clients:
  async  : GeckoAsyncPartialStatusBlockProtocolHandler.async_handle + GeckoAsyncSpa._async_on_partial_status_update
  threaded: GeckoPartialStatusBlockProtocolHandler.handle + GeckoSpa._on_partial_status_update
The record slicing arithmetic, the presence and place of `self.changes = []`, the `for … else: changes.clear()`, the
order "acknowledge, then parse" and the counter kind of the acknowledgement are NOT written here: they are the
generated definitions of `Generated/PartialFacts.lean`, re-extracted from the source on every run.
-/
import GeckoModel.Model.Bytes
import GeckoModel.Generated.PartialFacts
import GeckoModel.Generated.SeqCounter

namespace GeckoModel
open GeckoModel.Generated

structure Change where
  pos : Nat
  data : List Byte
deriving Repr, DecidableEq

/-- Python slice `l[lo:hi]` -/
def pySlice (l : List Byte) (lo hi : Nat) : List Byte := (l.drop lo).take (hi - lo)

/-- `struct.unpack(">H", s)[0]`; `none` = struct.error -/
def be16? : List Byte → Option Nat
  | [hi, lo] => some (hi.toNat * 256 + lo.toNat)
  | _ => none

/-- the record loop `for i in range(change_count)` from record `i` on; `none` = struct.error on a short position slice -/
def parseRecordsFrom (posLo posHi dataLo dataHi : Nat → Nat) (rem : List Byte) : Nat → Nat → Option (List Change)
  | _, 0 => some []
  | i, n + 1 =>
    match be16? (pySlice rem (posLo i) (posHi i)) with
    | none => none
    | some pos =>
      match parseRecordsFrom posLo posHi dataLo dataHi rem (i + 1) n with
      | none => none
      | some rest => some (⟨pos, pySlice rem (dataLo i) (dataHi i)⟩ :: rest)

/-- the records of one STATP body (`remainder` = the bytes after the verb); `none` = struct.error -/
def parseStatp (posLo posHi dataLo dataHi : Nat → Nat) (rem : List Byte) : Option (List Change) :=
  match rem with
  | [] => none
  | c :: _ => parseRecordsFrom posLo posHi dataLo dataHi rem 0 c.toNat

def parseStatpAsync := parseStatp recPosLoAsync recPosHiAsync recDataLoAsync recDataHiAsync
def parseStatpSync := parseStatp recPosLoSync recPosHiSync recDataLoSync recDataHiSync

def applyChanges (b : Block) (cs : List Change) : Block := cs.foldl (fun b c => replaceSeg b c.pos c.data) b

/-- the part of a client the property speaks about -/
structure PClient where
  block : Block
  changes : List Change      -- handler.changes (the long-lived handler object)
  seq : SeqState             -- the connection's sequence counters
  acks : List Int            -- sequence numbers of the STATQ datagrams sent so far
deriving Repr

inductive PEvent
  | statp (rem : List Byte)               -- an unsolicited partial-update message (body after the verb)
  | refresh (off : Nat) (seg : List Byte) -- a completed refresh installs `seg` at `off`
deriving Repr

/-- async client, one STATP (well-formed body; a malformed one is outside the property's quantifier and the model) -/
def PClient.statpAsync (c : PClient) (rem : List Byte) : Option PClient :=
  match parseStatpAsync rem with
  | none => none
  | some recs =>
    let r := nextSeqAsync c.seq ackUsesCommandCounterAsync
    let pending := (if resetsChangesAsync then [] else c.changes) ++ recs
    some { block := if asyncAppliesInOrder then applyChanges c.block pending else c.block,
           changes := pending, seq := r.1, acks := c.acks ++ [r.2] }

/-- threaded client, one STATP -/
def PClient.statpSync (c : PClient) (rem : List Byte) : Option PClient :=
  match parseStatpSync rem with
  | none => none
  | some recs =>
    let r := nextSeqSync c.seq ackUsesCommandCounterSync
    let pending := (if resetsChangesSync then [] else c.changes) ++ recs
    some { block := if syncAppliesInOrder then applyChanges c.block pending else c.block,
           changes := if syncClearsAfterApply then [] else pending, seq := r.1, acks := c.acks ++ [r.2] }

def PClient.refresh (c : PClient) (off : Nat) (seg : List Byte) : PClient :=
  { c with block := replaceSeg c.block off seg }

def PClient.stepWith (statp : PClient → List Byte → Option PClient) (c : PClient) : PEvent → Option PClient
  | .statp rem => statp c rem
  | .refresh off seg => some (c.refresh off seg)

def PClient.runWith (statp : PClient → List Byte → Option PClient) : PClient → List PEvent → Option PClient
  | c, [] => some c
  | c, e :: es =>
    match PClient.stepWith statp c e with
    | none => none
    | some c' => PClient.runWith statp c' es

def PClient.runAsync := PClient.runWith PClient.statpAsync
def PClient.runSync := PClient.runWith PClient.statpSync

/-- **the reference**: apply every update once, in arrival order -/
def refBlock (parse : List Byte → Option (List Change)) : Block → List PEvent → Option Block
  | b, [] => some b
  | b, .statp rem :: es =>
    match parse rem with
    | none => none
    | some recs => refBlock parse (applyChanges b recs) es
  | b, .refresh off seg :: es => refBlock parse (replaceSeg b off seg) es

end GeckoModel
