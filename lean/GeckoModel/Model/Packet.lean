/-
`GeckoPacketProtocolHandler`: framing, and an explicit model of the one regular expression of the library,

    re.search(b"<SRCCN>(.*)</SRCCN><DESCN>(.*)</DESCN><DATAS>(.*)</DATAS>", content, re.DOTALL)

as a backtracking matcher: leftmost match start; each group tried at every split position in the order a backtracking
engine tries them (greedy `(.*)`: longest first; lazy `(.*?)`: shortest first), the rest of the pattern being the
continuation.  With DOTALL `.` matches every byte, so a group is any byte string.  The four literals and the
greediness of the three groups are `Generated.WireFormats.regexLits / regexGreedy`, read from the source.

Also `decode`: the dispatch over all handler classes.
-/
import GeckoModel.Model.Wire

namespace GeckoModel.Wire
open GeckoModel.Generated.WireFormats

/-- the pattern `lit rest` tried at the start of `s`: `k` is the rest of the pattern applied to the text after `lit` -/
def here {α : Type} (lit : Bytes) (k : Bytes → Option α) (s : Bytes) : Option (Bytes × α) :=
  if lit.isPrefixOf s then
    match k (s.drop lit.length) with
    | some r => some ([], r)
    | none => none
  else none

/-- a group `(.*)` (greedy) or `(.*?)` (lazy) followed by `lit` and the rest of the pattern `k`, matched at the start of
`s`.  Returns the text of the group and the result of the rest.  Greedy: the longest group for which the rest matches
(try the longer ones first); lazy: the shortest. -/
def group {α : Type} (greedy : Bool) (lit : Bytes) (k : Bytes → Option α) : Bytes → Option (Bytes × α)
  | [] => here lit k []
  | c :: t =>
    if greedy then
      match group greedy lit k t with
      | some (g, r) => some (c :: g, r)
      | none => here lit k (c :: t)
    else
      match here lit k (c :: t) with
      | some r => some r
      | none =>
        match group greedy lit k t with
        | some (g, r) => some (c :: g, r)
        | none => none

abbrev Lits := Bytes × Bytes × Bytes × Bytes
abbrev Greed := Bool × Bool × Bool

/-- the whole pattern anchored at the start of `s` -/
def matchHere (gr : Greed) (ls : Lits) (s : Bytes) : Option (Bytes × Bytes × Bytes) :=
  if ls.1.isPrefixOf s then
    match group gr.1 ls.2.1
        (fun s2 => group gr.2.1 ls.2.2.1 (fun s3 => group gr.2.2 ls.2.2.2 (fun _ => some ()) s3) s2)
        (s.drop ls.1.length) with
    | some (g1, g2, g3, _) => some (g1, g2, g3)
    | none => none
  else none

/-- `re.search`: the match with the leftmost start -/
def search (gr : Greed) (ls : Lits) : Bytes → Option (Bytes × Bytes × Bytes)
  | [] => matchHere gr ls []
  | c :: t =>
    match matchHere gr ls (c :: t) with
    | some r => some r
    | none => search gr ls t

/-- `_extract_packet_parts(content)` with the regex of the source -/
def extract (content : Bytes) : Option (Bytes × Bytes × Bytes) := search regexGreedy regexLits content

/-- packet.py `handle`: `parms = (sender[0], sender[1], src, dst)`, `packet_content`; no match leaves three `None`s -/
def decodePacket (bs : Bytes) : Except Err Decoded :=
  match extract (sliceNegEnd 7 8 bs) with
  | some (src, dst, c) => .ok (.packet (some src) (some dst) (some c))
  | none => .ok (.packet none none none)

/-- the same with an explicit greediness (used to state what the repaired regex achieves) -/
def decodePacketWith (gr : Greed) (bs : Bytes) : Except Err Decoded :=
  match search gr regexLits (sliceNegEnd 7 8 bs) with
  | some (src, dst, c) => .ok (.packet (some src) (some dst) (some c))
  | none => .ok (.packet none none none)

/-- the text between `<PACKT>` and `</PACKT>` of a frame whose SRCCN is `src` and DESCN is `dst` -/
def frameBody (src dst payload : Bytes) : Bytes :=
  SRCCN_OPEN ++ src ++ SRCCN_CLOSE ++ DESCN_OPEN ++ dst ++ DESCN_CLOSE ++ DATAS_OPEN ++ payload ++ DATAS_CLOSE

/-- a reply built with `parms=` the parms a packet handler holds after `handle(received, sender)` -/
def replyTo (received reply : Bytes) : Option Bytes :=
  match decodePacket received with
  | .ok (.packet (some src) (some dst) _) => some (frame src dst reply)
  | _ => none

/-- `handle(bytes, sender)` on a fresh instance of the handler class -/
def decode (k : Handler) (bs : Bytes) : Except Err Decoded :=
  match k with
  | .hello => decodeHello bs
  | .packet => decodePacket bs
  | .ping => decodePing bs
  | .version => decodeVersion bs
  | .channel => decodeChannel bs
  | .config => decodeConfig bs
  | .status => decodeStatus bs
  | .partialStatus => decodePartial bs
  | .asyncPartialStatus => decodeAsyncPartial bs
  | .watercare => decodeWatercare bs
  | .wcerr => .ok .nothing
  | .firmware => decodeFirmware bs
  | .reminders => decodeReminders bs
  | .rferr => .ok (.rferr 1)
  | .pack => decodePack bs
  | .unhandled => .ok .nothing

/-! ### which handler a message is meant for, and what a correct decoder reports for it -/

/-- the handler classes that are meant to claim the message (the threaded and the awaitable partial-update handlers
are twins: an application installs one of them) -/
def Msg.handlers : Msg → List Handler
  | .helloBroadcast | .helloClient _ | .helloResponse _ _ => [.hello]
  | .pingRequest | .pingResponse => [.ping]
  | .versionRequest _ | .versionResponse .. => [.version]
  | .channelRequest _ | .channelResponse .. => [.channel]
  | .configRequest _ | .configResponse .. => [.config]
  | .statusRequest .. | .statusSegment .. => [.status]
  | .partialUpdate _ | .partialAck _ => [.partialStatus, .asyncPartialStatus]
  | .keypress .. | .setValue .. | .packResponse => [.pack]
  | .wcRequest _ | .wcSet .. | .wcResponse _ | .wcGiveSchedule => [.watercare]
  | .remindersRequest _ | .remindersResponse _ => [.reminders]
  | .firmwareRequest _ | .firmwareResponse => [.firmware]
  | .rferr => [.rferr]

def Msg.handler (m : Msg) : Handler := m.handlers.headD .unhandled

/-- big-endian bytes of the data word of a set-value command -/
def setValueData (len data : Int) : Bytes :=
  if len = 1 then Code.bytes true .B data else Code.bytes true .H data

/-- the attributes a fresh handler must hold after handling the message: the fields it was built from -/
def Msg.fields : Msg → Decoded
  | .helloBroadcast => .hello true none none none
  | .helloClient id => .hello false (some id) none none
  | .helloResponse id name => .hello false none (some id) (some name)
  | .pingRequest => .ping none
  | .pingResponse => .ping (some 0)
  | .versionRequest seq => .version (some seq) none false
  | .versionResponse a b c d e f => .version none (some (a, b, c, d, e, f)) true
  | .channelRequest seq => .channel (some seq) none false
  | .channelResponse ch sg => .channel none (some (ch, sg)) true
  | .configRequest seq => .config (some seq) none false
  | .configResponse p c l => .config none (some (if p == mrstAlias.1 then mrstAlias.2 else p, Int.ofNat c, Int.ofNat l)) true
  | .statusRequest seq start len => .status (some seq) (some start) (some len) none none
  | .statusSegment i n block => .status (some i) none (some (Int.ofNat block.length)) (some n) (some block)
  | .partialUpdate changes => .partialStatus none changes true
  | .partialAck seq => .partialStatus (some seq) [] false
  | .keypress seq pt key => .pack (some seq) (some pt) true (some key) false none none false
  | .setValue seq pt _ _ pos len data => .pack (some seq) (some pt) false none true (some pos) (some (setValueData len data)) false
  | .packResponse => .pack none none false none false none none true
  | .wcRequest seq => .watercare (some seq) none false false
  | .wcSet seq mode => .watercare (some seq) (some mode) false false
  | .wcResponse mode => .watercare none (some mode) false true
  | .wcGiveSchedule => .watercare none none false true
  | .remindersRequest seq => .reminders (some seq) [] false
  | .remindersResponse rs => .reminders none rs true
  | .firmwareRequest seq => .firmware (some seq) false
  | .firmwareResponse => .firmware none true
  | .rferr => .rferr 1

/-! ### the domains of the round-trip statements -/

def isOk {ε α : Type} : Except ε α → Bool
  | .ok _ => true
  | .error _ => false

def u8 (v : Int) : Bool := Code.inRange .B v
def u16 (v : Int) : Bool := Code.inRange .H v
def i16 (v : Int) : Bool := Code.inRange .h v

/-- what `struct.pack` (and `set_value`'s length switch) accept: exactly the field values for which the constructor
returns instead of raising (`Properties/C04.lean: inRange_iff_encodes`) -/
def Msg.inRange : Msg → Bool
  | .helloBroadcast | .helloClient _ | .helloResponse _ _ => true
  | .pingRequest | .pingResponse | .packResponse | .wcGiveSchedule | .firmwareResponse | .rferr => true
  | .versionRequest seq | .channelRequest seq | .configRequest seq | .wcRequest seq | .remindersRequest seq
  | .firmwareRequest seq | .partialAck seq => u8 seq
  | .versionResponse a b c d e f => u16 a && u8 b && u8 c && u16 d && u8 e && u8 f
  | .channelResponse ch sg => u8 ch && u8 sg
  | .configResponse _ _ _ => true
  | .statusRequest seq start len => u8 seq && u16 start && u16 len
  | .statusSegment i n block => u8 i && u8 n && decide (block.length < 256)
  | .partialUpdate changes => changes.all (fun pd => u16 pd.1) && decide (changes.length < 256)
  | .keypress seq pt key => u8 seq && u8 pt && u8 key
  | .setValue seq pt cv lv pos len data =>
    ((len == 1 && u8 data) || (len == 2 && u16 data)) && (u8 seq && u8 pt && u8 cv && u8 lv && u16 pos)
  | .wcSet seq mode => u8 seq && u8 mode
  | .wcResponse mode => u8 mode
  | .remindersResponse rs => rs.all fun td => u8 td.1 && i16 td.2

/-- what the 4-byte-record STATP decoder can read back: every record but the last carries exactly 2 data bytes, the
last at most 2 (the library sends one record of 1 or 2 data bytes per message) -/
def StatpOK : List (Int × Bytes) → Bool
  | [] => true
  | [(_, d)] => d.length ≤ 2
  | (_, d) :: r => d.length == 2 && StatpOK r

/-- a platform name that survives the FILES text format: no `,`, `_` or `.` -/
def GoodName (p : Bytes) : Bool := p.all fun b => b != 44 && b != 95 && b != 46

/-- the interoperability domain beyond `inRange`: values the peer decoder is specified for -/
def Msg.inDomain : Msg → Bool
  | .helloClient id => helloClientPrefixes.any (startsWith id)          -- client identifiers start with IOS / AND
  | .helloResponse id _ => !id.contains helloSep && !helloClientPrefixes.any (startsWith id)   -- the NAME is unrestricted
  | .configResponse p _ _ => GoodName p
  | .partialUpdate changes => StatpOK changes
  | .remindersResponse rs => rs.all fun td => reminderTypeValues.contains td.1     -- GeckoReminderType values
  | _ => true

/-- messages whose verb is not tested by the `can_handle` of a handler class meant for them — computed from the verb
lists the translator reads out of every `can_handle` (none today: `C04.orphan_none`; before the fix of D4: SETWC, WCREQ) -/
def Msg.orphan (m : Msg) : Bool :=
  match m.verb with
  | some v => m.handlers.any fun k => !k.claims.contains v
  | none => false

/-- `lit` occurs in `s` as a contiguous substring -/
def occurs (lit : Bytes) : Bytes → Bool
  | [] => lit.isPrefixOf []
  | c :: t => lit.isPrefixOf (c :: t) || occurs lit t

/-! ### attribute view of a decoded state (names as in the Python classes) -/

inductive Val
  | none
  | int (v : Int)
  | bool (b : Bool)
  | bytes (b : Bytes)
  | pairs (l : List (Int × Int))
  | changes (l : List (Int × Bytes))
deriving Repr, DecidableEq

def optInt : Option Int → Val
  | some v => .int v
  | Option.none => .none

def optBytes : Option Bytes → Val
  | some v => .bytes v
  | Option.none => .none

/-- the attributes a test or a caller reads off the handler after `handle()`, in a fixed order -/
def Decoded.attrs : Decoded → List (String × Val)
  | .hello b c s n => [("was_broadcast_discovery", .bool b), ("_client_identifier", optBytes c), ("_spa_identifier", optBytes s),
      ("_spa_name", optBytes n), ("should_remove_handler", .bool false)]
  | .packet s d c => [("parms[2]", optBytes s), ("parms[3]", optBytes d), ("packet_content", optBytes c),
      ("should_remove_handler", .bool false)]
  | .ping s => [("_sequence", optInt s), ("should_remove_handler", .bool false)]
  | .version s v r =>
    [("_sequence", optInt s), ("en_build", optInt (v.map (·.1))), ("en_major", optInt (v.map (·.2.1))),
     ("en_minor", optInt (v.map (·.2.2.1))), ("co_build", optInt (v.map (·.2.2.2.1))), ("co_major", optInt (v.map (·.2.2.2.2.1))),
     ("co_minor", optInt (v.map (·.2.2.2.2.2))), ("should_remove_handler", .bool r)]
  | .channel s v r => [("_sequence", optInt s), ("channel", optInt (v.map (·.1))), ("signal_strength", optInt (v.map (·.2))),
      ("should_remove_handler", .bool r)]
  | .config s v r => [("_sequence", optInt s), ("plateform_key", optBytes (v.map (·.1))), ("config_version", optInt (v.map (·.2.1))),
      ("log_version", optInt (v.map (·.2.2))), ("should_remove_handler", .bool r)]
  | .status s st ln nx d => [("sequence", optInt s), ("start", optInt st), ("length", optInt ln), ("next", optInt nx),
      ("data", optBytes d), ("should_remove_handler", .bool false)]
  | .partialStatus s ch _ => [("sequence", optInt s), ("changes", .changes ch), ("should_remove_handler", .bool false)]
  | .pack s pt ik kc isv pos nd r => [("_sequence", optInt s), ("pack_type", optInt pt), ("is_key_press", .bool ik),
      ("keycode", optInt kc), ("is_set_value", .bool isv), ("position", optInt pos), ("new_data", optBytes nd),
      ("should_remove_handler", .bool r)]
  | .watercare s m sc r => [("_sequence", optInt s), ("mode", optInt m), ("schedule", .bool sc), ("should_remove_handler", .bool r)]
  | .reminders s rs r => [("_sequence", optInt s), ("reminders", .pairs rs), ("should_remove_handler", .bool r)]
  | .firmware s r => [("_sequence", optInt s), ("should_remove_handler", .bool r)]
  | .rferr n => [("total_error_count", .int (Int.ofNat n)), ("should_remove_handler", .bool false)]
  | .nothing => [("should_remove_handler", .bool false)]

/-- property aliases of the hello handler -/
def attrAlias (a : String) : String :=
  if a == "client_identifier" then "_client_identifier" else if a == "spa_identifier" then "_spa_identifier"
  else if a == "spa_name" then "_spa_name" else a

def Decoded.get (d : Decoded) (a : String) : Option Val := d.attrs.lookup (attrAlias a)

/-- a pinned decode vector holds: `handle` succeeds and every asserted attribute has the asserted value -/
def checkDecodeVector (v : String × Handler × Bytes × List (String × Val)) : Bool :=
  match decode v.2.1 v.2.2.1 with
  | .ok d => v.2.2.2.all fun a => d.get a.1 == some a.2
  | .error _ => false

end GeckoModel.Wire
