/-
C08 — vocabulary of the lifecycle table.

`Generated/LifecycleEnums.lean` (the members of GeckoSpaState / GeckoSpaEvent and `GeckoSpaState.to_string`) is
regenerated from /repo on every run; this file fixes the *vocabulary* in which `harness/gen_c08.py` writes the
`_handle_event` chain, `async_reset`, `GeckoAsyncSpa.disconnect`, the two try/finally phases and the event sequences of
`GeckoAsyncSpa._connect` as data (`Generated/LifecycleTable.lean`).  A statement outside this vocabulary makes the
translator refuse.
-/
import GeckoModel.Generated.LifecycleEnums

namespace GeckoModel.Lifecycle

/-- automation objects the manager creates inside `_handle_event` -/
inductive Created | statusSensor | reconnectButton | pingSensor | radioSensor | channelSensor
deriving DecidableEq, Repr

/-- what a constructor dereferences (an absent one raises: `unique_id`/`spa_name` assert, `spaman._spa.signal`) -/
inductive Need | ident | name | spa
deriving DecidableEq, Repr

/-- statements of one `if/elif` branch of `_handle_event` -/
inductive Action
  | setState (s : SpaState)        -- self._spa_state = GeckoSpaState.s
  | emit (e : Event)               -- await self._handle_event(GeckoSpaEvent.e)   (nested: delivered BEFORE the outer event)
  | create (c : Created)           -- self._x = GeckoAsyncSpaMan.X(self)
  | reset                          -- await self.async_reset()
  | refreshRadio                   -- self._radio_sensor.set_signal(self._spa.signal)
  | refreshChannel                 -- self._channel_sensor.set_channel(self._spa.channel)
  | assertFacade                   -- assert self.facade is not None
  | assertSpa                      -- assert self._spa is not None
  | wcRefresh                      -- self.facade._water_care.change_watercare_mode(await self._spa.async_get_watercare())
deriving DecidableEq, Repr

inductive Guard
  | stateIn (ss : List SpaState)   -- if self._spa_state == s / in (s1, s2, ..)
  | facadeSome                     -- if self._facade is not None
  | spaSome                        -- if self._spa is not None  (an abandoned connection attempt may still report after a reset)
deriving DecidableEq, Repr

structure Branch where
  events : List Event
  guard : Option Guard
  actions : List Action
deriving DecidableEq, Repr

/-- statements of `async_reset` -/
inductive ROp
  | clearDesc | facadeDisconnect | clearFacade | spaDisconnect | clearSpa
  | setState (s : SpaState)
deriving DecidableEq, Repr

inductive RGuard | facadeSome | spaSome
deriving DecidableEq, Repr

structure RStmt where
  guard : Option RGuard
  ops : List ROp
deriving DecidableEq, Repr

/-- statements of `GeckoAsyncSpa.disconnect` (only the first two matter to the manager; the rest must be known) -/
inductive DOp
  | setConnFalse | raiseEvent (e : Event) | structReset | cancelTasks | closeProtocol | closeTransport | clearTransport | unwatchAll
deriving DecidableEq, Repr

/-- statements of `async_locate_spas` / `async_connect_to_spa` -/
inductive POp
  | emit (e : Event)               -- await self._handle_event(e, ...)
  | discover                       -- locator = GeckoAsyncLocator(...); await locator.discover()
  | storeDescriptors               -- self._spa_descriptors = locator.spas
  | assertNoFacade                 -- assert self._facade is None
  | setName                        -- self._spa_name = spa_descriptor.name
  | newSpa                         -- self._spa = GeckoAsyncSpa(...)
  | spaConnect                     -- await self._spa.connect()
  | buildFacadeIf (s : SpaState)   -- if self._spa_state == s: self._facade = GeckoAsyncFacade(self._spa, self)
deriving DecidableEq, Repr

/-- `pre` statements, then `try: body finally: fin`, then `return` -/
structure PhaseProg where
  pre : List POp
  body : List POp
  fin : List POp
deriving DecidableEq, Repr

/-- one step of `GeckoAsyncSpa._connect` as the manager sees it -/
inductive CStep
  | ev (e : Event)                 -- await self._event_handler(e)
  | setConnected                   -- self._is_connected = True
  | raise_                         -- an await inside `_connect` raises
  | openProtocol                   -- self._protocol = <the new datagram endpoint>
  | useProtocol                    -- await self._protocol.get(..) / await self.struct.get(self._protocol, ..): AttributeError once disconnected
  | checkAlive                     -- `if self._disconnected: transport.close(); return` right after the endpoint creation: `_connect`
                                   -- stops when the spa was disconnected meanwhile (the manager only disconnects a spa it then drops;
                                   -- stopping is modelled as leaving through the exception path: same events, same states)
deriving DecidableEq, Repr

structure Table where
  /-- `if self._status_sensor is None and self._spa_identifier is not None and self._spa_name is not None:` -/
  prologue : List Action
  /-- the `if/elif` chain in source order -/
  branches : List Branch
  /-- `if self._status_sensor is not None: self._status_sensor.on_event(event)` precedes `await self.handle_event(event)` -/
  touchBeforeDeliver : Bool
  /-- what each constructor dereferences -/
  needs : List (Created × List Need)
  resetProg : List RStmt
  disconnectProg : List DOp
  locateProg : PhaseProg
  connectProg : PhaseProg
  /-- `async_connect`: the event raised when the locate phase found nothing -/
  notFound : Event
  /-- `_connect`: the steps of the successful handshake -/
  connectOk : List CStep
  /-- `_connect`: each early `return` as (steps up to and including the terminal event) -/
  connectFail : List (List CStep)
  /-- events the spa raises at run time (ping loop, refresh loop, RFERR / WCERR handlers, set-value paths), deduplicated, source order -/
  runtimeEvents : List Event
  /-- the ping loop's miss path and the RFERR handler, in source order (the second is conditional) -/
  pingMiss : List Event
  rfErr : List Event
  /-- `async_get_watercare` returns 0 at once when the spa is not connected, else awaits the protocol; on retry exhaustion it raises this event -/
  wcFail : Event
  initialState : SpaState

end GeckoModel.Lifecycle
