/-
Model of `geckolib/config.py` (`set_config_mode`, `config_sleep`, the shared `ConfigChange` future) and of
`GeckoAsyncFacade._on_config_device_change` (automation/async_facade.py).  Core Lean only.

Python                                                         model
-------------------------------------------------------------  ---------------------------------------------
GeckoConfig (live object; attribute -> value)                   `Table`, `getAttr` / `setAttr`
for member in CONFIG_MEMBERS: setattr(.., getattr(new, member)) `copyMembers`
ConfigChange: Optional[Future]                                  `gen : Nat` (0 = None, k = the k-th future created), `done`
config_sleep(delay)                                             `Op.sleep id delay`  (renew when None or done, then wait)
asyncio.wait([ConfigChange], timeout=delay)                     the sleeper `(id, gen, start, deadline)`; leaves when its future
                                                                is resolved or when `deadline` is reached (`Op.tick`)
set_config_mode(active)                                         `Op.setMode active` (copy, assert, resolve if not done)
task.cancel() of a sleeping task                                `Op.cancel id` (asyncio.wait does not cancel the shared future)

Time is a counter of abstract ticks; an atomic step is the code between two suspending awaits.
-/
import GeckoModel.Generated.ConfigTables

namespace GeckoModel.Config
open GeckoModel.Generated.Config

inductive Err where
  | assertErr   -- `assert ConfigChange is not None`
  | attrErr     -- `getattr(new_config, member)` on a missing member
deriving Repr, DecidableEq

/-- `getattr(obj, k)` -/
def getAttr : Table → String → Option Int
  | [], _ => none
  | (k', v') :: rest, k => if k == k' then some v' else getAttr rest k

/-- `setattr(obj, k, v)`: replace in place, or add -/
def setAttr : Table → String → Int → Table
  | [], k, v => [(k, v)]
  | (k', v') :: rest, k, v => if k == k' then (k, v) :: rest else (k', v') :: setAttr rest k v

def keys (t : Table) : List String := t.map (·.1)

/-- `for member in members: setattr(live, member, getattr(src, member))`.
(An `AttributeError` would leave the members copied so far in place; the model reports only the error, and
`C17.setMode_total` shows it cannot happen for the shipped tables.) -/
def copyMembers (src : Table) : List String → Table → Except Err Table
  | [], live => .ok live
  | m :: ms, live =>
    match getAttr src m with
    | none => .error .attrErr
    | some v => copyMembers src ms (setAttr live m v)

/-- `_GeckoActiveConfig() if active else _GeckoIdleConfig()` -/
def tableOf (active : Bool) : Table := if active then activeTable else idleTable

/-- the copy loop of `set_config_mode` -/
def setMode (active : Bool) (live : Table) : Except Err Table :=
  copyMembers (tableOf active) configMembers live

/-! ### the facade rule -/

/-- state of a pump's / blower's state sensor: a BOOL-typed accessor, or an ENUM label -/
inductive DevState where
  | flag (b : Bool)
  | label (s : String)
deriving Repr, DecidableEq

/-- `GeckoPump.is_on` / `GeckoSwitch.is_on` -/
def DevState.isOn : DevState → Bool
  | .flag b => b
  | .label s => s != "OFF"

/-- `active_mode = False; for device in devices: if device.is_on: active_mode = True` -/
def chooseMode (devs : List DevState) : Bool :=
  devs.foldl (fun acc d => if d.isOn then true else acc) false

/-- `all_config_change_devices = self._pumps + self._blowers` -/
def facadeMode (pumps blowers : List DevState) : Bool := chooseMode (pumps ++ blowers)

/-! ### the sleeper system -/

structure Sleeper where
  id : Nat
  gen : Nat        -- the future it waits on
  start : Nat
  deadline : Nat   -- start + delay
deriving Repr, DecidableEq

inductive Cause where
  | timeout | switch | cancelled
deriving Repr, DecidableEq

/-- a sleeper that has left `asyncio.wait` -/
structure Wake where
  id : Nat
  start : Nat
  deadline : Nat
  at_ : Nat
  cause : Cause
deriving Repr, DecidableEq

structure Sys where
  t : Nat
  gen : Nat               -- 0: `ConfigChange is None`
  done : Bool             -- `ConfigChange.done()`
  sleepers : List Sleeper -- tasks suspended in `asyncio.wait`
  woken : List Wake       -- log, newest first
  live : Table            -- the live `GeckoConfig`
deriving Repr

def Sys.init : Sys := { t := 0, gen := 0, done := false, sleepers := [], woken := [], live := initialLive }

inductive Op where
  | sleep (id delay : Nat)
  | setMode (active : Bool)
  | tick
  | cancel (id : Nat)
deriving Repr, DecidableEq

/-- `if ConfigChange is None or ConfigChange.done(): ConfigChange = loop.create_future()` -/
def renew (s : Sys) : Sys :=
  if s.gen = 0 ∨ s.done = true then { s with gen := s.gen + 1, done := false } else s

/-- the sleepers selected by `p` leave the wait now -/
def wakeBy (s : Sys) (p : Sleeper → Bool) (c : Cause) : Sys :=
  { s with sleepers := s.sleepers.filter (fun sl => !p sl),
           woken := (s.sleepers.filter p).map (fun sl => ⟨sl.id, sl.start, sl.deadline, s.t, c⟩) ++ s.woken }

/-- `config_sleep(delay)`; a zero timeout expires in the same instant -/
def doSleep (s : Sys) (id delay : Nat) : Sys :=
  let s := renew s
  if delay = 0 then { s with woken := ⟨id, s.t, s.t, s.t, .timeout⟩ :: s.woken }
  else { s with sleepers := s.sleepers ++ [⟨id, s.gen, s.t, s.t + delay⟩] }

/-- time advances by one tick; every timeout that is due fires -/
def doTick (s : Sys) : Sys :=
  let s := { s with t := s.t + 1 }
  wakeBy s (fun sl => decide (sl.deadline ≤ s.t)) .timeout

/-- `set_config_mode(active)`: copy every member, `assert ConfigChange is not None`,
`if not ConfigChange.done(): ConfigChange.set_result(True)` — which wakes exactly the tasks waiting on *that* future -/
def doSetMode (s : Sys) (active : Bool) : Sys × Except Err Unit :=
  match setMode active s.live with
  | .error e => (s, .error e)
  | .ok live' =>
    let s := { s with live := live' }
    if s.gen = 0 then (s, .error .assertErr)
    else if s.done then (s, .ok ())
    else (wakeBy { s with done := true } (fun sl => sl.gen == s.gen) .switch, .ok ())

/-- cancelling a task suspended in `asyncio.wait`: it leaves; the shared future is untouched -/
def doCancel (s : Sys) (id : Nat) : Sys := wakeBy s (fun sl => sl.id == id) .cancelled

def step (s : Sys) : Op → Sys × Except Err Unit
  | .sleep id d => (doSleep s id d, .ok ())
  | .setMode b => doSetMode s b
  | .tick => (doTick s, .ok ())
  | .cancel id => (doCancel s id, .ok ())

/-- run a whole op sequence (an exception of `set_config_mode` is seen by its caller; the module state stays as the step left it) -/
def run (s : Sys) : List Op → Sys
  | [] => s
  | op :: ops => run (step s op).1 ops

end GeckoModel.Config
