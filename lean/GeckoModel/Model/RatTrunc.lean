/-
Python's `int(x)` on a real number: truncation toward zero, over core `Rat`.  Used by the generated temperature
arithmetic (`Generated/TempArith.lean`, C14).  Core Lean only.
-/
namespace GeckoModel

/-- `int(x)`: truncation toward zero -/
def truncZ (x : Rat) : Int := if 0 ≤ x then x.floor else -((-x).floor)

/-- absolute value (own definition: keeps the statements independent of library names) -/
def absQ (x : Rat) : Rat := if 0 ≤ x then x else -x

end GeckoModel
