/-
Byte-string and `struct` primitives shared by the wire-format model (C04).  Core Lean only.

Python `bytes` are `List UInt8`; latin-1 text is the same list (latin-1 is the identity on code points 0..255, a
fact about CPython exercised by the correspondence with non-ASCII names, not a theorem).  Python `int`s crossing
`struct.pack` are `Int`, so that out-of-range values are explicit `struct.error`s.

`Fmt` is the parsed form of a `struct` format string; `Generated/WireFormats.lean` contains one `Fmt` term per format
string found in the source, so an edited format string is a different Lean term.
-/
namespace GeckoModel.Wire

abbrev Bytes := List UInt8

/-- the Python exceptions the protocol code can raise -/
inductive Err
  | structErr     -- struct.error: value out of range on pack, wrong buffer size on unpack, wrong number of items
  | valueErr      -- ValueError: split() unpack arity, int() of a non-number, dissimilar platforms
  | indexErr      -- IndexError: list index out of range
  | overflowErr   -- OverflowError(len) of set_value
  | typeErr       -- TypeError
  | outOfModel    -- a value the model does not cover (exotic int() syntax); never compared
deriving Repr, DecidableEq

/-- decidable equality of results (scoped: only where this namespace is open) -/
scoped instance {ε α : Type} [DecidableEq ε] [DecidableEq α] : DecidableEq (Except ε α)
  | .ok a, .ok b => if h : a = b then isTrue (by rw [h]) else isFalse (fun e => h (by cases e; rfl))
  | .error a, .error b => if h : a = b then isTrue (by rw [h]) else isFalse (fun e => h (by cases e; rfl))
  | .ok _, .error _ => isFalse (fun e => by cases e)
  | .error _, .ok _ => isFalse (fun e => by cases e)

/-! ### slices -/

/-- `s[a:b]` for non-negative `a`, `b` -/
def slice (a b : Nat) (s : Bytes) : Bytes := (s.take b).drop a

/-- `s[a:-k]` for non-negative `a`, positive `k` -/
def sliceNegEnd (a k : Nat) (s : Bytes) : Bytes := (s.take (s.length - k)).drop a

def startsWith (s pre : Bytes) : Bool := pre.isPrefixOf s
def endsWith (s suf : Bytes) : Bool := suf.isSuffixOf s

/-! ### struct -/

inductive Code
  | B    -- unsigned char
  | H    -- unsigned short
  | h    -- signed short
deriving Repr, DecidableEq

/-- a parsed `struct` format string: byte order mark (`>` = big, `<` = little) and the item codes -/
structure Fmt where
  big : Bool
  codes : List Code
deriving Repr, DecidableEq

def Code.size : Code → Nat
  | .B => 1 | .H => 2 | .h => 2

def Code.inRange : Code → Int → Bool
  | .B, v => decide (0 ≤ v ∧ v < 256)
  | .H, v => decide (0 ≤ v ∧ v < 65536)
  | .h, v => decide (-32768 ≤ v ∧ v < 32768)

def Fmt.size (f : Fmt) : Nat := (f.codes.map Code.size).sum

def byteOf (n : Nat) : UInt8 := UInt8.ofNat n

/-- two bytes of `n < 65536` in the given order -/
def word (big : Bool) (n : Nat) : Bytes :=
  if big then [byteOf (n / 256), byteOf (n % 256)] else [byteOf (n % 256), byteOf (n / 256)]

/-- the bytes of one in-range item -/
def Code.bytes (big : Bool) : Code → Int → Bytes
  | .B, v => [byteOf v.toNat]
  | .H, v => word big v.toNat
  | .h, v => word big (v % 65536).toNat

/-- `struct.pack` items, `none` = struct.error (out of range, or wrong number of items) -/
def packItems (big : Bool) : List Code → List Int → Option Bytes
  | [], [] => some []
  | c :: cs, v :: vs =>
    if c.inRange v then
      match packItems big cs vs with
      | some r => some (c.bytes big v ++ r)
      | none => none
    else none
  | _, _ => none

/-- `struct.pack(fmt, *vs)` -/
def pack (f : Fmt) (vs : List Int) : Except Err Bytes :=
  match packItems f.big f.codes vs with
  | some b => .ok b
  | none => .error .structErr

def wordVal (big : Bool) (a b : UInt8) : Nat :=
  if big then a.toNat * 256 + b.toNat else b.toNat * 256 + a.toNat

/-- `struct.unpack` items; `none` = struct.error (buffer size differs from the format size) -/
def unpackItems (big : Bool) : List Code → Bytes → Option (List Int)
  | [], [] => some []
  | [], _ :: _ => none
  | .B :: cs, a :: r => (unpackItems big cs r).map (Int.ofNat a.toNat :: ·)
  | .H :: cs, a :: b :: r => (unpackItems big cs r).map (Int.ofNat (wordVal big a b) :: ·)
  | .h :: cs, a :: b :: r =>
    (unpackItems big cs r).map
      ((if wordVal big a b < 32768 then Int.ofNat (wordVal big a b) else Int.ofNat (wordVal big a b) - 65536) :: ·)
  | _ :: _, _ => none

/-- `struct.unpack(fmt, bs)` -/
def unpack (f : Fmt) (bs : Bytes) : Except Err (List Int) :=
  match unpackItems f.big f.codes bs with
  | some v => .ok v
  | none => .error .structErr

/-! ### split / replace / int() -/

/-- `bytes.split(sep)` for a one-byte separator; the result is never empty: `(first, rest)` -/
def splitOn (sep : UInt8) : Bytes → Bytes × List Bytes
  | [] => ([], [])
  | c :: t =>
    let r := splitOn sep t
    if c == sep then ([], r.1 :: r.2) else (c :: r.1, r.2)

def splitList (sep : UInt8) (s : Bytes) : List Bytes := (splitOn sep s).1 :: (splitOn sep s).2

/-- `bytes.split(sep, 1)`: at most one split, at the first separator -/
def splitFirst (sep : UInt8) : Bytes → Bytes × Option Bytes
  | [] => ([], none)
  | c :: t =>
    if c == sep then ([], some t)
    else let r := splitFirst sep t; (c :: r.1, r.2)

/-- `s.replace(pat, b"")` for a non-empty pattern: the leftmost non-overlapping occurrences are removed.
`skip` = number of bytes of an already matched occurrence still to be dropped. -/
def removeAllAux (pat : Bytes) : Nat → Bytes → Bytes
  | _, [] => []
  | skip + 1, _ :: t => removeAllAux pat skip t
  | 0, c :: t => if pat.isPrefixOf (c :: t) then removeAllAux pat (pat.length - 1) t else c :: removeAllAux pat 0 t

def removeAll (pat : Bytes) (s : Bytes) : Bytes := removeAllAux pat 0 s

def isDigit (c : UInt8) : Bool := 48 ≤ c.toNat && c.toNat ≤ 57

def digitsVal (s : Bytes) (init : Nat) : Nat := s.foldl (fun acc c => 10 * acc + (c.toNat - 48)) init

/-- bytes that make Python's `int()` accept more than plain digits (sign, underscore, whitespace incl. the latin-1
ones): inputs containing one are out of model -/
def intExotic (c : UInt8) : Bool :=
  c == 43 || c == 45 || c == 95 || c == 32 || (9 ≤ c.toNat && c.toNat ≤ 13) || (28 ≤ c.toNat && c.toNat ≤ 31) ||
  c == 133 || c == 160

/-- `int(s)` on latin-1 text: plain ASCII digits only -/
def parseInt (s : Bytes) : Except Err Int :=
  if s.isEmpty then .error .valueErr
  else if s.all isDigit then .ok (Int.ofNat (digitsVal s 0))
  else if s.any intExotic then .error .outOfModel
  else .error .valueErr

/-- `f"{n:02}"` for a non-negative int -/
def pad2 (n : Nat) : Bytes :=
  let ds := (Nat.toDigits 10 n).map fun c => UInt8.ofNat c.toNat
  if n < 10 then 48 :: ds else ds

end GeckoModel.Wire
