/-
Hand model of `driver/spastruct.py` / `driver/async_spastruct.py` (the block, the accessor dictionary, change
notification) and `driver/observable.py`.  Both structure classes have the same `replace_status_block_segment`; the
correspondence check runs both.  The byte-range intersection filter is `Generated.intersects` (translated from
`GeckoStructAccessor.status_block_changed`).
-/
import GeckoModel.Model.Accessor

namespace GeckoModel
open GeckoModel.Generated

abbrev ObsId := Nat

/-- `dict(config_class.accessors, **log_class.accessors)`: config items in order (a log item with the same key takes the
config item's place), then the log items with new keys -/
def mergeItems (cfg log : List Item) : List Item :=
  cfg.map (fun c => match log.find? (·.key == c.key) with | some l => l | none => c) ++
  log.filter (fun l => !(cfg.any (·.key == l.key)))

structure StructState where
  block : Block
  items : List Item                  -- `accessors.values()` in dict order
  obs : List (String × ObsId)        -- (item key, observer) in registration order
deriving Repr

/-- observers of one item, in the order `_on_change` calls them -/
def StructState.obsFor (s : StructState) (key : String) : List ObsId :=
  (s.obs.filter (·.1 == key)).map (·.2)

/-- `Observable.watch`: a second registration of the same observer is ignored -/
def StructState.watch (s : StructState) (key : String) (o : ObsId) : StructState :=
  if (key, o) ∈ s.obs then s else { s with obs := s.obs ++ [(key, o)] }

/-- `Observable.unwatch` (`list.remove`): `none` = ValueError when the observer is not registered -/
def StructState.unwatch (s : StructState) (key : String) (o : ObsId) : Option StructState :=
  if (key, o) ∈ s.obs then some { s with obs := s.obs.erase (key, o) } else none

/-- `Observable.unwatch_all` -/
def StructState.unwatchAll (s : StructState) (key : String) : StructState :=
  { s with obs := s.obs.filter (·.1 != key) }

/-- one observer call: `observer(sender, old, new)` and the block the observer can read at that moment -/
structure Notif where
  key : String
  observer : ObsId
  old : Except Err Value
  new : Except Err Value
  blockSeen : Block
deriving Repr

/-- `accessor.status_block_changed(offset, len, previous)` for one item, after the block has been swapped -/
def itemNotifs (prev cur : Block) (off len : Nat) (obsFor : List ObsId) (it : Item) : List Notif :=
  if intersects it.pos it.len off len () then
    let old := it.decode prev
    let new := it.decode cur
    if old = new then [] else obsFor.map (fun o => ⟨it.key, o, old, new, cur⟩)
  else []

/-- `replace_status_block_segment(offset, segment)`: swap the block FIRST, then notify every accessor in dict order -/
def StructState.replaceAndNotify (s : StructState) (off : Nat) (seg : List Byte) : StructState × List Notif :=
  let prev := s.block
  let cur := replaceSeg prev off seg
  ({ s with block := cur }, s.items.flatMap (fun it => itemNotifs prev cur off seg.length (s.obsFor it.key) it))

inductive StructOp
  | watch (key : String) (o : ObsId)
  | unwatch (key : String) (o : ObsId)
  | unwatchAll (key : String)
  | patch (off : Nat) (seg : List Byte)
deriving Repr

/-- one operation; an `unwatch` of an absent observer raises in Python and changes nothing -/
def StructState.step (s : StructState) : StructOp → StructState × List Notif
  | .watch k o => (s.watch k o, [])
  | .unwatch k o => (if (k, o) ∈ s.obs then { s with obs := s.obs.erase (k, o) } else s, [])
  | .unwatchAll k => (s.unwatchAll k, [])
  | .patch off seg => s.replaceAndNotify off seg

/-- a whole history: final state and all observer calls in order -/
def StructState.run (s : StructState) : List StructOp → StructState × List Notif
  | [] => (s, [])
  | op :: ops =>
    let (s1, n1) := s.step op
    let (s2, n2) := s1.run ops
    (s2, n1 ++ n2)

end GeckoModel
