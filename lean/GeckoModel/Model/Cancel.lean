/-
Cancellation of a coroutine, on its skeleton.

asyncio cancels a task by raising `CancelledError` at the await the task is suspended in.  What happens next is decided by the
`try` statements around that await: the FIRST handler (in source order) whose type catches `CancelledError` - a bare `except:`,
`except BaseException`, `except asyncio.CancelledError` - runs; if it ends without raising, the cancellation has been swallowed
and the task goes on (`except Exception` does not catch it).  `finally` blocks run on the way out and may override the outcome.

  * `outs sk`            : the ways a skeleton can end (sound over-approximation of `Run`: `outs_sound`, Proofs/Cancel.lean)
  * `handlers h`         : the handlers of a `try`, in source order, as the translator lays them out
  * `Cancelled sk o`     : "a cancellation delivered at one of the awaits of `sk` makes `sk` end with `o`" - `o = .exc` means the
                           cancellation propagated; any other outcome means it was swallowed and execution continued normally
  * `cancelOuts sk`      : executable analysis of `Cancelled` (`cancelOuts_sound`)
  * `neverSwallowsCancel`: every cancellation ends the coroutine by the exception

Not modelled: a second cancellation while a handler or a `finally` block of the first one runs is treated like a first one.
-/
import GeckoModel.Model.Coop

namespace GeckoModel.Coop

/-- the ways a skeleton can end -/
def outs : Sk → List Out
  | .ev (.act _) => [.fall]
  | .ev (.aw _) => [.fall, .exc]
  | .skip => [.fall]
  | .seq a b => (outs a).filter (· != .fall) ++ (if (outs a).contains .fall then outs b else [])
  | .alt a b => outs a ++ outs b
  | .loop b => .fall :: (outs b).filter (fun o => o == .ret || o == .exc)
  | .exit => [.ret]
  | .brk => [.brk]
  | .cont => [.cont]
  | .raise => [.exc]
  | .fin a f => (if (outs f).contains .fall then outs a else []) ++ (outs f).filter (· != .fall)
  | .tryExc a h => (outs a).filter (· != .exc) ++ (if (outs a).contains .exc then .exc :: outs h else [])

/-- the handlers of a `try`, in source order: (exception type as written - "" for a bare `except:` -, body).
The translator emits `h₁ alt (h₂ alt ...)`, each handler = its `exc` marker action followed by its body; a handler for a tuple of
types is emitted once per type -/
def handlers : Sk → List (String × Sk)
  | .alt a b => handlers a ++ handlers b
  | .seq (.ev (.act ⟨.exc, n⟩)) body => [(n, body)]
  | .ev (.act ⟨.exc, n⟩) => [(n, .skip)]
  | _ => []

/-- does `except <n>` catch `asyncio.CancelledError` (a `BaseException` since Python 3.8)? -/
def catchesCancel (n : String) : Bool :=
  n == "" || n == "BaseException" || n == "asyncio.CancelledError" || n == "CancelledError" ||
  n == "asyncio.exceptions.CancelledError"

/-- the body of the handler that gets a `CancelledError` raised inside the `try` -/
def firstCancelHandler (h : Sk) : Option Sk := ((handlers h).find? fun p => catchesCancel p.1).map (·.2)

/-- what a loop makes of the way its body ended -/
def loopOut : Out → Out
  | .exc => .exc
  | .ret => .ret
  | _ => .fall

/-- a cancellation delivered at one of the awaits of the skeleton makes it end with `o` -/
inductive Cancelled : Sk → Out → Prop
  | aw (n : String) : Cancelled (.ev (.aw n)) .exc
  | seqL {a b o} : Cancelled a o → o ≠ .fall → Cancelled (.seq a b) o
  | seqLgo {a b t o} : Cancelled a .fall → Run b t o → Cancelled (.seq a b) o          -- swallowed in `a`: `b` runs
  | seqR {a b t o} : Run a t .fall → Cancelled b o → Cancelled (.seq a b) o
  | altL {a b o} : Cancelled a o → Cancelled (.alt a b) o
  | altR {a b o} : Cancelled b o → Cancelled (.alt a b) o
  | loopNow {body o} : Cancelled body o → Cancelled (.loop body) (loopOut o)           -- swallowed in the body: the loop goes on
  | loopLater {body t o o'} : Run body t o' → (o' = .fall ∨ o' = .cont) → Cancelled (.loop body) o → Cancelled (.loop body) o
  | finBody {body f t o} : Cancelled body o → Run f t .fall → Cancelled (.fin body f) o
  | finBodyStop {body f t o o'} : Cancelled body o → Run f t o' → o' ≠ .fall → Cancelled (.fin body f) o'
  | finIn {body f t o o'} : Run body t o → Cancelled f o' → Cancelled (.fin body f) (if o' = .fall then o else o')
  | tryPass {body h o} : Cancelled body o → o ≠ .exc → Cancelled (.tryExc body h) o
  | tryCaught {body h hb t o} : Cancelled body .exc → firstCancelHandler h = some hb → Run hb t o → Cancelled (.tryExc body h) o
  | tryThrough {body h} : Cancelled body .exc → firstCancelHandler h = none → Cancelled (.tryExc body h) .exc
  | tryInHandler {body h t o} : Run body t .exc → Cancelled h o → Cancelled (.tryExc body h) o

/-- executable analysis of `Cancelled` -/
def cancelOuts : Sk → List Out
  | .ev (.aw _) => [.exc]
  | .ev (.act _) => []
  | .skip => []
  | .exit => []
  | .brk => []
  | .cont => []
  | .raise => []
  | .seq a b =>
      (cancelOuts a).filter (· != .fall) ++ (if (cancelOuts a).contains .fall then outs b else []) ++
      (if (outs a).contains .fall then cancelOuts b else [])
  | .alt a b => cancelOuts a ++ cancelOuts b
  | .loop b => (cancelOuts b).map loopOut
  | .fin a f =>
      (if (outs f).contains .fall then cancelOuts a else []) ++
      (if (cancelOuts a).isEmpty then [] else (outs f).filter (· != .fall)) ++
      ((cancelOuts f).filter (· != .fall) ++ (if (cancelOuts f).contains .fall then outs a else []))
  | .tryExc a h =>
      (cancelOuts a).filter (· != .exc) ++
      (if (cancelOuts a).contains .exc then (match firstCancelHandler h with | some hb => outs hb | none => [.exc]) else []) ++
      (if (outs a).contains .exc then cancelOuts h else [])

/-- however and wherever the coroutine is cancelled, it ends by the exception: nothing swallows the cancellation -/
def neverSwallowsCancel (sk : Sk) : Bool := (cancelOuts sk).all (· == .exc)

end GeckoModel.Coop
