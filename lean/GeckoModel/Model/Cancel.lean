/-
Cancellation of a coroutine, on its skeleton.

asyncio cancels a task by raising `CancelledError` at the await the task is suspended in.  What happens next is decided by the
`try` statements around that await: the FIRST handler (in source order) whose type catches `CancelledError` - a bare `except:`,
`except BaseException`, `except asyncio.CancelledError` - runs; if it ends without raising, the cancellation has been swallowed
and the task goes on (`except Exception` does not catch it).  `finally` blocks run on the way out and may override the outcome.

  * `outs sk`            : the ways a skeleton can end (sound over-approximation of `Run`: `outs_sound`, Proofs/Cancel.lean)
  * `handlers h`         : the handlers of a `try`, in source order, as the translator lays them out
  * `Thrown c p sk o`    : the same for any kind of exception (`c` = which handler types catch it, `p` = which awaits can raise it);
  * `Cancelled sk o`     : "a cancellation delivered at one of the awaits of `sk` makes `sk` end with `o`" - `o = .exc` means the
                           cancellation propagated; `.fall` that it was swallowed and execution continued
  * `cancelOuts sk`      : executable analysis of `Cancelled` (`cancelOuts_sound`)
  * `neverSwallowsCancel`: every cancellation ends the coroutine by the exception

Not modelled: a second cancellation while a handler or a `finally` block of the first one runs is treated like a first one.
-/
import GeckoModel.Model.Coop

namespace GeckoModel.Coop

/-- the ways a skeleton can end -/
def outs : Sk → List Out
  | .ev (.act _) => [.fall]
  | .ev (.aw _) => [.fall, .exc]
  | .skip => [.fall]
  | .seq a b => (outs a).filter (· != .fall) ++ (if (outs a).contains .fall then outs b else [])
  | .alt a b => outs a ++ outs b
  | .loop b => .fall :: (outs b).filter (fun o => o == .ret || o == .exc)
  | .exit => [.ret]
  | .brk => [.brk]
  | .cont => [.cont]
  | .raise => [.exc]
  | .fin a f => (if (outs f).contains .fall then outs a else []) ++ (outs f).filter (· != .fall)
  | .tryExc a h => (outs a).filter (· != .exc) ++ (if (outs a).contains .exc then .exc :: outs h else [])

/-- the handlers of a `try`, in source order: (exception type as written - "" for a bare `except:` -, body).
The translator emits `h₁ alt (h₂ alt ...)`, each handler = its `exc` marker action followed by its body; a handler for a tuple of
types is emitted once per type -/
def handlers : Sk → List (String × Sk)
  | .alt a b => handlers a ++ handlers b
  | .seq (.ev (.act ⟨.exc, n⟩)) body => [(n, body)]
  | .ev (.act ⟨.exc, n⟩) => [(n, .skip)]
  | _ => []

/-- does `except <n>` catch `asyncio.CancelledError` (a `BaseException` since Python 3.8)? -/
def catchesCancel (n : String) : Bool :=
  n == "" || n == "BaseException" || n == "asyncio.CancelledError" || n == "CancelledError" ||
  n == "asyncio.exceptions.CancelledError"

/-- does `except <n>` catch an ordinary exception (a subclass of `Exception`) whatever its class? -/
def catchesAny (n : String) : Bool := n == "" || n == "BaseException" || n == "Exception"

/-- the body of the first handler (source order) whose type satisfies `catches` -/
def firstHandler (catches : String → Bool) (h : Sk) : Option Sk := ((handlers h).find? fun p => catches p.1).map (·.2)

/-- the body of the handler that gets a `CancelledError` raised inside the `try` -/
abbrev firstCancelHandler (h : Sk) : Option Sk := firstHandler catchesCancel h

/-- what a loop makes of the way its body ended -/
def loopOut : Out → Out
  | .exc => .exc
  | .ret => .ret
  | _ => .fall

/-- an exception of a kind caught by the handlers `catches`, raised at one of the events satisfying `point` (an await, or a synchronous call that runs foreign code), makes the skeleton end
with `o`: `.exc` = it propagated out; `.fall` = a handler swallowed it and execution goes on somewhere inside (what the code does
afterwards is not followed); `.ret` / `.brk` / `.cont` = a handler or a `finally` block ended the construct by a jump -/
inductive Thrown (catches : String → Bool) (point : Ev → Bool) : Sk → Out → Prop
  | at (e : Ev) : point e = true → Thrown catches point (.ev e) .exc
  | seqL {a b o} : Thrown catches point a o → Thrown catches point (.seq a b) o      -- (`o = .fall`: swallowed inside `a`; what `b` does then is not the exception's doing)
  | seqR {a b t o} : Run a t .fall → Thrown catches point b o → Thrown catches point (.seq a b) o
  | altL {a b o} : Thrown catches point a o → Thrown catches point (.alt a b) o
  | altR {a b o} : Thrown catches point b o → Thrown catches point (.alt a b) o
  | loopNow {body o} : Thrown catches point body o → Thrown catches point (.loop body) (loopOut o)
  | loopLater {body t o o'} : Run body t o' → (o' = .fall ∨ o' = .cont) → Thrown catches point (.loop body) o →
      Thrown catches point (.loop body) o
  | finBody {body f t o} : Thrown catches point body o → Run f t .fall → Thrown catches point (.fin body f) o
  | finBodyStop {body f t o o'} : Thrown catches point body o → Run f t o' → o' ≠ .fall → Thrown catches point (.fin body f) o'
  | finIn {body f t o o'} : Run body t o → Thrown catches point f o' → Thrown catches point (.fin body f) (if o' = .fall then o else o')
  | tryPass {body h o} : Thrown catches point body o → o ≠ .exc → Thrown catches point (.tryExc body h) o
  | tryCaught {body h hb t o} : Thrown catches point body .exc → firstHandler catches h = some hb → Run hb t o →
      Thrown catches point (.tryExc body h) o
  | tryThrough {body h} : Thrown catches point body .exc → firstHandler catches h = none → Thrown catches point (.tryExc body h) .exc
  | tryInHandler {body h t o} : Run body t .exc → Thrown catches point h o → Thrown catches point (.tryExc body h) o

/-- a cancellation delivered at one of the awaits of the skeleton makes it end with `o` -/
abbrev Cancelled : Sk → Out → Prop := Thrown catchesCancel Ev.isAw

/-- executable analysis of `Thrown` -/
def thrownOuts (catches : String → Bool) (point : Ev → Bool) : Sk → List Out
  | .ev e => if point e then [.exc] else []
  | .skip => []
  | .exit => []
  | .brk => []
  | .cont => []
  | .raise => []
  | .seq a b =>
      thrownOuts catches point a ++ (if (outs a).contains .fall then thrownOuts catches point b else [])
  | .alt a b => thrownOuts catches point a ++ thrownOuts catches point b
  | .loop b => (thrownOuts catches point b).map loopOut
  | .fin a f =>
      (if (outs f).contains .fall then thrownOuts catches point a else []) ++
      (if (thrownOuts catches point a).isEmpty then [] else (outs f).filter (· != .fall)) ++
      ((thrownOuts catches point f).filter (· != .fall) ++ (if (thrownOuts catches point f).contains .fall then outs a else []))
  | .tryExc a h =>
      (thrownOuts catches point a).filter (· != .exc) ++
      (if (thrownOuts catches point a).contains .exc then (match firstHandler catches h with | some hb => outs hb | none => [.exc]) else []) ++
      (if (outs a).contains .exc then thrownOuts catches point h else [])

abbrev cancelOuts : Sk → List Out := thrownOuts catchesCancel Ev.isAw

/-- however and wherever the coroutine is cancelled, it ends by the exception: nothing swallows the cancellation -/
def neverSwallowsCancel (sk : Sk) : Bool := (cancelOuts sk).all (· == .exc)

/-- an ordinary exception raised at any of the events satisfying `point` never ends the skeleton: some handler swallows it and the
code goes on (what keeps a supervising loop alive) -/
def survivesEveryException (point : Ev → Bool) (sk : Sk) : Bool := (thrownOuts catchesAny point sk).all (· != .exc)

end GeckoModel.Coop
