/-
C10 model — what is left behind when a reset or a context exit lands while the connection procedure is suspended at a
given await point.  Both the list of suspension points (with what the attempt holds at each) and the facts about what
every teardown path does are GENERATED from the source (`Generated/CrashPoints.lean`); this file only says how the
facts combine.  The predictions are compared, point by point, with the real stack (harness/props/c10.py).
-/
import GeckoModel.Generated.CrashPoints

namespace GeckoModel
open GeckoModel.Generated

/-- what remains of the abandoned connection attempt once everything has settled -/
structure Ledger where
  endpointOpen : Bool      -- a UDP endpoint opened for the abandoned attempt was never closed
  tasksAlive : Bool        -- a background task of the abandoned attempt is still running
  observersLeft : Bool     -- client observers are still registered on the abandoned objects (late effects possible)
  pumpAlive : Bool         -- the manager's sequence pump still runs (meaningful after a reset)
deriving Repr, DecidableEq

def Ledger.clean (l : Ledger) : Bool := !l.endpointOpen && !l.tasksAlive && !l.observersLeft

/-- a user reset (`async_reset`) while the pump task is suspended at `p` -/
def afterReset (f : TeardownFacts) (p : CrashPoint) : Ledger :=
  if p.proc = "discover" then
    -- reset does not touch a running discovery: it completes on its normal path
    { endpointOpen := !f.discoverClosesOnNormalReturn, tasksAlive := !f.discoverCancelsLocTasks, observersLeft := false, pumpAlive := true }
  else if p.proc = "_connect" then
    -- the half-built spa is disconnected under the feet of `_connect`, which then fails on the dropped protocol
    { endpointOpen := (match p.endpoint with
                       | .no => false
                       | .pending => !f.connectReleasesEndpointIfDisconnected   -- created after the disconnect: `_connect` itself must release it
                       | .yes => !(f.resetDisconnectsSpa && f.disconnectClosesTransport)),
      -- tasks already spawned are cancelled by disconnect(); tasks spawned AFTER the reset die at their first step when the
      -- protocol had been dropped under them, but when the reset lands inside the endpoint creation the resumed `_connect`
      -- installs a fresh protocol and spawns the seven SPA tasks on it for a spa nobody owns any more: they live on
      tasksAlive := (p.tasksSpawned && !(f.resetDisconnectsSpa && f.disconnectCancelsSpaTasks)) ||
                    (!p.tasksSpawned && p.endpoint == .pending && !f.connectReleasesEndpointIfDisconnected),
      observersLeft := !(f.resetDisconnectsSpa && f.disconnectUnwatchesAll),
      pumpAlive := f.pumpSurvivesExceptions }
  else if p.proc = "pump-connected" then
    { endpointOpen := !(f.resetDisconnectsSpa && f.disconnectClosesTransport),
      tasksAlive := !(f.resetDisconnectsSpa && f.disconnectCancelsSpaTasks && f.resetDisconnectsFacade && f.facadeDisconnectCancelsTasks),
      observersLeft := !(f.resetDisconnectsFacade && f.facadeDisconnectUnwatches && f.resetDisconnectsSpa && f.disconnectUnwatchesAll),
      pumpAlive := true }
  else
    { endpointOpen := false, tasksAlive := false, observersLeft := false, pumpAlive := true }

/-- leaving the `async with` block while the pump task is suspended at `p` -/
def afterExit (f : TeardownFacts) (p : CrashPoint) : Ledger :=
  let held := p.endpoint != .no
  { endpointOpen :=
      if p.proc = "discover" then held && !(f.discoverClosesInFinally)
      else held && !(f.exitResets && f.disconnectClosesTransport),
    -- every task is cancelled and gathered; but the facade's update task, when cancelled inside its `try` body, runs its
    -- `finally: await config_sleep(...)` to the end before it terminates (up to FACADE_UPDATE_FREQUENCY) - so it can linger
    tasksAlive := !(f.exitCancelsPump && f.exitGathersAllTasks) || (p.proc == "pump-connected" && f.facadeUpdateAwaitsInFinally),
    observersLeft := false,
    pumpAlive := !f.exitCancelsPump }

/-! ### a reset in an error state, possibly issued from INSIDE one of the connection's own tasks

`RUNNING_PING_RECEIVED` in an error state makes the manager call `async_reset()` from within the spa's ping-loop task, which
`disconnect()` cancels together with the other "SPA" tasks.  A cancellation of the running task is only *pending*: it is
delivered at the next await that really suspends — e.g. a client event handler that yields.  Everything the teardown
procedure has not done by then is never done.  The procedures are the generated step lists. -/

inductive Origin | user | spaTask
deriving Repr, DecidableEq

structure TState where
  selfCancelled : Bool := false   -- a cancellation of the running task is pending
  aborted : Bool := false         -- CancelledError has unwound the procedure
  closed : Bool := false
  protoDropped : Bool := false
  spaCancelled : Bool := false
  facadeCancelled : Bool := false
  spaUnwatched : Bool := false
  facadeUnwatched : Bool := false
  spaCleared : Bool := false
  facadeCleared : Bool := false
  idle : Bool := false
deriving Repr, DecidableEq

/-- one leaf statement; `suspends` = the client's event handler really yields to the loop; `inFacade` = the statement belongs to
the facade's disconnect -/
def tleaf (o : Origin) (suspends inFacade : Bool) (s : TState) (st : TStep) : TState :=
  if s.aborted then s else
  match st with
  | .awaitHandler => if s.selfCancelled && suspends then { s with aborted := true } else s
  | .awaitOther => if s.selfCancelled then { s with aborted := true } else s
  | .cancelSpa => { s with spaCancelled := true, selfCancelled := s.selfCancelled || o == .spaTask }
  | .cancelFacade => { s with facadeCancelled := true }
  | .dropProtocol => { s with protoDropped := true }
  | .closeTransport => { s with closed := true }
  | .unwatch => if inFacade then { s with facadeUnwatched := true } else { s with spaUnwatched := true }
  | .clearSpa => { s with spaCleared := true }
  | .clearFacade => { s with facadeCleared := true }
  | .setIdle => { s with idle := true }
  | _ => s

/-- async_reset with the two disconnect procedures inlined -/
def runReset (reset spaDis facDis : List TStep) (o : Origin) (suspends : Bool) : TState :=
  reset.foldl (fun s st => match st with
    | .callFacadeDisconnect => facDis.foldl (tleaf o suspends true) s
    | .callSpaDisconnect => spaDis.foldl (tleaf o suspends false) s
    | st => tleaf o suspends false s st) {}

def TState.ledger (s : TState) : Ledger :=
  { endpointOpen := !s.closed, tasksAlive := !(s.spaCancelled && s.facadeCancelled),
    observersLeft := !(s.spaUnwatched && s.facadeUnwatched), pumpAlive := true }

/-- the reset ran to its end: nothing of the old connection is referenced and the manager is IDLE (so the pump reconnects) -/
def TState.completed (s : TState) : Bool := !s.aborted && s.spaCleared && s.facadeCleared && s.idle && s.protoDropped

/-! ### discovery's `finally` block under a context exit

`__aexit__` cancels the sequence pump (a discovery in flight starts unwinding through its `finally`), then awaits the
client's SPA_MAN_EXIT handler, then `gather()` cancels every task AGAIN.  When the client's handler really suspends, that
second cancellation is delivered at the first await INSIDE the `finally` block; what the block has not done by then is never
done.  (When the handler returns at once both cancellations collapse into one.) -/

structure FState where
  aborted : Bool := false
  closed : Bool := false
  locCancelled : Bool := false
deriving Repr, DecidableEq

def fleaf (secondCancel : Bool) (s : FState) (st : TStep) : FState :=
  if s.aborted then s else
  match st with
  | .awaitHandler | .awaitOther => if secondCancel then { s with aborted := true } else s
  | .closeTransport => { s with closed := true }
  | .cancelLoc => { s with locCancelled := true }
  | _ => s

def runDiscoverFinally (steps : List TStep) (secondCancel : Bool) : FState := steps.foldl (fleaf secondCancel) {}

inductive Kind | reset | exit
deriving Repr, DecidableEq

/-- the procedures in which a crash of the given kind leaves an endpoint open (deduplicated, source order) -/
def endpointLeaks (f : TeardownFacts) (pts : List CrashPoint) (k : Kind) : List String :=
  ((pts.filter (fun p => match k with
     | .reset => (afterReset f p).endpointOpen
     | .exit => (afterExit f p).endpointOpen)).map (·.proc)).eraseDups

/-- open endpoints after `n` reset / reconnect cycles in steady state -/
def openAfterCycles (f : TeardownFacts) (n : Nat) : Nat :=
  if (afterReset f ⟨"pump-connected", 0, .yes, true⟩).endpointOpen then n + 1 else 1

end GeckoModel
