/-
Bytes and blocks (core Lean only).  `replaceSeg` is literally the Python slice expression
`block[0:off] + seg + block[off+len(seg):]` of `replace_status_block_segment`, including its behaviour when the
segment runs past the end (the block grows), so theorems state the in-range guard they need.
-/
namespace GeckoModel

abbrev Byte := UInt8
abbrev Block := List Byte

/-- `block[0:off] + seg + block[off+len(seg):]` -/
def replaceSeg (b : Block) (off : Nat) (seg : List Byte) : Block :=
  b.take off ++ seg ++ b.drop (off + seg.length)

/-- `struct.unpack(">B" | ">H", block[pos:pos+len])[0]`; `none` = struct.error (short slice) -/
def readBE (b : Block) (pos len : Nat) : Option Nat :=
  if len = 1 then
    match b[pos]? with
    | some x => some x.toNat
    | none => none
  else if len = 2 then
    match b[pos]?, b[pos + 1]? with
    | some hi, some lo => some (hi.toNat * 256 + lo.toNat)
    | _, _ => none
  else none

/-- `struct.pack(">B" | ">H", w)`; `none` = struct.error (value out of range) / unsupported width -/
def packBE (len w : Nat) : Option (List Byte) :=
  if len = 1 then (if w < 256 then some [UInt8.ofNat w] else none)
  else if len = 2 then (if w < 65536 then some [UInt8.ofNat (w / 256), UInt8.ofNat (w % 256)] else none)
  else none

/-- bit `j` of byte `i` of a block (false outside the block) -/
def blockBit (b : Block) (i j : Nat) : Bool :=
  match b[i]? with
  | some x => x.toNat.testBit j
  | none => false

end GeckoModel
