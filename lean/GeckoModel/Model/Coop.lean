/-
Cooperative scheduling of coroutines, at the level of "which events can a coroutine emit, and where can it be suspended".

A coroutine body is abstracted to its SKELETON (`Sk`): synchronous actions (`act`, atomic under asyncio), suspension points
(`aw` = an `await` that may really suspend), sequencing, branching (both branches possible; the translator puts `T:<test>` /
`F:<test>` marker actions at the head of the branches), loops (any number of iterations), `return` / `break` / `continue` /
`raise`, `try/finally`, `try/except`.  Skeletons of the real coroutines are GENERATED from /repo's source on every run
(`Generated/Skeletons.lean`, harness/skeleton.py).

  * `Run sk t o`        : big-step trace semantics - `t` is a sequence of events the coroutine may emit, `o` how it ends.
                          Every `await` may also raise (cancellation, an exception of the awaited call): rule `awRaise`.
  * `Mon`, `scan`       : a safety monitor (finite automaton over events, `none` = violation) and an executable static
                          analysis that computes, per way of ending, the monitor states a skeleton can end in; `scan_sound`
                          (Proofs/Coop.lean): if the analysis succeeds, EVERY trace of the skeleton is accepted.
  * `Sched`             : the asyncio event loop as an adversary - it may switch tasks only when the running task has just
                          emitted an `aw` event or has finished.  `atomic_sections` (Proofs/Coop.lean): if every task's local trace
                          has no suspension inside a section (opened / closed by actions), then in EVERY global schedule no
                          other task emits anything while a task is inside its section.

What is abstracted away (trusted base): data (branches are nondeterministic), exceptions raised by synchronous calls (only
`raise` statements and awaits raise), and the claim that an `act` is atomic (true for single-threaded asyncio code).
-/
namespace GeckoModel.Coop

/-- what kind of synchronous action -/
inductive Kind
  | call        -- a call `name(...)`
  | read        -- a read of a watched attribute
  | set         -- an assignment to `name`
  | brT | brF   -- the branch taken on the test `name`
  | exc         -- an `except name:` clause was entered
  | acquired | release    -- a `with` / `async with` on `name` was entered / left
  | del
  | finEnter | finExit    -- a `finally:` block is entered / left
deriving Repr, DecidableEq

/-- a synchronous action (atomic under asyncio) -/
structure A where
  kind : Kind
  name : String
deriving Repr, DecidableEq

/-- an event a coroutine emits -/
inductive Ev
  | act (n : A)          -- a synchronous action: call, attribute read of interest, assignment, branch marker
  | aw (n : String)      -- a suspension point
deriving Repr, DecidableEq

def Ev.isAw : Ev → Bool
  | .aw _ => true
  | .act _ => false

/-- how a piece of code ends -/
inductive Out
  | fall | brk | cont | ret | exc
deriving Repr, DecidableEq

/-- skeleton of a coroutine body -/
inductive Sk
  | ev (e : Ev)
  | skip
  | seq (a b : Sk)
  | alt (a b : Sk)
  | loop (body : Sk)
  | exit                      -- return
  | brk
  | cont
  | raise
  | fin (body f : Sk)         -- try: body finally: f
  | tryExc (body h : Sk)      -- try: body except: h      (h = the alternatives of all handlers)
deriving Repr, DecidableEq

/-- big-step traces -/
inductive Run : Sk → List Ev → Out → Prop
  | ev (e : Ev) : Run (.ev e) [e] .fall
  | awRaise (n : String) : Run (.ev (.aw n)) [.aw n] .exc
  | skip : Run .skip [] .fall
  | seqFall {a b t1 t2 o} : Run a t1 .fall → Run b t2 o → Run (.seq a b) (t1 ++ t2) o
  | seqStop {a b t1 o} : Run a t1 o → o ≠ .fall → Run (.seq a b) t1 o
  | altL {a b t o} : Run a t o → Run (.alt a b) t o
  | altR {a b t o} : Run b t o → Run (.alt a b) t o
  | loopDone {body} : Run (.loop body) [] .fall
  | loopFall {body t1 t2 o} : Run body t1 .fall → Run (.loop body) t2 o → Run (.loop body) (t1 ++ t2) o
  | loopCont {body t1 t2 o} : Run body t1 .cont → Run (.loop body) t2 o → Run (.loop body) (t1 ++ t2) o
  | loopBrk {body t} : Run body t .brk → Run (.loop body) t .fall
  | loopRet {body t} : Run body t .ret → Run (.loop body) t .ret
  | loopExc {body t} : Run body t .exc → Run (.loop body) t .exc
  | exit : Run .exit [] .ret
  | brk : Run .brk [] .brk
  | cont : Run .cont [] .cont
  | raise : Run .raise [] .exc
  | finFall {body f t1 t2 o} : Run body t1 o → Run f t2 .fall → Run (.fin body f) (t1 ++ t2) o
  | finStop {body f t1 t2 o o'} : Run body t1 o → Run f t2 o' → o' ≠ .fall → Run (.fin body f) (t1 ++ t2) o'
  | tryOk {body h t o} : Run body t o → o ≠ .exc → Run (.tryExc body h) t o
  | tryCaught {body h t1 t2 o} : Run body t1 .exc → Run h t2 o → Run (.tryExc body h) (t1 ++ t2) o
  | tryUncaught {body h t} : Run body t .exc → Run (.tryExc body h) t .exc     -- no handler matches

/-! ### monitors -/

/-- a safety monitor: `none` = violation -/
abbrev Mon := Nat → Ev → Option Nat

def runMon (m : Mon) : Nat → List Ev → Option Nat
  | s, [] => some s
  | s, e :: t => match m s e with
    | none => none
    | some s' => runMon m s' t

/-- monitor states per way of ending -/
structure Res where
  fall : List Nat := []
  brk : List Nat := []
  cont : List Nat := []
  ret : List Nat := []
  exc : List Nat := []
deriving Repr

def Res.get (r : Res) : Out → List Nat
  | .fall => r.fall
  | .brk => r.brk
  | .cont => r.cont
  | .ret => r.ret
  | .exc => r.exc

def Res.union (a b : Res) : Res :=
  { fall := a.fall ++ b.fall, brk := a.brk ++ b.brk, cont := a.cont ++ b.cont, ret := a.ret ++ b.ret, exc := a.exc ++ b.exc }

/-- one monitor step on every state of a set; `none` if some state has no successor -/
def stepAll (m : Mon) (e : Ev) : List Nat → Option (List Nat)
  | [] => some []
  | s :: ss => match m s e, stepAll m e ss with
    | some s', some r => some (s' :: r)
    | _, _ => none

def subset (a b : List Nat) : Bool := a.all fun x => b.contains x

/-- grow `I` by the states a loop body can end an iteration in, `fuel` times -/
def growInv (body : List Nat → Option Res) : Nat → List Nat → List Nat
  | 0, I => I
  | n + 1, I => match body I with
    | none => I
    | some r => growInv body n (I ++ (r.fall ++ r.cont).filter fun x => !I.contains x)

/-- the static analysis: from a set of monitor states, the sets of states at each way of ending; `none` = a violation is
possible (or a loop invariant was not reached within the fuel) -/
def scan (m : Mon) (fuel : Nat) : Sk → List Nat → Option Res
  | .ev e, S => match stepAll m e S with
    | none => none
    | some S' => some { fall := S', exc := if e.isAw then S' else [] }
  | .skip, S => some { fall := S }
  | .seq a b, S => match scan m fuel a S with
    | none => none
    | some ra => match scan m fuel b ra.fall with
      | none => none
      | some rb => some { fall := rb.fall, brk := ra.brk ++ rb.brk, cont := ra.cont ++ rb.cont, ret := ra.ret ++ rb.ret, exc := ra.exc ++ rb.exc }
  | .alt a b, S => match scan m fuel a S, scan m fuel b S with
    | some ra, some rb => some (ra.union rb)
    | _, _ => none
  | .loop body, S =>
    let I := growInv (scan m fuel body) fuel S
    match scan m fuel body I with
    | none => none
    | some r => if subset (r.fall ++ r.cont) I then some { fall := I ++ r.brk, ret := r.ret, exc := r.exc } else none
  | .exit, S => some { ret := S }
  | .brk, S => some { brk := S }
  | .cont, S => some { cont := S }
  | .raise, S => some { exc := S }
  | .fin body f, S => match scan m fuel body S with
    | none => none
    | some rb =>
      -- the finally block runs on every way of ending; when it falls through the way of ending is kept
      match scan m fuel f rb.fall, scan m fuel f rb.brk, scan m fuel f rb.cont, scan m fuel f rb.ret, scan m fuel f rb.exc with
      | some f1, some f2, some f3, some f4, some f5 =>
        let others := [f1, f2, f3, f4, f5]
        some { fall := f1.fall,
               brk := f2.fall ++ others.flatMap (·.brk),
               cont := f3.fall ++ others.flatMap (·.cont),
               ret := f4.fall ++ others.flatMap (·.ret),
               exc := f5.fall ++ others.flatMap (·.exc) }
      | _, _, _, _, _ => none
  | .tryExc body h, S => match scan m fuel body S with
    | none => none
    | some rb => match scan m fuel h rb.exc with
      | none => none
      | some rh => some { fall := rb.fall ++ rh.fall, brk := rb.brk ++ rh.brk, cont := rb.cont ++ rh.cont, ret := rb.ret ++ rh.ret,
                          exc := rb.exc ++ rh.exc }

/-! ### the section monitor: no suspension between an opening and a closing action -/

/-- state 0 = outside, 1 = inside a section. A closing action closes, an opening action opens (closing wins), a suspension
inside a section is the violation -/
def secMon (opens closes : A → Bool) : Mon := fun s e =>
  match e with
  | .aw _ => if s == 0 then some 0 else none
  | .act n => if closes n then some 0 else if opens n then some 1 else some s

/-- the skeleton never suspends inside a section and never ends inside one -/
def sectionsAtomic (opens closes : A → Bool) (sk : Sk) : Bool :=
  match scan (secMon opens closes) 4 sk [0] with
  | none => false
  | some r => subset (r.fall ++ r.brk ++ r.cont ++ r.ret ++ r.exc) [0]

/-! ### "at most one": an action that must not happen twice in one call (e.g. acquiring the lock of a retry loop) -/

/-- state 0 = not yet, 1 = happened once; a second occurrence is the violation -/
def onceMon (what : A → Bool) : Mon := fun s e =>
  match e with
  | .aw _ => some s
  | .act n => if what n then (if s == 0 then some 1 else none) else some s

def atMostOnce (what : A → Bool) (sk : Sk) : Bool := (scan (onceMon what) 4 sk [0]).isSome

/-- "every `inner` action happens while `outer` is held": state 0 = not held, 1 = held -/
def heldMon (acquire release inner : A → Bool) : Mon := fun s e =>
  match e with
  | .aw _ => some s
  | .act n => if acquire n then some 1 else if release n then some 0 else if inner n then (if s == 1 then some s else none) else some s

def alwaysHeld (acquire release inner : A → Bool) (sk : Sk) : Bool := (scan (heldMon acquire release inner) 4 sk [0]).isSome

/-- "`second` never happens before a `first` has happened": state 0 = no `first` yet -/
def orderMon (first second : Ev → Bool) : Mon := fun s e =>
  if first e then some 1 else if second e && s == 0 then none else some s

def precedes (first second : Ev → Bool) (sk : Sk) : Bool := (scan (orderMon first second) 4 sk [0]).isSome

/-- the await of a callee with this name / the call of this name -/
def isAwaitOf (n : String) : Ev → Bool
  | .aw m => m == n
  | .act _ => false

def isReadOf (n : String) : Ev → Bool
  | .act a => a.kind == .read && a.name == n
  | .aw _ => false

def isCallOf (n : String) : Ev → Bool
  | .act a => a.kind == .call && a.name == n
  | .aw _ => false

/-- "every iteration pays": state 1 = an iteration has started and has not yet paid (e.g. decremented its retry budget); starting
the next iteration in that state is the violation -/
def owesMon (iterStart pays : A → Bool) : Mon := fun s e =>
  match e with
  | .aw _ => some s
  | .act a => if pays a then some 0 else if iterStart a then (if s == 0 then some 1 else none) else some s

def everyIterationPays (iterStart pays : A → Bool) (sk : Sk) : Bool := (scan (owesMon iterStart pays) 4 sk [0]).isSome

/-- "after a `trigger` a `response` comes before the next `boundary`": state 1 = a response is owed -/
def respondsMon (trigger response boundary : Ev → Bool) : Mon := fun s e =>
  if response e then some 0 else if trigger e then some 1 else if boundary e && s == 1 then none else some s

def alwaysResponds (trigger response boundary : Ev → Bool) (sk : Sk) : Bool :=
  (scan (respondsMon trigger response boundary) 4 sk [0]).isSome

def isBranch (taken : Bool) (test : String) : Ev → Bool
  | .act a => a.kind == (if taken then Kind.brT else Kind.brF) && a.name == test
  | .aw _ => false

/-- a resource obtained by an await: state 2 = the acquiring await has started (if it raises - e.g. it is cancelled - nothing was
obtained), 1 = obtained (some action followed the await, so it returned) and not yet released, 0 = not held -/
def resourceMon (acquire : Ev → Bool) (release : Ev → Bool) : Mon := fun s e =>
  if release e then some 0
  else if acquire e then some 2
  else match e with
    | .act _ => some (if s == 2 then 1 else s)
    | .aw _ => some (if s == 2 then 1 else s)

/-- however the coroutine ends - return, exception, cancellation at any of its awaits - it does not end holding the resource -/
def releasedOnEveryExit (acquire release : Ev → Bool) (sk : Sk) : Bool :=
  match scan (resourceMon acquire release) 4 sk [0] with
  | none => false
  | some r => (r.fall ++ r.brk ++ r.cont ++ r.ret ++ r.exc).all fun s => s == 0 || s == 2

/-- "has done it": state 1 = an action satisfying `p` has happened -/
def didMon (p : A → Bool) : Mon := fun s e =>
  match e with
  | .aw _ => some s
  | .act a => some (if p a then 1 else s)

/-- every way the skeleton ends NORMALLY (falls through or returns) has performed an action satisfying `p`
(`everyNormalEndDid_sound`, Proofs/Coop.lean) -/
def everyNormalEndDid (p : A → Bool) (sk : Sk) : Bool :=
  match scan (didMon p) 4 sk [0] with
  | none => false
  | some r => (r.fall ++ r.ret).all (· == 1)

def isSetOf (name : String) (a : A) : Bool := a.kind == .set && a.name == name

/-- "`guarded` only under both guards": bit 0 = `g1` seen, bit 1 = `g2` seen since the last `reset`; a `guarded` event in any other
state than 3 is the violation -/
def guardMon (reset g1 g2 guarded : Ev → Bool) : Mon := fun s e =>
  if reset e then some 0
  else if guarded e then (if s == 3 then some s else none)
  else some ((if g1 e then s ||| 1 else s) ||| (if g2 e then 2 else 0))     -- (one event may be both guards)

def onlyUnderBothGuards (reset g1 g2 guarded : Ev → Bool) (sk : Sk) : Bool :=
  (scan (guardMon reset g1 g2 guarded) 4 sk [0]).isSome

/-! ### "this piece of code never suspends" -/

/-- number of suspension points in a skeleton -/
def suspensions : Sk → Nat
  | .ev (.aw _) => 1
  | .ev (.act _) => 0
  | .seq a b => suspensions a + suspensions b
  | .alt a b => suspensions a + suspensions b
  | .loop b => suspensions b
  | .fin a b => suspensions a + suspensions b
  | .tryExc a b => suspensions a + suspensions b
  | _ => 0

/-- the names of the actions of a given kind, in source order -/
def actions (k : Kind) : Sk → List String
  | .ev (.act a) => if a.kind == k then [a.name] else []
  | .ev (.aw _) => []
  | .seq a b => actions k a ++ actions k b
  | .alt a b => actions k a ++ actions k b
  | .loop b => actions k b
  | .fin a b => actions k a ++ actions k b
  | .tryExc a b => actions k a ++ actions k b
  | _ => []

/-- does a name denote an attribute (or item) of the object itself, i.e. state that outlives the call? -/
def isSelfState (s : String) : Bool := s.toList.take 5 == ['s', 'e', 'l', 'f', '.']

/-- the attributes of `self` a coroutine assigns -/
def selfStateWritten (sk : Sk) : List String := (actions .set sk).filter isSelfState

/-- every await of a skeleton, in source order -/
def awaitsIn : Sk → List String
  | .ev (.aw n) => [n]
  | .ev (.act _) => []
  | .seq a b => awaitsIn a ++ awaitsIn b
  | .alt a b => awaitsIn a ++ awaitsIn b
  | .loop b => awaitsIn b
  | .fin a b => awaitsIn a ++ awaitsIn b
  | .tryExc a b => awaitsIn a ++ awaitsIn b
  | _ => []

/-- the awaits that stand INSIDE a `finally:` block (where a second cancellation can interrupt the clean-up) -/
def finallyAwaits : Sk → List String
  | .seq a b => finallyAwaits a ++ finallyAwaits b
  | .alt a b => finallyAwaits a ++ finallyAwaits b
  | .loop b => finallyAwaits b
  | .fin a f => finallyAwaits a ++ awaitsIn f
  | .tryExc a b => finallyAwaits a ++ finallyAwaits b
  | _ => []

/-! ### an awaitable method and its blocking twin -/

/-- the blocking twin of an awaitable skeleton: every await becomes a plain call, renamed by `ren` -/
def blockingTwin (ren : String → String) : Sk → Sk
  | .ev (.aw n) => .ev (.act ⟨.call, ren n⟩)
  | .ev (.act a) => .ev (.act a)
  | .seq a b => .seq (blockingTwin ren a) (blockingTwin ren b)
  | .alt a b => .alt (blockingTwin ren a) (blockingTwin ren b)
  | .loop b => .loop (blockingTwin ren b)
  | .fin a b => .fin (blockingTwin ren a) (blockingTwin ren b)
  | .tryExc a b => .tryExc (blockingTwin ren a) (blockingTwin ren b)
  | s => s

def seqApp : Sk → Sk → Sk
  | .seq a b, c => .seq a (seqApp b c)
  | a, c => .seq a c

/-- sequences re-associated to the right (`(a; b); c` and `a; (b; c)` are the same code) -/
def rassoc : Sk → Sk
  | .seq a b => seqApp (rassoc a) (rassoc b)
  | .alt a b => .alt (rassoc a) (rassoc b)
  | .loop b => .loop (rassoc b)
  | .fin a b => .fin (rassoc a) (rassoc b)
  | .tryExc a b => .tryExc (rassoc a) (rassoc b)
  | s => s

/-! ### the event loop as an adversary -/

def upd {α : Type} (f : Nat → α) (i : Nat) (v : α) : Nat → α := fun j => if j = i then v else f j

/-- global schedules: `cur` = the task that is running and has not suspended since it was resumed.  Another task can be
picked only when `cur = none`, i.e. after an `aw` event or after the running task has finished -/
inductive Sched : Option Nat → (Nat → List Ev) → List (Nat × Ev) → Prop
  | done {cur rem} : Sched cur rem []
  | stepAct {cur rem i n rest g} : rem i = .act n :: rest → (cur = none ∨ cur = some i) →
      Sched (some i) (upd rem i rest) g → Sched cur rem ((i, .act n) :: g)
  | stepAw {cur rem i n rest g} : rem i = .aw n :: rest → (cur = none ∨ cur = some i) →
      Sched none (upd rem i rest) g → Sched cur rem ((i, .aw n) :: g)
  | finish {rem i g} : rem i = [] → Sched none rem g → Sched (some i) rem g

/-- section state of one task after an event (the section monitor, totalised: used on accepted traces only) -/
def secNext (opens closes : A → Bool) (inside : Bool) : Ev → Bool
  | .aw _ => inside
  | .act n => if closes n then false else if opens n then true else inside

/-- no task emits anything while ANOTHER task is inside its section -/
def GlobalOK (opens closes : A → Bool) : (Nat → Bool) → List (Nat × Ev) → Prop
  | _, [] => True
  | ins, (j, e) :: g => (∀ i, i ≠ j → ins i = false) ∧ GlobalOK opens closes (upd ins j (secNext opens closes (ins j) e)) g

/-- acceptance of a local trace by the section monitor from a given section state, ending outside -/
def secOK (opens closes : A → Bool) : Bool → List Ev → Bool
  | inside, [] => !inside
  | inside, .aw _ :: t => !inside && secOK opens closes false t
  | inside, .act n :: t => secOK opens closes (secNext opens closes inside (.act n)) t

/-! ### one lock, any number of tasks, ANY interleaving -/

/-- arbitrary interleavings of the tasks' local traces (no assumption on where tasks are switched) -/
inductive Inter : (Nat → List Ev) → List (Nat × Ev) → Prop
  | done {rem} : Inter rem []
  | step {rem i e rest g} : rem i = e :: rest → Inter (upd rem i rest) g → Inter rem ((i, e) :: g)

/-- the lock's own guarantee: an `acq` action is emitted only while nobody holds the lock (`holder` = who holds it) -/
def LockRespecting (acq rel : A → Bool) : Option Nat → List (Nat × Ev) → Prop
  | _, [] => True
  | h, (_, .aw _) :: g => LockRespecting acq rel h g
  | h, (i, .act a) :: g =>
    if acq a then h = none ∧ LockRespecting acq rel (some i) g
    else if rel a then LockRespecting acq rel (if h = some i then none else h) g
    else LockRespecting acq rel h g

/-- every `inner` action is emitted by the task that holds the lock at that moment -/
def InnerByHolder (acq rel inner : A → Bool) : Option Nat → List (Nat × Ev) → Prop
  | _, [] => True
  | h, (_, .aw _) :: g => InnerByHolder acq rel inner h g
  | h, (i, .act a) :: g =>
    if acq a then InnerByHolder acq rel inner (some i) g
    else if rel a then InnerByHolder acq rel inner (if h = some i then none else h) g
    else (inner a = true → h = some i) ∧ InnerByHolder acq rel inner h g

end GeckoModel.Coop
