/-
Status-block transfer (C01): the simulator's segment chain and the two client-side assemblers.

  simChain      : GeckoSimulator._on_status_block — the (index, next, bytes) segments for a (start, length) request;
                  the per-segment arithmetic is the generated `Generated.simSegLen` / `Generated.simSegNext`.
  asyncGet      : GeckoAsyncStructure.get — one stream of arrivals/timeouts; per attempt: fresh assembly state, append in-sequence segments, install on
                  the final one, abort the attempt on a timeout or on an out-of-sequence final segment; `retry` attempts.
  syncRun       : GeckoStructure.retry_request / _on_status_block_received + handler.loop/retry — assembly state lives in
                  the structure and survives a timeout retry; reset only on an out-of-sequence final segment.

Events are decoded segments or timeouts; the wire encoding is C04's, the polling/timeouts C06's.
-/
import GeckoModel.Model.Bytes
import GeckoModel.Generated.SimChain
import GeckoModel.Generated.TransferConsts

namespace GeckoModel
open GeckoModel.Generated

structure Seg where
  idx : Nat
  next : Nat
  data : List Byte
deriving Repr, DecidableEq

/-- number of iterations of `range(start, start + length, SEG)` -/
def segCount (len : Nat) : Nat := (len + simSegSize - 1) / simSegSize

/-- segment `i` of the chain for request `(start, len)` on block `blk` -/
def simSeg (blk : Block) (start len i : Nat) : Seg :=
  let s := start + simSegSize * i
  let l := (simSegLen i s start len blk.length (segCount len)).toNat
  { idx := i, next := (simSegNext i s start len blk.length (segCount len)).toNat, data := (blk.drop s).take l }

/-- `_on_status_block`: the chain in sending order -/
def simChain (blk : Block) (start len : Nat) : List Seg := (List.range (segCount len)).map (simSeg blk start len)

inductive Ev
  | seg (s : Seg)
  | timeout
deriving Repr, DecidableEq

/-- outcome of processing one attempt's events -/
inductive AttemptResult
  | installed (joined : List Byte)   -- final in-sequence segment arrived: install `joined` at `request.start`
  | aborted                          -- timeout, or an out-of-sequence final segment: next attempt
deriving Repr, DecidableEq

/-- the inner `while True` of GeckoAsyncStructure.get over the stream of arrivals: returns the outcome of this attempt
and the part of the stream it did not consume (datagrams still queued / arriving later are seen by the next attempt).
`.timeout` = nothing arrives for the protocol timeout; an exhausted stream = silence from then on. -/
def asyncAttempt : (nextExp : Nat) → (segs : List (List Byte)) → List Ev → AttemptResult × List Ev
  | _, _, [] => (.aborted, [])
  | _, _, .timeout :: rest => (.aborted, rest)
  | nextExp, segs, .seg s :: rest =>
    if nextExp = s.idx then
      if s.next = 0 then (.installed ((segs ++ [s.data]).flatten), rest)
      else asyncAttempt s.next (segs ++ [s.data]) rest
    else
      if s.next = 0 then (.aborted, rest) else asyncAttempt nextExp segs rest

structure GetResult where
  ok : Bool
  block : Block
  sends : Nat
deriving Repr, DecidableEq

/-- GeckoAsyncStructure.get: `retry` = retry_count; every attempt sends one request and reads on from the stream -/
def asyncGet : (retry : Nat) → (evs : List Ev) → (cli : Block) → (start : Nat) → (sends : Nat) → GetResult
  | 0, _, cli, _, sends => ⟨false, cli, sends⟩
  | retry + 1, evs, cli, start, sends =>
    match asyncAttempt 0 [] evs with
    | (.installed joined, _) => ⟨true, replaceSeg cli start joined, sends + 1⟩
    | (.aborted, rest) => asyncGet retry rest cli start (sends + 1)

/-! threaded assembler -/

structure SyncAsm where
  nextExp : Nat
  segs : List (List Byte)
  retries : Nat            -- handler._retry_count
  sends : Nat              -- STATU datagrams queued so far
  live : Bool              -- the request handler is still registered
  cli : Block
  installed : Bool
deriving Repr, DecidableEq

/-- GeckoStructure.retry_request: register, reset the assembly state, queue the request -/
def SyncAsm.start (cli : Block) (retries : Nat) : SyncAsm :=
  { nextExp := 0, segs := [], retries := retries, sends := 1, live := true, cli := cli, installed := false }

/-- one engine event for the registered request handler -/
def SyncAsm.step (a : SyncAsm) (start : Nat) : Ev → SyncAsm
  | .seg s =>
    if !a.live then a
    else if a.nextExp = s.idx then
      if s.next = 0 then
        { a with segs := a.segs ++ [s.data], nextExp := 0, cli := replaceSeg a.cli start (a.segs ++ [s.data]).flatten,
                 installed := true, live := false }
      else { a with segs := a.segs ++ [s.data], nextExp := s.next }
    else if s.next = 0 then
      -- "Retry status block request": reset, handler.retry(socket) (raises when exhausted; the handler then dies on its next timeout)
      if a.retries = 0 then { a with nextExp := 0, segs := [] }
      else { a with nextExp := 0, segs := [], retries := a.retries - 1, sends := a.sends + 1 }
    else a
  | .timeout =>
    if !a.live then a
    else if a.retries = 0 then { a with live := false }      -- on_retry_failed -> removed
    else { a with retries := a.retries - 1, sends := a.sends + 1 }   -- NB: assembly state is NOT reset

def SyncAsm.run (a : SyncAsm) (start : Nat) (evs : List Ev) : SyncAsm := evs.foldl (fun a e => a.step start e) a

/-! histories of transfers on one GeckoStructure: the assembly state lives on the structure, so what an earlier (possibly failed)
transfer left behind is what the next `retry_request` starts from — unless it resets it (generated facts). -/

/-- the structure as constructed: no transfer yet -/
def SyncAsm.fresh (cli : Block) : SyncAsm :=
  { nextExp := 0, segs := [], retries := 0, sends := 0, live := false, cli := cli, installed := false }

/-- GeckoStructure.retry_request on a structure that has been used before -/
def SyncAsm.restart (prev : SyncAsm) (retries : Nat) : SyncAsm :=
  { nextExp := if syncRequestResetsNext then 0 else prev.nextExp,
    segs := if syncRequestResetsSegments then [] else prev.segs,
    retries := retries, sends := 1, live := true, cli := prev.cli, installed := false }

/-- one transfer of a history -/
structure Xfer where
  spa : Block
  start : Nat
  len : Nat
  budget : Nat
  evs : List Ev

def SyncAsm.transfer (prev : SyncAsm) (x : Xfer) : SyncAsm := (SyncAsm.restart prev x.budget).run x.start x.evs

/-- the structure's state after each transfer of a history -/
def SyncAsm.history (prev : SyncAsm) : List Xfer → List SyncAsm
  | [] => []
  | x :: xs => let a := prev.transfer x; a :: SyncAsm.history a xs

end GeckoModel
