/-
C16 — the threaded counter under concurrent callers.

Any number of threads, each with its own list of pending calls (`true` = command counter), execute the
*generated* micro-program `Generated.syncCounterProgram` (the shape of
`GeckoUdpSocket.get_and_increment_sequence_counter` with respect to `self._lock`, extracted from the source on
every run) one micro-operation at a time under an arbitrary scheduler:

  acquire  enabled only while nobody holds the lock; the caller becomes the holder
  release  the lock becomes free
  read     the caller takes a snapshot of the two shared counters
  write    the caller runs the (generated, sequential) counter body `next` on its SNAPSHOT, stores the resulting
           counters and returns the resulting number; the pair (kind, number) is appended to the log

A scheduler is a list of thread numbers; a step of a thread that has nothing to do, or that is blocked on the
lock, changes nothing.
-/
import GeckoModel.Generated.SeqCounter

namespace GeckoModel.SeqThreads
open GeckoModel.Generated

abbrev Next := SeqState → Bool → SeqState × Int

structure Thr where
  todo : List Bool
  pc   : Nat
  snap : SeqState
deriving Repr

structure Sys where
  shared : SeqState
  holder : Option Nat
  thrs   : Nat → Thr
  log    : List (Bool × Int)

def setThr (f : Nat → Thr) (i : Nat) (t : Thr) : Nat → Thr := fun j => if j = i then t else f j

/-- move on to the next micro-operation; after the last one the call has returned -/
def advance (prog : List MicroOp) (t : Thr) : Thr :=
  if t.pc + 1 < prog.length then { t with pc := t.pc + 1 } else { t with pc := 0, todo := t.todo.tail }

def step (next : Next) (prog : List MicroOp) (s : Sys) (i : Nat) : Sys :=
  let t := s.thrs i
  match t.todo with
  | [] => s
  | k :: _ =>
    match prog[t.pc]? with
    | none => s
    | some .acquire =>
      match s.holder with
      | some _ => s                                              -- blocked
      | none => { s with holder := some i, thrs := setThr s.thrs i (advance prog t) }
    | some .release => { s with holder := none, thrs := setThr s.thrs i (advance prog t) }
    | some .read => { s with thrs := setThr s.thrs i (advance prog { t with snap := s.shared }) }
    | some .write =>
      let r := next t.snap k
      { s with shared := r.1, log := s.log ++ [(k, r.2)], thrs := setThr s.thrs i (advance prog t) }

def run (next : Next) (prog : List MicroOp) : Sys → List Nat → Sys
  | s, [] => s
  | s, i :: is => run next prog (step next prog s i) is

/-- `calls i` = the calls thread `i` is going to make -/
def initSys (init : SeqState) (calls : Nat → List Bool) : Sys :=
  { shared := init, holder := none, thrs := fun i => { todo := calls i, pc := 0, snap := init }, log := [] }

/-- sequential reference: results and final state of a list of calls made by ONE caller -/
def seqResults (next : Next) : SeqState → List Bool → List (Bool × Int)
  | _, [] => []
  | s, c :: cs => (c, (next s c).2) :: seqResults next (next s c).1 cs

def seqState (next : Next) : SeqState → List Bool → SeqState
  | s, [] => s
  | s, c :: cs => seqState next (next s c).1 cs

end GeckoModel.SeqThreads
