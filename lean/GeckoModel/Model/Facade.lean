/-
Hand model of the read-only surface of the automation facade (C11):
`automation/async_facade.py` (`GeckoAsyncFacade.__init__`, `_scan_outputs`, the properties), `automation/facade.py`
(`GeckoFacade._on_connected`, `scan_outputs`), `heater.py`, `sensors.py`, `switch.py`, `pump.py`, `blower.py`, `light.py`,
`watercare.py`, `reminders.py`, `keypad.py`, `base.py`.

* A **presence profile** (`Profile`) says which keys the merged table `dict(cfg.accessors, **log.accessors)` defines and with
  which items (`Profile.lookup`: the log table wins), and carries the four key lists the structure publishes
  (`all_outputs`, `all_devices`, `user_demands`, `error_keys`).
* `construct` follows the constructor statement by statement; `evalObj` gives every public read-only member of every
  object reachable from the facade.  Everything returns `Except FErr _`: a member "raises" in the model exactly where the
  Python dereferences a missing key (`KeyError`) or attribute (`AttributeError`), indexes a list (`IndexError`), reads an
  item outside the block (`struct.error`) or mixes types (`TypeError` / `ValueError`).  A stored value outside an
  enumeration's label list reads as "Unknown" (`Item.decodeRaw`), which is not an error.
* All constants (`DEVICES`, `SENSORS`, `BINARY_SENSORS`, watercare labels, key names, heater constants, reminder names) and the
  comparison operator of the watercare range guard come from `Generated/FacadeConsts.lean` / `Generated/FacadeFacts.lean`, regenerated from the working
  tree on every run.  The rest is tied to the code by the reflective correspondence of `harness/props/c11.py`.

Core Lean only.
-/
import GeckoModel.Model.FacadeReq
import GeckoModel.Generated.FacadeFacts

namespace GeckoModel.Facade
open GeckoModel
open GeckoModel.Generated.FacadeConsts

def liftErr : Err → FErr
  | .structErr => .structErr
  | .valueErr => .valueErr
  | .indexErr => .indexErr
  | .typeErr => .typeErr
  | .notWritable => .typeErr      -- never produced by `Item.decode`
  | .outOfModel => .typeErr       -- never produced by `Item.decode`

/-! ### values -/

/-- what `accessor.value` can be -/
inductive SVal
  | int (n : Nat)
  | bool (b : Bool)
  | str (s : String)
  | flt (num den : Nat)      -- a float, kept as the exact quotient `num / den` (temperature items only)
deriving Repr, DecidableEq

/-- `accessor.type` -/
def typeName : Kind → String
  | .byte => "Byte" | .word => "Word" | .temp => "Word" | .time => "Time" | .bool => "Bool" | .enum => "Enum"

/-- class name of the accessor object -/
def accessorClass : Kind → String
  | .byte => "GeckoByteStructAccessor" | .word => "GeckoWordStructAccessor" | .temp => "GeckoTempStructAccessor"
  | .time => "GeckoTimeStructAccessor" | .bool => "GeckoBoolStructAccessor" | .enum => "GeckoEnumStructAccessor"

def ofValue : Value → SVal
  | .int n => .int n
  | .bool b => .bool b
  | .str s => .str s

/-- `accessor.value` for any accessor class.  `GeckoTempStructAccessor._get_value`: the Word read first, then
`self.struct.accessors["TempUnits"].value`, then the conversion. -/
def Profile.value (P : Profile) (it : Item) (b : Block) : Except FErr SVal :=
  match it.decode b with
  | .error e => .error (liftErr e)
  | .ok v =>
    match it.kind with
    | .temp =>
      match P.lookup keyTempUnits with
      | none => .error .keyErr
      | some u =>
        if u.kind = .temp then .error .recursionErr
        else
          match u.decode b with
          | .error e => .error (liftErr e)
          | .ok uv =>
            match v with
            | .int raw => if uv = .str "C" then .ok (.flt raw 18) else .ok (.flt (raw + 320) 10)
            | _ => .error .typeErr      -- unreachable: a Word read is an integer
    | _ => .ok (ofValue v)

/-- `str(v)` / `f"{v}"`; `none` = a float (its digits are C14's business, not modelled here) -/
def SVal.pyStr : SVal → Option String
  | .int n => some (toString n)
  | .bool b => some (if b then "True" else "False")
  | .str s => some s
  | .flt _ _ => none

def SVal.isStr : SVal → Bool
  | .str _ => true
  | _ => false

/-- numerator / denominator of a number (`bool` is an `int` in Python) -/
def SVal.frac : SVal → Option (Nat × Nat)
  | .int n => some (n, 1)
  | .bool b => some (if b then 1 else 0, 1)
  | .flt n d => some (n, d)
  | .str _ => none

/-- `a < b` in Python: numbers with numbers, strings with strings, anything else is a TypeError -/
def pyLt (a b : SVal) : Except FErr Bool :=
  match a, b with
  | .str x, .str y => .ok (decide (x < y))
  | _, _ =>
    match a.frac, b.frac with
    | some (n1, d1), some (n2, d2) => .ok (decide (n1 * d2 < n2 * d1))
    | _, _ => .error .typeErr

/-- result classes reported for a member.  Exact where the model computes the value, a class where it does not
(floats and their renderings, object reprs with addresses, timestamps). -/
inductive RV
  | str (s : String)
  | anyStr
  | int (n : Int)
  | bool (b : Bool)
  | anyBool
  | float
  | none
  | list (n : Nat)              -- a list of that length
  | strs (l : List String)      -- a list of strings
  | obj (cls : String)          -- an object of that class
  | anyObj
deriving Repr, DecidableEq

def SVal.rv : SVal → RV
  | .int n => .int n
  | .bool b => .bool b
  | .str s => .str s
  | .flt _ _ => .float

/-- `f"{pre}{v}"` -/
def fstr (pre : String) (v : SVal) : RV :=
  match v.pyStr with
  | some s => .str (pre ++ s)
  | none => .anyStr

/-! ### generic list helpers -/

/-- sequential evaluation of a comprehension whose element expression can raise: the first exception wins -/
def mapE {α β : Type} (f : α → Except FErr β) : List α → Except FErr (List β)
  | [] => .ok []
  | a :: as =>
    match f a with
    | .error e => .error e
    | .ok b =>
      match mapE f as with
      | .error e => .error e
      | .ok bs => .ok (b :: bs)

/-- `list(dict.fromkeys(l))`: first occurrences, in order -/
def dedup : List String → List String
  | [] => []
  | x :: xs => x :: (dedup xs).filter (· != x)

/-- `v.startswith(d)` -/
def startsWith (v d : String) : Bool := d.toList.isPrefixOf v.toList

/-! ### the objects -/

/-- GeckoSensor / GeckoBinarySensor built by the facade: `(name, accessor)` -/
structure Sensor where
  name : String
  acc : Item
deriving Repr

/-- GeckoSwitch / GeckoBlower / GeckoLight / GeckoPump -/
structure Switch where
  key : String                                   -- device id = ui_key = key
  props : DevProps
  acc : Item                                     -- accessors[props.stateKey]
  demand : Option (String × Option (List String))  -- pumps: user_demand (demand tag, options = accessor.items)
deriving Repr

/-- one entry of `actual_user_devices` -/
structure UserDev where
  device : String
  demandTag : String
  options : Option (List String)
deriving Repr

structure Heater where
  units : Item
  target : Item
  current : Item
  real : Item
  heating : Option Item
  cooling : Option Item
deriving Repr

/-- which facade class: `GeckoAsyncFacade` or the threaded `GeckoFacade` -/
inductive Flavor | async | sync
deriving Repr, DecidableEq

/-- what the facade takes from its environment: `taskman.unique_id` / `taskman.spa_name` (async),
`spa.descriptor.identifier_as_string` with the colons removed / `spa.descriptor.name` (threaded) -/
structure Ident where
  flavor : Flavor
  uid : String
  name : String
  identifier : String := ""      -- threaded only
deriving Repr

structure Facade where
  P : Profile
  ident : Ident
  heater : Heater
  userDevices : List UserDev
  pumps : List Switch
  blowers : List Switch
  lights : List Switch
  sensors : List Sensor
  binarySensors : List Sensor
  errorQuiet : Bool              -- error sensor state computed by the constructor is "None" (no active error)
  eco : Switch
deriving Repr

/-- state that changes after construction: the block, the watercare mode and the reminder records last reported.
`rems = none`: no reminder report yet. -/
structure Dyn where
  block : Block
  mode : Option Int := none
  rems : Option (List (Nat × Int)) := none
deriving Repr

/-! ### construction -/

/-- `GeckoWaterHeater.__init__`: `accessors["TempUnits"]` is a plain lookup; the three temperature sensors are assigned
only under `if key in accessors` and then all read in the observer-loop list literal -/
def buildHeater (P : Profile) : Except FErr Heater :=
  match P.lookup keyTempUnits with
  | none => .error .keyErr
  | some u =>
    match P.lookup keyDisplayedTempG, P.lookup keySetpointG, P.lookup keyRealSetpointG with
    | some cur, some tgt, some real => .ok ⟨u, tgt, cur, real, P.lookup keyHeating, P.lookup keyCoolingDown⟩
    | _, _, _ => .error .attrErr

/-- `{output: accessors[output].value for output in all_outputs}` (values only) -/
def connections (P : Profile) (b : Block) : Except FErr (List SVal) :=
  mapE (fun o => match P.get o with | .error e => .error e | .ok it => P.value it b) P.outputs

/-- `list(dict.fromkeys([device for device in all_devices for val in actual_connections.values() if val.startswith(device)]))` -/
def actualDevices (devs : List String) (vals : List SVal) : Except FErr (List String) :=
  if devs.isEmpty then .ok []
  else if vals.any (fun v => !v.isStr) then .error .attrErr      -- `int`/`bool`/`float` has no `startswith`
  else .ok (dedup (devs.filter (fun d => vals.any (fun v => match v with | .str s => startsWith s d | _ => false))))

def buildUserDev (P : Profile) (p : String × String) : Except FErr UserDev :=
  match P.get p.2 with
  | .error e => .error e
  | .ok it => .ok ⟨p.1, it.tag, if it.hasLabels then some it.labels else none⟩

/-- `GeckoPump(...)` / `GeckoSwitch(...)`: `accessors[props[2]]` -/
def buildSwitch (P : Profile) (pump : Bool) (u : UserDev) : Except FErr Switch :=
  match lookupDev u.device with
  | none => .error .keyErr        -- unreachable: the caller filtered on `device in DEVICES`
  | some pr =>
    match P.get pr.stateKey with
    | .error e => .error e
    | .ok it => .ok ⟨u.device, pr, it, if pump then some (u.demandTag, u.options) else none⟩

def buildSensors (P : Profile) (tbl : List (String × String)) : List Sensor :=
  tbl.filterMap (fun s => (P.lookup s.2).map (fun it => ⟨s.1, it⟩))

/-- GeckoErrorSensor: `accessors[k]` for every error key, then `update_state`: the value of every Bool item among them.
Returns whether the state is "None" (no active error). -/
def buildErrorSensor (P : Profile) (b : Block) : Except FErr Bool :=
  match mapE P.get P.errorKeys with
  | .error e => .error e
  | .ok items =>
    match mapE (fun it => P.value it b) (items.filter (fun it => it.kind == .bool)) with
    | .error e => .error e
    | .ok vals => .ok (!(vals.any (fun v => v == .bool true)))

def ecoProps : DevProps := ⟨econDescription, keypadEco, keyEconActive, classSwitch⟩

/-- "Remove unknown device classes": `handled_device["device"] in GeckoConstants.DEVICES` -/
def handled (uds : List UserDev) : List UserDev := uds.filter (fun u => (lookupDev u.device).isSome)

/-- `GeckoConstants.DEVICES[device][3] == cls` -/
def ofClass (c : String) (uds : List UserDev) : List UserDev :=
  uds.filter (fun u => match lookupDev u.device with | some pr => pr.cls == c | none => false)

/-- the values of `actual_connections`: everything but "NA" -/
def notNA (conns : List SVal) : List SVal := conns.filter (fun v => v != .str "NA")

/-- `GeckoAsyncFacade.__init__` / `GeckoFacade._on_connected` on a structure whose block is `b` -/
def construct (P : Profile) (id : Ident) (b : Block) : Except FErr Facade :=
  match buildHeater P with
  | .error e => .error e
  | .ok heater =>
    match connections P b with
    | .error e => .error e
    | .ok conns =>
      match actualDevices P.devices (notNA conns) with
      | .error e => .error e
      | .ok devs =>
        match mapE (buildUserDev P) (udPairs devs P.userDemands) with
        | .error e => .error e
        | .ok uds0 =>
          match mapE (buildSwitch P true) (ofClass classPump (handled uds0)) with
          | .error e => .error e
          | .ok pumps =>
            match mapE (buildSwitch P false) (ofClass classBlower (handled uds0)) with
            | .error e => .error e
            | .ok blowers =>
              match mapE (buildSwitch P false) (ofClass classLight (handled uds0)) with
              | .error e => .error e
              | .ok lights =>
                match buildErrorSensor P b with
                | .error e => .error e
                | .ok quiet =>
                  -- `if KEY_ECON_ACTIVE in accessors: self._ecomode = GeckoSwitch(...)`; otherwise it stays None and
                  -- `for device in self.all_automation_devices: device.watch(...)` raises on the None
                  match P.lookup keyEconActive with
                  | none => .error .attrErr
                  | some e =>
                    .ok { P := P, ident := id, heater := heater, userDevices := handled uds0, pumps := pumps, blowers := blowers,
                          lights := lights, sensors := buildSensors P sensors, binarySensors := buildSensors P binarySensors,
                          errorQuiet := quiet, eco := ⟨keyEconActive, ecoProps, e, none⟩ }

/-! ### members -/

/-- every public read-only member name of any class of the surface (`str_` = `__str__`, `repr_` = `__repr__`;
`state_sensor`, `format_temperature`, `get_reminder`, `get_device` are the argument-taking read-only methods) -/
inductive Mem
  | name | parent_name | key | unique_id | parent_unique_id | monitor | facade | has_observers | str_ | repr_
  | state | unit_of_measurement | device_class | accessor | is_on
  | ui_key | state_sensor | mode | modes
  | is_present | target_temperature | real_target_temperature | current_temperature | min_temp | max_temp
  | temperature_unit | current_operation | MAX_TEMP_C | MAX_TEMP_F | MIN_TEMP_C | MIN_TEMP_F | TEMP_CELCIUS
  | TEMP_FARENHEIGHT | format_temperature
  | active_mode
  | reminders | last_update | get_reminder (t : Nat) | type | description | days
  | actual_user_devices | all_automation_devices | all_config_change_devices | all_user_devices | binary_sensors
  | blowers | lights | pumps | sensors | devices | eco_mode | error_sensor | keypad | water_care | water_heater
  | reminders_manager | spa | get_device (k : String) | identifier | is_connected | is_in_error
deriving Repr, DecidableEq

/-- the objects reachable from the facade through its public attributes and lists -/
inductive Obj
  | facade | heater | watercare | reminders | keypad | errorSensor | eco | ecoState
  | pump (i : Nat)
  | blower (i : Nat) | blowerState (i : Nat)
  | light (i : Nat) | lightState (i : Nat)
  | sensor (i : Nat) | binarySensor (i : Nat)
  | reminder (i : Nat)
deriving Repr, DecidableEq

abbrev Res := Option (Except FErr RV)      -- `none`: the class has no such member

instance {α : Type} [DecidableEq α] : DecidableEq (Except FErr α) := fun a b =>
  match a, b with
  | .ok x, .ok y => if h : x = y then isTrue (by rw [h]) else isFalse (by intro e; cases e; exact h rfl)
  | .error x, .error y => if h : x = y then isTrue (by rw [h]) else isFalse (by intro e; cases e; exact h rfl)
  | .ok _, .error _ => isFalse (by intro e; cases e)
  | .error _, .ok _ => isFalse (by intro e; cases e)

def facadeClass : Flavor → String
  | .async => "GeckoAsyncFacade"
  | .sync => "GeckoFacade"

/-- members of GeckoAutomationBase / GeckoAutomationFacadeBase that only read what the constructor stored -/
def baseMember (id : Ident) (name key : String) (m : Mem) : Res :=
  match m with
  | .name => some (.ok (.str name))
  | .parent_name => some (.ok (.str id.name))
  | .key => some (.ok (.str key))
  | .unique_id => some (.ok (.str (id.uid ++ "-" ++ key)))
  | .parent_unique_id => some (.ok (.str id.uid))
  | .facade => some (.ok (.obj (facadeClass id.flavor)))
  | .has_observers => some (.ok .anyBool)
  | .repr_ => some (.ok .anyStr)          -- Observable.__repr__ + "(name=.., parent=.. key=..)": no item is read
  | _ => none

/-- GeckoSensor / GeckoBinarySensor on an accessor -/
def sensorMember (P : Profile) (id : Ident) (b : Block) (s : Sensor) (binary : Bool) (m : Mem) : Res :=
  let st := P.value s.acc b
  match m with
  | .state => some (st.map SVal.rv)
  | .unit_of_measurement => some (.ok .none)
  | .device_class => some (.ok .none)
  | .accessor => some (.ok (.obj (accessorClass s.acc.kind)))
  | .monitor => some (st.map (fstr (s.acc.tag ++ ": ")))
  | .str_ => some (st.map (fstr (s.name ++ ": ")))        -- GeckoSensorBase.__repr__
  | .repr_ => some (st.map (fstr (s.name ++ ": ")))
  | .is_on =>
    if binary then
      some (st.map (fun v => match v with
        | .bool x => .bool x
        | .str x => .bool (if x = "" then false else x != "OFF")
        | _ => .bool true))
    else none
  | m => baseMember id s.name s.name.toUpper m

def stateSensorOf (sw : Switch) : Sensor := ⟨sw.props.name ++ " State", sw.acc⟩

/-- GeckoSwitch (blower, light, eco mode) and GeckoPump -/
def switchMember (P : Profile) (id : Ident) (b : Block) (sw : Switch) (m : Mem) : Res :=
  let st := P.value sw.acc b
  match m with
  | .ui_key => some (.ok (.str sw.key))
  | .device_class => some (.ok (.str sw.props.cls))
  | .state_sensor => match sw.demand with     -- GeckoSwitch.state_sensor(); GeckoPump has no such method
    | none => some (.ok (.obj "GeckoSensor"))
    | some _ => none
  | .is_on =>
    some (st.map (fun v =>
      if typeName sw.acc.kind = boolType then v.rv          -- returns the state itself
      else .bool (v != .str "OFF")))
  | .monitor => some (st.map (fstr (sw.key ++ ": ")))
  | .str_ => some (st.map (fstr (sw.props.name ++ ": ")))
  | .mode => match sw.demand with
    | some _ => some (st.map SVal.rv)
    | none => none
  | .modes => match sw.demand with
    | some (_, some opts) => some (.ok (.strs opts))
    | some (_, none) => some (.ok .none)
    | none => none
  | m => baseMember id sw.props.name sw.key m

/-- `f"{temperature:.1f}"`: a str has no `f` format -/
def fmtTemp : SVal → Except FErr Unit
  | .str _ => .error .valueErr
  | _ => .ok ()

/-- `GeckoBinarySensor.is_on` on a value -/
def binIsOn : SVal → Bool
  | .bool x => x
  | .str x => if x = "" then false else x != "OFF"
  | _ => true

/-- the last rung of `current_operation`: `current_temperature < real_target_temperature`, then `>` -/
def opByTemps (P : Profile) (b : Block) (h : Heater) : Except FErr String :=
  match P.value h.current b, P.value h.real b with
  | .error e, _ => .error e
  | .ok _, .error e => .error e
  | .ok c, .ok r =>
    match pyLt c r with
    | .error e => .error e
    | .ok true => .ok opHeating
    | .ok false =>
      -- the properties are read again for the second comparison; same block, same values
      match pyLt r c with
      | .error e => .error e
      | .ok true => .ok opCooling
      | .ok false => .ok opIdle

/-- `GeckoWaterHeater.current_operation` -/
def currentOperation (P : Profile) (b : Block) (h : Heater) : Except FErr String :=
  match h.heating, h.cooling with
  | some hi, some ci =>
    match P.value hi b with
    | .error e => .error e
    | .ok hv =>
      if binIsOn hv then .ok opHeating
      else
        match P.value ci b with
        | .error e => .error e
        | .ok cv => if binIsOn cv then .ok opCooling else .ok opIdle
  | some hi, none =>
    match P.value hi b with
    | .error e => .error e
    | .ok hv => if binIsOn hv then .ok opHeating else opByTemps P b h
  | none, some ci =>
    match P.value ci b with
    | .error e => .error e
    | .ok cv => if binIsOn cv then .ok opCooling else opByTemps P b h
  | none, none => opByTemps P b h

def unitsIsC (P : Profile) (b : Block) (h : Heater) : Except FErr Bool :=
  (P.value h.units b).map (fun v => v == .str "C")

/-- `format_temperature(x)` for a number x: `f"{x:.1f}{self.temperature_unit}"` -/
def formatTemperature (P : Profile) (b : Block) (h : Heater) (v : SVal) : Except FErr RV :=
  match fmtTemp v with
  | .error e => .error e
  | .ok () => (unitsIsC P b h).map (fun _ => .anyStr)

def heaterStr (P : Profile) (b : Block) (h : Heater) : Except FErr RV :=
  -- `_is_present` is True whenever the constructor got this far
  match P.value h.current b with
  | .error e => .error e
  | .ok c =>
    match formatTemperature P b h c with
    | .error e => .error e
    | .ok _ =>
      match P.value h.target b with
      | .error e => .error e
      | .ok t =>
        match formatTemperature P b h t with
        | .error e => .error e
        | .ok _ =>
          match P.value h.real b with
          | .error e => .error e
          | .ok r =>
            match formatTemperature P b h r with
            | .error e => .error e
            | .ok _ => (currentOperation P b h).map (fun _ => .anyStr)

def heaterMonitor (P : Profile) (b : Block) (h : Heater) : Except FErr RV :=
  match P.value h.current b with
  | .error e => .error e
  | .ok c =>
    match formatTemperature P b h c with
    | .error e => .error e
    | .ok _ =>
      match P.value h.real b with
      | .error e => .error e
      | .ok r => formatTemperature P b h r

def heaterMember (P : Profile) (id : Ident) (b : Block) (h : Heater) (m : Mem) : Res :=
  match m with
  | .is_present => some (.ok (.bool true))
  | .target_temperature => some ((P.value h.target b).map SVal.rv)
  | .real_target_temperature => some ((P.value h.real b).map SVal.rv)
  | .current_temperature => some ((P.value h.current b).map SVal.rv)
  | .min_temp => some ((unitsIsC P b h).map (fun c => .int (if c then heater_MIN_TEMP_C else heater_MIN_TEMP_F)))
  | .max_temp => some ((unitsIsC P b h).map (fun c => .int (if c then heater_MAX_TEMP_C else heater_MAX_TEMP_F)))
  | .temperature_unit => some ((unitsIsC P b h).map (fun c => .str (if c then tempCelcius else tempFarenheight)))
  | .current_operation => some ((currentOperation P b h).map RV.str)
  | .MAX_TEMP_C => some (.ok (.int heater_MAX_TEMP_C))
  | .MAX_TEMP_F => some (.ok (.int heater_MAX_TEMP_F))
  | .MIN_TEMP_C => some (.ok (.int heater_MIN_TEMP_C))
  | .MIN_TEMP_F => some (.ok (.int heater_MIN_TEMP_F))
  | .TEMP_CELCIUS => some (.ok (.str tempCelcius))
  | .TEMP_FARENHEIGHT => some (.ok (.str tempFarenheight))
  | .format_temperature => some (formatTemperature P b h (.flt 41 2))      -- format_temperature(20.5)
  | .str_ => some (heaterStr P b h)
  | .monitor => some (heaterMonitor P b h)
  | m => baseMember id "Heater" "HEAT" m

/-! ### watercare -/

/-- `GeckoWaterCare.__str__` with the upper guard `>` (`strict = true`, the code today) or `>=` -/
def wcStrWith (strict : Bool) (mode : Option Int) : Except FErr String :=
  match mode with
  | none => .ok "WaterCare: Waiting..."
  | some m =>
    let n : Int := watercareModes.length
    if m < 0 ∨ (if strict then m > n else m ≥ n) then .ok ("Unknown Water care mode (index:" ++ toString m ++ ")")
    else
      match watercareModes[m.toNat]? with
      | some s => .ok ("WaterCare: " ++ s)
      | none => .error .indexErr

def wcStr (mode : Option Int) : Except FErr String := wcStrWith wcGuardStrict mode

def wcMonitor (mode : Option Int) : Except FErr String :=
  match mode with
  | none => .ok "WC: ?"
  | some m => .ok ("WC: " ++ toString m)

/-- `change_watercare_mode(new)` / `_on_watercare`: when the mode differs it is stored, then `_on_change(self, old, new)`
formats `{sender}` eagerly, i.e. evaluates `str(self)` with the NEW mode -/
def wcChange (old new : Option Int) : Except FErr Unit :=
  if old = new then .ok ()
  else if onChangeFormatsSender then (wcStr new).map (fun _ => ()) else .ok ()

def watercareMember (id : Ident) (mode : Option Int) (m : Mem) : Res :=
  let mv : RV := match mode with | some x => .int x | none => .none
  match m with
  | .active_mode => some (.ok mv)
  | .mode => some (.ok mv)
  | .modes => some (.ok (.strs watercareModes))
  | .monitor => some ((wcMonitor mode).map RV.str)
  | .str_ => some ((wcStr mode).map RV.str)
  | m => baseMember id "WaterCare" "WATERCARE" m

/-! ### reminders -/

def reminderName (t : Nat) : String := (reminderNames[min t 7]?).getD "Unhandled"

/-- the records kept by `change_reminders` (async) / `_on_reminders` (threaded): everything but INVALID -/
def activeReminders (rs : List (Nat × Int)) : List (Nat × Int) := rs.filter (fun r => r.1 != reminderInvalid)

/-- `Reminder.__str__` -/
def reminderStr (r : Nat × Int) : String :=
  if r.2 > 0 then reminderName r.1 ++ " due in " ++ toString r.2 ++ " days"
  else if r.2 = 0 then reminderName r.1 ++ " due today"
  else reminderName r.1 ++ " overdue by " ++ toString (-r.2) ++ " days"

/-- length of `GeckoReminders.reminders`.  Async: Reminder objects.  Threaded: `("Time", now)` followed by
`(description, days)` TUPLES. -/
def remindersLen (fl : Flavor) (rems : Option (List (Nat × Int))) : Nat :=
  match rems with
  | none => 0
  | some rs => match fl with
    | .async => (activeReminders rs).length
    | .sync => 1 + (activeReminders rs).length

/-- `get_reminder(type)`: `reminder.type == reminder_type` over the list; a tuple has no `.type` -/
def getReminder (fl : Flavor) (rems : Option (List (Nat × Int))) (t : Nat) : Except FErr RV :=
  match rems with
  | none => .ok .none
  | some rs => match fl with
    | .async => if (activeReminders rs).any (fun r => r.1 == t) then .ok (.obj "Reminder") else .ok .none
    | .sync => .error .attrErr

def remindersMember (id : Ident) (rems : Option (List (Nat × Int))) (m : Mem) : Res :=
  match m with
  | .reminders => some (.ok (.list (remindersLen id.flavor rems)))
  | .last_update => some (.ok (match id.flavor, rems with | .async, some _ => .obj "datetime" | _, _ => .none))
  | .get_reminder t => some (getReminder id.flavor rems t)
  | .str_ => some (.ok .anyStr)            -- f"{name}: {list}": default object reprs
  | .monitor => some (.ok .anyStr)
  | m => baseMember id "Reminders" "REMINDERS" m

/-- one `GeckoReminders.Reminder` (async flavour only) -/
def reminderMember (r : Nat × Int) (m : Mem) : Res :=
  match m with
  | .type => some (.ok (.int r.1))
  | .description => some (.ok (.str (reminderName r.1)))
  | .days => some (.ok (.int r.2))
  | .monitor => some (.ok .anyStr)         -- f"{datetime.now()}"
  | .str_ => some (.ok (.str (reminderStr r)))
  | .repr_ => some (.ok .anyStr)
  | _ => none

def keypadMember (id : Ident) (m : Mem) : Res :=
  match m with
  | .str_ => some (.ok (.str "Keypad: Not implemented yet"))
  | .monitor => some (.ok (.str "Keypad: Not implemented yet"))
  | m => baseMember id "Keypad" "KEYPAD" m

/-- GeckoErrorSensor: the state is a stored string -/
def errorSensorMember (id : Ident) (quiet : Bool) (m : Mem) : Res :=
  let st : RV := if quiet then .str "None" else .anyStr
  let txt : RV := if quiet then .str "Error Sensor: None" else .anyStr
  match m with
  | .state => some (.ok st)
  | .unit_of_measurement => some (.ok .none)
  | .device_class => some (.ok .none)
  | .str_ => some (.ok txt)
  | .repr_ => some (.ok txt)
  | .monitor => some (.ok txt)
  | m => baseMember id "Error Sensor" "ERROR SENSOR" m

/-! ### the facade itself -/

def Facade.userSwitches (f : Facade) : List Switch := f.pumps ++ f.blowers ++ f.lights

/-- keys of `all_automation_devices`, in order -/
def Facade.deviceKeys (f : Facade) : List String :=
  f.userSwitches.map (·.key) ++ f.sensors.map (·.name.toUpper) ++ f.binarySensors.map (·.name.toUpper) ++
  (match f.ident.flavor with
   | .async => ["HEAT", "WATERCARE", "REMINDERS", "KEYPAD", keyEconActive]
   | .sync => ["HEAT", "WATERCARE", "KEYPAD", keyEconActive])

/-- class of the device `get_device(k)` returns -/
def Facade.deviceClasses (f : Facade) : List (String × String) :=
  f.pumps.map (fun s => (s.key, "GeckoPump")) ++ f.blowers.map (fun s => (s.key, "GeckoBlower")) ++
  f.lights.map (fun s => (s.key, "GeckoLight")) ++ f.sensors.map (fun s => (s.name.toUpper, "GeckoSensor")) ++
  f.binarySensors.map (fun s => (s.name.toUpper, "GeckoBinarySensor")) ++
  (match f.ident.flavor with
   | .async => [("HEAT", "GeckoWaterHeater"), ("WATERCARE", "GeckoWaterCare"), ("REMINDERS", "GeckoReminders"),
                ("KEYPAD", "GeckoKeypad"), (keyEconActive, "GeckoSwitch")]
   | .sync => [("HEAT", "GeckoWaterHeater"), ("WATERCARE", "GeckoWaterCare"), ("KEYPAD", "GeckoKeypad"),
               (keyEconActive, "GeckoSwitch")])

def facadeMember (f : Facade) (d : Dyn) (m : Mem) : Res :=
  let isAsync := f.ident.flavor == .async
  match m with
  | .actual_user_devices => some (.ok (.list f.userDevices.length))
  | .all_automation_devices => some (.ok (.list f.deviceKeys.length))
  | .all_user_devices => some (.ok (.list f.userSwitches.length))
  | .all_config_change_devices => if isAsync then some (.ok (.list (f.pumps.length + f.blowers.length))) else none
  | .binary_sensors => some (.ok (.list f.binarySensors.length))
  | .blowers => some (.ok (.list f.blowers.length))
  | .lights => some (.ok (.list f.lights.length))
  | .pumps => some (.ok (.list f.pumps.length))
  | .sensors => some (.ok (.list f.sensors.length))
  | .devices => some (.ok (.strs f.deviceKeys))
  | .eco_mode => some (.ok (.obj "GeckoSwitch"))
  | .error_sensor => some (.ok (.obj "GeckoErrorSensor"))
  | .keypad => some (.ok (.obj "GeckoKeypad"))
  | .water_care => some (.ok (.obj "GeckoWaterCare"))
  | .water_heater => some (.ok (.obj "GeckoWaterHeater"))
  | .reminders_manager => if isAsync then some (.ok (.obj "GeckoReminders")) else none
  | .spa => some (.ok .anyObj)
  | .name => some (.ok (.str f.ident.name))
  | .unique_id => some (.ok (.str f.ident.uid))
  | .has_observers => some (.ok .anyBool)
  | .str_ => some (.ok .anyStr)
  | .repr_ => some (.ok .anyStr)
  | .get_device k =>
    some (.ok (match f.deviceClasses.find? (·.1 == k) with
      | some (_, c) => .obj c
      | none => .none))
  | .identifier => if isAsync then none else some (.ok (.str f.ident.identifier))
  | .is_connected => if isAsync then none else some (.ok (.bool true))
  | .is_in_error => if isAsync then none else some (.ok .anyBool)
  | .reminders => if isAsync then none else some (.ok (.list (remindersLen .sync d.rems)))
  | _ => none

/-- every member of every reachable object (`none`: no such object / no such member) -/
def evalObj (f : Facade) (d : Dyn) (o : Obj) (m : Mem) : Res :=
  let P := f.P
  let id := f.ident
  let b := d.block
  let sw (l : List Switch) (i : Nat) : Res := match l[i]? with | some s => switchMember P id b s m | none => none
  let ss (l : List Switch) (i : Nat) : Res := match l[i]? with | some s => sensorMember P id b (stateSensorOf s) false m | none => none
  match o with
  | .facade => facadeMember f d m
  | .heater => heaterMember P id b f.heater m
  | .watercare => watercareMember id d.mode m
  | .reminders =>
    -- the threaded facade keeps its reminders manager private (`_reminders`; only the list is public)
    match id.flavor with
    | .async => remindersMember id d.rems m
    | .sync => none
  | .keypad => keypadMember id m
  | .errorSensor => errorSensorMember id f.errorQuiet m
  | .eco => switchMember P id b f.eco m
  | .ecoState => sensorMember P id b (stateSensorOf f.eco) false m
  | .pump i => sw f.pumps i
  | .blower i => sw f.blowers i
  | .blowerState i => ss f.blowers i
  | .light i => sw f.lights i
  | .lightState i => ss f.lights i
  | .sensor i => match f.sensors[i]? with | some s => sensorMember P id b s false m | none => none
  | .binarySensor i => match f.binarySensors[i]? with | some s => sensorMember P id b s true m | none => none
  | .reminder i =>
    match id.flavor, d.rems with
    | .async, some rs => match (activeReminders rs)[i]? with | some r => reminderMember r m | none => none
    | _, _ => none


end GeckoModel.Facade
