/-
C13 model — what a facade command emits, and what the spa (as the property's quantifier prescribes it) does with it.

  GeckoSwitch.async_turn_on/off (blower, light, eco mode; the threaded twins are identical):
        if already in the requested state: nothing
        elif keypad_button != 0: one key press
        else: write the state item True / False through its accessor (C02's `encode`)
  GeckoPump.async_set_mode            : write the user-demand item (exceptions swallowed: nothing is sent)
  GeckoWaterHeater.async_set_temperature_unit : "F" for (°F, f, F), "C" otherwise, through the TempUnits accessor
  GeckoWaterCare.async_set_mode       : label -> index, SETWC, then the local mode
  spa (ASSUMPTION of the property, stated as definitions, not proved): a set-value stores the bytes (`applyWrite`) and echoes
        them in a partial update; a key press toggles the on/off state item of the device behind that key and echoes it.
  client mirror: applies the echoed bytes (C05's `applyChanges`).
-/
import GeckoModel.Model.Accessor
import GeckoModel.Model.Partial

namespace GeckoModel

inductive Emit
  | keyPress (key : Nat)
  | setValue (w : DevWrite)
  | setWC (mode : Nat)
deriving Repr, DecidableEq

/-- `GeckoSwitch.is_on`: Bool items report their value, anything else is on unless it reads "OFF" -/
def Item.isOn (it : Item) (b : Block) : Bool :=
  match it.decode b with
  | .ok (.bool x) => x
  | .ok (.str s) => s != "OFF"
  | _ => false

/-- `GeckoSwitch.async_turn_on` (`want = true`) / `async_turn_off` (`want = false`) -/
def cmdSwitch (it : Item) (keypad : Nat) (want : Bool) (b : Block) : List Emit :=
  if it.isOn b = want then []
  else if keypad ≠ 0 then [.keyPress keypad]
  else match it.encodeAsync b (.bool want) with
    | .ok w => [.setValue w]
    | .error _ => []          -- the accessor raises; nothing is sent (the exception reaches the caller)

/-- `GeckoPump.async_set_mode`: exceptions are caught and logged -/
def cmdPumpMode (ud : Item) (mode : String) (b : Block) : List Emit :=
  match ud.encodeAsync b (.str mode) with
  | .ok w => [.setValue w]
  | .error _ => []

/-- `GeckoWaterHeater.async_set_temperature_unit` -/
def cmdTempUnit (units : Item) (newUnit : String) (b : Block) : List Emit :=
  let v := if newUnit = "°F" ∨ newUnit = "f" ∨ newUnit = "F" then "F" else "C"
  match units.encodeAsync b (.str v) with
  | .ok w => [.setValue w]
  | .error _ => []

def watercareModes : List String := ["Away From Home", "Standard", "Energy Saving", "Super Energy Saving", "Weekender"]

/-- `GeckoWaterCare.async_set_mode` with a label: `none` = ValueError (unknown label) -/
def cmdWatercare (label : String) : Option Emit :=
  (watercareModes.idxOf? label).map Emit.setWC

/-- spa and client mirror -/
structure World where
  spa : Block
  cli : Block
  wc : Nat          -- the spa's watercare mode
  cliWc : Option Nat
deriving Repr, DecidableEq

/-- the spa applies one command and echoes; the client applies the echo. `toggle key` = the spa's own reaction to a key
press (assumption: it rewrites some bytes of its block); `none` = the spa cannot store the value (struct.error) -/
def World.apply (toggle : Nat → Block → Block) (w : World) : Emit → Option World
  | .setValue dw =>
    match applyWrite w.spa dw, packBE dw.len dw.value with
    | some spa', some bytes => some { w with spa := spa', cli := applyChanges w.cli [⟨dw.pos, bytes⟩] }
    | _, _ => none
  | .keyPress k =>
    let spa' := toggle k w.spa
    some { w with spa := spa', cli := spa' }     -- the echo carries every byte the press changed
  | .setWC m => some { w with wc := m, cliWc := some m }

def World.applyAll (toggle : Nat → Block → Block) : World → List Emit → Option World
  | w, [] => some w
  | w, e :: es => match w.apply toggle e with
    | some w' => World.applyAll toggle w' es
    | none => none

end GeckoModel
