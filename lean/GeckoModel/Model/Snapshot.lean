/-
Hand model of the snapshot text formats of geckolib (core Lean only).

Writer side : `GeckoShell.do_snapshot` / `GeckoShell.version_strings` (utils/shell.py) as they reach the log file through
              the shell's file-logger format `%(asctime)s %(name)s %(levelname)s %(message)s`.
Reader side : `GeckoSnapshot.parse` (utils/snapshot.py): a table of 15 regular expressions, every one tried with
              `re.search(.., re.DOTALL)` on every line, all that match fire in table order (later writes overwrite);
              `GeckoSnapshot.parse_log_file` (which lines start / feed / close a snapshot).
Traffic logs: `str(bytes)` (CPython `bytes.__repr__`) as written by `"Received %s from %s"`, read back by
              `(STATV.*)</DATAS>` -> tokenising quote replacement (`re.sub(r"\\.|'", ..)`) -> `ast.literal_eval("b'..'")`
              -> STATV decoder.

Text is `List Char` throughout (`String` only at the API surface).  Each regular expression is modelled by a small total
function with the leftmost / greedy / backtracking meaning of that particular expression; the expression texts themselves
are extracted from the source on every run (`Generated/SnapshotSrc.lean`) and pinned against the list modelled here.
The functions are tied to the real `re`, `int(.., 16)`, `bytes.__repr__` and `ast.literal_eval` by the differential
correspondence in `harness/props/c19.py`.   Python exceptions are explicit (`Except PErr`), nothing is defaulted.
-/
import GeckoModel.Model.Bytes

namespace GeckoModel.Snapshot
open GeckoModel

abbrev Text := List Char

/-! ## characters, decimal and hexadecimal numbers (own definitions) -/

def isDigit (c : Char) : Bool := decide ('0' ≤ c) && decide (c ≤ '9')
def isLowerHex (c : Char) : Bool := decide ('a' ≤ c) && decide (c ≤ 'f')
def isUpperHex (c : Char) : Bool := decide ('A' ≤ c) && decide (c ≤ 'F')
def isHexDigit (c : Char) : Bool := isDigit c || isLowerHex c || isUpperHex c
/-- `\w` restricted to ASCII (the model only claims ASCII lines) -/
def isWord (c : Char) : Bool :=
  isDigit c || (decide ('a' ≤ c) && decide (c ≤ 'z')) || (decide ('A' ≤ c) && decide (c ≤ 'Z')) || c == '_'
/-- `\s` restricted to ASCII: space, \t \n \v \f \r, and the separators 0x1c..0x1f -/
def isSpace (c : Char) : Bool :=
  c == ' ' || (decide (9 ≤ c.toNat) && decide (c.toNat ≤ 13)) || (decide (28 ≤ c.toNat) && decide (c.toNat ≤ 31))

def printable (c : Char) : Bool := decide (0x20 ≤ c.toNat) && decide (c.toNat ≤ 0x7e)

def digitChar (n : Nat) : Char := Char.ofNat (48 + n % 10)
def hexChar (n : Nat) : Char := if n % 16 < 10 then Char.ofNat (48 + n % 16) else Char.ofNat (87 + n % 16)

def hexVal (c : Char) : Option Nat :=
  if isDigit c then some (c.toNat - 48)
  else if isLowerHex c then some (c.toNat - 87)
  else if isUpperHex c then some (c.toNat - 55) else none

/-- `str(n)` for a natural number; structural on a fuel argument so that it evaluates in the kernel -/
def natToDecF : Nat → Nat → Text
  | 0, n => [digitChar n]
  | f + 1, n => if n < 10 then [digitChar n] else natToDecF f (n / 10) ++ [digitChar n]
def natToDec (n : Nat) : Text := natToDecF n n

/-- value of a digit string read left to right -/
def decVal (cs : Text) : Nat := cs.foldl (fun a c => a * 10 + (c.toNat - 48)) 0
/-- `int(s)` on a non-empty ASCII digit string; `none` = ValueError -/
def decToNat (cs : Text) : Option Nat := if cs.isEmpty || !cs.all isDigit then none else some (decVal cs)

def hexFold (cs : Text) : Option Nat :=
  cs.foldl (fun a c => match a, hexVal c with | some a, some v => some (a * 16 + v) | _, _ => none) (some 0)

/-- `str.strip()` (ASCII whitespace) -/
def stripSpaces (cs : Text) : Text := ((cs.dropWhile isSpace).reverse.dropWhile isSpace).reverse

/-- `int(s, 16)` on the tokens the block expression lets through (`0x` + hex digits): surrounding blanks are ignored, one
optional `0x` prefix, then at least one hex digit and nothing else.  `none` = ValueError. -/
def pyIntHex (cs : Text) : Option Nat :=
  let t := stripSpaces cs
  let d := match t with
    | '0' :: 'x' :: r => r
    | _ => t
  if d.isEmpty then none else hexFold d

/-- Python `hex(b)` of a byte: `0x` + lower-case digits without padding -/
def pyHex (b : Byte) : Text :=
  if b.toNat < 16 then ['0', 'x', hexChar b.toNat] else ['0', 'x', hexChar (b.toNat / 16), hexChar b.toNat]

/-! ## the block dump: `logger.info([hex(b) for b in block])` and `_re_data` -/

/-- `repr` of the string `hex(b)` -/
def blockItem (b : Byte) : Text := '\'' :: pyHex b ++ ['\'']

/-- `", ".join(items)` -/
def renderItems : List Byte → Text
  | [] => []
  | [b] => blockItem b
  | b :: b' :: bs => blockItem b ++ ',' :: ' ' :: renderItems (b' :: bs)

/-- `str([hex(b) for b in bs])` -/
def renderBlockL (bs : List Byte) : Text := '[' :: renderItems bs ++ [']']
def renderBlock (bs : List Byte) : String := String.ofList (renderBlockL bs)

/-- `'0x[0-9A-Fa-f]+'` at the head of the text: what follows the item -/
def itemAt : Text → Option Text
  | a :: b :: c :: s =>
    if a == '\'' && b == '0' && c == 'x' && !(s.takeWhile isHexDigit).isEmpty then
      match s.dropWhile isHexDigit with
      | d :: r => if d == '\'' then some r else none
      | [] => none
    else none
  | _ => none

/-- `(?:,\s*'0x[0-9A-Fa-f]+')*` greedy: what follows the last repetition that matches (fuel = an upper bound on the number
of repetitions).  Giving a repetition back cannot help what comes next (`]`): the text would continue with its comma. -/
def moreItems : Nat → Text → Text
  | 0, s => s
  | f + 1, s =>
    match s with
    | c :: s' =>
      if c == ',' then
        match itemAt (s'.dropWhile isSpace) with
        | some r => moreItems f r
        | none => s
      else s
    | [] => s

/-- the expression after its `\[`: items, `\]`, then only white space up to the end (`\s*$`); returns the group -/
def listAt (s : Text) : Option Text :=
  match itemAt s with
  | none => none
  | some r =>
    let rest := moreItems r.length r
    match rest with
    | d :: tail => if d == ']' && tail.all isSpace then some (s.take (s.length - rest.length)) else none
    | [] => none

/-- `re.search(r"\[('0x[0-9A-Fa-f]+'(?:,\s*'0x[0-9A-Fa-f]+')*)\]\s*$", line)`: the leftmost `[` from which a well-formed,
non-empty list of quoted hex numbers runs up to a `]` that only white space separates from the end.  Returns the group. -/
def reData : Text → Option Text
  | [] => none
  | c :: s =>
    if c == '[' then
      match listAt s with
      | some g => some g
      | none => reData s
    else reData s

/-- `str.split(",")` -/
def splitComma : Text → List Text
  | [] => [[]]
  | c :: s =>
    if c == ',' then [] :: splitComma s
    else match splitComma s with
      | h :: t => (c :: h) :: t
      | [] => [[c]]

/-- `s[1:-1]` -/
def dropEnds (cs : Text) : Text := (cs.drop 1).dropLast

/-- one element of the list comprehension of `_re_data`: `int(b.strip()[1:-1], 16)`, then `bytearray`'s range check -/
def decodeTok (tok : Text) : Option Byte :=
  match pyIntHex (dropEnds (stripSpaces tok)) with
  | some n => if n < 256 then some (UInt8.ofNat n) else none
  | none => none

/-- `bytes(bytearray([int(b.strip()[1:-1], 16) for b in group.split(",")]))`; `none` = ValueError -/
def decodeHexList (g : Text) : Option (List Byte) := (splitComma g).mapM decodeTok

/-- outcome of `_re_data` on one line -/
inductive DataOutcome
  | noMatch
  | raises            -- ValueError out of `int()` / `bytearray()`
  | bytes (bs : List Byte)
deriving Repr, DecidableEq

def dataLine (line : Text) : DataOutcome :=
  match reData line with
  | none => .noMatch
  | some g => match decodeHexList g with
    | some bs => .bytes bs
    | none => .raises

/-- the block a line yields through `_re_data` (`none`: the regex does not match, or ValueError) -/
def parseBlockL (line : Text) : Option (List Byte) :=
  match dataLine line with
  | .bytes bs => some bs
  | _ => none
def parseBlock (s : String) : Option (List Byte) := parseBlockL s.toList

/-! ## the regular expressions of `GeckoSnapshot._funcs`

Every expression of the table is a flat sequence of literals, single classes and greedy class runs (`\d+`, `\w+`, `.*`,
`[..]*`), each capture group being exactly one run (for `(STATV.*)` the handler re-attaches the literal).  `matchSeq` is a
backtracking matcher for such sequences: a run first takes the longest stretch and gives characters back one at a time.
`searchRe` is `re.search`: the leftmost start position that matches. -/

macro:max "t!" s:str : term => do
  let elems : Array (Lean.TSyntax `term) := s.getString.toList.toArray.map fun c => Lean.Syntax.mkCharLit c
  `(([$elems,*] : List Char))

inductive Atom
  | lit (l : Text)                       -- literal text
  | one (p : Char → Bool)                -- one character of a class (not captured)
  | cap (p : Char → Bool) (min : Nat)    -- captured greedy run `(p{min,})`

/-- `if t.startswith(l): t[len(l):]` -/
def stripPrefix (l t : Text) : Option Text := if l.isPrefixOf t then some (t.drop l.length) else none

/-- length of the maximal run of `p` at the head -/
def runLen (p : Char → Bool) : Text → Nat
  | [] => 0
  | c :: s => if p c then runLen p s + 1 else 0

/-- try run lengths `j, j-1, .., min` (greedy with backtracking); `k` is the rest of the expression -/
def tryLens (k : Text → Option (List Text)) (s : Text) (min : Nat) : Nat → Option (List Text)
  | 0 => if min = 0 then (match k s with | some gs => some ([] :: gs) | none => none) else none
  | j + 1 =>
    if j + 1 < min then none
    else match k (s.drop (j + 1)) with
      | some gs => some (s.take (j + 1) :: gs)
      | none => tryLens k s min j

def matchSeq : List Atom → Text → Option (List Text)
  | [], _ => some []
  | .lit l :: r, s =>
    match stripPrefix l s with
    | some s' => matchSeq r s'
    | none => none
  | .one p :: r, s =>
    match s with
    | c :: s' => if p c then matchSeq r s' else none
    | [] => none
  | .cap p m :: r, s => tryLens (matchSeq r) s m (runLen p s)

/-- `re.search(re, s, re.DOTALL)`: groups of the leftmost match -/
def searchRe (re : List Atom) : Text → Option (List Text)
  | [] => matchSeq re []
  | c :: s =>
    match matchSeq re (c :: s) with
    | some g => some g
    | none => searchRe re s

/-- Python `l in t` for strings -/
def hasSub (l t : Text) : Bool := (searchRe [.lit l] t).isSome

def anyChar (_ : Char) : Bool := true

/-- the expression texts, in table order, exactly as in the source (pinned against `Generated.SnapshotSrc`) -/
def regexTexts : List String := [
  "(\\d+-\\d+-\\d+\\s+\\d+:\\d+:\\d+).*Snapshot \\((.*)\\)",
  "Snapshot \\((.*)\\)",
  "Spa pack (.*) (\\d+) v(\\d+)\\.(\\d+)",
  "intouch version EN (\\d+) v(\\d+)\\.(\\d+)",
  "intouch version CO (\\d+) v(\\d+)\\.(\\d+)",
  "Config version (\\d+)",
  "Log version (\\d+)",
  "\\[('0x[0-9A-Fa-f]+'(?:,\\s*'0x[0-9A-Fa-f]+')*)\\]\\s*$",
  "PackType adjusted data = (\\w+)",
  "PackConfID @ 297, Word raw data = (\\d+)",
  "PackConfRev @ 299, Byte raw data = (\\d+)",
  "PackConfRel @ 300, Byte raw data = (\\d+)",
  "Got software version (\\d+) v(\\d+).(\\d+)/(\\d+) v(\\d+).(\\d+)",
  "Got spa configuration Type (\\d+) - CFG (\\d+)/LOG (\\d+)",
  "(STATV.*)</DATAS>"]

/-- the handler names, in table order -/
def regexHandlers : List String := [
  "_re_snapshot", "_re_snapshot_alt", "_re_spa_pack", "_re_intouch_en", "_re_intouch_co", "_re_config_version",
  "_re_log_version", "_re_data", "_re_spa_pack_type", "_re_spa_pack_id", "_re_spa_pack_rev", "_re_spa_pack_rel",
  "_re_software_version", "_re_config_and_log", "_re_data_segment"]

/- R1 `(\d+-\d+-\d+\s+\d+:\d+:\d+).*Snapshot \((.*)\)` is not evaluated by the model: it sets `_timestamp` (not part of the
   model state) and `_name`; whenever it matches, R2 (a suffix of it) matches the same line and, being later in the table,
   overwrites `_name`.  R8 is `reData` above. -/
def reSnapshotAlt : List Atom := [.lit t!"Snapshot (", .cap anyChar 0, .lit t!")"]
def reSpaPack : List Atom :=
  [.lit t!"Spa pack ", .cap anyChar 0, .lit t!" ", .cap isDigit 1, .lit t!" v", .cap isDigit 1, .lit t!".", .cap isDigit 1]
def reIntouchEN : List Atom := [.lit t!"intouch version EN ", .cap isDigit 1, .lit t!" v", .cap isDigit 1, .lit t!".", .cap isDigit 1]
def reIntouchCO : List Atom := [.lit t!"intouch version CO ", .cap isDigit 1, .lit t!" v", .cap isDigit 1, .lit t!".", .cap isDigit 1]
def reConfigVersion : List Atom := [.lit t!"Config version ", .cap isDigit 1]
def reLogVersion : List Atom := [.lit t!"Log version ", .cap isDigit 1]
def rePackType : List Atom := [.lit t!"PackType adjusted data = ", .cap isWord 1]
def rePackId : List Atom := [.lit t!"PackConfID @ 297, Word raw data = ", .cap isDigit 1]
def rePackRev : List Atom := [.lit t!"PackConfRev @ 299, Byte raw data = ", .cap isDigit 1]
def rePackRel : List Atom := [.lit t!"PackConfRel @ 300, Byte raw data = ", .cap isDigit 1]
def reSoftware : List Atom :=
  [.lit t!"Got software version ", .cap isDigit 1, .lit t!" v", .cap isDigit 1, .one anyChar, .cap isDigit 1, .lit t!"/",
   .cap isDigit 1, .lit t!" v", .cap isDigit 1, .one anyChar, .cap isDigit 1]
def reConfigAndLog : List Atom :=
  [.lit t!"Got spa configuration Type ", .cap isDigit 1, .lit t!" - CFG ", .cap isDigit 1, .lit t!"/LOG ", .cap isDigit 1]
/-- `(STATV.*)</DATAS>`; the handler gets `STATV ++ group` -/
def reStatv : List Atom := [.lit t!"STATV", .cap anyChar 0, .lit t!"</DATAS>"]

/-! ## CPython `bytes.__repr__`, the quote replacement and `ast.literal_eval` of a bytes literal -/

def sq : Char := '\''
def dq : Char := '"'
def bsl : Char := '\\'

/-- quote chosen by `bytes.__repr__`: `"` iff the bytes contain `'` and no `"` -/
def quoteOf (bs : List Byte) : Char := if bs.contains 0x27 && !bs.contains 0x22 then dq else sq

/-- rendering of one byte inside a literal delimited by `q` -/
def escByte (q : Char) (b : Byte) : Text :=
  if b.toNat = q.toNat ∨ b = 0x5c then [bsl, Char.ofNat b.toNat]
  else if b = 0x09 then [bsl, 't']
  else if b = 0x0a then [bsl, 'n']
  else if b = 0x0d then [bsl, 'r']
  else if b.toNat < 0x20 ∨ 0x7f ≤ b.toNat then [bsl, 'x', hexChar (b.toNat / 16), hexChar b.toNat]
  else [Char.ofNat b.toNat]

def escBytes (q : Char) (bs : List Byte) : Text := bs.flatMap (escByte q)

/-- `repr(bs)` = `str(bs)` = what `"%s" % bs` logs -/
def pyReprBytesL (bs : List Byte) : Text := 'b' :: quoteOf bs :: escBytes (quoteOf bs) bs ++ [quoteOf bs]
def pyReprBytes (bs : List Byte) : String := String.ofList (pyReprBytesL bs)

/-- `re.sub(r"\\.|'", lambda m: "\\x27" if m.group(0) in ("'", "\\'") else m.group(0), data, flags=re.DOTALL)` of
`_re_data_segment`: left to right, a backslash takes the next character with it (any character); `\'` and a bare `'` become
`\x27`, every other escape stays; a backslash at the very end is left alone.  `esc` = a backslash is pending. -/
def fixQ : Bool → Text → Text
  | false, [] => []
  | true, [] => [bsl]
  | false, c :: s => if c == bsl then fixQ true s else if c == sq then bsl :: 'x' :: '2' :: '7' :: fixQ false s else c :: fixQ false s
  | true, e :: s => if e == sq then bsl :: 'x' :: '2' :: '7' :: fixQ false s else bsl :: e :: fixQ false s

def fixQuotes (t : Text) : Text := fixQ false t

instance {ε α} [DecidableEq ε] [DecidableEq α] : DecidableEq (Except ε α) := fun a b =>
  match a, b with
  | .ok x, .ok y => if h : x = y then isTrue (by rw [h]) else isFalse (by intro e; cases e; exact h rfl)
  | .error x, .error y => if h : x = y then isTrue (by rw [h]) else isFalse (by intro e; cases e; exact h rfl)
  | .ok _, .error _ => isFalse (by intro e; cases e)
  | .error _, .ok _ => isFalse (by intro e; cases e)

inductive PErr
  | valueError      -- `_re_data`: int('..', 16) / bytearray range
  | syntaxError     -- `ast.literal_eval`: malformed literal
  | structError     -- `struct.unpack(">BBB", ..)` on fewer than 3 bytes
  | outOfModel      -- literal syntax the model does not cover (octal / \a \b \f \v escapes, raw control or non-ASCII characters)
deriving Repr, DecidableEq

/-- lexer state inside a bytes literal -/
inductive LitMode
  | plain
  | esc                 -- after a backslash
  | hex1                -- after `\x`
  | hex2 (hi : Nat)     -- after `\x` and one hex digit

/-- body of a bytes literal `b'<body>'` (the body is what stands between the quotes), one character at a time, for the
escapes `bytes.__repr__` produces plus `\"`; other escapes (octal, \a \b \f \v, unknown) and raw control / non-ASCII
characters are out of the model.  A body ending inside an escape is a SyntaxError (the backslash would escape the closing
quote / truncated `\x`). -/
def litRun : LitMode → Text → Except PErr (List Byte)
  | .plain, [] => .ok []
  | .esc, [] => .error .syntaxError
  | .hex1, [] => .error .syntaxError
  | .hex2 _, [] => .error .syntaxError
  | .plain, c :: s =>
    if c == bsl then litRun .esc s
    else if c == sq then .error .syntaxError           -- would close the literal early
    else if printable c then (litRun .plain s).map (UInt8.ofNat c.toNat :: ·)
    else .error .outOfModel
  | .esc, e :: s =>
    if e == bsl || e == sq || e == dq then (litRun .plain s).map (UInt8.ofNat e.toNat :: ·)
    else if e == 't' then (litRun .plain s).map (0x09 :: ·)
    else if e == 'n' then (litRun .plain s).map (0x0a :: ·)
    else if e == 'r' then (litRun .plain s).map (0x0d :: ·)
    else if e == 'x' then litRun .hex1 s
    else .error .outOfModel
  | .hex1, h :: s =>
    match hexVal h with
    | some a => litRun (.hex2 a) s
    | none => .error .syntaxError
  | .hex2 a, l :: s =>
    match hexVal l with
    | some d => (litRun .plain s).map (UInt8.ofNat (a * 16 + d) :: ·)
    | none => .error .syntaxError

def litEval (t : Text) : Except PErr (List Byte) := litRun .plain t

/-! ## the STATV decoder (`GeckoStatusBlockProtocolHandler.handle`) and `_re_data_segment` -/

structure Statv where
  seq : Byte
  next : Byte
  data : List Byte
deriving Repr, DecidableEq

/-- `handle(bytes_)` for bytes starting with STATV: `struct.unpack(">BBB", rem[0:3])`, `data = rem[3:length+3]` -/
def statvDecode (bs : List Byte) : Except PErr Statv :=
  match bs.drop 5 with
  | a :: b :: c :: rest => .ok ⟨a, b, rest.take c.toNat⟩
  | _ => .error .structError

def statvBytes : List Byte := [0x53, 0x54, 0x41, 0x54, 0x56]

/-- the STATV datagram content built by `GeckoStatusBlockProtocolHandler.response(index, next, block)` -/
def statvContent (idx next : Byte) (data : List Byte) : List Byte :=
  statvBytes ++ idx :: next :: UInt8.ofNat data.length :: data

/-! ## snapshot state, the handlers, one line, a whole file -/

structure Snap where
  name : Option Text := none
  packType : Option Text := none
  confId : Option Text := none
  confRev : Option Text := none
  confRel : Option Text := none
  en : List Text := []
  co : List Text := []
  cfg : Option Text := none
  log : Option Text := none
  bytes : List Byte := []
  segs : List (List Byte) := []
deriving Repr, DecidableEq

/-- apply a handler when its expression matches -/
def fire (re : List Atom) (line : Text) (f : Snap → List Text → Snap) (s : Snap) : Snap :=
  match searchRe re line with
  | some gs => f s gs
  | none => s

def hSnapshotAlt (s : Snap) : List Text → Snap
  | [n] => { s with name := some n } | _ => s
def hSpaPack (s : Snap) : List Text → Snap
  | [a, b, c, d] => { s with packType := some a, confId := some b, confRev := some c, confRel := some d } | _ => s
def hEN (s : Snap) (g : List Text) : Snap := { s with en := g }
def hCO (s : Snap) (g : List Text) : Snap := { s with co := g }
def hCfg (s : Snap) : List Text → Snap
  | [a] => { s with cfg := some a } | _ => s
def hLog (s : Snap) : List Text → Snap
  | [a] => { s with log := some a } | _ => s
def hPackType (s : Snap) : List Text → Snap
  | [a] => { s with packType := some a } | _ => s
/-- `f"{int(hex_id, 16)}"` on a digit string -/
def hPackId (s : Snap) : List Text → Snap
  | [a] => { s with confId := (hexFold a).map natToDec } | _ => s
def hPackRev (s : Snap) : List Text → Snap
  | [a] => { s with confRev := some a } | _ => s
def hPackRel (s : Snap) : List Text → Snap
  | [a] => { s with confRel := some a } | _ => s
def hSoftware (s : Snap) : List Text → Snap
  | [a, b, c, d, e, f] => { s with en := [a, b, c], co := [d, e, f] } | _ => s
def hConfigAndLog (s : Snap) : List Text → Snap
  | [_, b, c] => { s with cfg := some b, log := some c } | _ => s

def hData (line : Text) (s : Snap) : Except PErr Snap :=
  match dataLine line with
  | .noMatch => .ok s
  | .raises => .error .valueError
  | .bytes bs => .ok { s with bytes := bs }

/-- `_re_data_segment` -/
def hSegment (line : Text) (s : Snap) : Except PErr Snap :=
  match searchRe reStatv line with
  | some [g] =>
    match litEval (fixQuotes (t!"STATV" ++ g)) with
    | .error e => .error e
    | .ok bs =>
      match statvDecode bs with
      | .error e => .error e
      | .ok v =>
        let segs := s.segs ++ [v.data]
        .ok (if v.next = 0 then { s with segs := segs, bytes := segs.flatten } else { s with segs := segs })
  | _ => .ok s

/-- `GeckoSnapshot.parse(line)`: all handlers in table order; an exception leaves through `parse` -/
def parseLine (s : Snap) (line : Text) : Except PErr Snap :=
  let s := fire reSnapshotAlt line hSnapshotAlt s
  let s := fire reSpaPack line hSpaPack s
  let s := fire reIntouchEN line hEN s
  let s := fire reIntouchCO line hCO s
  let s := fire reConfigVersion line hCfg s
  let s := fire reLogVersion line hLog s
  match hData line s with
  | .error e => .error e
  | .ok s =>
    let s := fire rePackType line hPackType s
    let s := fire rePackId line hPackId s
    let s := fire rePackRev line hPackRev s
    let s := fire rePackRel line hPackRel s
    let s := fire reSoftware line hSoftware s
    let s := fire reConfigAndLog line hConfigAndLog s
    hSegment line s

/-- loop state of `parse_log_file` -/
structure FileSt where
  done : List Snap := []          -- `snapshots`
  snap : Option Snap := none      -- `snapshot`
  conn : Option Snap := none      -- `connection`

def connInit : Snap := { name := some t!"Connection found" }

/-- one iteration of the `for line in f` loop -/
def fileStep (st : FileSt) (line : Text) : Except PErr FileSt :=
  let snap0 := if hasSub t!"Snapshot" line then some ({} : Snap) else st.snap
  let r1 : Except PErr (List Snap × Option Snap) :=
    match snap0 with
    | some s =>
      if hasSub t!"INFO" line then
        match parseLine s line with
        | .ok s' => .ok (st.done, some s')
        | .error e => .error e
      else .ok (st.done ++ [s], none)
    | none => .ok (st.done, none)
  match r1 with
  | .error e => .error e
  | .ok (done, snap) =>
    let conn := if hasSub t!"Starting spa connection handshake..." line then some connInit else st.conn
    match conn with
    | some c =>
      match parseLine c line with
      | .error e => .error e
      | .ok c' =>
        if hasSub t!"Spa is connected" line then .ok { done := done ++ [c'], snap := snap, conn := none }
        else .ok { done := done, snap := snap, conn := some c' }
    | none => .ok { done := done, snap := snap, conn := none }

def fileLoop : FileSt → List Text → Except PErr FileSt
  | st, [] => .ok st
  | st, l :: ls => match fileStep st l with
    | .ok st' => fileLoop st' ls
    | .error e => .error e

/-- `GeckoSnapshot.parse_log_file` on the lines of the file (each with its line end) -/
def parseLogFile (lines : List Text) : Except PErr (List Snap) :=
  match fileLoop {} lines with
  | .error e => .error e
  | .ok st =>
    let d := match st.snap with | some s => st.done ++ [s] | none => st.done
    .ok (match st.conn with | some c => d ++ [c] | none => d)

/-! ## the writer: `GeckoShell.do_snapshot` through the file logger -/

/-- `" geckolib.utils.shell INFO "`: what stands between `%(asctime)s` and the message for the shell's logger -/
def shellTag : Text := t!" geckolib.utils.shell INFO "

/-- characters of `%(asctime)s` (`2020-12-08 19:53:28,310`) -/
def stampChar (c : Char) : Bool := isDigit c || c == '-' || c == ':' || c == ',' || c == ' '

/-- the version header as the shell holds it -/
structure Header where
  libVersion : Text      -- geckolib VERSION           (digits and dots)
  revision : Text        -- SpaPackStruct.xml revision  (digits and dots)
  enB : Nat
  enMaj : Nat
  enMin : Nat
  coB : Nat
  coMaj : Nat
  coMin : Nat
  pack : Text            -- label of the PackType item
  confId : Nat
  confRev : Nat
  confRel : Nat
  configNumber : Nat
  cfg : Nat
  log : Nat
  packTypeNo : Nat

def verChar (c : Char) : Bool := isDigit c || c == '.'

/-- message texts of `version_strings`, in order -/
def versionMessages (h : Header) : List Text := [
  t!"geckolib version " ++ h.libVersion,
  t!"SpaPackStruct.xml revision " ++ h.revision,
  t!"intouch version EN " ++ (natToDec h.enB ++ (t!" v" ++ (natToDec h.enMaj ++ ('.' :: natToDec h.enMin)))),
  t!"intouch version CO " ++ (natToDec h.coB ++ (t!" v" ++ (natToDec h.coMaj ++ ('.' :: natToDec h.coMin)))),
  t!"Spa pack " ++ (h.pack ++ (' ' :: (natToDec h.confId ++ (t!" v" ++ (natToDec h.confRev ++ ('.' :: natToDec h.confRel)))))),
  t!"Low level configuration # " ++ natToDec h.configNumber,
  t!"Config version " ++ natToDec h.cfg,
  t!"Log version " ++ natToDec h.log,
  t!"Pack type " ++ natToDec h.packTypeNo]

/-- one record of the log file -/
def logLine (stamp msg : Text) : Text := stamp ++ (shellTag ++ (msg ++ ['\n']))

/-- the lines `do_snapshot(name)` appends to the log file (all records carry a time stamp; they may differ) -/
def writeSnapshot (stamps : List Text) (name : Text) (h : Header) (bs : List Byte) : List Text :=
  let msgs := (t!"Snapshot (" ++ (name ++ [')'])) :: versionMessages h ++ [renderBlockL bs]
  List.zipWith logLine stamps msgs

/-- the name line without time stamp and logger tag -/
def nameTail (name : Text) : Text := t!"Snapshot (" ++ (name ++ [')', '\n'])

/-- snapshot names for which the round trip is claimed: printable ASCII (the model's classes `\d \w \s .` are ASCII, and a
line break inside the name would split the record); the traffic expression `(STATV.*)</DATAS>` does not fire on the name
line (sufficient; recorded finding `name:struct.error:_re_data_segment`); the name does not contain the text that makes
`parse_log_file` open a connection record (recorded finding `name:extra-records`).  Brackets are harmless since 609eb50:
the block expression cannot match a line that ends with `)`. -/
def SafeName (name : Text) : Prop :=
  name.all printable = true ∧ searchRe reStatv (nameTail name) = none ∧
  hasSub t!"Starting spa connection handshake..." (nameTail name) = false

instance (name : Text) : Decidable (SafeName name) := by unfold SafeName; exact inferInstance

def renderVersions (stamp : Text) (h : Header) : List Text := (versionMessages h).map (logLine stamp)

/-- the parsed header as the `GeckoSnapshot` properties expose it (`int(..)` of the stored strings) -/
structure Parsed where
  name : Option Text
  packType : Option Text
  confId : Option Nat
  confRev : Option Nat
  confRel : Option Nat
  en : List (Option Nat)
  co : List (Option Nat)
  cfg : Option Nat
  log : Option Nat
  bytes : List Byte
deriving Repr, DecidableEq

def Snap.view (s : Snap) : Parsed :=
  { name := s.name, packType := s.packType, confId := s.confId.bind decToNat, confRev := s.confRev.bind decToNat,
    confRel := s.confRel.bind decToNat, en := s.en.map decToNat, co := s.co.map decToNat,
    cfg := s.cfg.bind decToNat, log := s.log.bind decToNat, bytes := s.bytes }

def Header.expected (h : Header) (name : Text) (bs : List Byte) : Parsed :=
  { name := some name, packType := some h.pack, confId := some h.confId, confRev := some h.confRev, confRel := some h.confRel,
    en := [some h.enB, some h.enMaj, some h.enMin], co := [some h.coB, some h.coMaj, some h.coMin],
    cfg := some h.cfg, log := some h.log, bytes := bs }

/-- `parseVersions`: the header lines run through a fresh `GeckoSnapshot` -/
def parseLines (s : Snap) : List Text → Except PErr Snap
  | [] => .ok s
  | l :: ls => match parseLine s l with
    | .ok s' => parseLines s' ls
    | .error e => .error e

def parseVersions (lines : List Text) : Except PErr Parsed := (parseLines {} lines).map Snap.view

/-! ## traffic logs: `"Received %s from %s"` records of STATV packets and their reassembly -/

structure Seg where
  idx : Byte
  next : Byte
  data : List Byte
deriving Repr, DecidableEq

/-- `<PACKT><SRCCN>src</SRCCN><DESCN>dst</DESCN><DATAS>` as bytes -/
def asciiBytes (t : Text) : List Byte := t.map fun c => UInt8.ofNat c.toNat
def packetOpen (src dst : List Byte) : List Byte :=
  asciiBytes t!"<PACKT><SRCCN>" ++ src ++ asciiBytes t!"</SRCCN><DESCN>" ++ dst ++ asciiBytes t!"</DESCN><DATAS>"
def packetClose : List Byte := asciiBytes t!"</DATAS></PACKT>"
def packet (src dst : List Byte) (sg : Seg) : List Byte :=
  packetOpen src dst ++ (statvContent sg.idx sg.next sg.data ++ packetClose)

/-- one `Received b'<PACKT>..' from (..)` record: `pre` is everything before the repr, `post` everything after -/
def trafficLine (pre post : Text) (pkt : List Byte) : Text := pre ++ (pyReprBytesL pkt ++ post)

/-- the connection branch of the parser on the records of one transfer: the block it ends with -/
def reassemble (lines : List Text) : Except PErr (List Byte) := (parseLines connInit lines).map (·.bytes)

/-- an in-order chain over a split of the transferred range: idx = 0,1,2.., next = idx+1, the last one 0 -/
def chainFrom (i : Nat) : List (List Byte) → List Seg
  | [] => []
  | [d] => [⟨UInt8.ofNat i, 0, d⟩]
  | d :: d' :: ds => ⟨UInt8.ofNat i, UInt8.ofNat (i + 1), d⟩ :: chainFrom (i + 1) (d' :: ds)

end GeckoModel.Snapshot
