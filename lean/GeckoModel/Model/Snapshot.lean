/-
Hand model of the snapshot text formats of geckolib (core Lean only).

Writer side : `GeckoShell.do_snapshot` / `GeckoShell.version_strings` (utils/shell.py) as they reach the log file through
              the shell's file-logger format `%(asctime)s %(name)s %(levelname)s %(message)s`.
Reader side : `GeckoSnapshot.parse` (utils/snapshot.py): a table of 15 regular expressions, every one tried with
              `re.search(.., re.DOTALL)` on every line, all that match fire in table order (later writes overwrite);
              `GeckoSnapshot.parse_log_file` (which lines start / feed / close a snapshot).
Traffic logs: `str(bytes)` (CPython `bytes.__repr__`) as written by `"Received %s from %s"`, read back by
              `(STATV.*)</DATAS>` -> `replace("'", "\\x27")` -> `ast.literal_eval("b'..'")` -> STATV decoder.

Text is `List Char` throughout (`String` only at the API surface).  Each regular expression is modelled by a small total
function with the leftmost / greedy / backtracking meaning of that particular expression; the expression texts themselves
are extracted from the source on every run (`Generated/SnapshotSrc.lean`) and pinned against the list modelled here.
The functions are tied to the real `re`, `int(.., 16)`, `bytes.__repr__` and `ast.literal_eval` by the differential
correspondence in `harness/props/c19.py`.   Python exceptions are explicit (`Except PErr`), nothing is defaulted.
-/
import GeckoModel.Model.Bytes

namespace GeckoModel.Snapshot
open GeckoModel

abbrev Text := List Char

/-! ## characters, decimal and hexadecimal numbers (own definitions) -/

def isDigit (c : Char) : Bool := decide ('0' ≤ c) && decide (c ≤ '9')
def isLowerHex (c : Char) : Bool := decide ('a' ≤ c) && decide (c ≤ 'f')
def isUpperHex (c : Char) : Bool := decide ('A' ≤ c) && decide (c ≤ 'F')
def isHexDigit (c : Char) : Bool := isDigit c || isLowerHex c || isUpperHex c
/-- `\w` restricted to ASCII (the model only claims ASCII lines) -/
def isWord (c : Char) : Bool :=
  isDigit c || (decide ('a' ≤ c) && decide (c ≤ 'z')) || (decide ('A' ≤ c) && decide (c ≤ 'Z')) || c == '_'
/-- `\s` restricted to ASCII: space, \t \n \v \f \r, and the separators 0x1c..0x1f -/
def isSpace (c : Char) : Bool :=
  c == ' ' || (decide (9 ≤ c.toNat) && decide (c.toNat ≤ 13)) || (decide (28 ≤ c.toNat) && decide (c.toNat ≤ 31))

def digitChar (n : Nat) : Char := Char.ofNat (48 + n % 10)
def hexChar (n : Nat) : Char := if n % 16 < 10 then Char.ofNat (48 + n % 16) else Char.ofNat (87 + n % 16)

def hexVal (c : Char) : Option Nat :=
  if isDigit c then some (c.toNat - 48)
  else if isLowerHex c then some (c.toNat - 87)
  else if isUpperHex c then some (c.toNat - 55) else none

/-- `str(n)` for a natural number; structural on a fuel argument so that it evaluates in the kernel -/
def natToDecF : Nat → Nat → Text
  | 0, n => [digitChar n]
  | f + 1, n => if n < 10 then [digitChar n] else natToDecF f (n / 10) ++ [digitChar n]
def natToDec (n : Nat) : Text := natToDecF n n

/-- value of a digit string read left to right -/
def decVal (cs : Text) : Nat := cs.foldl (fun a c => a * 10 + (c.toNat - 48)) 0
/-- `int(s)` on a non-empty ASCII digit string; `none` = ValueError -/
def decToNat (cs : Text) : Option Nat := if cs.isEmpty || !cs.all isDigit then none else some (decVal cs)

def hexFold (cs : Text) : Option Nat :=
  cs.foldl (fun a c => match a, hexVal c with | some a, some v => some (a * 16 + v) | _, _ => none) (some 0)

def stripSpaces (cs : Text) : Text := ((cs.dropWhile (· == ' ')).reverse.dropWhile (· == ' ')).reverse

/-- `int(s, 16)` on text over the alphabet of the block regex (hex digits, `x`, backslash, quote, space):
surrounding blanks are ignored, one optional `0x` prefix, then at least one hex digit and nothing else.
`none` = ValueError.  (Signs, `0X`, underscores cannot occur in that alphabet.) -/
def pyIntHex (cs : Text) : Option Nat :=
  let t := stripSpaces cs
  let d := match t with
    | '0' :: 'x' :: r => r
    | _ => t
  if d.isEmpty then none else hexFold d

/-- Python `hex(b)` of a byte: `0x` + lower-case digits without padding -/
def pyHex (b : Byte) : Text :=
  if b.toNat < 16 then ['0', 'x', hexChar b.toNat] else ['0', 'x', hexChar (b.toNat / 16), hexChar b.toNat]

/-! ## the block dump: `logger.info([hex(b) for b in block])` and `_re_data` -/

/-- `repr` of the string `hex(b)` -/
def blockItem (b : Byte) : Text := '\'' :: pyHex b ++ ['\'']

/-- `", ".join(items)` -/
def renderItems : List Byte → Text
  | [] => []
  | [b] => blockItem b
  | b :: b' :: bs => blockItem b ++ ',' :: ' ' :: renderItems (b' :: bs)

/-- `str([hex(b) for b in bs])` -/
def renderBlockL (bs : List Byte) : Text := '[' :: renderItems bs ++ [']']
def renderBlock (bs : List Byte) : String := String.ofList (renderBlockL bs)

/-- the character class `[0-9A-Fa-fx\\' ,]` -/
def dataClass (c : Char) : Bool := isHexDigit c || c == 'x' || c == '\\' || c == '\'' || c == ' ' || c == ','

/-- `re.search(r"\[([0-9A-Fa-fx\\' ,]*)\]", line)`: leftmost `[` whose maximal run of class characters is followed by `]`
(a shorter run cannot help: the class does not contain `]`).  Returns the group. -/
def reData : Text → Option Text
  | [] => none
  | c :: s =>
    if c == '[' then
      match s.span dataClass with
      | (g, ']' :: _) => some g
      | _ => reData s
    else reData s

/-- `str.split(",")` -/
def splitComma : Text → List Text
  | [] => [[]]
  | c :: s =>
    if c == ',' then [] :: splitComma s
    else match splitComma s with
      | h :: t => (c :: h) :: t
      | [] => [[c]]

/-- `s[1:-1]` -/
def dropEnds (cs : Text) : Text := (cs.drop 1).dropLast

/-- one element of the list comprehension of `_re_data`: `int(b.strip()[1:-1], 16)`, then `bytearray`'s range check -/
def decodeTok (tok : Text) : Option Byte :=
  match pyIntHex (dropEnds (stripSpaces tok)) with
  | some n => if n < 256 then some (UInt8.ofNat n) else none
  | none => none

/-- `bytes(bytearray([int(b.strip()[1:-1], 16) for b in group.split(",")]))`; `none` = ValueError -/
def decodeHexList (g : Text) : Option (List Byte) := (splitComma g).mapM decodeTok

/-- outcome of `_re_data` on one line -/
inductive DataOutcome
  | noMatch
  | raises            -- ValueError out of `int()` / `bytearray()`
  | bytes (bs : List Byte)
deriving Repr, DecidableEq

def dataLine (line : Text) : DataOutcome :=
  match reData line with
  | none => .noMatch
  | some g => match decodeHexList g with
    | some bs => .bytes bs
    | none => .raises

/-- the block a line yields through `_re_data` (`none`: the regex does not match, or ValueError) -/
def parseBlockL (line : Text) : Option (List Byte) :=
  match dataLine line with
  | .bytes bs => some bs
  | _ => none
def parseBlock (s : String) : Option (List Byte) := parseBlockL s.toList

end GeckoModel.Snapshot
