/-
Temperatures (C14): hand model around the generated arithmetic of `Generated/TempArith.lean`.

`GeckoTempStructAccessor` stores a temperature as an unsigned 16-bit word in tenths of a degree Fahrenheit above
freezing.  Reading divides, writing multiplies and truncates (`int(...)`).  The arithmetic itself is NOT written
here: `tempRead`, `tempWriteSync`, `tempWriteAsync` are translated from accessor.py on every run, over exact
rationals, with the rounding `fl` of each floating point operation as a parameter.  This file instantiates them
(`fl := id`: the exact model), adds the glue to the Word accessor of C02 and the hand reading of the heater's
operation ladder.  No `Float` anywhere.  Core Lean only.
-/
import GeckoModel.Model.Accessor
import GeckoModel.Model.RatTrunc
import GeckoModel.Generated.TempArith

namespace GeckoModel.Temp
open GeckoModel GeckoModel.Generated

/-! ### the exact model (`fl = id`) and the float path (`fl` arbitrary) -/

/-- value presented for a stored number `x` (a rational so that it composes with `write`); `units` is the value of the
TempUnits item: the code branches on `== "C"`, every other value (incl. "Unknown") takes the Fahrenheit formulas -/
def readRat (units : String) (x : Rat) : Rat := tempRead id units x

/-- value presented for the stored word `raw` -/
def read (units : String) (raw : Nat) : Rat := readRat units (raw : Rat)

/-- integer handed to the Word write when the caller passes a value denoting the number `t` -/
def write (units : String) (t : Rat) : Int := tempWriteSync id units t

/-- the same through floating point: every operation rounded by `fl` -/
def readFl (fl : Rat → Rat) (units : String) (raw : Nat) : Rat := tempRead fl units (raw : Rat)
def writeFl (fl : Rat → Rat) (units : String) (t : Rat) : Int := tempWriteSync fl units t

/-- what `C14.float_bridge` ASSUMES of floating point rounding (hypotheses of the theorem, not axioms): rounding is
monotone and has relative error at most `ε` (IEEE-754 round-to-nearest doubles: `ε = 2^-53`, no underflow/overflow) -/
structure Rounding (fl : Rat → Rat) (ε : Rat) : Prop where
  mono : ∀ x y, x ≤ y → fl x ≤ fl y
  relErr : ∀ x, x - ε * absQ x ≤ fl x ∧ fl x ≤ x + ε * absQ x

/-- the rounding error assumed in the quantitative part of `float_bridge`: 2^-52 (IEEE doubles achieve 2^-53) -/
def eps0 : Rat := 1 / 4503599627370496

/-- one device step in the presented unit -/
def step (units : String) : Rat := if units = "C" then 1 / 18 else 1 / 10

/-! ### glue to the Word accessor (C02) -/

/-- `GeckoTempStructAccessor._get_value` on a block: the Word read of C02, then the conversion -/
def Item.tempValue (it : Item) (b : Block) (units : String) : Except Err Rat :=
  match it.decode b with
  | .ok (.int raw) => .ok (read units raw)
  | .ok _ => .error .typeErr
  | .error e => .error e

/-- `GeckoTempStructAccessor._set_value` on a block: conversion, then the Word write of C02 with the integer.
A negative integer is outside C02's value model (the real spa's `struct.pack(">H", ..)` refuses it). -/
def Item.tempEncode (it : Item) (b : Block) (units : String) (t : Rat) : Except Err DevWrite :=
  match write units t with
  | .ofNat n => it.encode b (.int n)
  | .negSucc _ => .error .outOfModel

/-! ### the heater -/

/-- `GeckoBinarySensor.is_on` on the accessor's value -/
def isOn : Value → Bool
  | .bool b => b
  | .str s => if s = "" then false else s != "OFF"
  | .int _ => true          -- `state != "OFF"` for a number

inductive Op | heating | cooling | idle
deriving Repr, DecidableEq

def Op.name : Op → String
  | .heating => waterHeaterHeating
  | .cooling => waterHeaterCooling
  | .idle => waterHeaterIdle

/-- the last rung: compare current with real target temperature -/
def byTemps (cur tgt : Rat) : Op :=
  if cur < tgt then .heating else if cur > tgt then .cooling else .idle

/-- `GeckoWaterHeater.current_operation` read by hand.  `h` / `c`: `is_on` of the Heating / CoolingDown sensor,
`none` when the pack has no such item. -/
def ladder (h c : Option Bool) (cur tgt : Rat) : Op :=
  match h, c with
  | some hh, some cc => if hh then .heating else if cc then .cooling else .idle      -- both present: the flags arbitrate
  | _, _ =>
    if h = some true then .heating                                                  -- otherwise a present flag that is on
    else if c = some true then .cooling
    else byTemps cur tgt                                                            -- otherwise the temperatures

/-- what the heater presents besides the temperatures: (unit symbol, min, max) -/
def heaterView (units : String) : String × Int × Int :=
  (heaterTemperatureUnit units, heaterMinTemp units, heaterMaxTemp units)

end GeckoModel.Temp
