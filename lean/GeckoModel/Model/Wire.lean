/-
Hand model of `geckolib/driver/protocol/*.py` (C04): the messages the library can build (`Msg`, one constructor per
static constructor of a handler class), what they put on the wire (`content`, `sendBytes`), what each handler class's
`handle` makes of received bytes (`decode`), and which bytes each `can_handle` claims (`canHandle`).

Verbs, tags, `struct` formats (one per call site), the verbs tested by each `can_handle`, the hello `split` arity and
the literal payloads are NOT written here: they are `Generated.WireFormats.*`, regenerated from the source on every
run.  Everything else (slices, branch order, exception kinds) mirrors the Python statement by statement and is tied to
the code by the correspondence check `harness/props/c04.py`.

The regular expression of `_extract_packet_parts` is in `Model/Packet.lean`.
-/
import GeckoModel.Model.WireBase
import GeckoModel.Generated.WireFormats

namespace GeckoModel.Wire
open GeckoModel.Generated.WireFormats

/-! ### the messages the library can build -/

inductive Msg
  | helloBroadcast                                       -- GeckoHelloProtocolHandler.broadcast()
  | helloClient (id : Bytes)                             -- .client(client_identifier)
  | helloResponse (id name : Bytes)                      -- .response(spa_identifier, spa_name)   (name: latin-1 text)
  | pingRequest                                          -- GeckoPingProtocolHandler.request()
  | pingResponse                                         -- .response()
  | versionRequest (seq : Int)                           -- GeckoVersionProtocolHandler.request(seq)
  | versionResponse (enB enMa enMi coB coMa coMi : Int)  -- .response(intouch_EN, intouch_CO)
  | channelRequest (seq : Int)                           -- GeckoGetChannelProtocolHandler.request(seq)
  | channelResponse (channel signal : Int)               -- .response(channel, signal_strength)
  | configRequest (seq : Int)                            -- GeckoConfigFileProtocolHandler.request(seq)
  | configResponse (platform : Bytes) (cfg log : Nat)    -- .response(plateform_key, config_version, log_version)
  | statusRequest (seq start length : Int)               -- GeckoStatusBlockProtocolHandler.request(seq, start, length)
  | statusSegment (index next : Int) (block : Bytes)     -- .response(index, next, block)
  | partialUpdate (changes : List (Int × Bytes))         -- GeckoPartialStatusBlockProtocolHandler.report_changes(socket, changes)
  | partialAck (seq : Int)                               -- the STATQ reply built inside handle()/async_handle()
  | keypress (seq packType key : Int)                    -- GeckoPackCommandProtocolHandler.keypress(seq, pack_type, key)
  | setValue (seq packType cfg log pos len data : Int)   -- .set_value(seq, pack_type, config_version, log_version, pos, len, data)
  | packResponse                                         -- .response()
  | wcRequest (seq : Int)                                -- GeckoWatercareProtocolHandler.request(seq)
  | wcSet (seq mode : Int)                               -- .set(seq, mode)
  | wcResponse (mode : Int)                              -- .response(mode)
  | wcGiveSchedule                                       -- .giveschedule()
  | remindersRequest (seq : Int)                         -- GeckoRemindersProtocolHandler.request(seq)
  | remindersResponse (rs : List (Int × Int))            -- .response(reminders)
  | firmwareRequest (seq : Int)                          -- GeckoUpdateFirmwareProtocolHandler.request(seq)
  | firmwareResponse                                     -- .response()
  | rferr                                                -- GeckoRFErrProtocolHandler.response()
deriving Repr, DecidableEq

def Msg.isHello : Msg → Bool
  | .helloBroadcast | .helloClient _ | .helloResponse _ _ => true
  | _ => false

/-- the verb of a packet message (`none` for the hello forms, which are not packets) -/
def Msg.verb : Msg → Option Bytes
  | .helloBroadcast | .helloClient _ | .helloResponse _ _ => none
  | .pingRequest | .pingResponse => some PING_VERB
  | .versionRequest _ => some AVERS_VERB
  | .versionResponse .. => some SVERS_VERB
  | .channelRequest _ => some CURCH_VERB
  | .channelResponse .. => some CHCUR_VERB
  | .configRequest _ => some SFILE_VERB
  | .configResponse .. => some FILES_VERB
  | .statusRequest .. => some STATU_VERB
  | .statusSegment .. => some STATV_VERB
  | .partialUpdate _ => some STATP_VERB
  | .partialAck _ => some STATQ_VERB
  | .keypress .. | .setValue .. => some SPACK_VERB
  | .packResponse => some PACKS_VERB
  | .wcRequest _ => some GETWC_VERB
  | .wcSet .. => some SETWC_VERB
  | .wcResponse _ => some WCGET_VERB
  | .wcGiveSchedule => some WCREQ_VERB
  | .remindersRequest _ => some REQRM_VERB
  | .remindersResponse _ => some RMREQ_VERB
  | .firmwareRequest _ => some UPDTS_VERB
  | .firmwareResponse => some SUPDT_VERB
  | .rferr => some RFERR_VERB

/-- `b"".join(struct.pack(fmt, t, d, 1) for (t, d) in reminders)` -/
def packReminders (f : Fmt) : List (Int × Int) → Except Err Bytes
  | [] => .ok []
  | (t, d) :: r =>
    match pack f [t, d, 1] with
    | .error e => .error e
    | .ok b =>
      match packReminders f r with
      | .error e => .error e
      | .ok br => .ok (b ++ br)

/-- `[item for change in [(struct.pack(">H", pos), data) ...] for item in change]`, joined -/
def packChanges (f : Fmt) : List (Int × Bytes) → Except Err Bytes
  | [] => .ok []
  | (p, d) :: r =>
    match pack f [p] with
    | .error e => .error e
    | .ok b =>
      match packChanges f r with
      | .error e => .error e
      | .ok br => .ok (b ++ d ++ br)

/-- the bytes after the verb (for hello forms: the text between the tags) -/
def Msg.body : Msg → Except Err Bytes
  | .helloBroadcast => .ok helloBroadcastContent
  | .helloClient id => .ok id
  | .helloResponse id name => .ok (id ++ [helloSep] ++ name)
  | .pingRequest => .ok []
  | .pingResponse => .ok pingResponseTail
  | .versionRequest seq => pack Version_request_0 [seq]
  | .versionResponse a b c d e f => pack Version_response_0 [a, b, c, d, e, f]
  | .channelRequest seq => pack GetChannel_request_0 [seq]
  | .channelResponse ch sg => pack GetChannel_response_0 [ch, sg]
  | .configRequest seq => pack ConfigFile_request_0 [seq]
  | .configResponse p c l =>
    -- f",{p}_C{c:02}.xml,{p}_S{l:02}.xml"
    .ok ([44] ++ p ++ [95, 67] ++ pad2 c ++ [46, 120, 109, 108, 44] ++ p ++ [95, 83] ++ pad2 l ++ [46, 120, 109, 108])
  | .statusRequest seq start len => pack StatusBlock_request_0 [seq, start, len]
  | .statusSegment i n block =>
    match pack StatusBlock_response_0 [i, n, Int.ofNat block.length] with
    | .error e => .error e
    | .ok h => .ok (h ++ block)
  | .partialUpdate changes =>
    -- the list comprehension (packs every position) is evaluated before the count is packed
    match packChanges PartialStatusBlock_report_changes_0 changes with
    | .error e => .error e
    | .ok cs =>
      match pack PartialStatusBlock_report_changes_1 [Int.ofNat changes.length] with
      | .error e => .error e
      | .ok n => .ok (n ++ cs)
  | .partialAck seq => pack PartialStatusBlock_handle_1 [seq]
  | .keypress seq pt key => pack PackCommand_keypress_0 [seq, pt, 2, PACK_COMMAND_KEY_PRESS, key]
  | .setValue seq pt cv lv pos len data =>
    let d : Except Err Bytes :=
      if len = 1 then pack PackCommand_set_value_0 [data]
      else if len = 2 then pack PackCommand_set_value_1 [data]
      else .error .overflowErr
    match d with
    | .error e => .error e
    | .ok db =>
      match pack PackCommand_set_value_2 [seq, pt, 5 + len, PACK_COMMAND_SET_VALUE, cv, lv, pos] with
      | .error e => .error e
      | .ok h => .ok (h ++ db)
  | .packResponse => .ok []
  | .wcRequest seq => pack Watercare_request_0 [seq]
  | .wcSet seq mode => pack Watercare_set_0 [seq, mode]
  | .wcResponse mode => pack Watercare_response_0 [mode]
  | .wcGiveSchedule => .ok giveschedulePayload
  | .remindersRequest seq => pack Reminders_request_0 [seq]
  | .remindersResponse rs => packReminders Reminders_response_0 rs
  | .firmwareRequest seq => pack UpdateFirmware_request_0 [seq]
  | .firmwareResponse => .ok firmwareResponseTail
  | .rferr => .ok []

/-- the `content=` of the packet handler (verb ++ body); for hello forms the text between the tags -/
def Msg.content (m : Msg) : Except Err Bytes :=
  match m.body with
  | .error e => .error e
  | .ok b =>
    match m.verb with
    | some v => .ok (v ++ b)
    | none => .ok b

/-- `GeckoPacketProtocolHandler.send_bytes` for a handler whose parms carry `(…, …, p2, p3)` -/
def parm (i : Nat) (p2 p3 : Bytes) : Bytes := if i = 2 then p2 else p3   -- the translator admits only indices 2 and 3

def frame (p2 p3 content : Bytes) : Bytes :=
  PACKET_OPEN ++ SRCCN_OPEN ++ parm sendSrcIndex p2 p3 ++ SRCCN_CLOSE ++ DESCN_OPEN ++
    parm sendDstIndex p2 p3 ++ DESCN_CLOSE ++ DATAS_OPEN ++ content ++ DATAS_CLOSE ++ PACKET_CLOSE

/-- `GeckoHelloProtocolHandler.send_bytes` -/
def helloFrame (content : Bytes) : Bytes := HELLO_OPEN ++ content ++ HELLO_CLOSE

/-- `handler.send_bytes` of the handler built by the constructor, with `parms = (_, _, p2, p3)` -/
def Msg.sendBytes (m : Msg) (p2 p3 : Bytes) : Except Err Bytes :=
  match m.content with
  | .error e => .error e
  | .ok c => .ok (if m.isHello then helloFrame c else frame p2 p3 c)

/-! ### the handler classes -/

inductive Handler
  | hello | packet | ping | version | channel | config | status | partialStatus | asyncPartialStatus
  | watercare | wcerr | firmware | reminders | rferr | pack | unhandled
deriving Repr, DecidableEq

/-- every class exported by `driver/protocol/__init__.py` -/
def allHandlers : List Handler :=
  [.hello, .packet, .ping, .version, .channel, .config, .status, .partialStatus, .asyncPartialStatus,
   .watercare, .wcerr, .firmware, .reminders, .rferr, .pack, .unhandled]

/-- the standard handler classes: all but the catch-all `GeckoUnhandledProtocolHandler` (whose `can_handle` is `True`) -/
def standardHandlers : List Handler := allHandlers.filter (· != .unhandled)

/-- the verbs tested by `can_handle` (empty for the tag handlers and the catch-all) -/
def Handler.claims : Handler → List Bytes
  | .ping => claims_Ping | .version => claims_Version | .channel => claims_GetChannel | .config => claims_ConfigFile
  | .status => claims_StatusBlock | .partialStatus => claims_PartialStatusBlock
  | .asyncPartialStatus => claims_AsyncPartialStatusBlock | .watercare => claims_Watercare
  | .wcerr => claims_WatercareError | .firmware => claims_UpdateFirmware | .reminders => claims_Reminders
  | .rferr => claims_RFErr | .pack => claims_PackCommand
  | .hello | .packet | .unhandled => []

/-- `can_handle(received_bytes, sender)` -/
def canHandle (k : Handler) (bs : Bytes) : Bool :=
  match k with
  | .hello => startsWith bs tags_Hello.1 && endsWith bs tags_Hello.2
  | .packet => startsWith bs tags_Packet.1 && endsWith bs tags_Packet.2
  | .unhandled => true
  | k => k.claims.any (startsWith bs)

/-! ### decoded state: the attributes of a fresh handler instance after `handle(bytes, sender)` -/

inductive Decoded
  | hello (broadcast : Bool) (client spaId name : Option Bytes)
  | packet (src dst content : Option Bytes)
  | ping (seq : Option Int)
  | version (seq : Option Int) (vals : Option (Int × Int × Int × Int × Int × Int)) (remove : Bool)
  | channel (seq : Option Int) (vals : Option (Int × Int)) (remove : Bool)
  | config (seq : Option Int) (vals : Option (Bytes × Int × Int)) (remove : Bool)
  | status (sequence start length next : Option Int) (data : Option Bytes)
  | partialStatus (sequence : Option Int) (changes : List (Int × Bytes)) (acked : Bool)
  | pack (seq packType : Option Int) (isKey : Bool) (keycode : Option Int) (isSet : Bool) (position : Option Int)
      (newData : Option Bytes) (remove : Bool)
  | watercare (seq mode : Option Int) (schedule remove : Bool)
  | reminders (seq : Option Int) (rs : List (Int × Int)) (remove : Bool)
  | firmware (seq : Option Int) (remove : Bool)
  | rferr (count : Nat)
  | nothing            -- WatercareError / Unhandled: handle() is `pass`
deriving Repr, DecidableEq

/-- `struct.unpack(f, bs)[0]` -/
def unpackFirst (f : Fmt) (bs : Bytes) : Except Err Int :=
  match unpack f bs with
  | .error e => .error e
  | .ok (v :: _) => .ok v
  | .ok [] => .error .indexErr

/-- `(a,) = struct.unpack(f, bs)` -/
def unpack1 (f : Fmt) (bs : Bytes) : Except Err Int :=
  match unpack f bs with
  | .error e => .error e
  | .ok [a] => .ok a
  | .ok _ => .error .valueErr

def unpack2 (f : Fmt) (bs : Bytes) : Except Err (Int × Int) :=
  match unpack f bs with
  | .error e => .error e
  | .ok [a, b] => .ok (a, b)
  | .ok _ => .error .valueErr

def unpack3 (f : Fmt) (bs : Bytes) : Except Err (Int × Int × Int) :=
  match unpack f bs with
  | .error e => .error e
  | .ok [a, b, c] => .ok (a, b, c)
  | .ok _ => .error .valueErr

def unpack4 (f : Fmt) (bs : Bytes) : Except Err (Int × Int × Int × Int) :=
  match unpack f bs with
  | .error e => .error e
  | .ok [a, b, c, d] => .ok (a, b, c, d)
  | .ok _ => .error .valueErr

def unpack6 (f : Fmt) (bs : Bytes) : Except Err (Int × Int × Int × Int × Int × Int) :=
  match unpack f bs with
  | .error e => .error e
  | .ok [a, b, c, d, e, g] => .ok (a, b, c, d, e, g)
  | .ok _ => .error .valueErr

/-- hello.py `handle`; `maxsplit` is the second argument of `content.split(b"|", …)` (`none` = absent) -/
def decodeHelloWith (maxsplit : Option Nat) (bs : Bytes) : Except Err Decoded :=
  let content := sliceNegEnd 7 8 bs
  if content == helloBroadcastContent then .ok (.hello true none none none)
  else if helloClientPrefixes.any (startsWith content) then .ok (.hello false (some content) none none)
  else
    match maxsplit with
    | none =>
      -- `a, b = content.split(sep)`: ValueError unless exactly two parts
      match splitOn helloSep content with
      | (a, [b]) => .ok (.hello false none (some a) (some b))
      | _ => .error .valueErr
    | some _ =>
      -- `a, b = content.split(sep, 1)`
      match splitFirst helloSep content with
      | (a, some b) => .ok (.hello false none (some a) (some b))
      | _ => .error .valueErr

def decodeHello : Bytes → Except Err Decoded := decodeHelloWith helloSplitMax

def decodePing (bs : Bytes) : Except Err Decoded :=
  let rem := bs.drop 5
  if rem.length > 0 then
    match unpackFirst Ping_handle_0 rem with
    | .error e => .error e
    | .ok s => .ok (.ping (some s))
  else .ok (.ping none)

def decodeVersion (bs : Bytes) : Except Err Decoded :=
  let rem := bs.drop 5
  if startsWith bs AVERS_VERB then
    match unpackFirst Version_handle_0 rem with
    | .error e => .error e
    | .ok s => .ok (.version (some s) none false)
  else
    match unpack6 Version_handle_1 rem with
    | .error e => .error e
    | .ok v => .ok (.version none (some v) true)

def decodeChannel (bs : Bytes) : Except Err Decoded :=
  let rem := bs.drop 5
  if startsWith bs CURCH_VERB then
    match unpackFirst GetChannel_handle_0 rem with
    | .error e => .error e
    | .ok s => .ok (.channel (some s) none false)
  else
    match unpack2 GetChannel_handle_1 rem with
    | .error e => .error e
    | .ok v => .ok (.channel none (some v) true)

def xmlSuffix : Bytes := [46, 120, 109, 108]   -- ".xml"

/-- `int(parts[1][1:])` of `parts = s.split("_")` -/
def versionOfParts (parts : Bytes × List Bytes) : Except Err Int :=
  match parts.2 with
  | [] => .error .indexErr
  | p :: _ => parseInt (p.drop 1)

def decodeConfig (bs : Bytes) : Except Err Decoded :=
  let rem := bs.drop 5
  if startsWith bs SFILE_VERB then
    match unpackFirst ConfigFile_handle_0 rem with
    | .error e => .error e
    | .ok s => .ok (.config (some s) none false)
  else
    -- received_bytes[6:].decode(latin1).replace(".xml", "").split(",")
    let config := splitOn 44 (removeAll xmlSuffix (bs.drop 6))
    let cfgParts := splitOn 95 config.1
    match config.2 with
    | [] => .error .indexErr
    | c1 :: _ =>
      let logParts := splitOn 95 c1
      if cfgParts.1 != logParts.1 then .error .valueErr
      else
        let key := if cfgParts.1 == mrstAlias.1 then mrstAlias.2 else cfgParts.1
        match versionOfParts cfgParts with
        | .error e => .error e
        | .ok cv =>
          match versionOfParts logParts with
          | .error e => .error e
          | .ok lv => .ok (.config none (some (key, cv, lv)) true)

def decodeStatus (bs : Bytes) : Except Err Decoded :=
  let rem := bs.drop 5
  if startsWith bs STATU_VERB then
    match unpack3 StatusBlock_handle_0 rem with
    | .error e => .error e
    | .ok (s, st, ln) => .ok (.status (some s) (some st) (some ln) none none)
  else
    match unpack3 StatusBlock_handle_1 (slice 0 3 rem) with
    | .error e => .error e
    | .ok (s, nx, ln) => .ok (.status (some s) none (some ln) (some nx) (some (slice 3 (ln.toNat + 3) rem)))

/-- the record loop of the STATP decoder: `for i in range(change_count)` -/
def statpRecords (f : Fmt) (rem : Bytes) : Nat → Nat → Except Err (List (Int × Bytes))
  | _, 0 => .ok []
  | i, n + 1 =>
    match unpackFirst f (slice (1 + i * 4) (3 + i * 4) rem) with
    | .error e => .error e
    | .ok pos =>
      match statpRecords f rem (i + 1) n with
      | .error e => .error e
      | .ok r => .ok ((pos, slice (3 + i * 4) (5 + i * 4) rem) :: r)

/-- statusblock.py `GeckoPartialStatusBlockProtocolHandler.handle` / the async twin's `async_handle`
(`fq fc fp` are the formats of the three struct.unpack calls of the respective method) -/
def decodePartialWith (fq fc fp : Fmt) (bs : Bytes) : Except Err Decoded :=
  let rem := bs.drop 5
  if startsWith bs STATQ_VERB then
    match unpack1 fq rem with
    | .error e => .error e
    | .ok s => .ok (.partialStatus (some s) [] false)
  else
    -- the STATQ acknowledgement is queued first (see `Msg.partialAck`)
    match unpackFirst fc (slice 0 1 rem) with
    | .error e => .error e
    | .ok count =>
      match statpRecords fp rem 0 count.toNat with
      | .error e => .error e
      | .ok ch => .ok (.partialStatus none ch true)

def decodePartial : Bytes → Except Err Decoded :=
  decodePartialWith PartialStatusBlock_handle_0 PartialStatusBlock_handle_2 PartialStatusBlock_handle_3

def decodeAsyncPartial : Bytes → Except Err Decoded :=
  decodePartialWith AsyncPartialStatusBlock_async_handle_0 AsyncPartialStatusBlock_async_handle_2
    AsyncPartialStatusBlock_async_handle_3

def decodePack (bs : Bytes) : Except Err Decoded :=
  let rem := bs.drop 5
  if startsWith bs PACKS_VERB then .ok (.pack none none false none false none none true)
  else
    match unpack4 PackCommand_handle_0 (slice 0 4 rem) with
    | .error e => .error e
    | .ok (seq, pt, length, command) =>
      if command = PACK_COMMAND_KEY_PRESS then
        if length = 2 then
          match unpackFirst PackCommand_handle_1 (rem.drop 4) with
          | .error e => .error e
          | .ok key => .ok (.pack (some seq) (some pt) true (some key) false none none false)
        else .ok (.pack (some seq) (some pt) false none false none none false)
      else if command = PACK_COMMAND_SET_VALUE then
        match unpack3 PackCommand_handle_2 (slice 4 8 rem) with
        | .error e => .error e
        | .ok (_, _, pos) => .ok (.pack (some seq) (some pt) false none true (some pos) (some (rem.drop 8)) false)
      else .ok (.pack (some seq) (some pt) false none false none none false)

/-- watercare.py `handle`: GETWC / REQWC / SETWC requests stay in the handler list, WCGET carries the mode, anything else
(WCSET, WCREQ) only marks the handler for removal.  The four `struct.unpack` calls are, in source order, those of the
GETWC, REQWC, SETWC and WCGET branches (the translator refuses any other count). -/
def decodeWatercare (bs : Bytes) : Except Err Decoded :=
  let rem := bs.drop 5
  if startsWith bs GETWC_VERB then
    match unpackFirst Watercare_handle_0 rem with
    | .error e => .error e
    | .ok s => .ok (.watercare (some s) none false false)
  else if startsWith bs REQWC_VERB then
    match unpackFirst Watercare_handle_1 rem with
    | .error e => .error e
    | .ok s => .ok (.watercare (some s) none true false)
  else if startsWith bs SETWC_VERB then
    -- `self._sequence, self.mode = struct.unpack(SET_WATERCARE_FORMAT, remainder)`
    match unpack2 Watercare_handle_2 rem with
    | .error e => .error e
    | .ok (s, m) => .ok (.watercare (some s) (some m) false false)
  else if startsWith bs WCGET_VERB then
    match unpackFirst Watercare_handle_3 rem with
    | .error e => .error e
    | .ok m => .ok (.watercare none (some m) false true)
  else .ok (.watercare none none false true)

/-- the `while len(rest) > 0` loop of the RMREQ decoder: 4-byte records, unknown reminder types skipped -/
def reminderRecords (f : Fmt) : Bytes → Except Err (List (Int × Int))
  | [] => .ok []
  | a :: b :: c :: d :: rest =>
    match unpack3 f [a, b, c, d] with
    | .error e => .error e
    | .ok (t, days, _) =>
      match reminderRecords f rest with
      | .error e => .error e
      | .ok r => .ok (if reminderTypeValues.contains t then (t, days) :: r else r)
  | _ => .error .structErr

def decodeReminders (bs : Bytes) : Except Err Decoded :=
  let rem := bs.drop 5
  if startsWith bs REQRM_VERB then
    match unpackFirst Reminders_handle_0 (slice 0 1 rem) with
    | .error e => .error e
    | .ok s => .ok (.reminders (some s) [] false)
  else
    match reminderRecords Reminders_handle_1 rem with
    | .error e => .error e
    | .ok rs => .ok (.reminders none rs true)

def decodeFirmware (bs : Bytes) : Except Err Decoded :=
  let rem := bs.drop 5
  if startsWith bs UPDTS_VERB then
    match unpackFirst UpdateFirmware_handle_0 (slice 0 1 rem) with
    | .error e => .error e
    | .ok s => .ok (.firmware (some s) false)
  else .ok (.firmware none true)

end GeckoModel.Wire
