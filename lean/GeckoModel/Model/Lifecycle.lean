/-
C08 — a generic interpreter for the lifecycle of `GeckoAsyncSpaMan` (async_spa_manager.py).

The interpreter knows nothing about the concrete chain: it executes a `Table` (Model/LifecycleVocab.lean), which
`harness/gen_c08.py` regenerates from the source on every run.  A call into the manager is a list of `Op`s (the
continuation of one asyncio task); `exec` performs one op on the shared manager state `M`; `runOps` runs a task up to a
suspension point.  Suspension points are exactly the awaits that can really yield: the client's `handle_event` (a
*delivery*: the sample the client sees is taken, then the handler may suspend) and the awaits inside
`locator.discover()`, `GeckoAsyncSpa._connect()` and `async_get_watercare()` (`Op.yield`).  Nested `CLIENT_*` events are
delivered BEFORE the outer event, as in the code (`handle e` = prologue, chain, sensor update, delivery).

Python exceptions are explicit: an op can `raise`; the runner then drops ops up to the innermost `fin` (the `finally:`
of `async_locate_spas` / `async_connect_to_spa`), runs it and re-raises.
-/
import GeckoModel.Model.LifecycleVocab

namespace GeckoModel.Lifecycle

/-- bracket monitor of the most recently built facade object -/
inductive FMon | none | built | ready | tornDown
deriving DecidableEq, Repr

/-- the shared state of the manager (abstracted to what `_handle_event` and friends read) plus the facade monitor -/
structure M where
  state : SpaState
  facade : Bool          -- self._facade is not None
  spa : Bool             -- self._spa is not None
  spaConn : Bool         -- self._spa._is_connected (false when there is no spa)
  proto : Bool           -- the most recently created spa object has an open protocol (`_protocol is not None`)
  desc : Bool            -- self._spa_descriptors is not None
  ident : Bool           -- self._spa_identifier is not None
  name : Bool            -- self._spa_name is not None
  sensor : Bool          -- self._status_sensor is not None
  radio : Bool           -- self._radio_sensor is not None
  chan : Bool            -- self._channel_sensor is not None
  status : Option SpaState   -- StatusSensor._last_state once on_event ran; none = the initial text "Unknown"
  fmon : FMon
deriving DecidableEq, Repr

def statusText : Option SpaState → String
  | none => "Unknown"
  | some s => stateText s

/-- what the client's `handle_event` can sample at a delivery (+ the verdict of the facade monitor on this delivery) -/
structure Delivered where
  event : Event
  state : SpaState
  facadeNone : Bool
  sensor : Bool
  status : Option SpaState
  monOk : Bool
deriving DecidableEq, Repr

/-- scripted outcomes of the stubs for one call -/
structure Env where
  found : Nat            -- discover(): number of LOCATING_DISCOVERED_SPA events
  locRaises : Bool       -- discover() raises after them
  path : List CStep      -- _connect(): its steps
  facadeRaises : Bool    -- GeckoAsyncFacade(...) raises
  wcOk : Bool            -- async_get_watercare() succeeds (else raises its failure event and returns None)
deriving DecidableEq, Repr

inductive Op
  | handle (e : Event)           -- await self._handle_event(e)
  | chain (e : Event)            -- the if/elif chain
  | act (a : Action)
  | finish (e : Event)           -- sensor update, then await self.handle_event(e)
  | rstmt (r : RStmt)
  | rop (o : ROp)
  | dop (d : DOp)
  | phase (p : PhaseProg)        -- pre statements, then the try
  | enterTry (p : PhaseProg)
  | pop (p : POp)
  | fin (ps : List POp)          -- the finally block (also the landing point of an exception)
  | reraise
  | raiseNow
  | cstep (c : CStep)
  | yield
  | setInfo (ident name : Bool)
  | afterLocate                  -- async_connect after the locate phase
deriving DecidableEq, Repr

inductive Res
  | next (m : M) (push : List Op)
  | out (m : M) (d : Delivered) (push : List Op)
  | pause (m : M) (push : List Op)
  | raise (m : M)

def guardOk (m : M) : Option Guard → Bool
  | none => true
  | some (.stateIn ss) => ss.contains m.state
  | some .facadeSome => m.facade
  | some .spaSome => m.spa

def needOk (m : M) : Need → Bool
  | .ident => m.ident | .name => m.name | .spa => m.spa

def needsOf (T : Table) (c : Created) : List Need :=
  match T.needs.find? (fun p => p.1 == c) with
  | some p => p.2
  | none => []

/-- the facade monitor: READY is accepted once per built facade, TEARDOWN once per READY -/
def monStep (f : FMon) (e : Event) : FMon × Bool :=
  if e = .CLIENT_FACADE_IS_READY then (match f with | .built => (.ready, true) | x => (x, false))
  else if e = .CLIENT_FACADE_TEARDOWN then (match f with | .ready => (.tornDown, true) | x => (x, false))
  else (f, true)

def connectScript : List CStep → List Op
  | [] => []
  | .ev e :: r => .yield :: .cstep (.ev e) :: connectScript r
  | .setConnected :: r => .cstep .setConnected :: connectScript r
  | .raise_ :: r => .yield :: .cstep .raise_ :: connectScript r
  | .openProtocol :: r => .yield :: .cstep .openProtocol :: connectScript r
  | .useProtocol :: r => .yield :: .cstep .useProtocol :: connectScript r
  | .checkAlive :: r => .cstep .checkAlive :: connectScript r

/-! Every definition below is kept small on purpose: the theorems of C08 evaluate the interpreter in the kernel
(`decide +kernel`), where unfolding a definition costs time proportional to the size of its body. -/

/- setters by pattern matching (not `{ m with .. }`): the new record points at the old field values, so no chain of
   projections builds up during a long run -/
def M.setState : M → SpaState → M
  | ⟨_, fa, sp, co, pr, de, id, nm, se, ra, ch, st, fm⟩, s => ⟨s, fa, sp, co, pr, de, id, nm, se, ra, ch, st, fm⟩
def M.setFacade : M → Bool → M
  | ⟨s, _, sp, co, pr, de, id, nm, se, ra, ch, st, fm⟩, b => ⟨s, b, sp, co, pr, de, id, nm, se, ra, ch, st, fm⟩
def M.setDesc : M → Bool → M
  | ⟨s, fa, sp, co, pr, _, id, nm, se, ra, ch, st, fm⟩, b => ⟨s, fa, sp, co, pr, b, id, nm, se, ra, ch, st, fm⟩
/-- `self._spa = GeckoAsyncSpa(..)`: a new object, not connected, no protocol yet -/
def M.newSpa : M → M
  | ⟨s, fa, _, _, _, de, id, nm, se, ra, ch, st, fm⟩ => ⟨s, fa, true, false, false, de, id, nm, se, ra, ch, st, fm⟩
/-- `self._spa = None` (the object itself is untouched: a `_connect` still running on it keeps its protocol) -/
def M.clearSpa : M → M
  | ⟨s, fa, _, _, pr, de, id, nm, se, ra, ch, st, fm⟩ => ⟨s, fa, false, false, pr, de, id, nm, se, ra, ch, st, fm⟩
def M.setConn : M → Bool → M
  | ⟨s, fa, sp, _, pr, de, id, nm, se, ra, ch, st, fm⟩, b => ⟨s, fa, sp, b, pr, de, id, nm, se, ra, ch, st, fm⟩
def M.setProto : M → Bool → M
  | ⟨s, fa, sp, co, _, de, id, nm, se, ra, ch, st, fm⟩, b => ⟨s, fa, sp, co, b, de, id, nm, se, ra, ch, st, fm⟩
def M.setName : M → Bool → M
  | ⟨s, fa, sp, co, pr, de, id, _, se, ra, ch, st, fm⟩, b => ⟨s, fa, sp, co, pr, de, id, b, se, ra, ch, st, fm⟩
def M.setInfo : M → Bool → Bool → M
  | ⟨s, fa, sp, co, pr, de, _, _, se, ra, ch, st, fm⟩, i, n => ⟨s, fa, sp, co, pr, de, i, n, se, ra, ch, st, fm⟩
def M.built : M → M
  | ⟨s, _, sp, co, pr, de, id, nm, se, ra, ch, st, _⟩ => ⟨s, true, sp, co, pr, de, id, nm, se, ra, ch, st, .built⟩
def M.touch : M → M
  | ⟨s, fa, sp, co, pr, de, id, nm, se, ra, ch, _, fm⟩ => ⟨s, fa, sp, co, pr, de, id, nm, se, ra, ch, some s, fm⟩
def M.setMon : M → FMon → M
  | ⟨s, fa, sp, co, pr, de, id, nm, se, ra, ch, st, _⟩, f => ⟨s, fa, sp, co, pr, de, id, nm, se, ra, ch, st, f⟩
def M.setSensor : M → M
  | ⟨s, fa, sp, co, pr, de, id, nm, _, ra, ch, st, fm⟩ => ⟨s, fa, sp, co, pr, de, id, nm, true, ra, ch, st, fm⟩
def M.setRadio : M → M
  | ⟨s, fa, sp, co, pr, de, id, nm, se, _, ch, st, fm⟩ => ⟨s, fa, sp, co, pr, de, id, nm, se, true, ch, st, fm⟩
def M.setChan : M → M
  | ⟨s, fa, sp, co, pr, de, id, nm, se, ra, _, st, fm⟩ => ⟨s, fa, sp, co, pr, de, id, nm, se, ra, true, st, fm⟩

def created (m : M) : Created → M
  | .statusSensor => m.setSensor
  | .reconnectButton => m
  | .pingSensor => m
  | .radioSensor => m.setRadio
  | .channelSensor => m.setChan

def execCreate (T : Table) (m : M) (c : Created) : Res :=
  if (needsOf T c).all (needOk m) then .next (created m c) [] else .raise m

def execWc (T : Table) (env : Env) (m : M) : Res :=
  -- `self.facade._water_care.change_watercare_mode` is evaluated before the await; the facade/spa asserts precede it
  if !m.facade || !m.spa then .raise m
  else if !m.spaConn then .next m []
  else .next m (.yield :: (if env.wcOk then [] else [.handle T.wcFail]))

def execAct (T : Table) (env : Env) (m : M) : Action → Res
  | .setState s => .next (m.setState s) []
  | .emit e => .next m [.handle e]
  | .create c => execCreate T m c
  | .reset => .next m (T.resetProg.map .rstmt)
  | .refreshRadio => if m.radio && m.spa then .next m [] else .raise m
  | .refreshChannel => if m.chan && m.spa then .next m [] else .raise m
  | .assertFacade => if m.facade then .next m [] else .raise m
  | .assertSpa => if m.spa then .next m [] else .raise m
  | .wcRefresh => execWc T env m

def execDiscover (env : Env) (m : M) : Res :=
  .next m (.yield :: (List.replicate env.found (.handle .LOCATING_DISCOVERED_SPA) ++ (if env.locRaises then [.raiseNow] else [])))

def execBuild (env : Env) (m : M) (s : SpaState) : Res :=
  if m.state = s then (if env.facadeRaises then .raise m else .next m.built []) else .next m []

def execPOp (env : Env) (m : M) : POp → Res
  | .emit e => .next m [.handle e]
  | .discover => execDiscover env m
  | .storeDescriptors => .next (m.setDesc true) []
  | .assertNoFacade => if m.facade then .raise m else .next m []
  | .setName => .next (m.setName true) []
  | .newSpa => .next m.newSpa []
  | .spaConnect => .next m (connectScript env.path)
  | .buildFacadeIf s => execBuild env m s

def execHandle (T : Table) (m : M) (e : Event) : Res :=
  if !m.sensor && m.ident && m.name then .next m (T.prologue.map .act ++ [.chain e, .finish e])
  else .next m [.chain e, .finish e]

def execChain (T : Table) (m : M) (e : Event) : Res :=
  match T.branches.find? (fun b => b.events.contains e) with
  | some b => if guardOk m b.guard then .next m (b.actions.map .act) else .next m []
  | none => .next m []

def execFinish (T : Table) (m : M) (e : Event) : Res :=
  let m1 := if m.sensor && T.touchBeforeDeliver then m.touch else m
  let r := monStep m1.fmon e
  .out (m1.setMon r.1) ⟨e, m1.state, !m1.facade, m1.sensor, m1.status, r.2⟩ []

def execRStmt (m : M) (r : RStmt) : Res :=
  let ok := match r.guard with | none => true | some .facadeSome => m.facade | some .spaSome => m.spa
  if ok then .next m (r.ops.map .rop) else .next m []

def execROp (T : Table) (m : M) : ROp → Res
  | .clearDesc => .next (m.setDesc false) []
  | .facadeDisconnect => .next m []
  | .clearFacade => .next (m.setFacade false) []
  | .spaDisconnect => .next m (T.disconnectProg.map .dop)
  | .clearSpa => .next m.clearSpa []
  | .setState s => .next (m.setState s) []

def execDOp (m : M) : DOp → Res
  | .setConnFalse => .next (m.setConn false) []
  | .raiseEvent e => .next m [.handle e]
  | .closeProtocol => .next (m.setProto false) []
  | _ => .next m []

/-- `_connect` runs on the spa object it was called on (calls are issued one connect at a time, so `_spa` is that object
or None): the manager sees its connected flag only while `_spa` still refers to it; its protocol is its own -/
def execCStep (m : M) : CStep → Res
  | .ev e => .next m [.handle e]
  | .setConnected => .next (if m.spa then m.setConn true else m) []
  | .raise_ => .raise m
  | .openProtocol => .next (m.setProto true) []
  | .useProtocol => if m.proto then .next m [] else .raise m
  | .checkAlive => if m.spa then .next m [] else .raise m

def execAfterLocate (T : Table) (env : Env) (m : M) : Res :=
  if !m.desc then .raise m
  else if env.found = 0 then .next m [.handle T.notFound]
  else .next m [.phase T.connectProg]

def exec (T : Table) (env : Env) (m : M) : Op → Res
  | .handle e => execHandle T m e
  | .chain e => execChain T m e
  | .act a => execAct T env m a
  | .finish e => execFinish T m e
  | .rstmt r => execRStmt m r
  | .rop o => execROp T m o
  | .dop d => execDOp m d
  | .phase p => .next m (p.pre.map .pop ++ [.enterTry p])
  | .enterTry p => .next m (p.body.map .pop ++ [.fin p.fin])
  | .pop p => execPOp env m p
  | .fin ps => .next m (ps.map .pop)
  | .reraise => .raise m
  | .raiseNow => .raise m
  | .cstep c => execCStep m c
  | .yield => .pause m []
  | .setInfo i n => .next (m.setInfo i n) []
  | .afterLocate => execAfterLocate T env m

inductive Outcome | done | raised | parked | outOfFuel
deriving DecidableEq, Repr

structure RunRes where
  m : M
  rest : List Op
  out : List Delivered
  outcome : Outcome
deriving DecidableEq, Repr

/-- the configuration of a running task -/
structure Cfg where
  m : M
  ops : List Op
  raising : Bool
  stop : Option Nat
  acc : List Delivered

inductive Next | halt (r : RunRes) | go (c : Cfg)

/-- unwinding: drop ops up to the innermost `finally`, run it, then re-raise -/
def unwind (c : Cfg) (op : Op) (ops : List Op) : Next :=
  match op with
  | .fin ps => .go ⟨c.m, ps.map .pop ++ .reraise :: ops, false, c.stop, c.acc⟩
  | _ => .go ⟨c.m, ops, true, c.stop, c.acc⟩

/-- a suspension point: park here (`stop = some 0`) or go on -/
def suspend (m : M) (ops : List Op) (stop : Option Nat) (acc : List Delivered) : Next :=
  match stop with
  | some 0 => .halt ⟨m, ops, acc.reverse, .parked⟩
  | some (k + 1) => .go ⟨m, ops, false, some k, acc⟩
  | none => .go ⟨m, ops, false, none, acc⟩

def applyRes (c : Cfg) (ops : List Op) : Res → Next
  | .next m' push => .go ⟨m', push ++ ops, false, c.stop, c.acc⟩
  | .raise m' => .go ⟨m', ops, true, c.stop, c.acc⟩
  | .out m' d push => suspend m' (push ++ ops) c.stop (d :: c.acc)
  | .pause m' push => suspend m' (push ++ ops) c.stop c.acc

def next1 (T : Table) (env : Env) (c : Cfg) : Next :=
  match c.ops with
  | [] => .halt ⟨c.m, [], c.acc.reverse, if c.raising then .raised else .done⟩
  | op :: ops => if c.raising then unwind c op ops else applyRes c ops (exec T env c.m op)

def runCfg (T : Table) (env : Env) : Nat → Cfg → RunRes
  | 0, c => ⟨c.m, c.ops, c.acc.reverse, .outOfFuel⟩
  | fuel + 1, c =>
      match next1 T env c with
      | .halt r => r
      | .go c' => runCfg T env fuel c'

/-- run one task: `stop = some k` parks it at its (k+1)-th suspension point, `none` runs it to completion -/
def runOps (T : Table) (env : Env) (fuel : Nat) (m : M) (ops : List Op) (raising : Bool) (stop : Option Nat)
    (acc : List Delivered) : RunRes := runCfg T env fuel ⟨m, ops, raising, stop, acc⟩

/-! ## inputs -/

inductive LocOutcome | found (n : Nat) | raises (afterDiscovered : Nat)
deriving DecidableEq, Repr

/-- one call into the manager -/
inductive Base
  | enter | exit                                            -- __aenter__ / __aexit__ events
  | locate (o : LocOutcome)                                 -- async_locate_spas
  | connectTo (p : List CStep) (facadeRaises : Bool)        -- async_connect_to_spa
  | asyncConnect (o : LocOutcome) (p : List CStep) (facadeRaises : Bool)   -- async_connect
  | ev (e : Event)                                          -- the spa raises one run-time event
  | pingMiss (noResponse : Bool)                            -- ping loop: MISSED [, NO_RESPONSE]
  | rfErr (tooMany : Bool)                                  -- RFERR handler: RF_ERROR [, TOO_MANY]
  | wcErr (ok : Bool)                                       -- WCERR handler (async_get_watercare scripted)
  | reset                                                   -- async_reset (user / reconnect button)
  | setSpaInfo (ident name : Bool)                          -- async_set_spa_info
deriving DecidableEq, Repr

def envOf : Base → Env
  | .locate (.found n) => ⟨n, false, [], false, true⟩
  | .locate (.raises n) => ⟨n, true, [], false, true⟩
  | .connectTo p fr => ⟨0, false, p, fr, true⟩
  | .asyncConnect (.found n) p fr => ⟨n, false, p, fr, true⟩
  | .asyncConnect (.raises n) p fr => ⟨n, true, p, fr, true⟩
  | .wcErr ok => ⟨0, false, [], false, ok⟩
  | _ => ⟨0, false, [], false, true⟩

def opsOf (T : Table) : Base → List Op
  | .enter => [.handle .SPA_MAN_ENTER]
  | .exit => [.handle .SPA_MAN_EXIT]
  | .locate _ => [.phase T.locateProg]
  | .connectTo _ _ => [.phase T.connectProg]
  | .asyncConnect _ _ _ => [.phase T.locateProg, .afterLocate]
  | .ev e => [.handle e]
  | .pingMiss nr => (if nr then T.pingMiss else T.pingMiss.take 1).map .handle
  | .rfErr tm => (if tm then T.rfErr else T.rfErr.take 1).map .handle
  | .wcErr _ => [.handle .RUNNING_SPA_WATER_CARE_ERROR]
  | .reset => [.act .reset]
  | .setSpaInfo i n => [.setInfo i n, .act .reset]

def fuel : Nat := 400

/-- a call that is not interrupted (the client handler never suspends and nothing else runs meanwhile) -/
def stepB (T : Table) (m : M) (b : Base) : RunRes := runOps T (envOf b) fuel m (opsOf T b) false none []

/-! ## the finite input alphabet of the theorems -/

/-- `_connect` raising at each of its awaits: every proper prefix of the handshake, then the exception -/
def raisePaths (T : Table) : List (List CStep) :=
  (List.range T.connectOk.length).map fun i => T.connectOk.take i ++ [.raise_]

/-- every way `_connect` can go: the handshake, each early return, each raise -/
def allPaths (T : Table) : List (List CStep) := T.connectOk :: (T.connectFail ++ raisePaths T)

def locOutcomes : List LocOutcome := [.found 0, .found 1, .found 2, .raises 0, .raises 1]

/-- the calls the theorems quantify over (`facadeRaises` only matters after a completed handshake) -/
def allBase (T : Table) : List Base :=
  [.enter, .exit] ++ locOutcomes.map .locate
  ++ (allPaths T).map (fun p => .connectTo p false) ++ [.connectTo T.connectOk true]
  ++ (allPaths T).map (fun p => .asyncConnect (.found 1) p false) ++ [.asyncConnect (.found 1) T.connectOk true]
  ++ [.asyncConnect (.found 0) T.connectOk false, .asyncConnect (.found 2) T.connectOk false,
      .asyncConnect (.raises 0) T.connectOk false, .asyncConnect (.raises 1) T.connectOk false]
  ++ T.runtimeEvents.map .ev
  ++ [.pingMiss false, .pingMiss true, .rfErr false, .rfErr true, .wcErr true, .wcErr false, .reset]
  ++ [.setSpaInfo true true, .setSpaInfo true false, .setSpaInfo false true, .setSpaInfo false false]

def init (T : Table) (ident name : Bool) : M :=
  ⟨T.initialState, false, false, false, false, false, ident, name, false, false, false, none, .none⟩

/-- which calls can happen in which state.  Locate and connect are driven by `_sequence_pump` (or by a client following
the same protocol): locate when IDLE without descriptors, connect when LOCATED_SPAS without a facade (`async_connect`
also needs the identifier).  Run-time events are raised by the tasks of a live spa object.  Reset, set-spa-info and the
enter/exit events can happen at any time. -/
def enabled (m : M) : Base → Bool
  | .locate _ => m.state == .IDLE && !m.desc
  | .connectTo _ _ => m.state == .LOCATED_SPAS && !m.facade
  | .asyncConnect _ _ _ => m.state == .LOCATED_SPAS && !m.facade && m.ident
  | .ev _ => m.spa
  | .pingMiss _ => m.spa
  | .rfErr _ => m.spa
  | .wcErr _ => m.spa
  | _ => true

/-- the manager as constructed (`__init__`), for each way the identifier / name kwargs can be given -/
def inits (T : Table) : List M := [init T true false, init T true true, init T false false, init T false true]

/-! ## several tasks -/

structure Task where
  env : Env
  ops : List Op
deriving DecidableEq, Repr

structure MState where
  m : M
  pool : List Task            -- suspended tasks (client handlers awaiting, phases inside discover/_connect)
  last : Outcome              -- how the most recent input ended
deriving DecidableEq, Repr

inductive Input
  | start (b : Base) (stop : Option Nat)     -- a new task calls into the manager; it parks at its (stop+1)-th suspension point
  | resume (t : Nat) (stop : Option Nat)     -- the t-th parked task continues
deriving DecidableEq, Repr

def settle (env : Env) (pool : List Task) (r : RunRes) : MState × List Delivered :=
  match r.outcome with
  | .parked => (⟨r.m, pool ++ [⟨env, r.rest⟩], .parked⟩, r.out)
  | o => (⟨r.m, pool, o⟩, r.out)

def step (T : Table) (s : MState) : Input → MState × List Delivered
  | .start b stop => settle (envOf b) s.pool (runOps T (envOf b) fuel s.m (opsOf T b) false stop [])
  | .resume t stop =>
      match s.pool[t]? with
      | some tk => settle tk.env (s.pool.eraseIdx t) (runOps T tk.env fuel s.m tk.ops false stop [])
      | none => (s, [])

def runFrom (T : Table) (s : MState) : List Input → MState × List Delivered
  | [] => (s, [])
  | i :: rest =>
      let r := step T s i
      let r' := runFrom T r.1 rest
      (r'.1, r.2 ++ r'.2)

/-- sequential histories (the form used by the theorems over histories of any length) -/
def runB (T : Table) (m : M) : List Base → M
  | [] => m
  | b :: rest => runB T (stepB T m b).m rest

end GeckoModel.Lifecycle
