/-
C13 — a watercare command while watercare polls of the facade are in flight.

Tasks: task 0 is ONE call of `GeckoWaterCare.async_set_mode(m)`, executing the GENERATED statement list
`Generated.asyncSetModeSteps`; task k+1 is the k-th periodic watercare poll of the facade's update loop
(`change_watercare_mode(await spa.async_get_watercare())`).  Every request/response exchange holds the protocol lock
(C06: one request in flight):

  poll,  step 1   enabled while the lock is free: take it; the query reaches the spa, whose answer is its mode NOW
         step 2   the answer arrives: the local mode becomes that answer; release
  command awaitSet, step 1   enabled while the lock is free: take it; the SETWC reaches the spa: its mode becomes m
                    step 2   the acknowledgement arrives; release
          localChange        the local mode becomes m

A scheduler is a list of task numbers; a step that is not enabled changes nothing.
-/
import GeckoModel.Generated.WatercareSteps

namespace GeckoModel.WatercareRace
open GeckoModel.Generated

structure WSys where
  spaWc  : Nat
  cliWc  : Nat
  holder : Option Nat
  polls  : Nat → Nat × Nat     -- poll k: (0 not started | 1 in flight | 2 done, the answer it carries)
  cmdPc  : Nat                 -- statements of async_set_mode completed
  cmdSub : Bool                -- inside awaitSet: the SETWC has reached the spa, the acknowledgement is on its way

def setPoll (f : Nat → Nat × Nat) (k : Nat) (v : Nat × Nat) : Nat → Nat × Nat := fun j => if j = k then v else f j

def step (steps : List WStep) (m : Nat) (s : WSys) : Nat → WSys
  | 0 =>
    match steps[s.cmdPc]? with
    | none => s
    | some .localChange => { s with cliWc := m, cmdPc := s.cmdPc + 1 }
    | some .awaitSet =>
      if s.cmdSub then { s with holder := none, cmdSub := false, cmdPc := s.cmdPc + 1 }
      else match s.holder with
        | some _ => s
        | none => { s with holder := some 0, spaWc := m, cmdSub := true }
  | k + 1 =>
    match (s.polls k).1 with
    | 0 => (match s.holder with
            | some _ => s
            | none => { s with holder := some (k + 1), polls := setPoll s.polls k (1, s.spaWc) })
    | 1 => { s with cliWc := (s.polls k).2, holder := none, polls := setPoll s.polls k (2, (s.polls k).2) }
    | _ => s

def run (steps : List WStep) (m : Nat) : WSys → List Nat → WSys
  | s, [] => s
  | s, t :: ts => run steps m (step steps m s t) ts

def initSys (spa cli : Nat) : WSys :=
  { spaWc := spa, cliWc := cli, holder := none, polls := fun _ => (0, 0), cmdPc := 0, cmdSub := false }

end GeckoModel.WatercareRace
