/-
C04 — the hello handler as the LONG-LIVED object it is (the locator and the simulator decode every hello of a session with
one `GeckoHelloProtocolHandler` instance).

`handle` first resets the attributes listed in `Generated.WireFormats.helloResetAttrs` (read from the source: the
unconditional assignments of None / False in front of the content test), then sets what the content carries.
-/
import GeckoModel.Model.Wire

namespace GeckoModel.HelloObject
open GeckoModel.Wire GeckoModel.Generated.WireFormats

structure Obj where
  bcast  : Bool := false
  client : Option Bytes := none
  spaId  : Option Bytes := none
  name   : Option Bytes := none
deriving Repr, DecidableEq

def resetWith (resets : List String) (o : Obj) : Obj :=
  { bcast := if resets.contains "was_broadcast_discovery" then false else o.bcast
    client := if resets.contains "_client_identifier" then none else o.client
    spaId := if resets.contains "_spa_identifier" then none else o.spaId
    name := if resets.contains "_spa_name" then none else o.name }

/-- hello.py `handle` on an object that already holds `o`; a ValueError leaves the object as the reset left it -/
def handleWith (resets : List String) (o : Obj) (bs : Bytes) : Except Err Obj × Obj :=
  let o0 := resetWith resets o
  match decodeHello bs with
  | .ok (.hello b c i n) =>
    let o1 : Obj := { bcast := if b then true else o0.bcast, client := c.orElse (fun _ => o0.client),
                      spaId := i.orElse (fun _ => o0.spaId), name := n.orElse (fun _ => o0.name) }
    (.ok o1, o1)
  | .ok _ => (.error .outOfModel, o0)
  | .error e => (.error e, o0)

def handle : Obj → Bytes → Except Err Obj × Obj := handleWith helloResetAttrs

/-- what a FRESH instance decodes the message to -/
def fresh (bs : Bytes) : Except Err Obj := (handle {} bs).1

end GeckoModel.HelloObject
