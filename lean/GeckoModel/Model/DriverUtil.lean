/- helpers shared by the line-protocol drivers -/
import GeckoModel.Model.Accessor

namespace Drv
open GeckoModel

def hexDigit (c : Char) : Option Nat :=
  if '0' ≤ c ∧ c ≤ '9' then some (c.toNat - 48)
  else if 'a' ≤ c ∧ c ≤ 'f' then some (c.toNat - 87)
  else if 'A' ≤ c ∧ c ≤ 'F' then some (c.toNat - 55) else none

partial def unhexAux : List Char → List UInt8 → Option (List UInt8)
  | [], acc => some acc.reverse
  | [_], _ => none
  | a :: b :: rest, acc =>
    match hexDigit a, hexDigit b with
    | some x, some y => unhexAux rest (UInt8.ofNat (x * 16 + y) :: acc)
    | _, _ => none

/-- "-" is the empty byte string -/
def unhex (s : String) : Option (List UInt8) := if s == "-" then some [] else unhexAux s.toList []

def hexNib (n : Nat) : Char := if n < 10 then Char.ofNat (48 + n) else Char.ofNat (87 + n)

def hex (bs : List UInt8) : String :=
  if bs.isEmpty then "-" else String.ofList (bs.flatMap fun b => [hexNib (b.toNat / 16), hexNib (b.toNat % 16)])

def strOfHex (s : String) : Option String :=
  match unhex s with
  | some bs => String.fromUTF8? (ByteArray.mk bs.toArray)
  | none => none

def hexOfStr (s : String) : String := hex s.toUTF8.toList

def errName : Err → String
  | .notWritable => "E_NOTWRITABLE" | .structErr => "E_STRUCT" | .valueErr => "E_VALUE"
  | .indexErr => "E_INDEX" | .typeErr => "E_TYPE" | .outOfModel => "E_OUTOFMODEL"

def showValue : Value → String
  | .int n => s!"int:{n}"
  | .bool b => s!"bool:{if b then 1 else 0}"
  | .str s => s!"str:{hexOfStr s}"

def showExceptValue : Except Err Value → String
  | .ok v => showValue v
  | .error e => "err:" ++ errName e

def parseValue (k v : String) : Option Value :=
  match k with
  | "int" => v.toNat?.map Value.int
  | "bool" => some (.bool (v == "1"))
  | "str" => (strOfHex v).map Value.str
  | _ => none

end Drv
