/-
The threaded engine (C20): GeckoUdpSocket._thread_func and GeckoUdpProtocolHandler.loop/retry, statement by statement.

TIME UNIT: one tick = 1 MICROSECOND of `time.monotonic()` (an exact clock; IEEE rounding of clock subtraction is outside the model).

  Engine        : clock, _last_send_time, _send_handlers (FIFO of (handler, destination)), _receive_handlers (registration order),
                  per-handler-instance state (_start_time, _retry_count, _should_remove_handler, last_destination), an abstract client
                  state σ (what handler callbacks and `_loop_func` of a subclass read and write), and `alive` (the thread is still running).
  Prog          : the "program" run by the engine: for every handler instance `h : HId` its `can_handle`, timeout, retry count,
                  on_retry_failed, whether `send_bytes` exists, and what `handle` / `on_handled` do (a list of `Act`s, then maybe raise);
                  `loopFunc` = `_loop_func` of the subclass.
  engineIter    : one iteration of `while self.isopen:` — the phases in the order `Generated.threadPhaseCodes` (extracted from
                  `_thread_func` on every run): 0 `_process_send_requests`, 1 `_process_received_data` (recvfrom blocks for `dtRecv`, yields
                  at most one datagram) → `dispatch_recevied_data`, 2 `handler.loop` for each registered handler, 3 `_cleanup_handlers`,
                  4 `_loop_func`.  An exception escaping phase 2 or 4 ends the thread iff that call is not guarded in `_thread_func`
                  (`loopPhaseGuarded`, `loopFuncGuarded`: extracted; both are guarded since the fix of the engine-stop defect).
  Step / run    : engine iterations interleaved with the client-thread calls queue_send / add_receive_handler / handler construction
                  (serialised, as `self._lock` does).

  HS            : the connection handshake of GeckoSpa at event level (reply dispatched to the current request handler / its timeout),
                  version → channel → config → status block, the block stage being C01's threaded assembler `SyncAsm`.
-/
import GeckoModel.Generated.ThreadedFacts
import GeckoModel.Model.Transfer

namespace GeckoModel.Threaded
open GeckoModel.Generated

scoped notation "Time" => Nat      -- microseconds
scoped notation "HId" => Nat       -- identity of a handler INSTANCE
scoped notation "Dest" => Nat      -- a destination address

/-- a datagram: some verb, possibly wrapped in `<PACKT>` layers (GeckoPacketProtocolHandler re-dispatches the inner content) -/
inductive Dgram
  | raw (verb : Nat)
  | pkt (inner : Dgram)
deriving DecidableEq, Repr

/-- what a `handle` / `on_handled` callback does to the engine, in program order -/
inductive Act
  | markRemove                               -- self._should_remove_handler = True
  | send (h : HId) (dest : Option Dest)      -- socket.queue_send(h, dest)
  | create (h : HId)                         -- h = Handler(...): _start_time = now, _retry_count = retry_count, flag False, last_destination None
  | add (h : HId)                            -- socket.add_receive_handler(h)
  | unwrap                                   -- socket.dispatch_recevied_data(inner content)   (raises on a datagram that is not a packet)
  | retryOrRaise                             -- `if not handler.retry(socket): raise`  (GeckoStructure on an out-of-sequence final segment)
deriving DecidableEq, Repr

/-- `_on_retry_failed`: absent, the default (`_should_remove_handler = True`), or a callback that raises -/
inductive OnFail
  | none | remove | raises
deriving DecidableEq, Repr

structure React (σ : Type) where
  client : σ               -- client state after the callback (whatever it did before raising, if it raises)
  acts : List Act
  raises : Bool            -- raises after performing `acts`

structure Spec (σ : Type) where
  canHandle : Dgram → Bool
  timeout : Time           -- _timeout_in_seconds in µs; 0 = never times out
  retries : Nat            -- retry_count given to the constructor
  onFail : OnFail
  sendable : Bool          -- `send_bytes` is available (the base property raises NotImplementedError otherwise)
  handle : σ → Dgram → React σ
  onHandled : σ → Dgram → React σ      -- `_on_handled`; no acts when it is None

structure Prog (σ : Type) where
  spec : HId → Spec σ
  loopFunc : σ → σ × Bool              -- `_loop_func`: new client state, raises?

structure HState where
  start : Time               -- _start_time
  retries : Nat              -- _retry_count
  remove : Bool              -- _should_remove_handler
  lastDest : Option Dest     -- last_destination
deriving DecidableEq, Repr

structure Engine (σ : Type) where
  clock : Time
  lastSend : Time                          -- _last_send_time
  sendq : List (HId × Option Dest)         -- _send_handlers
  handlers : List HId                      -- _receive_handlers, registration order
  hs : HId → HState
  client : σ
  alive : Bool

/-- observable events of a run -/
inductive Out
  | enq (h : HId) (dest : Option Dest)             -- a queue_send call (client thread, a callback, or `retry`)
  | sent (h : HId) (dest : Dest) (t : Time)        -- socket.sendto at clock t
  | sendFailed (h : HId) (dest : Option Dest)      -- popped, exception logged, nothing transmitted
  | handled (h : HId) (d : Dgram)                  -- `handle` of h called with d (the dispatch target)
  | unhandled (d : Dgram)                          -- no handler accepted d
  | raised (h : HId)                               -- exception swallowed by dispatch_recevied_data
  | timedOut (h : HId)
  | failed (h : HId)                               -- on_retry_failed called
  | died                                           -- exception escaped `_thread_func`
deriving DecidableEq, Repr

/-- what one iteration gets from outside: time passing before it, time spent blocking in recvfrom, and what recvfrom returned -/
structure Env where
  dtPre : Time
  dtRecv : Time
  dgram : Option Dgram
deriving DecidableEq, Repr

variable {σ : Type}

def upd (f : HId → HState) (i : HId) (v : HState) : HId → HState := fun j => if j = i then v else f j

/-- GeckoUdpProtocolHandler.__init__ -/
def fresh (P : Prog σ) (h : HId) (now : Time) : HState :=
  { start := now, retries := (P.spec h).retries, remove := false, lastDest := none }

/-- `if protocol_handler.last_destination is None: protocol_handler.last_destination = destination` (present in the source iff
`queueSendRecordsDest`) -/
def recordDest (s : HState) (d : Option Dest) : HState :=
  if queueSendRecordsDest && s.lastDest.isNone then { s with lastDest := d } else s

/-- queue_send -/
def Engine.enq (e : Engine σ) (h : HId) (d : Option Dest) : Engine σ :=
  { e with hs := upd e.hs h (recordDest (e.hs h) d), sendq := e.sendq ++ [(h, d)] }

/-- GeckoUdpSocket.__init__ at clock `now` -/
def Engine.new (hs : HId → HState) (c : σ) (now : Time) : Engine σ :=
  { clock := now, lastSend := now, sendq := [], handlers := [], hs := hs, client := c, alive := true }

/-! ### phase 0: `_process_send_requests` -/

/-- `self._send_handlers.pop(i)`, `i` as extracted -/
def popSend (q : List (HId × Option Dest)) : Option ((HId × Option Dest) × List (HId × Option Dest)) :=
  if sendPopsFront then
    match q with
    | [] => none
    | x :: r => some (x, r)
  else
    match q.getLast? with
    | none => none
    | some x => some (x, q.dropLast)

def processSend (P : Prog σ) (e : Engine σ) : Engine σ × List Out :=
  if e.clock - e.lastSend < throttleMinGapUs then (e, [])          -- throttle: return
  else
    match popSend e.sendq with
    | none => (e, [])
    | some ((h, dest), rest) =>
      let e1 := { e with sendq := rest }
      if !(P.spec h).sendable then (e1, [.sendFailed h dest])        -- send_bytes raises
      else
        match dest with
        | none => (e1, [.sendFailed h none])                         -- AssertionError, logged
        | some d =>
          ({ e1 with hs := upd e1.hs h { e1.hs h with lastDest := some d }, lastSend := e1.clock }, [.sent h d e1.clock])

/-! ### phase 1: `_process_received_data` → `dispatch_recevied_data` -/

abbrev Inner (σ : Type) := Option (Engine σ → Engine σ × List Out)

/-- one act of handler `self`; the Bool says "raised" -/
def actStep (P : Prog σ) (self : HId) (inner : Inner σ) (a : Act) (e : Engine σ) : Engine σ × List Out × Bool :=
  match a with
  | .markRemove => ({ e with hs := upd e.hs self { e.hs self with remove := true } }, [], false)
  | .send h d => (e.enq h d, [.enq h d], false)
  | .create h => ({ e with hs := upd e.hs h (fresh P h e.clock) }, [], false)
  | .add h => ({ e with handlers := e.handlers ++ [h] }, [], false)
  | .unwrap =>
    match inner with
    | none => (e, [], true)
    | some f => ((f e).1, (f e).2, false)
  | .retryOrRaise =>
    if (e.hs self).retries = 0 then (e, [], true)
    else (({ e with hs := upd e.hs self { e.hs self with retries := (e.hs self).retries - 1, start := e.clock } }).enq self (e.hs self).lastDest,
          [.enq self (e.hs self).lastDest], false)

def runActs (P : Prog σ) (self : HId) (inner : Inner σ) : List Act → Engine σ → Engine σ × List Out × Bool
  | [], e => (e, [], false)
  | a :: rest, e =>
    let r := actStep P self inner a e
    if r.2.2 then r
    else
      let r' := runActs P self inner rest r.1
      (r'.1, r.2.1 ++ r'.2.1, r'.2.2)

/-- `receive_handler.handle(...)`, `receive_handler.handled(...)` inside `try ... except Exception: log` -/
def invoke (P : Prog σ) (inner : Inner σ) (h : HId) (d : Dgram) (e : Engine σ) : Engine σ × List Out :=
  let r1 := (P.spec h).handle e.client d
  let a1 := runActs P h inner r1.acts { e with client := r1.client }
  if a1.2.2 || r1.raises then (a1.1, .handled h d :: a1.2.1 ++ [.raised h])
  else
    -- handled(): _reset_timeout() first, then _on_handled
    let e2 := { a1.1 with hs := upd a1.1.hs h { a1.1.hs h with start := a1.1.clock } }
    let r2 := (P.spec h).onHandled e2.client d
    let a2 := runActs P h inner r2.acts { e2 with client := r2.client }
    (a2.1, .handled h d :: a1.2.1 ++ a2.2.1 ++ (if a2.2.2 || r2.raises then [.raised h] else []))

/-- the `for handler in self._receive_handlers: if handler.can_handle(...): ...; break` search, then the call -/
def dispatchWith (P : Prog σ) (inner : Inner σ) (d : Dgram) (e : Engine σ) : Engine σ × List Out :=
  match e.handlers.find? (fun h => (P.spec h).canHandle d) with
  | none => (e, [.unhandled d])
  | some h => invoke P inner h d e

def dispatch (P : Prog σ) : Dgram → Engine σ → Engine σ × List Out
  | .raw v, e => dispatchWith P none (.raw v) e
  | .pkt i, e => dispatchWith P (some (dispatch P i)) (.pkt i) e

/-! ### phase 2: `handler.loop(self)` for each registered handler -/

/-- has_timedout -/
def timedOut (P : Prog σ) (h : HId) (e : Engine σ) : Bool :=
  if (P.spec h).timeout > 0 then
    (if timeoutStrict then decide (e.clock - (e.hs h).start > (P.spec h).timeout)
     else decide (e.clock - (e.hs h).start ≥ (P.spec h).timeout))
  else false

/-- GeckoUdpProtocolHandler.loop; the Bool says "an exception escaped the handler's loop call in `_thread_func`": a raising
on_retry_failed escapes iff that call is not guarded (`loopPhaseGuarded`, extracted) -/
def handlerLoop (P : Prog σ) (h : HId) (e : Engine σ) : Engine σ × List Out × Bool :=
  if !timedOut P h e then (e, [], false)
  else if (e.hs h).retries = 0 then
    -- retry() returned False
    match (P.spec h).onFail with
    | .none => (e, [.timedOut h], false)
    | .remove => ({ e with hs := upd e.hs h { e.hs h with remove := true } }, [.timedOut h, .failed h], false)
    | .raises => (e, [.timedOut h, .failed h], !loopPhaseGuarded)
  else
    -- retry(): decrement, _reset_timeout, queue_send(self, self.last_destination)
    (({ e with hs := upd e.hs h { e.hs h with retries := (e.hs h).retries - 1, start := e.clock } }).enq h (e.hs h).lastDest,
     [.timedOut h, .enq h (e.hs h).lastDest], false)

def loopAll (P : Prog σ) : List HId → Engine σ → Engine σ × List Out
  | [], e => (e, [])
  | h :: rest, e =>
    let r := handlerLoop P h e
    if r.2.2 then ({ r.1 with alive := false }, r.2.1 ++ [.died])
    else
      let r' := loopAll P rest r.1
      (r'.1, r.2.1 ++ r'.2)

/-! ### phases 3 and 4 -/

/-- `_cleanup_handlers` -/
def cleanup (e : Engine σ) : Engine σ := { e with handlers := e.handlers.filter (fun h => !(e.hs h).remove) }

/-- `_loop_func`; an exception ends the thread iff the call is not guarded (`loopFuncGuarded`, extracted) -/
def loopFuncPhase (P : Prog σ) (e : Engine σ) : Engine σ × List Out :=
  let r := P.loopFunc e.client
  if r.2 && !loopFuncGuarded then ({ e with client := r.1, alive := false }, [.died]) else ({ e with client := r.1 }, [])

/-! ### one iteration -/

def runPhase (P : Prog σ) (env : Env) : Nat → Engine σ → Engine σ × List Out
  | 0, e => processSend P e
  | 1, e =>
    let e1 := { e with clock := e.clock + env.dtRecv }
    match env.dgram with
    | none => (e1, [])                    -- socket.timeout
    | some d => dispatch P d e1
  | 2, e => loopAll P e.handlers e
  | 3, e => (cleanup e, [])
  | 4, e => loopFuncPhase P e
  | _, e => (e, [])

def runPhases (P : Prog σ) (env : Env) : List Nat → Engine σ → Engine σ × List Out
  | [], e => (e, [])
  | p :: ps, e =>
    if !e.alive then (e, [])
    else
      let r := runPhase P env p e
      let r' := runPhases P env ps r.1
      (r'.1, r.2 ++ r'.2)

def engineIter (P : Prog σ) (e : Engine σ) (env : Env) : Engine σ × List Out :=
  if !e.alive then (e, [])
  else runPhases P env threadPhaseCodes { e with clock := e.clock + env.dtPre }

/-! ### runs: iterations interleaved with client-thread calls -/

inductive Step
  | iter (env : Env)
  | queueSend (h : HId) (dest : Option Dest)
  | register (h : HId)
  | create (h : HId)
deriving DecidableEq, Repr

def step (P : Prog σ) (e : Engine σ) : Step → Engine σ × List Out
  | .iter env => engineIter P e env
  | .queueSend h d => (e.enq h d, [.enq h d])
  | .register h => ({ e with handlers := e.handlers ++ [h] }, [])
  | .create h => ({ e with hs := upd e.hs h (fresh P h e.clock) }, [])

def run (P : Prog σ) : Engine σ → List Step → Engine σ × List Out
  | e, [] => (e, [])
  | e, s :: ss =>
    let r := step P e s
    let r' := run P r.1 ss
    (r'.1, r.2 ++ r'.2)

/-! ### projections of a trace -/

def enqs : List Out → List (HId × Option Dest)
  | [] => []
  | .enq h d :: r => (h, d) :: enqs r
  | _ :: r => enqs r

/-- what left the queue, in order (transmitted or failed) -/
def pops : List Out → List (HId × Option Dest)
  | [] => []
  | .sent h d _ :: r => (h, some d) :: pops r
  | .sendFailed h d :: r => (h, d) :: pops r
  | _ :: r => pops r

/-- the transmitted datagrams, in order -/
def sents : List Out → List (HId × Dest)
  | [] => []
  | .sent h d _ :: r => (h, d) :: sents r
  | _ :: r => sents r

def sentTimes : List Out → List Time
  | [] => []
  | .sent _ _ t :: r => t :: sentTimes r
  | _ :: r => sentTimes r

def failedSends : List Out → List (HId × Option Dest)
  | [] => []
  | .sendFailed h d :: r => (h, d) :: failedSends r
  | _ :: r => failedSends r

/-! ### the handshake of GeckoSpa, event level -/

inductive Stage
  | version | channel | config | block | connected | stalled
deriving DecidableEq, Repr

/-- what happens to the client during the handshake: a reply datagram reaches dispatch, or the CURRENT request handler's
`loop` finds it timed out -/
inductive HEv
  | svers | chcur | files
  | seg (s : Seg)
  | timeout
deriving DecidableEq, Repr

structure HS where
  stage : Stage
  retries : Nat        -- _retry_count of the current version/channel/config request handler
  sendsV : Nat         -- AVERS / CURCH / SFILE requests queued so far
  sendsC : Nat
  sendsF : Nat
  asm : SyncAsm        -- GeckoStructure + the STATU request handler (C01)
deriving DecidableEq, Repr

/-- start_connect: the version request is registered and queued -/
def HS.init (cli : Block) (budget : Nat) : HS :=
  { stage := .version, retries := budget, sendsV := 1, sendsC := 0, sendsF := 0,
    asm := { (SyncAsm.start cli budget) with sends := 0, live := false } }

/-- a simple request stage: its reply moves on; a timeout retries or (exhausted) removes the handler and the handshake stalls for good -/
def HS.step (h : HS) (cli : Block) (budget start : Nat) (ev : HEv) : HS :=
  match h.stage with
  | .version =>
    match ev with
    | .svers => { h with stage := .channel, retries := budget, sendsC := 1 }           -- _on_version_received
    | .timeout => if h.retries = 0 then { h with stage := .stalled } else { h with retries := h.retries - 1, sendsV := h.sendsV + 1 }
    | _ => h
  | .channel =>
    match ev with
    | .chcur => { h with stage := .config, retries := budget, sendsF := 1 }            -- _on_channel_received
    | .timeout => if h.retries = 0 then { h with stage := .stalled } else { h with retries := h.retries - 1, sendsC := h.sendsC + 1 }
    | _ => h
  | .config =>
    match ev with
    | .files => { h with stage := .block, asm := SyncAsm.start cli budget }              -- _on_config_received → struct.retry_request
    | .timeout => if h.retries = 0 then { h with stage := .stalled } else { h with retries := h.retries - 1, sendsF := h.sendsF + 1 }
    | _ => h
  | .block =>
    let a := match ev with
      | .seg s => h.asm.step start (.seg s)
      | .timeout => h.asm.step start .timeout
      | _ => h.asm
    -- `_loop_func`: had_at_least_one_block → _final_connect ; a dead request handler never comes back
    if a.installed then { h with asm := a, stage := .connected }
    else if !a.live then { h with asm := a, stage := .stalled }
    else { h with asm := a }
  | .connected => h
  | .stalled => h

def HS.run (h : HS) (cli : Block) (budget start : Nat) (evs : List HEv) : HS := evs.foldl (fun h e => h.step cli budget start e) h

end GeckoModel.Threaded
