/-
C03 - what `Observable._on_change` does when observers change the registration list WHILE they are being notified
(an observer that unwatches itself, an observer that removes another one, `unwatch_all` from inside a callback, a late `watch`).

The dispatch walks the list as it was when the change arrived (`todo`), against the LIVE list: an observer whose registration has
been removed by the time its turn comes is not called; one registered during the dispatch waits for the next change.
-/
namespace GeckoModel.ObserverDispatch

abbrev ObsId := Nat

/-- what an observer does to the registration list of the object that calls it -/
inductive React
  | nothing
  | unwatch (o : ObsId)      -- `unwatch(o)` (ValueError, swallowed by the observer, when `o` is not registered)
  | unwatchAll
  | watch (o : ObsId)
deriving Repr, DecidableEq

def applyReact (live : List ObsId) : React → List ObsId
  | .nothing => live
  | .unwatch o => live.erase o
  | .unwatchAll => []
  | .watch o => if o ∈ live then live else live ++ [o]

/-- the dispatch loop: (observers called, in order; registration list afterwards) -/
def dispatch (react : ObsId → React) : List ObsId → List ObsId → List ObsId × List ObsId
  | [], live => ([], live)
  | o :: rest, live =>
    if o ∈ live then
      let r := dispatch react rest (applyReact live (react o))
      (o :: r.1, r.2)
    else dispatch react rest live

/-- one change notification of an object whose registration list is `live` -/
def notify (react : ObsId → React) (live : List ObsId) : List ObsId × List ObsId := dispatch react live live

end GeckoModel.ObserverDispatch
