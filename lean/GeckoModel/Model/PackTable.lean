/-
Pack tables: the shape of the data that `harness/translate.py` regenerates from the shipped
`geckolib/driver/packs/*.py` modules (by importing them and reading the public attributes of every
accessor object, i.e. what the library itself sees after `GeckoStructAccessor.__init__`), and the
decidable well-formedness predicates used by C02, C03, C11, C12 and C18.  Core Lean only.
-/
namespace GeckoModel

inductive Kind | byte | word | time | bool | enum | temp
deriving Repr, DecidableEq, Inhabited

inductive ModKind | pack | cfg | log | unknown
deriving Repr, DecidableEq, Inhabited

/-- one accessor object as the library sees it -/
structure Item where
  key : String              -- dictionary key in `accessors`
  tag : String              -- accessor.tag
  pos : Nat                 -- accessor.pos
  kind : Kind               -- accessor class / type
  len : Nat                 -- accessor.length (derived in __init__)
  bitpos : Option Nat       -- accessor.bitpos
  mask : Nat                -- accessor.bitmask when bitpos is given (0 otherwise: never read by the code)
  labels : List String      -- accessor.items (enum labels)
  hasLabels : Bool          -- accessor.items is not None
  maxitems : Option Nat     -- accessor.maxitems
  rw : Option String        -- accessor.read_write
deriving Repr, DecidableEq, Inhabited

structure PackModule where
  file : String
  kind : ModKind
  declPlatform : String := ""       -- from the module docstring
  declVersion : Option Nat := none  -- from the module docstring
  name : String := ""               -- GeckoPack.name
  packType : Nat := 0               -- GeckoPack.type
  revision : String := ""           -- GeckoPack.revision
  version : Nat := 0                -- GeckoConfigStruct/GeckoLogStruct.version
  beginPos : Nat := 0               -- GeckoLogStruct.begin
  endPos : Nat := 0                 -- GeckoLogStruct.end
  outputKeys : List String := []
  deviceKeys : List String := []
  userDemandKeys : List String := []
  errorKeys : List String := []
  items : List Item := []
deriving Repr, DecidableEq, Inhabited

def blockSize : Nat := 1024

/-- number of bits of a contiguous low mask `2^k - 1`, or `none` when the mask is not of that form -/
def maskWidth (m : Nat) : Option Nat :=
  if m = 1 then some 1 else if m = 3 then some 2 else if m = 7 then some 3 else if m = 15 then some 4 else none

/-- how many distinct raw values the item's field can hold -/
def Item.capacity (it : Item) : Nat :=
  match it.bitpos with
  | some _ => it.mask + 1
  | none => 256 ^ it.len

/-- the bit field lies inside the item's bytes and its mask is a contiguous low mask -/
def Item.bitsOK (it : Item) : Bool :=
  match it.bitpos with
  | some p =>
    match maskWidth it.mask with
    | some k => decide (p + k ≤ 8 * it.len)
    | none => false
  | none => true

/-- **addressable**: the bytes lie inside the status block, the bit field inside the bytes, the mask is a contiguous
low mask, every enumeration label is representable, and the width matches the kind. -/
def Item.WF (it : Item) : Prop :=
  it.key = it.tag ∧
  (it.len = 1 ∨ it.len = 2) ∧
  it.pos + it.len ≤ blockSize ∧
  it.bitsOK = true ∧
  (it.kind = .enum → it.hasLabels = true ∧ it.labels.length ≤ it.capacity) ∧
  ((it.kind = .word ∨ it.kind = .time ∨ it.kind = .temp) → it.len = 2 ∧ it.bitpos = none) ∧
  (it.kind = .byte → it.len = 1 ∧ it.bitpos = none) ∧
  (it.kind = .bool → it.len = 1)

instance (it : Item) : Decidable it.WF := by unfold Item.WF; exact inferInstance

/-- items that are ill-formed in the shipped tables today (known finding D9): exact list, by module file and tag -/
def knownIllFormed : List (String × String) :=
  [("mrsteam-log-1", "WaterDetected"), ("mas-ibc-32k-log-1", "UserDryingDelay"), ("mas-ibc-32k-log-1", "PurgeDelayTimer")]

def PackModule.ItemsWF (m : PackModule) : Prop :=
  ∀ it ∈ m.items, (m.file, it.tag) ∈ knownIllFormed ∨ it.WF

instance (m : PackModule) : Decidable m.ItemsWF := by unfold PackModule.ItemsWF; exact inferInstance

/-- every key a table advertises names an item of that table -/
def PackModule.KeysResolve (m : PackModule) : Prop :=
  ∀ k ∈ m.outputKeys ++ m.userDemandKeys ++ m.errorKeys, k ∈ m.items.map (·.tag)

instance (m : PackModule) : Decidable m.KeysResolve := by unfold PackModule.KeysResolve; exact inferInstance

def suffixOf : ModKind → String
  | .cfg => "-cfg-"
  | .log => "-log-"
  | _ => ""

/-- the module file name agrees with the platform and version the module declares -/
def PackModule.nameAgrees (m : PackModule) : Bool :=
  match m.kind with
  | .pack => m.file == m.name.toLower && m.declPlatform == m.name
  | .cfg | .log => m.file == m.declPlatform.toLower ++ suffixOf m.kind ++ toString m.version && m.declVersion == some m.version
  | .unknown => false

def PackModule.NameAgrees (m : PackModule) : Prop := m.nameAgrees = true

instance (m : PackModule) : Decidable m.NameAgrees := by unfold PackModule.NameAgrees; exact inferInstance

/-- the refresh window of a log table lies inside the block -/
def PackModule.WindowOK (m : PackModule) : Prop :=
  m.kind = .log → m.beginPos + m.endPos ≤ blockSize ∧ 0 < m.endPos

instance (m : PackModule) : Decidable m.WindowOK := by unfold PackModule.WindowOK; exact inferInstance

/-- everything C18 asks of one module -/
def PackModule.OK (m : PackModule) : Prop := m.ItemsWF ∧ m.KeysResolve ∧ m.NameAgrees ∧ m.WindowOK

instance (m : PackModule) : Decidable m.OK := by unfold PackModule.OK; exact inferInstance

end GeckoModel
