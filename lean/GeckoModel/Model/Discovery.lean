/-
Model of spa discovery: `GeckoAsyncLocator.discover` / `_async_on_discovered` (async_locator.py),
`GeckoHelloProtocolHandler.can_handle` / `handle` (driver/protocol/hello.py), `GeckoUdpProtocolHandler.consume`
(driver/udp_protocol_handler.py) and `GeckoAsyncSpaDescriptor`.  Core Lean only.

Three tasks share the locator: the main loop of `discover` (polls every 0.1 s), the hello consumer (`consume`, at most
one datagram per 0.1 s poll, strictly from the head of the protocol queue) and the 1 Hz broadcaster (no state of interest).
An atomic step is the code between two suspending awaits:

  input                     Python
  ------------------------  ---------------------------------------------------------------------------------
  datagram d                `datagram_received` -> `queue.put_nowait` (ignored once the transport is closed)
  tick                      the clock advances one time unit (the unit is a parameter: a 0.1 s tick, or 1 ms)
  consume suspend           one iteration of `consume`: head handleable -> pop, `handle` (may raise: the task dies),
                            `_async_on_discovered` up to `await self._event_handler(..)`; `suspend` says whether the
                            client's event handler suspends there (then `resume` is its return)
  resume                    the event handler returns: `_has_found_spa = True` when an address or identifier was given
  poll                      one iteration of the `while self.age < TIMEOUT` loop; on exit: the `finally` block
                            (cancel `LOC:` tasks, close the transport)
  cancel                    `discover()` itself is cancelled while it sleeps in the loop: `CancelledError` runs the same
                            `finally` block (since /repo 865a18b), then propagates

`t` is the age (`time.monotonic() - self._started`).  Ghost fields (`arrived`, `popped`, `handled`) only record history.
-/
import GeckoModel.Model.Config

namespace GeckoModel.Discovery
open GeckoModel.Generated.Config

abbrev Bytes := List UInt8

structure Addr where
  ip : Bytes      -- the sender's address string (latin-1 bytes)
  port : Nat
deriving Repr, DecidableEq

structure Datagram where
  payload : Bytes
  addr : Addr
deriving Repr, DecidableEq

/-- `GeckoAsyncSpaDescriptor(identifier, name, sender)`; the name is kept as its latin-1 bytes -/
structure Desc where
  id : Bytes
  name : Bytes
  addr : Addr
deriving Repr, DecidableEq

def bar : UInt8 := 124
def helloOpen : Bytes := [60, 72, 69, 76, 76, 79, 62]        -- b"<HELLO>"
def helloClose : Bytes := [60, 47, 72, 69, 76, 76, 79, 62]   -- b"</HELLO>"
def iosPrefix : Bytes := [73, 79, 83]                        -- b"IOS"
def andPrefix : Bytes := [65, 78, 68]                        -- b"AND"

/-- `GeckoHelloProtocolHandler.response(spa_identifier, spa_name)`: what a spa sends -/
def helloReply (id name : Bytes) : Bytes := helloOpen ++ (id ++ bar :: name) ++ helloClose

/-- `can_handle`: `received_bytes.startswith(HELLO_OPEN) and received_bytes.endswith(HELLO_CLOSE)` -/
def canHandle (p : Bytes) : Bool := helloOpen.isPrefixOf p && helloClose.isSuffixOf p

/-- `received_bytes[7:-8]` -/
def content (p : Bytes) : Bytes := (p.take (p.length - 8)).drop 7

inductive HelloErr where
  | valueErr    -- `self._spa_identifier, spa_name = content.split(b"|", 1)` on a content without `|`: one part to unpack
  | assertErr   -- `handler.spa_identifier` on a hello that carried no spa identifier
deriving Repr, DecidableEq

inductive Hello where
  | broadcast
  | client (id : Bytes)
  | spa (id name : Bytes)
deriving Repr, DecidableEq

/-- `GeckoHelloProtocolHandler.handle` on the content -/
def parseContent (c : Bytes) : Except HelloErr Hello :=
  if c = [49] then .ok .broadcast
  else if iosPrefix.isPrefixOf c || andPrefix.isPrefixOf c then .ok (.client c)
  else if bar ∈ c then .ok (.spa (c.takeWhile (· != bar)) ((c.dropWhile (· != bar)).drop 1))   -- `content.split(b"|", 1)`
  else .error .valueErr

/-- `handle` followed by the `handler.spa_identifier` / `handler.spa_name` reads of `_async_on_discovered` -/
def codeParse (p : Bytes) : Except HelloErr (Bytes × Bytes) :=
  match parseContent (content p) with
  | .error e => .error e
  | .ok (.spa i n) => .ok (i, n)
  | .ok _ => .error .assertErr

/-- the locator's keyword arguments: `spa_identifier` (latin-1 bytes; "" is None) and whether `spa_address` was given -/
structure Filter where
  id : Option Bytes
  hasAddr : Bool
deriving Repr, DecidableEq

def Filter.restricting (f : Filter) : Bool := f.id.isSome || f.hasAddr

/-- `self._spa_identifier is None or self._spa_identifier == handler.spa_identifier.decode(..)` -/
def Filter.passes (f : Filter) (i : Bytes) : Bool :=
  match f.id with
  | none => true
  | some w => w == i

/-- the two waits, in time units -/
structure DCfg where
  initial : Nat
  timeout : Nat
deriving Repr, DecidableEq

/-- from the generated tables (the live object starts as the idle table; both modes agree, see `C17.discovery_waits_mode_independent`) -/
def discoveryCfg (unitsPerSecond : Nat) : Option DCfg :=
  match Config.getAttr initialLive "DISCOVERY_INITIAL_TIMEOUT_IN_SECONDS", Config.getAttr initialLive "DISCOVERY_TIMEOUT_IN_SECONDS" with
  | some i, some t => if 0 ≤ i ∧ 0 ≤ t then some ⟨unitsPerSecond * i.toNat, unitsPerSecond * t.toNat⟩ else none
  | _, _ => none

inductive Consumer where
  | idle
  | inHandler            -- suspended inside the client's event handler
  | dead (e : HelloErr)  -- the task ended with an exception
  | cancelled            -- cancelled by `cancel_key_tasks("LOC")`
deriving Repr, DecidableEq

inductive Main where
  | running
  | returned (at_ : Nat)
  | cancelled (at_ : Nat)   -- `discover()` was cancelled; its `finally` block ran at that age
deriving Repr, DecidableEq

structure DState where
  t : Nat
  queue : List Datagram
  seen : List Bytes          -- `_spa_identifiers`
  spas : List Desc           -- `_spas`
  found : Bool               -- `_has_found_spa`
  consumer : Consumer
  main : Main
  closed : Bool              -- transport closed
  bcastAlive : Bool          -- the `LOC:Broadcast loop` task
  -- ghost history
  arrived : List Datagram    -- every datagram put on the queue
  popped : List Datagram     -- every datagram the consumer took off the queue
  handled : List Desc        -- every successfully parsed reply handed to `_async_on_discovered`
deriving Repr

def DState.init : DState :=
  { t := 0, queue := [], seen := [], spas := [], found := false, consumer := .idle, main := .running,
    closed := false, bcastAlive := true, arrived := [], popped := [], handled := [] }

inductive Input where
  | datagram (d : Datagram)
  | tick
  | consume (suspend : Bool)
  | resume
  | poll
  | cancel
deriving Repr, DecidableEq

def onDatagram (s : DState) (d : Datagram) : DState :=
  if s.closed then s else { s with queue := s.queue ++ [d], arrived := s.arrived ++ [d] }

/-- the tail of `_async_on_discovered` after `await self._event_handler(..)` -/
def finishHandler (f : Filter) (s : DState) : DState :=
  { s with found := s.found || f.restricting }   -- `if address or identifier given: self._has_found_spa = True`

/-- `_async_on_discovered` -/
def onDiscovered (f : Filter) (s : DState) (d : Desc) (suspend : Bool) : DState :=
  if d.id ∈ s.seen then s
  else if !f.passes d.id then s
  else
    let s := { s with seen := s.seen ++ [d.id], spas := s.spas ++ [d] }
    if suspend then { s with consumer := .inHandler } else finishHandler f s

/-- one iteration of `consume` -/
def onConsume (f : Filter) (s : DState) (suspend : Bool) : DState :=
  match s.consumer, s.queue with
  | .idle, d :: rest =>
    if canHandle d.payload then
      let s := { s with queue := rest, popped := s.popped ++ [d] }
      match codeParse d.payload with
      | .error e => { s with consumer := .dead e }
      | .ok (i, n) => onDiscovered f { s with handled := s.handled ++ [⟨i, n, d.addr⟩] } ⟨i, n, d.addr⟩ suspend
    else s      -- nobody else pops: the datagram stays at the head
  | _, _ => s

def onResume (f : Filter) (s : DState) : DState :=
  match s.consumer with
  | .inHandler => finishHandler f { s with consumer := .idle }
  | _ => s

/-- the exit condition of one main-loop iteration -/
def exitNow (c : DCfg) (s : DState) : Bool :=
  !(decide (s.t < c.timeout)) || (decide (c.initial < s.t) && !s.spas.isEmpty) || s.found

/-- the `finally` block: `cancel_key_tasks("LOC")`, `transport.close()` -/
def cleanup (s : DState) (m : Main) : DState :=
  { s with main := m, closed := true, bcastAlive := false,
           consumer := match s.consumer with
             | .dead e => .dead e
             | _ => .cancelled }

def finish (s : DState) : DState := cleanup s (.returned s.t)

def onPoll (c : DCfg) (s : DState) : DState :=
  match s.main with
  | .running => if exitNow c s then finish s else s
  | _ => s

/-- `CancelledError` delivered to `discover()` at its `await asyncio.sleep(..)` -/
def onCancel (s : DState) : DState :=
  match s.main with
  | .running => cleanup s (.cancelled s.t)
  | _ => s

def step (c : DCfg) (f : Filter) (s : DState) : Input → DState
  | .datagram d => onDatagram s d
  | .tick => { s with t := s.t + 1 }
  | .consume b => onConsume f s b
  | .resume => onResume f s
  | .poll => onPoll c s
  | .cancel => onCancel s

def run (c : DCfg) (f : Filter) (s : DState) : List Input → DState
  | [] => s
  | i :: is => run c f (step c f s i) is

/-- `discoverRun`: the state after the given inputs, from a fresh locator -/
def discoverRun (c : DCfg) (f : Filter) (inputs : List Input) : DState := run c f DState.init inputs

/-! ### the lockstep (tick) schedule: both pollers wake at every tick, in either order -/

structure Slot where
  arrivals : List Datagram   -- what arrived since the consumer's previous poll
  mainFirst : Bool           -- which of the two pollers runs first at this instant
deriving Repr

def slotInputs (sl : Slot) : List Input :=
  sl.arrivals.map Input.datagram ++
  (if sl.mainFirst then [Input.poll, Input.consume false] else [Input.consume false, Input.poll]) ++ [Input.tick]

def lockstep (slots : List Slot) : List Input := slots.flatMap slotInputs

/-! ### the specification side -/

/-- scan in arrival order, keep a reply iff no earlier kept reply has its identifier -/
def firstPerId (l : List Desc) : List Desc :=
  l.foldl (fun acc d => if d.id ∈ acc.map (·.id) then acc else acc ++ [d]) []

/-- what a hello reply MEANS: identifier up to the first `|`, the name is everything after it (any bytes) -/
def specDecode (d : Datagram) : Desc :=
  let c := content d.payload
  ⟨c.takeWhile (· != bar), (c.dropWhile (· != bar)).drop 1, d.addr⟩

def NoBar (b : Bytes) : Prop := bar ∉ b

/-- identifiers a spa can have: no `|`, and not starting like a client identifier -/
def GoodId (i : Bytes) : Prop := NoBar i ∧ iosPrefix.isPrefixOf i = false ∧ andPrefix.isPrefixOf i = false

/-- a datagram sent by a spa -/
def IsSpaReply (d : Datagram) : Prop := ∃ i n, GoodId i ∧ d.payload = helloReply i n

/-! ### the threaded twin (`GeckoLocator._on_discovered`, locator.py): lists every spa, the filter only sets the flag -/

structure SyncState where
  seen : List Bytes
  spas : List Desc
  found : Bool
deriving Repr, DecidableEq

def onDiscoveredSync (toFind : Option Bytes) (hasStaticIp : Bool) (s : SyncState) (d : Desc) : SyncState :=
  if d.id ∈ s.seen then s
  else
    let s : SyncState := { seen := s.seen ++ [d.id], spas := s.spas ++ [d], found := s.found }
    let s : SyncState := if toFind = some d.id then { s with found := true } else s
    if hasStaticIp then { s with found := true } else s

end GeckoModel.Discovery
