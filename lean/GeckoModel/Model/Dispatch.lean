/-
C07 model — the receive queue of one connection and everybody who takes datagrams out of it.

  AsyncPeekableQueue                 : `queue` (FIFO list), `marked`
  capable consumers                  : the four verb consumers (`GeckoUdpProtocolHandler.consume`) and every request
                                       waiter (`wait_for_response`): between two awaits they do exactly
                                       "if head exists and can_handle(head): pop".  Their timing is left completely
                                       to the adversary (action `popBy`), which covers all wake-up orders, jitter,
                                       handler suspensions and any number of waiters.
  GeckoUnhandledProtocolHandler.consume : `if head: mark; sleep; if is_marked: pop` ; `sleep` — an explicit process with
                                       its own program counter and wake-up time (`UPc`).
  time                               : milliseconds; the polling interval is `Generated`-independent here (100 ms =
                                       ASYNCIO_SLEEP_TIMEOUT_FOR_YIELD, checked by the correspondence).

A ghost log records every put and every pop, and the time at which the current head became head.
-/
namespace GeckoModel.Dispatch

/-- a datagram: a unique arrival number and an abstract verb class -/
structure Dgram where
  id : Nat
  verb : Nat
deriving Repr, DecidableEq

inductive Popper
  | consumer (k : Nat)     -- a capable consumer / waiter with identity k
  | unhandled
deriving Repr, DecidableEq

/-- program counter of the unhandled consumer -/
inductive UPc
  | first (wake : Nat)     -- in the sleep after `mark()`; on waking: `if is_marked: pop`
  | second (wake : Nat)    -- in the trailing sleep; on waking: `if head is not None: mark()`
deriving Repr, DecidableEq

def UPc.wake : UPc → Nat
  | .first w => w
  | .second w => w

def poll : Nat := 100

structure Sys where
  now : Nat
  queue : List Dgram
  marked : Bool
  u : UPc
  -- ghost
  puts : List Dgram                   -- every datagram ever put, in order
  pops : List (Popper × Dgram)        -- every pop, in order
  headSince : Nat                     -- when the current head became head
  markedId : Option Nat               -- which datagram `mark()` was called on
  markedAt : Nat
deriving Repr

def init : Sys :=
  { now := 0, queue := [], marked := false, u := .second 0, puts := [], pops := [], headSince := 0, markedId := none, markedAt := 0 }

/-- `can_handle` as a relation between a consumer identity and a verb class (parameter of the model) -/
abbrev Accepts := Nat → Nat → Bool

inductive Act
  | put (d : Dgram)                 -- datagram_received / the packet consumer re-queuing inner content
  | popBy (k : Nat)                 -- a capable consumer's or waiter's poll finds the head acceptable and pops it
  | ustep                           -- the unhandled consumer wakes up
  | tick (dt : Nat)                 -- time passes
deriving Repr

def Sys.pop (s : Sys) (who : Popper) : Sys :=
  match s.queue with
  | [] => s
  | d :: rest => { s with queue := rest, marked := false, pops := s.pops ++ [(who, d)], headSince := s.now, markedId := none }

/-- is the action enabled? (`fair`: time may only pass up to the unhandled consumer's wake-up, i.e. no event-loop stall) -/
def enabled (acc : Accepts) (fair : Bool) (s : Sys) : Act → Bool
  | .put d => !(s.puts.any (·.id == d.id))
  | .popBy k => match s.queue with
    | [] => false
    | d :: _ => acc k d.verb
  | .ustep => s.u.wake ≤ s.now
  | .tick dt => if fair then s.now + dt ≤ s.u.wake else true

def step (s : Sys) : Act → Sys
  | .put d => { s with queue := s.queue ++ [d], puts := s.puts ++ [d],
                       headSince := if s.queue.isEmpty then s.now else s.headSince }
  | .popBy k => s.pop (.consumer k)
  | .ustep =>
    match s.u with
    | .first _ =>
      -- `if protocol.queue.is_marked: pop` then the trailing sleep
      let s' := if s.marked then s.pop .unhandled else s
      { s' with u := .second (s.now + poll) }
    | .second _ =>
      match s.queue with
      | [] => { s with u := .second (s.now + poll) }     -- nothing at the head: just the trailing sleep again
      | d :: _ => { s with marked := true, markedId := some d.id, markedAt := s.now, u := .first (s.now + poll) }
  | .tick dt => { s with now := s.now + dt }

/-- reachable states under a given acceptance relation and fairness mode -/
inductive Reach (acc : Accepts) (fair : Bool) : Sys → Prop
  | init : Reach acc fair init
  | step (s : Sys) (a : Act) : Reach acc fair s → enabled acc fair s a = true → Reach acc fair (step s a)

/-- executable run of a list of actions; `none` when some action is not enabled (used by the trace validator) -/
def run (acc : Accepts) (fair : Bool) : Sys → List Act → Option Sys
  | s, [] => some s
  | s, a :: as => if enabled acc fair s a then run acc fair (step s a) as else none

/-! the addressing check of `GeckoAsyncSpa._async_on_packet` -/

structure Parms where
  ip : Nat
  port : Nat
  src : Nat      -- SRCCN of the received packet
  dst : Nat      -- DESCN of the received packet
deriving Repr, DecidableEq

/-- `sendparms` = (destination ip, destination port, spa identifier, client id) -/
structure SendParms where
  ip : Nat
  port : Nat
  spaId : Nat
  clientId : Nat
deriving Repr, DecidableEq

/-- `handler.parms == self.sendparms`: tuple equality, position by position -/
def addressed (p : Parms) (sp : SendParms) : Bool :=
  p.ip == sp.ip && p.port == sp.port && p.src == sp.spaId && p.dst == sp.clientId

/-- what the packet consumer's handler does with an unwrapped packet: re-queue the inner content or drop it -/
def onPacket (p : Parms) (sp : SendParms) (inner : Dgram) : Option Act :=
  if addressed p sp then some (.put inner) else none

end GeckoModel.Dispatch
