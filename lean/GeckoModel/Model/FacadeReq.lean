/-
C11, the part of the facade model the per-table obligations of `Generated/C11Combos` depend on (kept separate from
`Model/Facade.lean` so that work on the member model does not invalidate ~150 kernel-evaluated table obligations):
the presence profile and its lookup, readability of an item, the `(device, user demand)` pairing of `_scan_outputs`,
the requirement `Req`, its two per-table halves, and the shipped-combination vocabulary.  Core Lean only.
-/
import GeckoModel.Model.Accessor
import GeckoModel.Generated.FacadeConsts

namespace GeckoModel.Facade
open GeckoModel
open GeckoModel.Generated.FacadeConsts

/-- the Python exception classes that can come out of the read-only surface -/
inductive FErr
  | keyErr        -- KeyError: `accessors[k]` for a key the merged table does not define
  | attrErr       -- AttributeError: attribute never assigned / attribute of None / str method of a non-str
  | indexErr      -- IndexError
  | structErr     -- struct.error: item bytes outside the block
  | typeErr       -- TypeError
  | valueErr      -- ValueError
  | recursionErr  -- RecursionError: a temperature item used as its own unit item
deriving Repr, DecidableEq


/-! ### presence profile -/

def findKey (l : List Item) (k : String) : Option Item := l.find? (·.key == k)

/-- which keys the merged table defines.  `cfg` / `log` are the two accessor dictionaries in their own order;
`dict(cfg, **log)` is never materialised: only lookups matter to the facade -/
structure Profile where
  cfg : List Item
  log : List Item
  outputs : List String        -- struct.all_outputs   (config_class.output_keys)
  devices : List String        -- struct.all_devices   (log_class.all_device_keys)
  userDemands : List String    -- struct.user_demands  (log_class.user_demand_keys)
  errorKeys : List String      -- struct.error_keys    (log_class.error_keys)
deriving Repr

/-- `accessors.get(k)` on `dict(cfg, **log)`: the log item wins on a duplicate key -/
def Profile.lookup (P : Profile) (k : String) : Option Item :=
  match findKey P.log k with
  | some i => some i
  | none => findKey P.cfg k

/-- `accessors[k]` -/
def Profile.get (P : Profile) (k : String) : Except FErr Item :=
  match P.lookup k with
  | some i => .ok i
  | none => .error .keyErr

/-- the item can be read out of any 1024-byte block without an exception -/
def Item.Readable (it : Item) : Prop :=
  (it.len = 1 ∨ it.len = 2) ∧ it.pos + it.len ≤ blockSize ∧ (it.kind = .enum → it.hasLabels = true)

instance (it : Item) : Decidable (Item.Readable it) := by unfold Item.Readable; exact inferInstance

def lookupDev (d : String) : Option DevProps := (devices.find? (·.1 == d)).map (·.2)


/-- `f"Ud{device}".upper() == ud.upper()` -/
def udMatch (d ud : String) : Bool := ("Ud" ++ d).toUpper == ud.toUpper

/-- the `(device, ud)` pairs of the `actual_user_devices` comprehension -/
def udPairs (devs uds : List String) : List (String × String) :=
  devs.flatMap (fun d => (uds.filter (udMatch d)).map (fun ud => (d, ud)))

/-! ### the requirement on a profile -/

def numericKind (k : Kind) : Bool := k == .byte || k == .word || k == .temp || k == .bool
def strKind (k : Kind) : Bool := k == .enum || k == .time

/-- the keys the constructor dereferences unconditionally (or reads as attributes it only assigns when the key exists) -/
def reqCoreB (P : Profile) : Bool :=
  (P.lookup keyTempUnits).isSome && (P.lookup keyDisplayedTempG).isSome && (P.lookup keySetpointG).isSome &&
  (P.lookup keyRealSetpointG).isSome && (P.lookup keyEconActive).isSome

def kindIs (P : Profile) (k : String) (p : Kind → Bool) : Bool :=
  match P.lookup k with
  | some it => p it.kind
  | none => false

def reqRestB (P : Profile) : Bool :=
  (P.cfg ++ P.log).all (fun it => decide (Item.Readable it)) &&
  kindIs P keyTempUnits (fun k => k != .temp) &&
  kindIs P keyDisplayedTempG numericKind && kindIs P keySetpointG numericKind && kindIs P keyRealSetpointG numericKind &&
  P.outputs.all (fun o => kindIs P o strKind) &&
  (udPairs P.devices P.userDemands).all (fun p =>
    (P.lookup p.2).isSome && (match lookupDev p.1 with | some pr => (P.lookup pr.stateKey).isSome | none => true)) &&
  P.errorKeys.all (fun k => (P.lookup k).isSome)

/-- **the requirement**: which keys must exist (and with what kind of item) for the facade to be total -/
def Req (P : Profile) : Prop := reqCoreB P = true ∧ reqRestB P = true

instance (P : Profile) : Decidable (Req P) := by unfold Req; exact inferInstance

/-! ### shipped combinations -/

def mkProfile (c l : PackModule) : Profile :=
  ⟨c.items, l.items, c.outputKeys, l.deviceKeys, l.userDemandKeys, l.errorKeys⟩

/-- one platform x config x log combination (what a FILES reply can name) -/
structure Combo where
  platform : String
  cfg : PackModule
  log : PackModule

def Combo.id (c : Combo) : String × Nat × Nat := (c.platform, c.cfg.version, c.log.version)
def Combo.names (c : Combo) : String × String × String := (c.platform, c.cfg.file, c.log.file)
def Combo.profile (c : Combo) : Profile := mkProfile c.cfg c.log

/-- the full product, from the module headers: for every platform module, its config tables x its log tables -/
def enumCombos (ms : List PackModule) : List (String × String × String) :=
  (ms.filter (·.kind == .pack)).flatMap (fun p =>
    (ms.filter (fun c => c.kind == .cfg && c.declPlatform == p.name)).flatMap (fun c =>
      (ms.filter (fun l => l.kind == .log && l.declPlatform == p.name)).map (fun l => (p.name, c.file, l.file))))

/-- combinations on which the facade cannot be built today (finding D5a): exact list -/
def knownUnbuildable : List (String × Nat × Nat) :=
  [("InXM", 1, 2), ("InXM", 2, 2), ("InXM", 3, 2), ("InXM", 4, 2), ("InXM", 6, 2), ("InXM", 7, 2), ("InXM", 8, 2), ("InXM", 9, 2),
   ("MAS-IBC-32K", 1, 1),
   ("MrSteam", 1, 1), ("MrSteam", 1, 2), ("MrSteam", 1, 3), ("MrSteam", 2, 1), ("MrSteam", 2, 2), ("MrSteam", 2, 3),
   ("MrSteam", 3, 1), ("MrSteam", 3, 2), ("MrSteam", 3, 3)]

/-! per-table halves of `Req` (kernel-evaluated once per table, see `Generated/C11Combos`) -/

def modFind (m : PackModule) (k : String) : Option Item := findKey m.items k

/-- a config table: readable items, outputs inside the universe `U` and resolving to string-valued items, the two
config-side keys present, none of the log-side core keys -/
def cfgOKb (U : List String) (c : PackModule) : Bool :=
  c.items.all (fun it => decide (Item.Readable it)) &&
  c.outputKeys.all (fun o => U.contains o) &&
  (match modFind c keyTempUnits with | some u => u.kind != .temp | none => false) &&
  (match modFind c keySetpointG with | some s => numericKind s.kind | none => false) &&
  c.outputKeys.all (fun o => match modFind c o with | some it => strKind it.kind | none => false)

/-- a log table: readable items, shadows none of the config-side keys, has the log-side core keys, every user-demand /
state key of a detectable device and every error key -/
def logOKb (U : List String) (l : PackModule) : Bool :=
  l.items.all (fun it => decide (Item.Readable it)) &&
  ([keyTempUnits, keySetpointG] ++ U).all (fun k => (modFind l k).isNone) &&
  (match modFind l keyDisplayedTempG with | some s => numericKind s.kind | none => false) &&
  (match modFind l keyRealSetpointG with | some s => numericKind s.kind | none => false) &&
  (modFind l keyEconActive).isSome &&
  (udPairs l.deviceKeys l.userDemandKeys).all (fun p =>
    (modFind l p.2).isSome && (match lookupDev p.1 with | some pr => (modFind l pr.stateKey).isSome | none => true)) &&
  l.errorKeys.all (fun k => (modFind l k).isSome)

end GeckoModel.Facade
