/-
C04: the content round trip, form by form, and `inRange` = "the constructor does not raise".  Core Lean only.
-/
import GeckoModel.Proofs.WireRoundtrip
set_option linter.unusedSimpArgs false
set_option linter.unusedVariables false

namespace GeckoModel.Wire
open GeckoModel.Generated.WireFormats

macro "rt_unfold" : tactic => `(tactic|
  simp [decode, Msg.handler, Msg.handlers, Msg.verb, decodePing, decodeVersion, decodeChannel, decodeConfig, decodeStatus, decodePartial, decodeAsyncPartial,
         decodePartialWith, decodePack, decodeWatercare, decodeReminders, decodeFirmware, startsWith,
         PING_VERB, AVERS_VERB, SVERS_VERB, CURCH_VERB, CHCUR_VERB, SFILE_VERB, FILES_VERB, STATU_VERB, STATV_VERB, STATQ_VERB,
         STATP_VERB, SPACK_VERB, PACKS_VERB, GETWC_VERB, WCGET_VERB, SETWC_VERB, WCSET_VERB, REQWC_VERB, WCREQ_VERB,
         REQRM_VERB, RMREQ_VERB, UPDTS_VERB, SUPDT_VERB, RFERR_VERB,
         unpackFirst, unpack1, unpack2, unpack3, unpack4, unpack6, Msg.fields, slice,
         Ping_handle_0, Version_request_0, Version_response_0, Version_handle_0, Version_handle_1, GetChannel_request_0,
         GetChannel_response_0, GetChannel_handle_0, GetChannel_handle_1, ConfigFile_request_0, ConfigFile_handle_0,
         StatusBlock_request_0, StatusBlock_handle_0, PartialStatusBlock_handle_0, PartialStatusBlock_handle_1,
         AsyncPartialStatusBlock_async_handle_0, Watercare_request_0, Watercare_response_0, Watercare_handle_0,
         Watercare_handle_1, Watercare_handle_2, Watercare_handle_3, Watercare_set_0, Reminders_request_0, Reminders_handle_0, UpdateFirmware_request_0,
         UpdateFirmware_handle_0, pingResponseTail, firmwareResponseTail, giveschedulePayload] at *)

/-- forms whose content is `verb ++ struct.pack(fmt, fields)`, decoded by one `struct.unpack` of the whole remainder
(or of its first byte) -/
macro "rt_pack" h:ident : tactic => `(tactic| (
  obtain ⟨b, hb, hc⟩ := content_ok $h
  subst hc
  simp only [Msg.body] at hb
  have hu := unpack_pack hb
  have hl := pack_length hb
  clear hb
  simp [Fmt.size, Code.size, Version_request_0, GetChannel_request_0, ConfigFile_request_0, Watercare_request_0, Reminders_request_0,
    UpdateFirmware_request_0, Version_response_0, GetChannel_response_0, StatusBlock_request_0, Watercare_response_0, Watercare_set_0,
    PartialStatusBlock_handle_1] at hl
  intro k hk
  simp only [Msg.handlers, List.mem_cons, List.mem_singleton, List.not_mem_nil, or_false] at hk
  first | (rcases hk with hk1 | hk1 <;> subst hk1) | subst hk
  all_goals (rt_unfold; try simp [hu, List.take_of_length_le, hl])))

/-- constant content -/
macro "rt_const" h:ident : tactic => `(tactic| (
  obtain ⟨b, hb, hc⟩ := content_ok $h
  subst hc
  simp only [Msg.body] at hb
  cases hb
  intro k hk
  simp only [Msg.handlers, List.mem_cons, List.mem_singleton, List.not_mem_nil, or_false] at hk
  subst hk
  rt_unfold
  try simp [unpack, unpackItems]))

theorem rt_keypress (seq pt key : Int) (c : Bytes) (h : (Msg.keypress seq pt key).content = .ok c) :
    decode .pack c = .ok (Msg.keypress seq pt key).fields := by
  obtain ⟨b, hb, rfl⟩ := content_ok h
  simp only [Msg.body, PackCommand_keypress_0] at hb
  obtain ⟨b1, b2, rfl, h1, h2⟩ := pack_append (c1 := [.B, .B, .B, .B]) (c2 := [.B]) (v1 := [seq, pt, 2, PACK_COMMAND_KEY_PRESS]) (v2 := [key]) rfl hb
  have l1 := pack_length h1
  have u1 := unpack_pack h1
  have u2 := unpack_pack h2
  simp [Fmt.size, Code.size] at l1
  simp [decode, decodePack, startsWith, Msg.verb, SPACK_VERB, PACKS_VERB, slice, unpack4, unpackFirst, PackCommand_handle_0,
    PackCommand_handle_1, Msg.fields, List.take_append, List.drop_append, l1, u1, u2, PACK_COMMAND_KEY_PRESS, PACK_COMMAND_SET_VALUE]

theorem rt_setValue (seq pt cv lv pos len data : Int) (c : Bytes) (h : (Msg.setValue seq pt cv lv pos len data).content = .ok c) :
    decode .pack c = .ok (Msg.setValue seq pt cv lv pos len data).fields := by
  obtain ⟨b, hb, rfl⟩ := content_ok h
  simp only [Msg.body, PackCommand_set_value_2] at hb
  split at hb
  · cases hb
  · rename_i db hdb
    split at hb
    · cases hb
    · rename_i hd hh
      cases hb
      obtain ⟨b1, b2, rfl, h1, h2⟩ := pack_append (c1 := [.B, .B, .B, .B]) (c2 := [.B, .B, .H])
        (v1 := [seq, pt, 5 + len, PACK_COMMAND_SET_VALUE]) (v2 := [cv, lv, pos]) rfl hh
      have l1 := pack_length h1
      have l2 := pack_length h2
      have u1 := unpack_pack h1
      have u2 := unpack_pack h2
      simp [Fmt.size, Code.size] at l1 l2
      have hdata : db = setValueData len data := by
        unfold setValueData
        split at hdb
        · rename_i h1; simp [h1]; exact (pack_single hdb).1
        · rename_i h1
          split at hdb
          · simp [h1]; exact (pack_single hdb).1
          · cases hdb
      simp [decode, decodePack, startsWith, Msg.verb, SPACK_VERB, PACKS_VERB, slice, unpack4, unpack3, unpackFirst, PackCommand_handle_0,
        PackCommand_handle_2, Msg.fields, List.take_append, List.drop_append, l1, l2, u1, u2, PACK_COMMAND_KEY_PRESS, PACK_COMMAND_SET_VALUE, hdata]

theorem rt_statusSegment (i n : Int) (block : Bytes) (c : Bytes) (h : (Msg.statusSegment i n block).content = .ok c) :
    decode .status c = .ok (Msg.statusSegment i n block).fields := by
  obtain ⟨b, hb, rfl⟩ := content_ok h
  simp only [Msg.body] at hb
  split at hb
  · cases hb
  · rename_i hd hh
    cases hb
    have l1 := pack_length hh
    have u1 := unpack_pack hh
    simp [Fmt.size, Code.size, StatusBlock_response_0] at l1 u1
    simp [decode, decodeStatus, startsWith, Msg.verb, STATV_VERB, STATU_VERB, slice, unpack3, StatusBlock_handle_1,
      Msg.fields, List.take_append, List.drop_append, l1, u1]

theorem rt_partialUpdate (changes : List (Int × Bytes)) (hok : StatpOK changes = true) (c : Bytes)
    (h : (Msg.partialUpdate changes).content = .ok c) (fq fc fp : Fmt) (hfc : fc = ⟨true, [.B]⟩) (hfp : fp = ⟨true, [.H]⟩) :
    decodePartialWith fq fc fp c = .ok (Msg.partialUpdate changes).fields := by
  obtain ⟨b, hb, rfl⟩ := content_ok h
  simp only [Msg.body] at hb
  split at hb
  · cases hb
  · rename_i cs hcs
    split at hb
    · cases hb
    · rename_i nb hn
      cases hb
      have ln := pack_length hn
      have un := unpack_pack hn
      simp [Fmt.size, Code.size, PartialStatusBlock_report_changes_1] at ln un
      have hrec := statp_records fp (by subst hfp; rfl) changes nb cs 0 (by simp [ln]) (by subst hfp; exact hcs) hok
      have hs : startsWith (STATP_VERB ++ (nb ++ cs)) STATQ_VERB = false := by
        simp [startsWith, STATP_VERB, STATQ_VERB, List.isPrefixOf]
      have hd : (STATP_VERB ++ (nb ++ cs)).drop 5 = nb ++ cs := by simp [STATP_VERB]
      have h1 : slice 0 1 (nb ++ cs) = nb := by
        simp [slice, List.take_append, ln]
      simp only [decodePartialWith, Msg.verb, Option.getD, hs, hd, h1, unpackFirst, hfc, un]
      simp [hrec, Msg.fields]

theorem rt_remindersResponse (rs : List (Int × Int)) (hd : rs.all (fun td => reminderTypeValues.contains td.1) = true) (c : Bytes)
    (h : (Msg.remindersResponse rs).content = .ok c) :
    decode .reminders c = .ok (Msg.remindersResponse rs).fields := by
  obtain ⟨b, hb, rfl⟩ := content_ok h
  simp only [Msg.body] at hb
  have := reminder_records Reminders_response_0 rfl rs b hb (by simpa [List.all_eq_true] using hd)
  have e : Reminders_handle_1 = Reminders_response_0 := rfl
  simp [decode, decodeReminders, startsWith, Msg.verb, RMREQ_VERB, REQRM_VERB, Msg.fields, e, this, List.isPrefixOf]

/-- **content round trip**, every packet message form: whatever the constructor puts after `<DATAS>` is decoded, by
each handler class meant for it, to the field values the message was built from -/
theorem content_roundtrip (m : Msg) (c : Bytes) (hc : m.content = .ok c) (hh : m.isHello = false)
    (hd : m.inDomain = true) : ∀ k ∈ m.handlers, decode k c = .ok m.fields := by
  cases m with
  | helloBroadcast => cases hh
  | helloClient _ => cases hh
  | helloResponse _ _ => cases hh
  | pingRequest => rt_const hc
  | pingResponse => rt_const hc
  | versionRequest seq => rt_pack hc
  | versionResponse a b c d e f => rt_pack hc
  | channelRequest seq => rt_pack hc
  | channelResponse ch sg => rt_pack hc
  | configRequest seq => rt_pack hc
  | configResponse p cv lv =>
    intro k hk; simp [Msg.handlers] at hk; subst hk
    exact files_roundtrip p cv lv hd c hc
  | statusRequest seq st ln => rt_pack hc
  | statusSegment i n block =>
    intro k hk; simp [Msg.handlers] at hk; subst hk; exact rt_statusSegment i n block c hc
  | partialUpdate changes =>
    intro k hk; simp [Msg.handlers] at hk
    rcases hk with rfl | rfl
    · exact rt_partialUpdate changes hd c hc _ _ _ rfl rfl
    · exact rt_partialUpdate changes hd c hc _ _ _ rfl rfl
  | partialAck seq => rt_pack hc
  | keypress seq pt key =>
    intro k hk; simp [Msg.handlers] at hk; subst hk; exact rt_keypress seq pt key c hc
  | setValue seq pt cv lv pos len data =>
    intro k hk; simp [Msg.handlers] at hk; subst hk; exact rt_setValue _ _ _ _ _ _ _ c hc
  | packResponse => rt_const hc
  | wcRequest seq => rt_pack hc
  | wcSet seq mode => rt_pack hc
  | wcResponse mode => rt_pack hc
  | wcGiveSchedule => rt_const hc
  | remindersRequest seq => rt_pack hc
  | remindersResponse rs =>
    intro k hk; simp [Msg.handlers] at hk; subst hk; exact rt_remindersResponse rs hd c hc
  | firmwareRequest seq => rt_pack hc
  | firmwareResponse => rt_const hc
  | rferr => rt_const hc

/-! ### `inRange` = the constructor returns -/

def packable : List Code → List Int → Bool
  | [], [] => true
  | c :: cs, v :: vs => c.inRange v && packable cs vs
  | _, _ => false

theorem packItems_isSome (big : Bool) : ∀ (cs : List Code) (vs : List Int), (packItems big cs vs).isSome = packable cs vs := by
  intro cs
  induction cs with
  | nil => intro vs; cases vs <;> simp [packItems, packable]
  | cons c cs ih =>
    intro vs
    cases vs with
    | nil => simp [packItems, packable]
    | cons v vs =>
      have := ih vs
      simp only [packItems, packable]
      cases hr : c.inRange v
      · simp
      · cases hp : packItems big cs vs <;> simp [hp] at this ⊢ <;> exact this

theorem isOk_pack (f : Fmt) (vs : List Int) : isOk (pack f vs) = packable f.codes vs := by
  rw [← packItems_isSome f.big]
  unfold pack
  cases packItems f.big f.codes vs <;> simp [isOk]

theorem isOk_then {α β : Type} (x : Except Err α) (f : α → β) :
    isOk (match x with | .error e => (.error e : Except Err β) | .ok b => .ok (f b)) = isOk x := by
  cases x <;> rfl

theorem isOk_content (m : Msg) : isOk m.content = isOk m.body := by
  unfold Msg.content
  cases m.body with
  | error e => rfl
  | ok b => cases m.verb <;> rfl

theorem isOk_packChanges (big : Bool) : ∀ changes : List (Int × Bytes),
    isOk (packChanges ⟨big, [.H]⟩ changes) = changes.all (fun pd => u16 pd.1) := by
  intro changes
  induction changes with
  | nil => rfl
  | cons pd rest ih =>
    obtain ⟨p, d⟩ := pd
    simp only [packChanges, List.all_cons]
    have hp := isOk_pack ⟨big, [.H]⟩ [p]
    simp [packable] at hp
    cases h1 : pack ⟨big, [.H]⟩ [p] with
    | error e => simp [h1, isOk] at hp ⊢; simp [u16, hp]
    | ok b =>
      simp [h1, isOk] at hp
      rw [← ih]
      cases packChanges ⟨big, [.H]⟩ rest <;> simp [isOk, u16, hp]

theorem isOk_packReminders (big : Bool) : ∀ rs : List (Int × Int),
    isOk (packReminders ⟨big, [.B, .h, .B]⟩ rs) = rs.all (fun td => u8 td.1 && i16 td.2) := by
  intro rs
  induction rs with
  | nil => rfl
  | cons td rest ih =>
    obtain ⟨t, d⟩ := td
    simp only [packReminders, List.all_cons]
    have hp := isOk_pack ⟨big, [.B, .h, .B]⟩ [t, d, 1]
    simp [packable] at hp
    have h1' : Code.inRange .B 1 = true := by decide
    cases h1 : pack ⟨big, [.B, .h, .B]⟩ [t, d, 1] with
    | error e =>
      simp [h1, isOk, h1'] at hp ⊢
      simp [u8, i16]
      intro ht hd; exact absurd hd (by simpa using hp ht)
    | ok b =>
      simp [h1, isOk, h1'] at hp
      rw [← ih]
      cases packReminders ⟨big, [.B, .h, .B]⟩ rest <;> simp [isOk, u8, i16, hp]

/-- **`inRange` is exactly "the constructor returns"**: out-of-range field values are rejected (struct.error /
OverflowError), in-range ones are encoded -/
theorem isOk_content_eq_inRange (m : Msg) : isOk m.content = m.inRange := by
  rw [isOk_content]
  cases m
  case statusSegment i n block =>
    simp only [Msg.body, Msg.inRange]
    have h : isOk (pack StatusBlock_response_0 [i, n, Int.ofNat block.length]) = (u8 i && u8 n && decide (block.length < 256)) := by
      have : ((block.length : Int) < 256) ↔ block.length < 256 := by omega
      rw [isOk_pack]; simp [packable, StatusBlock_response_0, u8, Code.inRange, Bool.and_assoc, this]
    rw [← h]
    generalize pack StatusBlock_response_0 [i, n, Int.ofNat block.length] = x
    cases x <;> rfl
  case partialUpdate changes =>
    simp only [Msg.body, Msg.inRange]
    have h1 : isOk (packChanges PartialStatusBlock_report_changes_0 changes) = changes.all (fun pd => u16 pd.1) :=
      isOk_packChanges true changes
    have h2 : isOk (pack PartialStatusBlock_report_changes_1 [Int.ofNat changes.length]) = decide (changes.length < 256) := by
      have : ((changes.length : Int) < 256) ↔ changes.length < 256 := by omega
      rw [isOk_pack]; simp [packable, PartialStatusBlock_report_changes_1, Code.inRange, this]
    rw [← h1, ← h2]
    generalize packChanges PartialStatusBlock_report_changes_0 changes = x
    generalize pack PartialStatusBlock_report_changes_1 [Int.ofNat changes.length] = y
    cases x <;> cases y <;> rfl
  case setValue seq pt cv lv pos len data =>
    simp only [Msg.body, Msg.inRange]
    have hb : isOk (pack PackCommand_set_value_0 [data]) = u8 data := by
      rw [isOk_pack]; simp [packable, PackCommand_set_value_0, u8]
    have hh : isOk (pack PackCommand_set_value_1 [data]) = u16 data := by
      rw [isOk_pack]; simp [packable, PackCommand_set_value_1, u16]
    by_cases l1 : len = 1
    · subst l1
      have h2 : isOk (pack PackCommand_set_value_2 [seq, pt, 5 + 1, PACK_COMMAND_SET_VALUE, cv, lv, pos]) =
          (u8 seq && u8 pt && u8 cv && u8 lv && u16 pos) := by
        rw [isOk_pack]; simp [packable, PackCommand_set_value_2, PACK_COMMAND_SET_VALUE, u8, u16, Code.inRange, Bool.and_assoc]
      have e : ((((1 : Int) == 1) && u8 data) || (((1 : Int) == 2) && u16 data)) = u8 data := by
        cases u8 data <;> cases u16 data <;> decide
      rw [e, ← hb, ← h2]
      generalize pack PackCommand_set_value_2 [seq, pt, 5 + 1, PACK_COMMAND_SET_VALUE, cv, lv, pos] = x
      generalize pack PackCommand_set_value_0 [data] = y
      cases x <;> cases y <;> rfl
    · by_cases l2 : len = 2
      · subst l2
        have h2 : isOk (pack PackCommand_set_value_2 [seq, pt, 5 + 2, PACK_COMMAND_SET_VALUE, cv, lv, pos]) =
            (u8 seq && u8 pt && u8 cv && u8 lv && u16 pos) := by
          rw [isOk_pack]; simp [packable, PackCommand_set_value_2, PACK_COMMAND_SET_VALUE, u8, u16, Code.inRange, Bool.and_assoc]
        have e : ((((2 : Int) == 1) && u8 data) || (((2 : Int) == 2) && u16 data)) = u16 data := by
          cases u8 data <;> cases u16 data <;> decide
        rw [e, ← hh, ← h2]
        generalize pack PackCommand_set_value_2 [seq, pt, 5 + 2, PACK_COMMAND_SET_VALUE, cv, lv, pos] = x
        generalize pack PackCommand_set_value_1 [data] = y
        simp only [show ((2 : Int) = 1) = False from by decide, if_false, if_true]
        cases x <;> cases y <;> rfl
      · simp [l1, l2, isOk]
  case remindersResponse rs =>
    simp only [Msg.body, Msg.inRange]
    exact isOk_packReminders false rs
  all_goals first
    | rfl
    | (simp only [Msg.body, Msg.inRange, isOk_pack]
       simp [packable, u8, u16, i16, Version_request_0, Version_response_0, GetChannel_request_0, GetChannel_response_0,
         ConfigFile_request_0, StatusBlock_request_0, PartialStatusBlock_handle_1, PackCommand_keypress_0, Watercare_request_0,
         Watercare_set_0, Watercare_response_0, Reminders_request_0, UpdateFirmware_request_0, PACK_COMMAND_KEY_PRESS, Bool.and_assoc,
         Code.inRange])

end GeckoModel.Wire
