/-
Helper lemmas for C12: the order-preserving de-dup (`dict.fromkeys`) and the list algebra of the output scan.  Core Lean only.
-/
import GeckoModel.Model.Inventory
set_option linter.unusedSimpArgs false
namespace GeckoModel.InventoryLemmas
open GeckoModel GeckoModel.Generated GeckoModel.Inventory

theorem mem_dedupAux (seen l : List String) (a : String) : a ∈ dedupAux seen l ↔ a ∈ l ∧ a ∉ seen := by
  induction l generalizing seen with
  | nil => simp [dedupAux]
  | cons x xs ih =>
    unfold dedupAux
    split
    · rw [ih]; grind
    · simp only [List.mem_cons, ih]; grind

theorem mem_dedup (l : List String) (a : String) : a ∈ dedup l ↔ a ∈ l := by
  simp [dedup, mem_dedupAux]

theorem nodup_dedupAux (seen l : List String) : (dedupAux seen l).Nodup := by
  induction l generalizing seen with
  | nil => simp [dedupAux]
  | cons x xs ih =>
    unfold dedupAux
    split
    · exact ih _
    · rw [List.nodup_cons]; exact ⟨by rw [mem_dedupAux]; simp, ih _⟩

theorem nodup_dedup (l : List String) : (dedup l).Nodup := nodup_dedupAux [] l

theorem dedupAux_congr (s1 s2 l : List String) (h : ∀ a, a ∈ s1 ↔ a ∈ s2) : dedupAux s1 l = dedupAux s2 l := by
  induction l generalizing s1 s2 with
  | nil => simp [dedupAux]
  | cons x xs ih =>
    unfold dedupAux
    by_cases hx : x ∈ s1
    · have hx2 := (h x).1 hx
      simp only [hx, hx2, if_true]; exact ih _ _ h
    · have hx2 : x ∉ s2 := fun c => hx ((h x).2 c)
      simp only [hx, hx2, if_false]
      rw [ih (x :: s1) (x :: s2) (by intro a; simp [h a])]

theorem dedupAux_cons_seen (d : String) (seen l : List String) :
    dedupAux (d :: seen) l = (dedupAux seen l).filter (fun a => a != d) := by
  induction l generalizing seen with
  | nil => simp [dedupAux]
  | cons x xs ih =>
    by_cases hxs : x ∈ seen
    · simp only [dedupAux, List.mem_cons, hxs, or_true, if_true]; exact ih _
    · by_cases hxd : x = d
      · subst hxd
        simp only [dedupAux, List.mem_cons, true_or, if_true, hxs, if_false]
        rw [List.filter_cons]
        simp only [bne_self_eq_false, Bool.false_eq_true, if_false]
        rw [List.filter_eq_self.2]
        intro a ha
        rw [mem_dedupAux] at ha
        simp at ha ⊢
        exact ha.2.1
      · simp only [dedupAux, List.mem_cons, hxd, hxs, or_self, if_false]
        rw [List.filter_cons]
        simp only [bne_iff_ne, ne_eq, hxd, not_false_eq_true, if_true]
        congr 1
        rw [← ih (x :: seen)]
        exact dedupAux_congr _ _ _ (by intro a; simp; grind)

theorem dedupAux_replicate_append (seen rest : List String) (d : String) (k : Nat) :
    dedupAux seen (List.replicate k d ++ rest) =
      if k = 0 then dedupAux seen rest else if d ∈ seen then dedupAux seen rest else d :: dedupAux (d :: seen) rest := by
  induction k generalizing seen with
  | zero => simp
  | succ k ih =>
    simp only [List.replicate_succ, List.cons_append, dedupAux, Nat.add_one_ne_zero, if_false]
    split
    · rename_i h; rw [ih]; simp [h]
    · rename_i h; rw [ih]; simp

theorem dedupAux_flatMap_replicate (n : String → Nat) (seen l : List String) :
    dedupAux seen (l.flatMap (fun d => List.replicate (n d) d)) = (dedupAux seen l).filter (fun d => n d != 0) := by
  induction l generalizing seen with
  | nil => simp [dedupAux]
  | cons d ds ih =>
    rw [List.flatMap_cons, dedupAux_replicate_append]
    by_cases hs : d ∈ seen
    · simp only [hs, if_true, ite_self, dedupAux]; exact ih _
    · simp only [hs, if_false, dedupAux]
      by_cases hk : n d = 0
      · simp only [hk, if_true]
        rw [ih, List.filter_cons]
        simp only [hk, bne_self_eq_false, Bool.false_eq_true, if_false]
        rw [dedupAux_cons_seen, List.filter_filter]
        apply List.filter_congr
        intro a _
        by_cases had : a = d
        · subst had; simp [hk]
        · simp [had]
      · simp only [hk, if_false]
        rw [ih, List.filter_cons]
        simp [hk]

theorem dedupAux_sublist (seen l : List String) : (dedupAux seen l).Sublist l := by
  induction l generalizing seen with
  | nil => simp [dedupAux]
  | cons x xs ih =>
    unfold dedupAux
    split
    · exact (ih _).cons _
    · exact (ih _).cons_cons _


theorem dedup_sublist (l : List String) : (dedup l).Sublist l := dedupAux_sublist [] l

/-- `[d for _ in l if p]` is `d` repeated -/
theorem map_const_filter {α : Type} (l : List α) (p : α → Bool) (d : String) :
    (l.filter p).map (fun _ => d) = List.replicate (l.filter p).length d := by
  induction l with
  | nil => simp
  | cons x xs ih => rw [List.filter_cons]; split <;> simp [ih, List.replicate_succ]

theorem filter_length_ne_zero {α : Type} (l : List α) (p : α → Bool) : ((l.filter p).length != 0) = l.any p := by
  induction l with
  | nil => simp
  | cons x xs ih =>
    rw [List.filter_cons, List.any_cons]
    by_cases h : p x = true
    · simp [h]
    · simp only [h]; simpa using ih

/-- the async facade's `actual_devices`: the devices of the table, each once, in table order, that are wired -/
theorem actualDevices_eq (w : Wiring) : w.actualDevices = (dedup w.allDevices).filter w.wired := by
  unfold Wiring.actualDevices Wiring.candidates dedup
  have h1 : (fun d => (w.actualConnections.filter (fun c => startsWith c.2 d)).map (fun _ => d)) =
      (fun d => List.replicate ((w.actualConnections.filter (fun c => startsWith c.2 d)).length) d) := by
    funext d; exact map_const_filter _ _ _
  rw [h1, dedupAux_flatMap_replicate (fun d => (w.actualConnections.filter (fun c => startsWith c.2 d)).length)]
  apply List.filter_congr
  intro d _
  rw [filter_length_ne_zero]
  unfold Wiring.wired Wiring.actualConnections Wiring.connections
  rw [Bool.eq_iff_iff]
  simp only [List.any_eq_true, List.mem_filter, List.mem_map, Bool.and_eq_true]
  constructor
  · rintro ⟨c, ⟨⟨o, ho, rfl⟩, hna⟩, hs⟩
    exact ⟨o, (mem_dedup _ _).1 ho, hna, hs⟩
  · rintro ⟨o, ho, hna, hs⟩
    exact ⟨(o, w.val o), ⟨⟨o, (mem_dedup _ _).2 ho, rfl⟩, hna⟩, hs⟩

/-- in a duplicate-free list at most one element satisfies a predicate that identifies its witnesses -/
theorem filter_eq_find?_toList {α : Type} (l : List α) (p : α → Bool) (hn : l.Nodup)
    (hu : ∀ a ∈ l, ∀ b ∈ l, p a = true → p b = true → a = b) : l.filter p = (l.find? p).toList := by
  induction l with
  | nil => simp
  | cons x xs ih =>
    rw [List.nodup_cons] at hn
    rw [List.filter_cons, List.find?_cons]
    by_cases hx : p x = true
    · simp only [hx, if_true, Option.toList_some]
      congr 1
      rw [List.filter_eq_nil_iff]
      intro b hb hpb
      have := hu x (List.mem_cons_self) b (List.mem_cons_of_mem _ hb) hx hpb
      subst this
      exact hn.1 hb
    · simp only [hx, Bool.false_eq_true, if_false]
      exact ih hn.2 (fun a ha b hb => hu a (List.mem_cons_of_mem _ ha) b (List.mem_cons_of_mem _ hb))

theorem matches_unique (uds : List String) (h : NoCaseDupDemands uds) (d : String) :
    ∀ a ∈ uds, ∀ b ∈ uds, matchesDemand d a = true → matchesDemand d b = true → a = b := by
  intro a ha b hb h1 h2
  unfold matchesDemand at h1 h2
  have e1 : upper ("Ud" ++ d) = upper a := by simpa using h1
  have e2 : upper ("Ud" ++ d) = upper b := by simpa using h2
  exact h.2 a ha b hb (e1.symm.trans e2)

/-- `handled` for the table order is the declarative inventory -/
theorem handled_eq_spec (w : Wiring) (hn : NoCaseDupDemands w.userDemands) :
    handledOf w.actualDevices w = specInventory w := by
  unfold handledOf userDevicesOf specInventory
  rw [actualDevices_eq]
  have hf : ∀ d, w.userDemands.filter (matchesDemand d) = (w.userDemands.find? (matchesDemand d)).toList :=
    fun d => filter_eq_find?_toList _ _ hn.1 (matches_unique _ hn d)
  simp only [hf]
  induction dedup w.allDevices with
  | nil => simp
  | cons d ds ih =>
    rw [List.filter_cons, List.filterMap_cons]
    by_cases hw : w.wired d = true
    · simp only [hw, if_true, List.flatMap_cons, List.filter_append, Bool.true_and]
      rw [ih]
      cases hfind : w.userDemands.find? (matchesDemand d) with
      | none => simp
      | some ud =>
        by_cases ht : inTable d = true
        · simp [ht]
        · simp [ht]
    · simp only [hw, Bool.false_eq_true, if_false, Bool.false_and]
      exact ih

theorem spec_devices (w : Wiring) : (specInventory w).map (·.device) = specDevices w := by
  unfold specInventory specDevices Wiring.hasDemand
  induction dedup w.allDevices with
  | nil => simp
  | cons d ds ih =>
    rw [List.filterMap_cons, List.filter_cons]
    by_cases hc : (w.wired d && inTable d) = true
    · have ⟨h1, h2⟩ : w.wired d = true ∧ inTable d = true := by simpa using hc
      simp only [hc, if_true, h1, h2, Bool.true_and, Bool.and_true]
      cases hfind : w.userDemands.find? (matchesDemand d) with
      | none =>
        have : w.userDemands.any (matchesDemand d) = false := by
          rw [List.find?_eq_none] at hfind
          simpa using hfind
        simp only [this, hfind, Option.map_none, Option.map_some, Bool.false_eq_true, if_false, if_true, List.map_cons]
        first | exact ih | (rw [ih]) | (simpa using ih)
      | some ud =>
        have : w.userDemands.any (matchesDemand d) = true := by
          rw [List.any_eq_true]
          exact ⟨ud, List.mem_of_find?_eq_some hfind, List.find?_some hfind⟩
        simp only [this, hfind, Option.map_none, Option.map_some, Bool.false_eq_true, if_false, if_true, List.map_cons]
        first | exact ih | (rw [ih]) | (simpa using ih)
    · have : (w.wired d && w.userDemands.any (matchesDemand d) && inTable d) = false := by
        cases h1 : w.wired d <;> cases h2 : inTable d <;> simp_all
      simp only [hc, Bool.false_eq_true, if_false, this]
      exact ih


/-- class of a device id in DEVICES -/
def clsOf (d : String) : Option String := (lookupRow d).map (·.cls)

theorem devsOfClass_keys (cls : String) (b : Bool) (handled : List UserDevice) (w : Wiring) :
    (devsOfClass cls b handled w).map (·.key) = (handled.map (·.device)).filter (fun d => clsOf d == some cls) := by
  unfold devsOfClass clsOf
  induction handled with
  | nil => simp
  | cons u us ih =>
    rw [List.filterMap_cons, List.map_cons, List.filter_cons]
    cases hl : lookupRow u.device with
    | none => simp; simpa using ih
    | some r =>
      by_cases hc : (r.cls == cls) = true
      · have : r.cls = cls := by simpa using hc
        simp [this]; simpa using ih
      · have : ¬ r.cls = cls := by simpa using hc
        simp [this]; simpa using ih

theorem nodup_filter_append {l : List String} (hn : l.Nodup) (p q : String → Bool) (hpq : ∀ a, ¬ (p a = true ∧ q a = true)) :
    (l.filter p ++ l.filter q).Nodup := by
  rw [List.nodup_append]
  refine ⟨List.filter_sublist.nodup hn, List.filter_sublist.nodup hn, ?_⟩
  intro a ha b hb hab
  subst hab
  rw [List.mem_filter] at ha hb
  exact hpq a ⟨ha.2, hb.2⟩

theorem nodup_of_map_nodup {α β : Type} (f : α → β) (l : List α) (h : (l.map f).Nodup) :
    ∀ a ∈ l, ∀ b ∈ l, f a = f b → a = b := by
  induction l with
  | nil => simp
  | cons x xs ih =>
    rw [List.map_cons, List.nodup_cons] at h
    intro a ha b hb hab
    rw [List.mem_cons] at ha hb
    rcases ha with rfl | ha <;> rcases hb with rfl | hb
    · rfl
    · exact absurd (List.mem_map.2 ⟨b, hb, hab.symm⟩) h.1
    · exact absurd (List.mem_map.2 ⟨a, ha, hab⟩) h.1
    · exact ih h.2 a ha b hb hab

/-- linear search finds an element of a duplicate-free prefix of objects -/
theorem getDeviceIn_prefix (P : List Entry) (T : List (Option Entry)) (hn : (P.map (·.key)).Nodup) (e : Entry) (he : e ∈ P) :
    getDeviceIn (P.map some ++ T) e.key = .ok (some e) := by
  induction P with
  | nil => simp at he
  | cons x xs ih =>
    rw [List.map_cons, List.nodup_cons] at hn
    rw [List.map_cons, List.cons_append, getDeviceIn]
    rw [List.mem_cons] at he
    rcases he with rfl | he
    · simp
    · have : x.key ≠ e.key := fun c => hn.1 (List.mem_map.2 ⟨e, he, c.symm⟩)
      simp only [beq_iff_eq, this, if_false]
      exact ih hn.2 he

theorem getDeviceIn_absent (P : List Entry) (key : String) (hk : key ∉ P.map (·.key)) :
    getDeviceIn (P.map some) key = .ok none ∧ getDeviceIn (P.map some ++ [none]) key = .error .attributeError := by
  induction P with
  | nil => simp [getDeviceIn]
  | cons x xs ih =>
    rw [List.map_cons, List.mem_cons] at hk
    have h1 : x.key ≠ key := fun c => hk (Or.inl c.symm)
    have := ih (fun c => hk (Or.inr c))
    simp only [List.map_cons, List.cons_append, getDeviceIn, beq_iff_eq, h1, if_false]
    exact this

theorem keysOf_some (P : List Entry) : keysOf (P.map some) = .ok (P.map (·.key)) ∧ keysOf (P.map some ++ [none]) = .error .attributeError := by
  induction P with
  | nil => simp [keysOf]
  | cons x xs ih => simp [keysOf, ih.1, ih.2]




/-- the objects other than the eco switch, async order -/
def asyncObjects (inv : Inv) : List Entry :=
  inv.pumps.map (devEntry "pumps") ++ inv.blowers.map (devEntry "blowers") ++ inv.lights.map (devEntry "lights") ++
  inv.sensors.map (sensorEntry "sensors") ++ inv.binarySensors.map (sensorEntry "binary_sensors") ++
  [⟨"HEAT", "Heater", "water_heater"⟩, ⟨"WATERCARE", "WaterCare", "water_care"⟩, ⟨"REMINDERS", "Reminders", "reminders_manager"⟩,
   ⟨"KEYPAD", "Keypad", "keypad"⟩]

theorem allAutomation_async (inv : Inv) :
    allAutomation asyncAutomationOrder inv = (asyncObjects inv).map some ++ [inv.eco.map (devEntry "eco_mode")] := by
  simp [allAutomation, asyncAutomationOrder, slotEntries, asyncObjects, fixedKeys, List.map_append, Function.comp_def]

/-- the objects other than the eco switch, threaded order (no reminders object in that list) -/
def syncObjects (inv : Inv) : List Entry :=
  inv.pumps.map (devEntry "pumps") ++ inv.blowers.map (devEntry "blowers") ++ inv.lights.map (devEntry "lights") ++
  inv.sensors.map (sensorEntry "sensors") ++ inv.binarySensors.map (sensorEntry "binary_sensors") ++
  [⟨"HEAT", "Heater", "water_heater"⟩, ⟨"WATERCARE", "WaterCare", "water_care"⟩, ⟨"KEYPAD", "Keypad", "keypad"⟩]

theorem allAutomation_sync (inv : Inv) :
    allAutomation syncAutomationOrder inv = (syncObjects inv).map some ++ [inv.eco.map (devEntry "eco_mode")] := by
  simp [allAutomation, syncAutomationOrder, slotEntries, syncObjects, fixedKeys, List.map_append, Function.comp_def]

theorem append_left_cancel (a b c : String) (h : a ++ b = a ++ c) : b = c := by
  have := congrArg String.toList h
  rw [String.toList_append, String.toList_append] at this
  exact String.toList_inj.1 (List.append_cancel_left this)

theorem uniqueId_inj (parent k1 k2 : String) (h : uniqueId parent k1 = uniqueId parent k2) : k1 = k2 := by
  unfold uniqueId at h
  rw [String.append_assoc, String.append_assoc] at h
  exact append_left_cancel _ _ _ (append_left_cancel _ _ _ h)

theorem nodup_map_of_inj {α β : Type} (f : α → β) (hf : ∀ a b, f a = f b → a = b) (l : List α) (h : l.Nodup) : (l.map f).Nodup := by
  induction l with
  | nil => simp
  | cons x xs ih =>
    rw [List.nodup_cons] at h
    rw [List.map_cons, List.nodup_cons]
    refine ⟨?_, ih h.2⟩
    intro hm
    obtain ⟨y, hy, e⟩ := List.mem_map.1 hm
    have := hf _ _ e
    subst this
    exact h.1 hy

/-- two duplicate-free lists drawn from disjoint universes -/
theorem nodup_append_sub {A R UA UR : List String} (hA : A.Nodup) (hAU : ∀ a ∈ A, a ∈ UA) (hR : R.Nodup) (hRU : ∀ r ∈ R, r ∈ UR)
    (hU : (UA ++ UR).Nodup) : (A ++ R).Nodup ∧ ∀ x ∈ A ++ R, x ∈ UA ++ UR := by
  rw [List.nodup_append] at hU
  refine ⟨List.nodup_append.2 ⟨hA, hR, fun a ha b hb => hU.2.2 a (hAU a ha) b (hRU b hb)⟩, ?_⟩
  intro x hx
  rw [List.mem_append] at hx ⊢
  exact hx.imp (hAU x) (hRU x)

theorem lookupRow_some {d : String} {r : DeviceRow} (h : lookupRow d = some r) : r ∈ devicesTable ∧ r.id = d := by
  unfold lookupRow at h
  exact ⟨List.mem_of_find?_eq_some h, by simpa using List.find?_some h⟩

def deviceIds : List String := devicesTable.map (·.id)
def sensorKeys : List String := sensorsTable.map (fun s => upper s.name)
def binarySensorKeys : List String := binarySensorsTable.map (fun s => upper s.name)

theorem sensorsOf_keys_sublist (tbl : List SensorRow) (w : Wiring) :
    ((sensorsOf tbl w).map (·.key)).Sublist (tbl.map (fun s => upper s.name)) := by
  unfold sensorsOf
  rw [List.map_map]
  exact (List.filter_sublist).map _

end GeckoModel.InventoryLemmas
