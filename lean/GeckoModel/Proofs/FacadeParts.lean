/-
C11: `Req` of a shipped combination from the two per-table obligations (`cfgOKb`, `logOKb`, each evaluated by the kernel
once per table in `Generated/C11Combos`), and the tie between `Profile.lookup` and the merged dictionary
`dict(cfg.accessors, **log.accessors)` of `Model/Struct.lean`.
-/
import GeckoModel.Model.FacadeReq
import GeckoModel.Model.Struct

namespace GeckoModel.Facade
open GeckoModel
open GeckoModel.Generated.FacadeConsts

theorem lookup_log (c l : PackModule) (k : String) (it : Item) (h : modFind l k = some it) :
    (mkProfile c l).lookup k = some it := by
  simp only [Profile.lookup, mkProfile]
  unfold modFind at h
  rw [h]

theorem lookup_cfg (c l : PackModule) (k : String) (h : modFind l k = none) :
    (mkProfile c l).lookup k = modFind c k := by
  simp only [Profile.lookup, mkProfile]
  unfold modFind at h
  rw [h]
  rfl

theorem isSome_of_log (c l : PackModule) (k : String) (h : (modFind l k).isSome = true) :
    ((mkProfile c l).lookup k).isSome = true := by
  cases hk : modFind l k with
  | none => rw [hk] at h; cases h
  | some it => rw [lookup_log c l k it hk]; rfl

theorem kindIs_of_log (c l : PackModule) (k : String) (p : Kind → Bool)
    (h : (match modFind l k with | some s => p s.kind | none => false) = true) : kindIs (mkProfile c l) k p = true := by
  cases hk : modFind l k with
  | none => rw [hk] at h; cases h
  | some it =>
    rw [hk] at h
    simp only [kindIs, lookup_log c l k it hk]
    exact h

theorem kindIs_of_cfg (c l : PackModule) (k : String) (p : Kind → Bool) (hn : modFind l k = none)
    (h : (match modFind c k with | some s => p s.kind | none => false) = true) : kindIs (mkProfile c l) k p = true := by
  simp only [kindIs, lookup_cfg c l k hn]
  exact h

/-- **composition**: a combination of a config table and a log table that each meet their half meets `Req` -/
theorem req_of_parts (U : List String) (c l : PackModule) (hc : cfgOKb U c = true) (hl : logOKb U l = true) :
    Req (mkProfile c l) := by
  simp only [cfgOKb, Bool.and_eq_true, List.all_eq_true, decide_eq_true_eq] at hc
  simp only [logOKb, Bool.and_eq_true, List.all_eq_true, decide_eq_true_eq] at hl
  obtain ⟨⟨⟨⟨cRead, cU⟩, cUnits⟩, cSet⟩, cOuts⟩ := hc
  obtain ⟨⟨⟨⟨⟨⟨lRead, lNone⟩, lCur⟩, lReal⟩, lEco⟩, lPairs⟩, lErrs⟩ := hl
  have none_of : ∀ k, k ∈ [keyTempUnits, keySetpointG] ++ U → modFind l k = none := by
    intro k hk
    have := lNone k hk
    cases h : modFind l k with
    | none => rfl
    | some it => rw [h] at this; cases this
  have nUnits := none_of keyTempUnits (by simp)
  have nSet := none_of keySetpointG (by simp)
  have kUnits := kindIs_of_cfg c l keyTempUnits (fun k => k != .temp) nUnits cUnits
  have kSet := kindIs_of_cfg c l keySetpointG numericKind nSet cSet
  have kCur := kindIs_of_log c l keyDisplayedTempG numericKind lCur
  have kReal := kindIs_of_log c l keyRealSetpointG numericKind lReal
  have some_of_kind : ∀ k p, kindIs (mkProfile c l) k p = true → ((mkProfile c l).lookup k).isSome = true := by
    intro k p h
    unfold kindIs at h
    split at h
    · rename_i it hit; rw [hit]; rfl
    · cases h
  constructor
  · simp only [reqCoreB, Bool.and_eq_true]
    exact ⟨⟨⟨⟨some_of_kind _ _ kUnits, some_of_kind _ _ kCur⟩, some_of_kind _ _ kSet⟩, some_of_kind _ _ kReal⟩,
           isSome_of_log c l _ lEco⟩
  · simp only [reqRestB, Bool.and_eq_true, List.all_eq_true, decide_eq_true_eq]
    refine ⟨⟨⟨⟨⟨⟨⟨?_, kUnits⟩, kCur⟩, kSet⟩, kReal⟩, ?_⟩, ?_⟩, ?_⟩
    · intro it hit
      simp only [mkProfile, List.mem_append] at hit
      rcases hit with h | h
      · exact cRead it h
      · exact lRead it h
    · intro o ho
      have hoU : o ∈ U := by
        have := cU o ho
        simpa using this
      exact kindIs_of_cfg c l o strKind (none_of o (by simp [hoU])) (cOuts o ho)
    · intro p hp
      have := lPairs p hp
      refine ⟨isSome_of_log c l _ this.1, ?_⟩
      cases hd : lookupDev p.1 with
      | none => rfl
      | some pr =>
        have h2 := this.2
        rw [hd] at h2
        exact isSome_of_log c l _ h2
    · intro k hk
      exact isSome_of_log c l _ (lErrs k hk)

/-! ### the merged dictionary -/

/-- what `mergeItems` puts in a config item's place -/
def pick (log : List Item) (c : Item) : Item :=
  match log.find? (fun x : Item => x.key == c.key) with
  | some l => l
  | none => c

theorem mergeItems_eq (cfg log : List Item) :
    mergeItems cfg log = cfg.map (pick log) ++ log.filter (fun l : Item => !(cfg.any (fun x : Item => x.key == l.key))) := rfl

theorem pick_key (log : List Item) (c : Item) : (pick log c).key = c.key := by
  unfold pick
  cases h : log.find? (fun x : Item => x.key == c.key) with
  | none => rfl
  | some l =>
    have := List.find?_some h
    simpa using this

/-- **`Profile.lookup` is the lookup in `dict(cfg.accessors, **log.accessors)`** (`mergeItems` of Model/Struct.lean): the
facade model never materialises the merged table, this is why it may -/
theorem lookup_eq_merge (P : Profile) (k : String) :
    P.lookup k = (mergeItems P.cfg P.log).find? (fun x : Item => x.key == k) := by
  rw [mergeItems_eq, List.find?_append, List.find?_map]
  have hcomp : ((fun x : Item => x.key == k) ∘ pick P.log) = (fun x : Item => x.key == k) := by
    funext c
    simp only [Function.comp]
    rw [pick_key]
  rw [hcomp]
  unfold Profile.lookup findKey
  cases hc : P.cfg.find? (fun x : Item => x.key == k) with
  | some c =>
    have hck : c.key = k := by simpa using List.find?_some hc
    simp only [Option.map_some, Option.some_or]
    unfold pick
    rw [hck]
    cases P.log.find? (fun x : Item => x.key == k) <;> rfl
  | none =>
    simp only [Option.map_none, Option.none_or]
    rw [List.find?_filter]
    have hany : ∀ a : Item, (a.key == k) = true → (!(P.cfg.any (fun x : Item => x.key == a.key))) = true := by
      intro a ha
      have hak : a.key = k := by simpa using ha
      rw [hak]
      have := List.find?_eq_none.1 hc
      simp only [Bool.not_eq_true', List.any_eq_false]
      intro x hx
      simpa using this x hx
    have hfun : (fun a : Item => decide ((!(P.cfg.any (fun x : Item => x.key == a.key))) = true ∧ (a.key == k) = true)) =
        (fun a : Item => a.key == k) := by
      funext a
      cases ha : a.key == k
      · simp
      · simp [hany a ha]
    rw [hfun]
    cases P.log.find? (fun x : Item => x.key == k) <;> rfl

end GeckoModel.Facade
