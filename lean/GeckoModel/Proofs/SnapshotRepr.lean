/- C19 helper lemmas: `bytes.__repr__` read back through the quote replacement and `ast.literal_eval`. -/
import GeckoModel.Proofs.SnapshotBlock

set_option linter.unusedSimpArgs false
set_option linter.unusedVariables false

namespace GeckoModel.Snapshot

theorem fixQuotes_append (a b : Text) : fixQuotes (a ++ b) = fixQuotes a ++ fixQuotes b := by
  induction a with
  | nil => rfl
  | cons c a ih => simp only [List.cons_append, fixQuotes]; split <;> simp [ih]

theorem escBytes_append (q : Char) (a b : List Byte) : escBytes q (a ++ b) = escBytes q a ++ escBytes q b := by
  simp [escBytes]

theorem escBytes_cons (q : Char) (b : Byte) (bs : List Byte) : escBytes q (b :: bs) = escByte q b ++ escBytes q bs := by
  simp [escBytes]

/-- `u` is one lexical unit of a bytes literal (a plain character or one escape) that stands for byte `b` -/
def unitOK (u : Text) (b : Byte) : Bool :=
  match u with
  | [c] => c != bsl && c != sq && printable c && b == UInt8.ofNat c.toNat
  | [c, e] => c == bsl && (((e == bsl || e == sq || e == dq) && b == UInt8.ofNat e.toNat) || (e == 't' && b == 0x09) ||
      (e == 'n' && b == 0x0a) || (e == 'r' && b == 0x0d))
  | [c, e, h, l] => c == bsl && e == 'x' && (match hexVal h, hexVal l with
      | some a, some d => b == UInt8.ofNat (a * 16 + d)
      | _, _ => false)
  | _ => false

theorem unit_sound (u : Text) (b : Byte) (h : unitOK u b = true) (r : Text) :
    litEval (u ++ r) = (litEval r).map (b :: ·) := by
  unfold litEval
  match u, h with
  | [c], h =>
    simp only [unitOK, Bool.and_eq_true, bne_iff_ne, ne_eq, beq_iff_eq] at h
    obtain ⟨⟨⟨h1, h2⟩, h3⟩, h4⟩ := h
    simp [litRun, h1, h2, h3, h4]
  | [c, e], h =>
    simp only [unitOK, Bool.and_eq_true, Bool.or_eq_true, beq_iff_eq] at h
    obtain ⟨hc, h⟩ := h
    subst hc
    rcases h with ((h | h) | h) | h
    · obtain ⟨he, hb⟩ := h
      have : (e == bsl || e == sq || e == dq) = true := by simpa using he
      simp [litRun, this, hb]
    · obtain ⟨he, hb⟩ := h; subst he; subst hb; simp [litRun, bsl, sq, dq]
    · obtain ⟨he, hb⟩ := h; subst he; subst hb; simp [litRun, bsl, sq, dq]
    · obtain ⟨he, hb⟩ := h; subst he; subst hb; simp [litRun, bsl, sq, dq]
  | [c, e, x, l], h =>
    simp only [unitOK, Bool.and_eq_true, beq_iff_eq] at h
    obtain ⟨⟨hc, he⟩, h⟩ := h
    subst hc; subst he
    cases hx : hexVal x with
    | none => simp [hx] at h
    | some a =>
      cases hl : hexVal l with
      | none => simp [hx, hl] at h
      | some d =>
        simp only [hx, hl, beq_iff_eq] at h
        subst h
        simp [litRun, hx, hl, bsl, sq, dq]

/-- the byte can be written inside quotes `q` without the escape the parser mis-reads -/
def okByte (q : Char) (b : Byte) : Bool := !(q == sq && b == 0x27) && !(q == dq && b == 0x22)

theorem unit_sq : ∀ n, n < 256 → okByte sq (UInt8.ofNat n) = true →
    unitOK (fixQuotes (escByte sq (UInt8.ofNat n))) (UInt8.ofNat n) = true := by decide +kernel
theorem unit_dq : ∀ n, n < 256 → okByte dq (UInt8.ofNat n) = true →
    unitOK (fixQuotes (escByte dq (UInt8.ofNat n))) (UInt8.ofNat n) = true := by decide +kernel

theorem unit_byte (q : Char) (hq : q = sq ∨ q = dq) (b : Byte) (h : okByte q b = true) :
    unitOK (fixQuotes (escByte q b)) b = true := by
  have e : b = UInt8.ofNat b.toNat := by simp
  rcases hq with rfl | rfl
  · rw [e] at h ⊢; exact unit_sq _ (UInt8.toNat_lt b) h
  · rw [e] at h ⊢; exact unit_dq _ (UInt8.toNat_lt b) h

/-- **segments**: every byte string whose rendering avoids the `\'` escape is read back exactly -/
theorem litEval_escBytes (q : Char) (hq : q = sq ∨ q = dq) (bs : List Byte) (h : bs.all (okByte q) = true) (r : Text) :
    litEval (fixQuotes (escBytes q bs) ++ r) = (litEval r).map (bs ++ ·) := by
  induction bs with
  | nil => show litEval r = _; cases litEval r <;> rfl
  | cons b bs ih =>
    simp only [List.all_cons, Bool.and_eq_true] at h
    rw [escBytes_cons, fixQuotes_append, List.append_assoc, unit_sound _ b (unit_byte q hq b h.1), ih h.2]
    cases litEval r <;> rfl

theorem quoteOf_cases (bs : List Byte) : quoteOf bs = sq ∨ quoteOf bs = dq := by
  unfold quoteOf; split
  · exact Or.inr rfl
  · exact Or.inl rfl

/-- the rendering of `pkt` needs no `\'`: it does not contain both quote characters -/
def QuoteSafe (pkt : List Byte) : Prop := ¬ (pkt.contains 0x27 = true ∧ pkt.contains 0x22 = true)

instance (pkt : List Byte) : Decidable (QuoteSafe pkt) := by unfold QuoteSafe; exact inferInstance

theorem okByte_of_quoteSafe (pkt : List Byte) (h : QuoteSafe pkt) (b : Byte) (hb : b ∈ pkt) : okByte (quoteOf pkt) b = true := by
  unfold QuoteSafe at h
  have m27 : b = 0x27 → pkt.contains 0x27 = true := by intro e; subst e; simpa using hb
  have m22 : b = 0x22 → pkt.contains 0x22 = true := by intro e; subst e; simpa using hb
  unfold okByte quoteOf
  cases h1 : pkt.contains 0x27 <;> cases h2 : pkt.contains 0x22
  · have : b ≠ 0x27 := fun e => by rw [m27 e] at h1; cases h1
    simp [sq, dq, this]
  · have : b ≠ 0x27 := fun e => by rw [m27 e] at h1; cases h1
    simp [sq, dq, this]
  · have : b ≠ 0x22 := fun e => by rw [m22 e] at h2; cases h2
    simp [sq, dq, this]
  · exact absurd ⟨h1, h2⟩ h

end GeckoModel.Snapshot
