/- C19 helper lemmas: `bytes.__repr__` read back through the quote replacement and `ast.literal_eval`. -/
import GeckoModel.Proofs.SnapshotBlock

set_option linter.unusedSimpArgs false
set_option linter.unusedVariables false

namespace GeckoModel.Snapshot

/-- is a backslash pending after the text has been read by the tokenising replacement? -/
def modeAfter : Bool → Text → Bool
  | m, [] => m
  | false, c :: s => modeAfter (c == bsl) s
  | true, _ :: s => modeAfter false s

/-- the replacement works unit by unit: after a text that ends outside an escape it starts afresh -/
theorem fixQ_append (m : Bool) (a b : Text) (h : modeAfter m a = false) : fixQ m (a ++ b) = fixQ m a ++ fixQ false b := by
  induction a generalizing m with
  | nil => simp only [modeAfter] at h; subst h; simp [fixQ]
  | cons c a ih =>
    cases m with
    | false =>
      simp only [modeAfter] at h
      simp only [List.cons_append, fixQ]
      split
      · rename_i hc; simp only [hc] at h; exact ih true h
      · rename_i hc
        have hc' : (c == bsl) = false := by simpa using hc
        rw [hc'] at h
        split <;> simp [ih false h]
    | true =>
      simp only [modeAfter] at h
      simp only [List.cons_append, fixQ]
      split <;> simp [ih false h]

theorem esc_unit_sq : ∀ n, n < 256 → modeAfter false (escByte sq (UInt8.ofNat n)) = false := by decide +kernel
theorem esc_unit_dq : ∀ n, n < 256 → modeAfter false (escByte dq (UInt8.ofNat n)) = false := by decide +kernel

theorem esc_unit (q : Char) (hq : q = sq ∨ q = dq) (b : Byte) : modeAfter false (escByte q b) = false := by
  have e : b = UInt8.ofNat b.toNat := by simp
  rcases hq with rfl | rfl
  · rw [e]; exact esc_unit_sq _ (UInt8.toNat_lt b)
  · rw [e]; exact esc_unit_dq _ (UInt8.toNat_lt b)

theorem escBytes_append (q : Char) (a b : List Byte) : escBytes q (a ++ b) = escBytes q a ++ escBytes q b := by
  simp [escBytes]

theorem escBytes_cons (q : Char) (b : Byte) (bs : List Byte) : escBytes q (b :: bs) = escByte q b ++ escBytes q bs := by
  simp [escBytes]

/-- `u` is one lexical unit of a bytes literal (a plain character or one escape) that stands for byte `b` -/
def unitOK (u : Text) (b : Byte) : Bool :=
  match u with
  | [c] => c != bsl && c != sq && printable c && b == UInt8.ofNat c.toNat
  | [c, e] => c == bsl && (((e == bsl || e == sq || e == dq) && b == UInt8.ofNat e.toNat) || (e == 't' && b == 0x09) ||
      (e == 'n' && b == 0x0a) || (e == 'r' && b == 0x0d))
  | [c, e, h, l] => c == bsl && e == 'x' && (match hexVal h, hexVal l with
      | some a, some d => b == UInt8.ofNat (a * 16 + d)
      | _, _ => false)
  | _ => false

theorem unit_sound (u : Text) (b : Byte) (h : unitOK u b = true) (r : Text) :
    litEval (u ++ r) = (litEval r).map (b :: ·) := by
  unfold litEval
  match u, h with
  | [c], h =>
    simp only [unitOK, Bool.and_eq_true, bne_iff_ne, ne_eq, beq_iff_eq] at h
    obtain ⟨⟨⟨h1, h2⟩, h3⟩, h4⟩ := h
    simp [litRun, h1, h2, h3, h4]
  | [c, e], h =>
    simp only [unitOK, Bool.and_eq_true, Bool.or_eq_true, beq_iff_eq] at h
    obtain ⟨hc, h⟩ := h
    subst hc
    rcases h with ((h | h) | h) | h
    · obtain ⟨he, hb⟩ := h
      have : (e == bsl || e == sq || e == dq) = true := by simpa using he
      simp [litRun, this, hb]
    · obtain ⟨he, hb⟩ := h; subst he; subst hb; simp [litRun, bsl, sq, dq]
    · obtain ⟨he, hb⟩ := h; subst he; subst hb; simp [litRun, bsl, sq, dq]
    · obtain ⟨he, hb⟩ := h; subst he; subst hb; simp [litRun, bsl, sq, dq]
  | [c, e, x, l], h =>
    simp only [unitOK, Bool.and_eq_true, beq_iff_eq] at h
    obtain ⟨⟨hc, he⟩, h⟩ := h
    subst hc; subst he
    cases hx : hexVal x with
    | none => simp [hx] at h
    | some a =>
      cases hl : hexVal l with
      | none => simp [hx, hl] at h
      | some d =>
        simp only [hx, hl, beq_iff_eq] at h
        subst h
        simp [litRun, hx, hl, bsl, sq, dq]

theorem unit_sq : ∀ n, n < 256 → unitOK (fixQuotes (escByte sq (UInt8.ofNat n))) (UInt8.ofNat n) = true := by decide +kernel
theorem unit_dq : ∀ n, n < 256 → unitOK (fixQuotes (escByte dq (UInt8.ofNat n))) (UInt8.ofNat n) = true := by decide +kernel

/-- every byte, in either kind of literal, is written as one lexical unit that the replacement turns into a unit standing
for the same byte (`\'` becomes `\x27` as a whole: the repair of D13) -/
theorem unit_byte (q : Char) (hq : q = sq ∨ q = dq) (b : Byte) : unitOK (fixQuotes (escByte q b)) b = true := by
  have e : b = UInt8.ofNat b.toNat := by simp
  rcases hq with rfl | rfl
  · rw [e]; exact unit_sq _ (UInt8.toNat_lt b)
  · rw [e]; exact unit_dq _ (UInt8.toNat_lt b)

/-- **segments**: every byte string is read back exactly from its rendering, in either kind of literal -/
theorem litEval_escBytes (q : Char) (hq : q = sq ∨ q = dq) (bs : List Byte) (r : Text) :
    litEval (fixQuotes (escBytes q bs) ++ r) = (litEval r).map (bs ++ ·) := by
  induction bs with
  | nil => show litEval r = _; cases litEval r <;> rfl
  | cons b bs ih =>
    rw [escBytes_cons]
    unfold fixQuotes at ih ⊢
    rw [fixQ_append false _ _ (esc_unit q hq b), List.append_assoc]
    have := unit_sound _ b (unit_byte q hq b) (fixQ false (escBytes q bs) ++ r)
    unfold fixQuotes at this
    rw [this, ih]
    cases litEval r <;> rfl

/-- the rendering of a whole text of complete units leaves no escape pending -/
theorem escBytes_mode (q : Char) (hq : q = sq ∨ q = dq) (bs : List Byte) : modeAfter false (escBytes q bs) = false := by
  induction bs with
  | nil => rfl
  | cons b bs ih =>
    rw [escBytes_cons]
    have : ∀ (a c : Text), modeAfter false a = false → modeAfter false (a ++ c) = modeAfter false c := by
      intro a c h
      have gen : ∀ (m : Bool) (a : Text), modeAfter m a = false → modeAfter m (a ++ c) = modeAfter false c := by
        intro m a
        induction a generalizing m with
        | nil => intro h; simp only [modeAfter] at h; subst h; rfl
        | cons x a ih2 =>
          intro h
          cases m with
          | false => simp only [modeAfter, List.cons_append] at h ⊢; exact ih2 _ h
          | true => simp only [modeAfter, List.cons_append] at h ⊢; exact ih2 _ h
      exact gen false a h
    rw [this _ _ (esc_unit q hq b), ih]

theorem quoteOf_cases (bs : List Byte) : quoteOf bs = sq ∨ quoteOf bs = dq := by
  unfold quoteOf; split
  · exact Or.inr rfl
  · exact Or.inl rfl

end GeckoModel.Snapshot
