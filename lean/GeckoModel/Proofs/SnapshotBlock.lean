/- C19 helper lemmas: the block dump `[hex(b) for b in block]` read back by `_re_data`. -/
import GeckoModel.Model.Snapshot

set_option linter.unusedSimpArgs false

namespace GeckoModel.Snapshot

theorem byte_forall {p : Byte → Prop} (h : ∀ n, n < 256 → p (UInt8.ofNat n)) : ∀ b, p b := by
  intro b
  have := h b.toNat (UInt8.toNat_lt b)
  simpa using this

theorem decodeTok_item : ∀ b : Byte, decodeTok (blockItem b) = some b :=
  byte_forall (by decide +kernel)

theorem decodeTok_sp_item : ∀ b : Byte, decodeTok (' ' :: blockItem b) = some b :=
  byte_forall (by decide +kernel)

theorem item_noComma : ∀ b : Byte, (blockItem b).all (· != ',') = true :=
  byte_forall (by decide +kernel)

theorem splitComma_noComma (xs : Text) (h : xs.all (· != ',') = true) : splitComma xs = [xs] := by
  induction xs with
  | nil => rfl
  | cons c xs ih =>
    simp only [List.all_cons, Bool.and_eq_true, bne_iff_ne, ne_eq] at h
    simp [splitComma, h.1, ih h.2]

theorem splitComma_append (xs ys : Text) (h : xs.all (· != ',') = true) :
    splitComma (xs ++ ',' :: ys) = xs :: splitComma ys := by
  induction xs with
  | nil => simp [splitComma]
  | cons c xs ih =>
    simp only [List.all_cons, Bool.and_eq_true, bne_iff_ne, ne_eq] at h
    simp [splitComma, h.1, ih h.2]

/-- the tokens of a rendered non-empty block: the first item, then every further item with its leading blank -/
theorem splitComma_renderItems (b : Byte) (bs : List Byte) :
    splitComma (renderItems (b :: bs)) = blockItem b :: bs.map (fun x => ' ' :: blockItem x) := by
  induction bs generalizing b with
  | nil => simp [renderItems, splitComma_noComma _ (item_noComma b)]
  | cons b' bs ih =>
    simp only [renderItems]
    rw [splitComma_append _ _ (item_noComma b)]
    have : splitComma (' ' :: renderItems (b' :: bs)) = (' ' :: blockItem b') :: bs.map (fun x => ' ' :: blockItem x) := by
      have h := ih b'
      simp only [splitComma, h]
      simp
    rw [this]; simp

theorem mapM_sp_items (bs : List Byte) : (bs.map (fun x => ' ' :: blockItem x)).mapM decodeTok = some bs := by
  induction bs with
  | nil => rfl
  | cons b bs ih => simp [List.mapM_cons, decodeTok_sp_item, ih]

/-- **hex list**: the comma-split, strip, `[1:-1]`, `int(.., 16)` pipeline returns the bytes of every non-empty list -/
theorem decodeHexList_renderItems (b : Byte) (bs : List Byte) : decodeHexList (renderItems (b :: bs)) = some (b :: bs) := by
  unfold decodeHexList
  rw [splitComma_renderItems]
  rw [List.mapM_cons, decodeTok_item, mapM_sp_items]; rfl

/-! ### the block expression `\[('0x..'(?:,\s*'0x..')*)\]\s*$` on a rendered block -/

theorem hexChar_isHex (n : Nat) : isHexDigit (hexChar n) = true := by
  have h : n % 16 < 16 := Nat.mod_lt _ (by decide)
  have : ∀ k, k < 16 → isHexDigit (if k < 10 then Char.ofNat (48 + k) else Char.ofNat (87 + k)) = true := by decide
  exact this _ h

theorem itemAt_item (b : Byte) (r : Text) : itemAt (blockItem b ++ r) = some r := by
  have q : isHexDigit '\'' = false := by decide
  unfold blockItem pyHex
  split
  · simp [itemAt, List.takeWhile, List.dropWhile, hexChar_isHex, q]
  · simp [itemAt, List.takeWhile, List.dropWhile, hexChar_isHex, q]

/-- the items after the first one, each with its `, ` -/
def restItems (bs : List Byte) : Text := bs.flatMap fun b => ',' :: ' ' :: blockItem b

theorem renderItems_cons (b : Byte) (bs : List Byte) : renderItems (b :: bs) = blockItem b ++ restItems bs := by
  induction bs generalizing b with
  | nil => simp [renderItems, restItems]
  | cons b' bs ih => simp only [renderItems, ih b']; simp [restItems]

theorem moreItems_rest (bs : List Byte) (tail : Text) (f : Nat) (hf : bs.length ≤ f) :
    moreItems f (restItems bs ++ ']' :: tail) = ']' :: tail := by
  induction bs generalizing f with
  | nil => cases f <;> simp [restItems, moreItems]
  | cons b bs ih =>
    cases f with
    | zero => simp at hf
    | succ f =>
      have e : restItems (b :: bs) ++ ']' :: tail = ',' :: ' ' :: (blockItem b ++ (restItems bs ++ ']' :: tail)) := by
        simp [restItems]
      have hq : (blockItem b ++ (restItems bs ++ ']' :: tail)).dropWhile isSpace = blockItem b ++ (restItems bs ++ ']' :: tail) := by
        rfl
      rw [e]
      simp only [moreItems, beq_self_eq_true, if_true]
      have hsp : List.dropWhile isSpace (' ' :: (blockItem b ++ (restItems bs ++ ']' :: tail))) =
          blockItem b ++ (restItems bs ++ ']' :: tail) := by
        rfl
      rw [hsp, itemAt_item]
      exact ih f (by simp at hf; omega)

theorem restItems_length (bs : List Byte) : bs.length ≤ (restItems bs).length := by
  induction bs with
  | nil => simp [restItems]
  | cons b bs ih => simp [restItems] at ih ⊢; omega

theorem listAt_block (b : Byte) (bs : List Byte) (tail : Text) (ht : tail.all isSpace = true) :
    listAt (renderItems (b :: bs) ++ ']' :: tail) = some (renderItems (b :: bs)) := by
  unfold listAt
  rw [renderItems_cons, List.append_assoc, itemAt_item]
  have hf : bs.length ≤ (restItems bs ++ ']' :: tail).length := by
    have := restItems_length bs; simp; omega
  simp only [moreItems_rest bs tail _ hf, beq_self_eq_true, ht, Bool.and_self, if_true]
  congr 1
  have : (blockItem b ++ (restItems bs ++ ']' :: tail)).length - (']' :: tail).length = (blockItem b ++ restItems bs).length := by
    simp; omega
  rw [this, ← List.append_assoc, List.take_left']
  rfl

theorem reData_skip (pfx s : Text) (h : pfx.all (· != '[') = true) : reData (pfx ++ s) = reData s := by
  induction pfx with
  | nil => rfl
  | cons c pfx ih =>
    simp only [List.all_cons, Bool.and_eq_true, bne_iff_ne, ne_eq] at h
    simp [reData, h.1, ih h.2]

/-- `_re_data`'s regex on a line carrying a rendered non-empty block after a `[`-free prefix and before white space only
(the line end) finds exactly the items -/
theorem reData_block (pfx sfx : Text) (b : Byte) (bs : List Byte) (h : pfx.all (· != '[') = true)
    (hs : sfx.all isSpace = true) :
    reData (pfx ++ (renderBlockL (b :: bs) ++ sfx)) = some (renderItems (b :: bs)) := by
  rw [reData_skip _ _ h]
  have := listAt_block b bs sfx hs
  simp only [renderBlockL, List.cons_append, List.nil_append, List.append_assoc, reData, beq_self_eq_true, if_true] at this ⊢
  rw [this]

/-! ### a line whose last visible character is not `]` cannot carry a block -/

/-- the last non-blank character is `]` -/
def endsClose : Text → Bool
  | [] => false
  | c :: s => endsClose s || (c == ']' && s.all isSpace)

theorem endsClose_append (a b : Text) : endsClose (a ++ b) = (endsClose b || (endsClose a && b.all isSpace)) := by
  induction a with
  | nil => simp [endsClose]
  | cons c a ih =>
    simp only [List.cons_append, endsClose, ih, List.all_append]
    cases endsClose b <;> cases endsClose a <;> cases (c == ']') <;> cases a.all isSpace <;> cases b.all isSpace <;> rfl

theorem endsClose_close (x tail : Text) (ht : tail.all isSpace = true) : endsClose (x ++ ']' :: tail) = true := by
  rw [endsClose_append]; simp [endsClose, ht]

theorem itemAt_suffix (s r : Text) (h : itemAt s = some r) : ∃ p, s = p ++ r := by
  match s, h with
  | a :: b :: c :: s, h =>
    simp only [itemAt] at h
    split at h
    · split at h
      · rename_i d r' hd
        split at h
        · cases h
          have := List.takeWhile_append_dropWhile (p := isHexDigit) (l := s)
          refine ⟨a :: b :: c :: (s.takeWhile isHexDigit ++ [d]), ?_⟩
          simp only [List.cons_append, List.append_assoc, List.nil_append]
          rw [← hd, this]
        · cases h
      · cases h
    · cases h

theorem moreItems_suffix (f : Nat) (s : Text) : ∃ p, s = p ++ moreItems f s := by
  induction f generalizing s with
  | zero => exact ⟨[], rfl⟩
  | succ f ih =>
    cases s with
    | nil => exact ⟨[], rfl⟩
    | cons c s' =>
      simp only [moreItems]
      split
      · split
        · rename_i r hr
          obtain ⟨p1, e1⟩ := itemAt_suffix _ _ hr
          obtain ⟨p2, e2⟩ := ih r
          have := List.takeWhile_append_dropWhile (p := isSpace) (l := s')
          refine ⟨c :: (s'.takeWhile isSpace ++ p1 ++ p2), ?_⟩
          rw [List.cons_append, List.append_assoc, List.append_assoc, ← e2, ← e1, this]
        · exact ⟨[], rfl⟩
      · exact ⟨[], rfl⟩

theorem listAt_endsClose (s g : Text) (h : listAt s = some g) : endsClose s = true := by
  unfold listAt at h
  split at h
  · cases h
  · rename_i r hr
    obtain ⟨p1, e1⟩ := itemAt_suffix _ _ hr
    obtain ⟨p2, e2⟩ := moreItems_suffix r.length r
    simp only at h
    split at h
    · rename_i d tail hrest
      split at h
      · rename_i hc
        simp only [Bool.and_eq_true, beq_iff_eq] at hc
        rw [e1, e2, hrest, hc.1, ← List.append_assoc]
        exact endsClose_close _ _ hc.2
      · cases h
    · cases h

/-- the block expression matches only lines whose last non-blank character is `]` -/
theorem reData_endsClose (t g : Text) (h : reData t = some g) : endsClose t = true := by
  induction t with
  | nil => simp [reData] at h
  | cons c s ih =>
    simp only [reData] at h
    have sub : endsClose s = true → endsClose (c :: s) = true := by intro e; simp [endsClose, e]
    split at h
    · cases hl : listAt s with
      | some g' => exact sub (listAt_endsClose s g' hl)
      | none => rw [hl] at h; exact sub (ih h)
    · exact sub (ih h)

theorem reData_none_of_open (t : Text) (h : endsClose t = false) : reData t = none := by
  cases hr : reData t with
  | none => rfl
  | some g => rw [reData_endsClose t g hr] at h; cases h

end GeckoModel.Snapshot
