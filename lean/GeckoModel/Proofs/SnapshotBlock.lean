/- C19 helper lemmas: the block dump `[hex(b) for b in block]` read back by `_re_data`. -/
import GeckoModel.Model.Snapshot

set_option linter.unusedSimpArgs false

namespace GeckoModel.Snapshot

theorem byte_forall {p : Byte → Prop} (h : ∀ n, n < 256 → p (UInt8.ofNat n)) : ∀ b, p b := by
  intro b
  have := h b.toNat (UInt8.toNat_lt b)
  simpa using this

theorem decodeTok_item : ∀ b : Byte, decodeTok (blockItem b) = some b :=
  byte_forall (by decide +kernel)

theorem decodeTok_sp_item : ∀ b : Byte, decodeTok (' ' :: blockItem b) = some b :=
  byte_forall (by decide +kernel)

theorem item_class : ∀ b : Byte, (blockItem b).all dataClass = true :=
  byte_forall (by decide +kernel)

theorem item_noComma : ∀ b : Byte, (blockItem b).all (· != ',') = true :=
  byte_forall (by decide +kernel)

theorem splitComma_noComma (xs : Text) (h : xs.all (· != ',') = true) : splitComma xs = [xs] := by
  induction xs with
  | nil => rfl
  | cons c xs ih =>
    simp only [List.all_cons, Bool.and_eq_true, bne_iff_ne, ne_eq] at h
    simp [splitComma, h.1, ih h.2]

theorem splitComma_append (xs ys : Text) (h : xs.all (· != ',') = true) :
    splitComma (xs ++ ',' :: ys) = xs :: splitComma ys := by
  induction xs with
  | nil => simp [splitComma]
  | cons c xs ih =>
    simp only [List.all_cons, Bool.and_eq_true, bne_iff_ne, ne_eq] at h
    simp [splitComma, h.1, ih h.2]

/-- the tokens of a rendered non-empty block: the first item, then every further item with its leading blank -/
theorem splitComma_renderItems (b : Byte) (bs : List Byte) :
    splitComma (renderItems (b :: bs)) = blockItem b :: bs.map (fun x => ' ' :: blockItem x) := by
  induction bs generalizing b with
  | nil => simp [renderItems, splitComma_noComma _ (item_noComma b)]
  | cons b' bs ih =>
    simp only [renderItems]
    rw [splitComma_append _ _ (item_noComma b)]
    have : splitComma (' ' :: renderItems (b' :: bs)) = (' ' :: blockItem b') :: bs.map (fun x => ' ' :: blockItem x) := by
      have h := ih b'
      simp only [splitComma, h]
      simp
    rw [this]; simp

theorem mapM_sp_items (bs : List Byte) : (bs.map (fun x => ' ' :: blockItem x)).mapM decodeTok = some bs := by
  induction bs with
  | nil => rfl
  | cons b bs ih => simp [List.mapM_cons, decodeTok_sp_item, ih]

/-- **hex list**: the comma-split, strip, `[1:-1]`, `int(.., 16)` pipeline returns the bytes of every non-empty list -/
theorem decodeHexList_renderItems (b : Byte) (bs : List Byte) : decodeHexList (renderItems (b :: bs)) = some (b :: bs) := by
  unfold decodeHexList
  rw [splitComma_renderItems]
  rw [List.mapM_cons, decodeTok_item, mapM_sp_items]; rfl

theorem renderItems_class (bs : List Byte) : (renderItems bs).all dataClass = true := by
  induction bs with
  | nil => rfl
  | cons b bs ih =>
    cases bs with
    | nil => simpa [renderItems] using item_class b
    | cons b' bs =>
      simp only [renderItems, List.all_append, List.all_cons, Bool.and_eq_true]
      exact ⟨item_class b, by decide, by decide, ih⟩

theorem takeWhile_class (g rest : Text) (h : g.all dataClass = true) :
    (g ++ ']' :: rest).takeWhile dataClass = g ∧ (g ++ ']' :: rest).dropWhile dataClass = ']' :: rest := by
  induction g with
  | nil => exact ⟨by rw [List.nil_append, List.takeWhile_cons]; rfl, by rw [List.nil_append, List.dropWhile_cons]; rfl⟩
  | cons c g ih =>
    simp only [List.all_cons, Bool.and_eq_true] at h
    simp [List.takeWhile_cons, List.dropWhile_cons, h.1, ih h.2]

theorem reData_skip (pfx s : Text) (h : pfx.all (· != '[') = true) : reData (pfx ++ s) = reData s := by
  induction pfx with
  | nil => rfl
  | cons c pfx ih =>
    simp only [List.all_cons, Bool.and_eq_true, bne_iff_ne, ne_eq] at h
    simp [reData, h.1, ih h.2]

/-- `_re_data`'s regex on a line carrying a rendered block after a `[`-free prefix finds exactly the items -/
theorem reData_block (pfx sfx : Text) (bs : List Byte) (h : pfx.all (· != '[') = true) :
    reData (pfx ++ (renderBlockL bs ++ sfx)) = some (renderItems bs) := by
  rw [reData_skip _ _ h]
  have := takeWhile_class (renderItems bs) sfx (renderItems_class bs)
  simp [renderBlockL, reData, this.1, this.2]

end GeckoModel.Snapshot
