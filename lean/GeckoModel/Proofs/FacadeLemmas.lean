/-
Lemmas behind C11: reading a readable item never raises, what `Req` gives, the constructor succeeds under `Req`, and
every member of every reachable object evaluates.
-/
import GeckoModel.Model.Facade
import GeckoModel.Proofs.AccessorLemmas

namespace GeckoModel.Facade
open GeckoModel
open GeckoModel.Generated.FacadeConsts

/-! ### reading items -/

theorem decodeRaw_ok (it : Item) (data : Nat) (h : it.kind = .enum → it.hasLabels = true) :
    ∃ v, it.decodeRaw data = .ok v := by
  unfold Item.decodeRaw
  cases hk : it.kind <;> simp
  · have := h hk
    simp [this]
    split <;> simp

theorem decode_ok (it : Item) (b : Block) (hr : Item.Readable it) (hb : b.length = blockSize) :
    ∃ v, it.decode b = .ok v := by
  obtain ⟨h1, h2, h3⟩ := hr
  obtain ⟨d, hd⟩ := readBE_isSome b it.pos it.len h1 (by omega)
  unfold Item.decode Item.rawRead Item.word
  rw [hd]
  cases it.bitpos <;> simp <;> exact decodeRaw_ok it _ h3

/-- what kind of value each accessor class yields -/
theorem decodeRaw_shape (it : Item) (data : Nat) (v : Value) (h : it.decodeRaw data = .ok v) :
    (it.kind = .bool → ∃ x, v = .bool x) ∧
    ((it.kind = .enum ∨ it.kind = .time) → ∃ s, v = .str s) ∧
    ((it.kind = .byte ∨ it.kind = .word ∨ it.kind = .temp) → ∃ n, v = .int n) := by
  unfold Item.decodeRaw at h
  refine ⟨fun hk => ?_, fun hk => ?_, fun hk => ?_⟩
  · rw [hk] at h; simp only at h; cases h; exact ⟨_, rfl⟩
  · rcases hk with hk | hk
    · rw [hk] at h; simp only at h
      split at h
      · split at h <;> (cases h; exact ⟨_, rfl⟩)
      · cases h
    · rw [hk] at h; simp only at h; cases h; exact ⟨_, rfl⟩
  · rcases hk with hk | hk | hk <;> (rw [hk] at h; simp only at h; cases h; exact ⟨_, rfl⟩)

theorem decode_shape (it : Item) (b : Block) (v : Value) (h : it.decode b = .ok v) :
    (it.kind = .bool → ∃ x, v = .bool x) ∧
    ((it.kind = .enum ∨ it.kind = .time) → ∃ s, v = .str s) ∧
    ((it.kind = .byte ∨ it.kind = .word ∨ it.kind = .temp) → ∃ n, v = .int n) := by
  unfold Item.decode at h
  split at h
  · cases h
  · exact decodeRaw_shape it _ v h

/-- the unit item is there, readable, and is not itself a temperature -/
def UnitsGood (P : Profile) : Prop := ∃ u, P.lookup keyTempUnits = some u ∧ Item.Readable u ∧ u.kind ≠ .temp

theorem value_ok (P : Profile) (it : Item) (b : Block) (hu : UnitsGood P) (hr : Item.Readable it)
    (hb : b.length = blockSize) : ∃ v, P.value it b = .ok v := by
  obtain ⟨v, hv⟩ := decode_ok it b hr hb
  obtain ⟨u, hu1, hu2, hu3⟩ := hu
  obtain ⟨uv, huv⟩ := decode_ok u b hu2 hb
  unfold Profile.value
  rw [hv]
  cases hk : it.kind <;> simp
  · -- temp
    rw [hu1]
    simp [hu3, huv]
    obtain ⟨n, hn⟩ := (decode_shape it b v hv).2.2 (Or.inr (Or.inr hk))
    subst hn
    simp
    split <;> simp

theorem value_numeric (P : Profile) (it : Item) (b : Block) (v : SVal) (hn : numericKind it.kind = true)
    (h : P.value it b = .ok v) : v.isStr = false := by
  unfold Profile.value at h
  split at h
  · cases h
  · rename_i dv hdv
    have sh := decode_shape it b dv hdv
    cases hk : it.kind
    all_goals (rw [hk] at h; simp only at h)
    · obtain ⟨n, rfl⟩ := sh.2.2 (Or.inl hk); cases h; rfl
    · obtain ⟨n, rfl⟩ := sh.2.2 (Or.inr (Or.inl hk)); cases h; rfl
    · rw [hk] at hn; simp [numericKind] at hn
    · obtain ⟨x, rfl⟩ := sh.1 hk; cases h; rfl
    · rw [hk] at hn; simp [numericKind] at hn
    · obtain ⟨n, rfl⟩ := sh.2.2 (Or.inr (Or.inr hk))
      split at h
      · cases h
      · split at h
        · cases h
        · split at h
          · cases h
          · simp only at h
            split at h <;> (cases h; rfl)

theorem value_str (P : Profile) (it : Item) (b : Block) (v : SVal) (hn : strKind it.kind = true)
    (h : P.value it b = .ok v) : v.isStr = true := by
  unfold Profile.value at h
  split at h
  · cases h
  · rename_i dv hdv
    have sh := decode_shape it b dv hdv
    cases hk : it.kind
    all_goals (rw [hk] at h hn; simp only at h)
    · simp [strKind] at hn
    · simp [strKind] at hn
    · obtain ⟨s, rfl⟩ := sh.2.1 (Or.inr hk); cases h; rfl
    · simp [strKind] at hn
    · obtain ⟨s, rfl⟩ := sh.2.1 (Or.inl hk); cases h; rfl
    · simp [strKind] at hn

/-! ### `mapE` -/

theorem mapE_ok {α β : Type} (f : α → Except FErr β) (l : List α) (h : ∀ a ∈ l, ∃ b, f a = .ok b) :
    ∃ bs, mapE f l = .ok bs := by
  induction l with
  | nil => exact ⟨[], rfl⟩
  | cons a as ih =>
    obtain ⟨b, hb⟩ := h a (by simp)
    obtain ⟨bs, hbs⟩ := ih (fun x hx => h x (by simp [hx]))
    exact ⟨b :: bs, by simp [mapE, hb, hbs]⟩

theorem mapE_mem {α β : Type} (f : α → Except FErr β) (l : List α) (bs : List β) (h : mapE f l = .ok bs) :
    ∀ b ∈ bs, ∃ a ∈ l, f a = .ok b := by
  induction l generalizing bs with
  | nil => simp [mapE] at h; subst h; simp
  | cons a as ih =>
    simp only [mapE] at h
    split at h
    · cases h
    · rename_i b0 hb0
      split at h
      · cases h
      · rename_i bs0 hbs0
        cases h
        intro b hb
        simp at hb
        rcases hb with rfl | hb
        · exact ⟨a, by simp, hb0⟩
        · obtain ⟨x, hx, hfx⟩ := ih bs0 hbs0 b hb
          exact ⟨x, by simp [hx], hfx⟩

theorem mem_dedup (l : List String) (x : String) (h : x ∈ dedup l) : x ∈ l := by
  induction l with
  | nil => simp [dedup] at h
  | cons a as ih =>
    simp only [dedup, List.mem_cons, List.mem_filter] at h
    rcases h with rfl | ⟨h1, _⟩
    · simp
    · simp [ih h1]

theorem udPairs_mono (d1 d2 uds : List String) (h : ∀ x ∈ d1, x ∈ d2) : ∀ p ∈ udPairs d1 uds, p ∈ udPairs d2 uds := by
  intro p hp
  simp only [udPairs, List.mem_flatMap] at hp ⊢
  obtain ⟨d, hd, hp⟩ := hp
  exact ⟨d, h d hd, hp⟩

theorem udPairs_fst (devs uds : List String) (p : String × String) (h : p ∈ udPairs devs uds) : p.1 ∈ devs := by
  simp only [udPairs, List.mem_flatMap, List.mem_map] at h
  obtain ⟨d, hd, ud, _, rfl⟩ := h
  exact hd

/-! ### what `Req` gives -/

theorem findKey_mem (l : List Item) (k : String) (it : Item) (h : findKey l k = some it) : it ∈ l :=
  List.mem_of_find?_eq_some h

theorem lookup_mem (P : Profile) (k : String) (it : Item) (h : P.lookup k = some it) : it ∈ P.cfg ++ P.log := by
  unfold Profile.lookup at h
  split at h
  · rename_i i hi
    cases h
    exact List.mem_append_right _ (findKey_mem _ _ _ hi)
  · exact List.mem_append_left _ (findKey_mem _ _ _ h)

structure ReqFacts (P : Profile) : Prop where
  readable : ∀ k it, P.lookup k = some it → Item.Readable it
  units : ∃ u, P.lookup keyTempUnits = some u ∧ u.kind ≠ .temp
  cur : ∃ it, P.lookup keyDisplayedTempG = some it ∧ numericKind it.kind = true
  tgt : ∃ it, P.lookup keySetpointG = some it ∧ numericKind it.kind = true
  real : ∃ it, P.lookup keyRealSetpointG = some it ∧ numericKind it.kind = true
  eco : ∃ it, P.lookup keyEconActive = some it
  outs : ∀ o ∈ P.outputs, ∃ it, P.lookup o = some it ∧ strKind it.kind = true
  pairs : ∀ p ∈ udPairs P.devices P.userDemands,
    (∃ it, P.lookup p.2 = some it) ∧ ∀ pr, lookupDev p.1 = some pr → ∃ it, P.lookup pr.stateKey = some it
  errs : ∀ k ∈ P.errorKeys, ∃ it, P.lookup k = some it

theorem kindIs_spec (P : Profile) (k : String) (p : Kind → Bool) (h : kindIs P k p = true) :
    ∃ it, P.lookup k = some it ∧ p it.kind = true := by
  unfold kindIs at h
  split at h
  · exact ⟨_, ‹_›, h⟩
  · cases h

theorem isSome_spec {α : Type} (o : Option α) (h : o.isSome = true) : ∃ x, o = some x := by
  cases o with
  | none => cases h
  | some x => exact ⟨x, rfl⟩

theorem Req.facts {P : Profile} (h : Req P) : ReqFacts P := by
  obtain ⟨hc, hr⟩ := h
  simp only [reqCoreB, Bool.and_eq_true] at hc
  simp only [reqRestB, Bool.and_eq_true, List.all_eq_true, decide_eq_true_eq] at hr
  obtain ⟨⟨⟨⟨⟨⟨⟨hread, hu⟩, hcur⟩, htgt⟩, hreal⟩, houts⟩, hpairs⟩, herrs⟩ := hr
  refine ⟨?_, ?_, kindIs_spec _ _ _ hcur, kindIs_spec _ _ _ htgt, kindIs_spec _ _ _ hreal, isSome_spec _ hc.2, ?_, ?_, ?_⟩
  · intro k it hk
    exact hread it (lookup_mem P k it hk)
  · obtain ⟨u, hu1, hu2⟩ := kindIs_spec _ _ _ hu
    exact ⟨u, hu1, by simpa using hu2⟩
  · intro o ho
    exact kindIs_spec _ _ _ (houts o ho)
  · intro p hp
    have := hpairs p hp
    refine ⟨isSome_spec _ this.1, ?_⟩
    intro pr hpr
    have h2 := this.2
    rw [hpr] at h2
    exact isSome_spec _ h2
  · intro k hk
    exact isSome_spec _ (herrs k hk)

theorem ReqFacts.unitsGood {P : Profile} (h : ReqFacts P) : UnitsGood P := by
  obtain ⟨u, hu1, hu2⟩ := h.units
  exact ⟨u, hu1, h.readable _ _ hu1, hu2⟩

/-- an item the profile can hand out -/
def Held (P : Profile) (it : Item) : Prop := ∃ k, P.lookup k = some it

theorem held_value_ok {P : Profile} (h : ReqFacts P) (it : Item) (hh : Held P it) (b : Block) (hb : b.length = blockSize) :
    ∃ v, P.value it b = .ok v := by
  obtain ⟨k, hk⟩ := hh
  exact value_ok P it b h.unitsGood (h.readable k it hk) hb

/-! ### the constructor -/

theorem get_eq_ok (P : Profile) (k : String) (it : Item) : P.get k = .ok it ↔ P.lookup k = some it := by
  unfold Profile.get
  split <;> simp_all

/-- what the members rely on: every item a built object holds came out of the profile -/
structure Good (f : Facade) : Prop where
  facts : ReqFacts f.P
  units : Held f.P f.heater.units
  cur : Held f.P f.heater.current ∧ numericKind f.heater.current.kind = true
  tgt : Held f.P f.heater.target ∧ numericKind f.heater.target.kind = true
  real : Held f.P f.heater.real ∧ numericKind f.heater.real.kind = true
  heating : ∀ it, f.heater.heating = some it → Held f.P it
  cooling : ∀ it, f.heater.cooling = some it → Held f.P it
  pumps : ∀ s ∈ f.pumps, Held f.P s.acc
  blowers : ∀ s ∈ f.blowers, Held f.P s.acc
  lights : ∀ s ∈ f.lights, Held f.P s.acc
  sensors : ∀ s ∈ f.sensors, Held f.P s.acc
  binarySensors : ∀ s ∈ f.binarySensors, Held f.P s.acc
  eco : Held f.P f.eco.acc

theorem buildSensors_held (P : Profile) (tbl : List (String × String)) : ∀ s ∈ buildSensors P tbl, Held P s.acc := by
  intro s hs
  simp only [buildSensors, List.mem_filterMap, Option.map_eq_some_iff] at hs
  obtain ⟨e, _, it, hit, rfl⟩ := hs
  exact ⟨e.2, hit⟩

theorem buildSwitch_acc (P : Profile) (pump : Bool) (u : UserDev) (s : Switch) (h : buildSwitch P pump u = .ok s) :
    Held P s.acc := by
  simp only [buildSwitch] at h
  split at h
  · cases h
  · rename_i pr _
    split at h
    · cases h
    · rename_i it hit
      cases h
      exact ⟨pr.stateKey, (get_eq_ok _ _ _).1 hit⟩

theorem buildUserDev_device (P : Profile) (p : String × String) (u : UserDev) (h : buildUserDev P p = .ok u) :
    u.device = p.1 := by
  simp only [buildUserDev] at h
  split at h
  · cases h
  · cases h; rfl

theorem construct_ok (P : Profile) (id : Ident) (b : Block) (h : ReqFacts P) (hb : b.length = blockSize) :
    ∃ f, construct P id b = .ok f ∧ f.P = P ∧ f.ident = id ∧ Good f := by
  obtain ⟨u, hu, _⟩ := h.units
  obtain ⟨cur, hcur, hcurk⟩ := h.cur
  obtain ⟨tgt, htgt, htgtk⟩ := h.tgt
  obtain ⟨real, hreal, hrealk⟩ := h.real
  obtain ⟨eco, heco⟩ := h.eco
  have hheater : buildHeater P = .ok ⟨u, tgt, cur, real, P.lookup keyHeating, P.lookup keyCoolingDown⟩ := by
    simp [buildHeater, hu, hcur, htgt, hreal]
  -- output connections: every output resolves to a readable, string-valued item
  have hconn : ∃ conns, connections P b = .ok conns := by
    apply mapE_ok
    intro o ho
    obtain ⟨it, hit, _⟩ := h.outs o ho
    rw [(get_eq_ok P o it).2 hit]
    exact held_value_ok h it ⟨o, hit⟩ b hb
  obtain ⟨conns, hconns⟩ := hconn
  have hstr : ∀ v ∈ conns, v.isStr = true := by
    intro v hv
    obtain ⟨o, ho, hfo⟩ := mapE_mem _ _ _ hconns v hv
    obtain ⟨it, hit, hk⟩ := h.outs o ho
    rw [(get_eq_ok P o it).2 hit] at hfo
    exact value_str P it b v hk hfo
  have hdev : ∃ devs, actualDevices P.devices (notNA conns) = .ok devs ∧ ∀ d ∈ devs, d ∈ P.devices := by
    unfold actualDevices
    split
    · exact ⟨[], rfl, by simp⟩
    · have hany : (notNA conns).any (fun v => !v.isStr) = false := by
        rw [List.any_eq_false]
        intro v hv
        have := hstr v ((List.mem_filter.1 hv).1)
        simp [this]
      rw [hany]
      refine ⟨_, rfl, ?_⟩
      intro d hd
      exact (List.mem_filter.1 (mem_dedup _ _ hd)).1
  obtain ⟨devs, hdevs, hsub⟩ := hdev
  have hpairs : ∀ p ∈ udPairs devs P.userDemands, p ∈ udPairs P.devices P.userDemands := udPairs_mono _ _ _ hsub
  have hud : ∃ uds0, mapE (buildUserDev P) (udPairs devs P.userDemands) = .ok uds0 := by
    apply mapE_ok
    intro p hp
    obtain ⟨⟨it, hit⟩, _⟩ := h.pairs p (hpairs p hp)
    simp [buildUserDev, (get_eq_ok P p.2 it).2 hit]
  obtain ⟨uds0, huds0⟩ := hud
  have hfrom : ∀ x ∈ uds0, ∀ pr, lookupDev x.device = some pr → ∃ it, P.lookup pr.stateKey = some it := by
    intro x hx pr hpr
    obtain ⟨p, hp, hfp⟩ := mapE_mem _ _ _ huds0 x hx
    rw [buildUserDev_device P p x hfp] at hpr
    exact (h.pairs p (hpairs p hp)).2 pr hpr
  have hsw : ∀ (pump : Bool) (c : String), ∃ sws, mapE (buildSwitch P pump) (ofClass c (handled uds0)) = .ok sws ∧
      ∀ s ∈ sws, Held P s.acc := by
    intro pump c
    have hall : ∀ x ∈ ofClass c (handled uds0), ∃ s, buildSwitch P pump x = .ok s := by
      intro x hx
      have hx1 : x ∈ handled uds0 := (List.mem_filter.1 hx).1
      have hx0 : x ∈ uds0 := (List.mem_filter.1 hx1).1
      have hsome : (lookupDev x.device).isSome = true := by
        have := (List.mem_filter.1 hx1).2
        simpa using this
      obtain ⟨pr, hpr⟩ := isSome_spec _ hsome
      obtain ⟨it, hit⟩ := hfrom x hx0 pr hpr
      simp [buildSwitch, hpr, (get_eq_ok P pr.stateKey it).2 hit]
    obtain ⟨sws, hsws⟩ := mapE_ok _ _ hall
    refine ⟨sws, hsws, ?_⟩
    intro s hs
    obtain ⟨x, _, hfx⟩ := mapE_mem _ _ _ hsws s hs
    exact buildSwitch_acc P pump x s hfx
  have herr : ∃ q, buildErrorSensor P b = .ok q := by
    obtain ⟨items, hitems⟩ := mapE_ok P.get P.errorKeys (by
      intro k hk
      obtain ⟨it, hit⟩ := h.errs k hk
      exact ⟨it, (get_eq_ok P k it).2 hit⟩)
    have hheld : ∀ it ∈ items, Held P it := by
      intro it hit
      obtain ⟨k, _, hk⟩ := mapE_mem _ _ _ hitems it hit
      exact ⟨k, (get_eq_ok _ _ _).1 hk⟩
    obtain ⟨vals, hvals⟩ := mapE_ok (fun it => P.value it b) (items.filter (fun it => it.kind == .bool)) (by
      intro it hit
      exact held_value_ok h it (hheld it ((List.mem_filter.1 hit).1)) b hb)
    refine ⟨!(vals.any (fun v => v == .bool true)), ?_⟩
    simp only [buildErrorSensor, hitems, hvals]
  obtain ⟨pumps, hpumps, hpumpsH⟩ := hsw true classPump
  obtain ⟨blowers, hblowers, hblowersH⟩ := hsw false classBlower
  obtain ⟨lights, hlights, hlightsH⟩ := hsw false classLight
  obtain ⟨q, hq⟩ := herr
  refine ⟨{ P := P, ident := id, heater := ⟨u, tgt, cur, real, P.lookup keyHeating, P.lookup keyCoolingDown⟩,
            userDevices := handled uds0, pumps := pumps, blowers := blowers, lights := lights,
            sensors := buildSensors P sensors, binarySensors := buildSensors P binarySensors, errorQuiet := q,
            eco := ⟨keyEconActive, ecoProps, eco, none⟩ }, ?_, rfl, rfl, ?_⟩
  · simp only [construct, hheater, hconns, hdevs, huds0, hpumps, hblowers, hlights, hq, heco]
  · exact { facts := h, units := ⟨_, hu⟩, cur := ⟨⟨_, hcur⟩, hcurk⟩, tgt := ⟨⟨_, htgt⟩, htgtk⟩, real := ⟨⟨_, hreal⟩, hrealk⟩,
            heating := fun it hit => ⟨_, hit⟩, cooling := fun it hit => ⟨_, hit⟩,
            pumps := hpumpsH, blowers := hblowersH, lights := hlightsH,
            sensors := buildSensors_held P sensors, binarySensors := buildSensors_held P binarySensors,
            eco := ⟨_, heco⟩ }

end GeckoModel.Facade
