/-
Item-level lemmas behind C02 / C03: what a well-formed item reads, and what a device write changes.
-/
import GeckoModel.Model.Accessor
import GeckoModel.Proofs.Bits
import GeckoModel.Proofs.BlockLemmas

namespace GeckoModel
open GeckoModel.Generated GeckoModel.Bits

theorem maskWidth_spec {m k : Nat} (h : maskWidth m = some k) : m = 2 ^ k - 1 ∧ 1 ≤ k ∧ k ≤ 4 := by
  unfold maskWidth at h
  split at h
  · cases h; subst_vars; decide
  · split at h
    · cases h; subst_vars; decide
    · split at h
      · cases h; subst_vars; decide
      · split at h
        · cases h; subst_vars; decide
        · cases h

theorem readBE_isSome (b : Block) (pos len : Nat) (hl : len = 1 ∨ len = 2) (hb : pos + len ≤ b.length) :
    ∃ d, readBE b pos len = some d := by
  rcases hl with rfl | rfl
  · have : pos < b.length := by omega
    simp [readBE, List.getElem?_eq_getElem this]
  · have h0 : pos < b.length := by omega
    have h1 : pos + 1 < b.length := by omega
    simp [readBE, List.getElem?_eq_getElem h0, List.getElem?_eq_getElem h1]

/-- facts packed in `Item.WF`, in the form the proofs use -/
structure Item.Geom (it : Item) : Prop where
  len12 : it.len = 1 ∨ it.len = 2
  inBlock : it.pos + it.len ≤ blockSize
  bits : ∀ p, it.bitpos = some p → ∃ k, maskWidth it.mask = some k ∧ it.mask = 2 ^ k - 1 ∧ 1 ≤ k ∧ p + k ≤ 8 * it.len

theorem Item.WF.geom {it : Item} (h : it.WF) : it.Geom := by
  obtain ⟨_, h2, h3, h4, _⟩ := h
  refine ⟨h2, h3, ?_⟩
  intro p hp
  unfold Item.bitsOK at h4
  rw [hp] at h4
  simp only at h4
  split at h4
  · rename_i k hk
    obtain ⟨e, h1, _⟩ := maskWidth_spec hk
    exact ⟨k, hk, e, h1, by simpa using h4⟩
  · cases h4

theorem pow8len (len : Nat) (hl : len = 1 ∨ len = 2) : 256 ^ len = 2 ^ (8 * len) := by
  rcases hl with rfl | rfl <;> decide

/-- **word-level read after write**, for either merge (they are equal) -/
theorem Item.raw_read_after_write (it : Item) (hg : it.Geom) (b : Block) (hb : b.length = blockSize)
    (v : Value) (nv : Nat) (hraw : it.toRaw v = .ok nv) (hdom : nv < it.capacity) (hrw : it.rw.isSome = true) :
    ∃ w b', it.encode b v = .ok w ∧ w.pos = it.pos ∧ w.len = it.len ∧ applyWrite b w = some b' ∧
      b'.length = blockSize ∧ it.rawRead b' = some nv := by
  have hin : it.pos + it.len ≤ b.length := by rw [hb]; exact hg.inBlock
  obtain ⟨existing, hex⟩ := readBE_isSome b it.pos it.len hg.len12 hin
  have hexlt := readBE_lt _ _ _ _ hex
  have hnone : it.rw.isNone = false := by
    cases h : it.rw <;> simp_all
  cases hbp : it.bitpos with
  | none =>
    have hnv : nv < 2 ^ (8 * it.len) := by
      have := hdom; unfold Item.capacity at this; rw [hbp] at this; simpa [pow8len _ hg.len12] using this
    obtain ⟨bytes, hpk⟩ := packBE_isSome it.len nv hg.len12 hnv
    refine ⟨⟨it.pos, it.len, nv⟩, replaceSeg b it.pos bytes, ?_, rfl, rfl, ?_, ?_, ?_⟩
    · simp [Item.encode, Item.encodeWith, hnone, hraw, Item.word, hex, hbp]
    · simp [applyWrite, hpk]
    · rw [replaceSeg_length _ _ _ (by rw [packBE_length _ _ _ hpk]; exact hin)]; exact hb
    · simp [Item.rawRead, Item.word, readBE_replaceSeg_pack b it.pos it.len nv bytes hpk hin, hbp]
  | some p =>
    obtain ⟨k, _, hm, hk1, hk2⟩ := hg.bits p hbp
    have hlt : mergeSync existing nv it.mask p < 2 ^ (8 * it.len) := by
      rw [hm]; exact mergeSync_lt _ _ _ _ _ hexlt hk2
    obtain ⟨bytes, hpk⟩ := packBE_isSome it.len _ hg.len12 hlt
    refine ⟨⟨it.pos, it.len, mergeSync existing nv it.mask p⟩, replaceSeg b it.pos bytes, ?_, rfl, rfl, ?_, ?_, ?_⟩
    · simp [Item.encode, Item.encodeWith, hnone, hraw, Item.word, hex, hbp]
    · simp [applyWrite, hpk]
    · rw [replaceSeg_length _ _ _ (by rw [packBE_length _ _ _ hpk]; exact hin)]; exact hb
    · have hnv : nv < 2 ^ k := by
        have := hdom; unfold Item.capacity at this; rw [hbp] at this
        simp only at this; rw [hm] at this
        have : 0 < 2 ^ k := Nat.pos_of_ne_zero (by simp)
        omega
      simp only [Item.rawRead, Item.word, readBE_replaceSeg_pack b it.pos it.len _ bytes hpk hin, hbp]
      rw [hm, rawExtract_mergeSync, Nat.mod_eq_of_lt hnv]

end GeckoModel
