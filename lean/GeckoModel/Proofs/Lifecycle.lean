/-
C08 — the per-call checks and the kernel-evaluated certificate.

`Generated/LifecycleReach.lean` lists the closure `R` of the initial manager states under every call of `allBase table`
(computed by the model itself, Driver/C08Reach.lean) with, for each (state, call), the index of the successor.
`edges_ok` makes the kernel re-run the interpreter on every pair: the successor is the state at the certified index (so `R`
is closed: the one-step obligation of an inductive invariant) and the call satisfies every per-call clause of C08.
-/
import GeckoModel.Generated.LifecycleTable
import GeckoModel.Generated.LifecycleReach

namespace GeckoModel.Lifecycle

/-! ## per-call clauses (Bool-valued, evaluated by the kernel) -/

/-- bracket automaton: every `st` is followed by `fi` before the list ends (and before another `st`) -/
def closedFrom (st fi : Event) : Bool → List Event → Bool
  | openNow, [] => !openNow
  | openNow, e :: r =>
      if e = st then (!openNow && closedFrom st fi true r)
      else if e = fi then closedFrom st fi false r
      else closedFrom st fi openNow r

def phasesClosed (out : List Delivered) : Bool :=
  closedFrom .LOCATING_STARTED .LOCATING_FINISHED false (out.map (·.event)) &&
  closedFrom .CONNECTION_STARTED .CONNECTION_FINISHED false (out.map (·.event))

def readyIffEnter (m : M) (r : RunRes) : Bool :=
  (r.out.any fun d => d.event == .CLIENT_FACADE_IS_READY) == (m.state != .CONNECTED && r.m.state == .CONNECTED)

/-- READY is delivered in state CONNECTED with a facade -/
def readySample (out : List Delivered) : Bool :=
  out.all fun d => d.event != .CLIENT_FACADE_IS_READY || (d.state == .CONNECTED && !d.facadeNone)

/-- the facade monitor accepts every delivery: READY at most once per built facade, TEARDOWN at most once per READY -/
def monitorsOk (out : List Delivered) : Bool := out.all (·.monOk)

/-- FULL clause: every TEARDOWN is delivered while a facade exists -/
def teardownHasFacade (out : List Delivered) : Bool :=
  out.all fun d => d.event != .CLIENT_FACADE_TEARDOWN || !d.facadeNone

/-- calls that run `async_reset` on a CONNECTED manager (the only place finding D7 shows) -/
def resetsConnected (m : M) : Base → Bool
  | .reset => m.state == .CONNECTED
  | .setSpaInfo _ _ => m.state == .CONNECTED
  | _ => false

/-- the shape of finding D7, read off the regenerated table: `async_reset` executes `self._facade = None` before
`await self._spa.disconnect()` (whose RUNNING_SPA_DISCONNECTED event announces the teardown) -/
def resetClearsFacadeFirst (T : Table) : Bool :=
  let ops := T.resetProg.flatMap (·.ops)
  match ops.findIdx? (· == .clearFacade), ops.findIdx? (· == .spaDisconnect) with
  | some i, some j => i < j
  | _, _ => false

/-- at every delivery the status sensor (when it exists) shows the state the client sees -/
def deliveryMirrors (out : List Delivered) : Bool := out.all fun d => !d.sensor || d.status == some d.state

/-- afterwards the sensor holds the state at the last event (unchanged when nothing was delivered) -/
def statusAfter (m : M) (r : RunRes) : Bool :=
  match r.out.getLast? with
  | some d => !r.m.sensor || r.m.status == some d.state
  | none => r.m.status == m.status

/-- the readable invariant: CONNECTED only with a facade that was announced and not torn down, on a connected spa -/
def good (m : M) : Bool :=
  (m.state != .CONNECTED || (m.facade && m.spa && m.spaConn && m.proto && m.fmon == .ready)) &&
  (!m.facade || (m.spa && m.spaConn && m.proto && (m.fmon == .ready || m.fmon == .tornDown))) &&
  (!m.spaConn || m.spa) && (!m.proto || m.spa) && m.fmon != .built && (m.sensor == m.status.isSome) && (m.radio == m.chan)

def idleClean (_m m' : M) : Bool :=
  m'.state == .IDLE && !m'.facade && !m'.spa && !m'.spaConn && !m'.desc

def resetLands (m : M) (b : Base) (r : RunRes) : Bool :=
  match b with
  | .reset => idleClean m r.m && r.outcome == .done && r.m.ident == m.ident && r.m.name == m.name
  | .setSpaInfo i n => idleClean m r.m && r.outcome == .done && r.m.ident == i && r.m.name == n
  | _ => true

/-- every per-call clause.  The teardown clause is the FULL one unless the table has the shape of finding D7, in which
case it is excused exactly for a reset of a CONNECTED manager -/
def callOk (T : Table) (m : M) (b : Base) (r : RunRes) : Bool :=
  r.outcome != .outOfFuel && (r.outcome == .done || r.outcome == .raised) && phasesClosed r.out && readyIffEnter m r &&
  readySample r.out && monitorsOk r.out && ((resetClearsFacadeFirst T && resetsConnected m b) || teardownHasFacade r.out) &&
  deliveryMirrors r.out && statusAfter m r && good r.m && resetLands m b r

/-! ## the certificate -/

def chunkAt (cs : List (List M)) (j : Nat) : Option M := (cs[j / 16]?).bind (·[j % 16]?)

def reachList : List M := reachChunks.flatten

def edgeOk (T : Table) (m : M) (b : Base) (j : Nat) : Bool :=
  !enabled m b ||
  (let r := stepB T m b
   chunkAt reachChunks j == some r.m && callOk T m b r)

def rowOk (T : Table) (m : M) (row : List Nat) : Bool :=
  row.length == (allBase T).length && ((allBase T).zip row).all fun p => edgeOk T m p.1 p.2

set_option maxRecDepth 1000000 in
/-- the kernel runs the interpreter on every (state of R, call) pair -/
theorem edges_ok : (reachList.length == reachSucc.length && (reachList.zip reachSucc).all fun p => rowOk table p.1 p.2) = true := by
  decide +kernel

set_option maxRecDepth 1000000 in
theorem inits_in : ((inits table).all fun m => reachList.contains m) = true := by decide +kernel

set_option maxRecDepth 1000000 in
theorem reach_good : (reachList.all good) = true := by decide +kernel

/-! ## from the evaluated certificate to statements about every state of `R` and every enabled call -/

theorem exists_zip_of_mem {α β : Type} : ∀ (l1 : List α) (l2 : List β), l1.length = l2.length → ∀ a, a ∈ l1 →
    ∃ b, (a, b) ∈ l1.zip l2
  | [], _, _, a, h => by cases h
  | x :: xs, [], hl, _, _ => by simp at hl
  | x :: xs, y :: ys, hl, a, h => by
      rcases List.mem_cons.1 h with rfl | h'
      · exact ⟨y, by simp⟩
      · obtain ⟨b, hb⟩ := exists_zip_of_mem xs ys (by simpa using hl) a h'
        exact ⟨b, by simp [hb]⟩

theorem chunkAt_mem (cs : List (List M)) (j : Nat) (m : M) (h : chunkAt cs j = some m) : m ∈ cs.flatten := by
  unfold chunkAt at h
  cases hc : cs[j / 16]? with
  | none => simp [hc] at h
  | some c =>
      simp [hc] at h
      exact List.mem_flatten.2 ⟨c, List.mem_of_getElem? hc, List.mem_of_getElem? h⟩

/-- the one-step obligation, for every state of `R` and every enabled call of the alphabet -/
theorem edge (m : M) (b : Base) (hm : m ∈ reachList) (hb : b ∈ allBase table) (he : enabled m b = true) :
    (stepB table m b).m ∈ reachList ∧ callOk table m b (stepB table m b) = true := by
  have h := edges_ok
  rw [Bool.and_eq_true] at h
  obtain ⟨hl, hall⟩ := h
  obtain ⟨row, hrow⟩ := exists_zip_of_mem reachList reachSucc (by simpa using hl) m hm
  have hr := List.all_eq_true.1 hall _ hrow
  simp only [rowOk, Bool.and_eq_true] at hr
  obtain ⟨hlen, hz⟩ := hr
  have hlen' : (allBase table).length = row.length := by
    have : row.length = (allBase table).length := by simpa using hlen
    exact this.symm
  obtain ⟨j, hj⟩ := exists_zip_of_mem (allBase table) row hlen' b hb
  have he' := List.all_eq_true.1 hz _ hj
  simp only [edgeOk, he, Bool.not_true, Bool.false_or, Bool.and_eq_true] at he'
  obtain ⟨h1, h2⟩ := he'
  exact ⟨chunkAt_mem _ _ _ (by simpa using h1), h2⟩

theorem init_mem (m : M) (h : m ∈ inits table) : m ∈ reachList := by
  have := List.all_eq_true.1 inits_in m h
  simpa using this

theorem good_of_mem (m : M) (h : m ∈ reachList) : good m = true := List.all_eq_true.1 reach_good m h

end GeckoModel.Lifecycle
