/- C19 helper lemmas: `Received b'<PACKT>..STATV..</DATAS></PACKT>' from ..` records and their reassembly. -/
import GeckoModel.Proofs.SnapshotRepr
import GeckoModel.Proofs.SnapshotName

set_option linter.unusedSimpArgs false
set_option linter.unusedVariables false

namespace GeckoModel.Snapshot

theorem search_dead (l : Text) (r : List Atom) (x : Text) (h : noPartial l x = true) (hl : l ≠ []) :
    searchRe (.lit l :: r) x = none := by
  have := search_skip l r x [] h
  rw [List.append_nil] at this
  rw [this]
  cases l with
  | nil => exact absurd rfl hl
  | cons a l => exact search_nil_lit a l r

theorem no_later (l t : Text) (h : searchRe [.lit l] t = none) (k : Nat) : matchSeq [.lit l] (t.drop k) = none := by
  induction t generalizing k with
  | nil => simpa [searchRe] using h
  | cons c t ih =>
    simp only [searchRe] at h
    cases hm : matchSeq [.lit l] (c :: t) with
    | some g => rw [hm] at h; cases h
    | none =>
      rw [hm] at h
      cases k with
      | zero => exact hm
      | succ k => simpa using ih h k

theorem esc_statv (q : Char) (hq : q = sq ∨ q = dq) : escBytes q statvBytes = t!"STATV" := by
  rcases hq with rfl | rfl <;> decide
theorem esc_close (q : Char) (hq : q = sq ∨ q = dq) : escBytes q packetClose = t!"</DATAS>" ++ t!"</PACKT>" := by
  rcases hq with rfl | rfl <;> decide

/-- the record as the expression sees it -/
theorem trafficLine_shape (q : Char) (hq : q = sq ∨ q = dq) (pre post : Text) (src dst : List Byte) (sg : Seg) :
    pre ++ (('b' :: q :: escBytes q (packet src dst sg) ++ [q]) ++ post) =
      pre ++ ('b' :: q :: (escBytes q (packetOpen src dst) ++ (t!"STATV" ++
      (escBytes q (sg.idx :: sg.next :: UInt8.ofNat sg.data.length :: sg.data) ++
        (t!"</DATAS>" ++ (t!"</PACKT>" ++ (q :: post))))))) := by
  have e : packet src dst sg = packetOpen src dst ++ (statvBytes ++
      ((sg.idx :: sg.next :: UInt8.ofNat sg.data.length :: sg.data) ++ packetClose)) := by
    simp [packet, statvContent]
  rw [e, escBytes_append, escBytes_append, escBytes_append, esc_statv q hq, esc_close q hq]
  simp only [List.append_assoc, List.cons_append, List.nil_append]

/-- nothing in front of the datagram content looks like the start of `STATV`, nothing behind it like `</DATAS>` -/
structure FrameOK (pre post : Text) (src dst : List Byte) : Prop where
  pre : noPartial t!"STATV" pre = true
  openSq : noPartial t!"STATV" (escBytes sq (packetOpen src dst)) = true
  openDq : noPartial t!"STATV" (escBytes dq (packetOpen src dst)) = true
  noDatas : noPartial t!"</DATAS>" post = true
  postOpen : endsClose post = false          -- the record does not end with `]` (it ends with the sender's address) ..
  postText : post.all isSpace = false        -- .. and something visible follows the datagram

theorem statv_search (pre post : Text) (src dst : List Byte) (sg : Seg) (hf : FrameOK pre post src dst) :
    searchRe reStatv (trafficLine pre post (packet src dst sg)) =
      some [escBytes (quoteOf (packet src dst sg)) (sg.idx :: sg.next :: UInt8.ofNat sg.data.length :: sg.data)] := by
  have hq := quoteOf_cases (packet src dst sg)
  show searchRe reStatv (pre ++ (('b' :: quoteOf (packet src dst sg) :: escBytes (quoteOf (packet src dst sg)) (packet src dst sg) ++
    [quoteOf (packet src dst sg)]) ++ post)) = _
  rw [trafficLine_shape _ hq]
  generalize quoteOf (packet src dst sg) = q at hq ⊢
  have hopen : noPartial t!"STATV" (escBytes q (packetOpen src dst)) = true := by
    rcases hq with rfl | rfl
    · exact hf.openSq
    · exact hf.openDq
  have hpre := hf.pre
  have hpost := hf.noDatas
  unfold reStatv
  rw [search_skip _ _ _ _ hpre, search_skip_char _ _ _ _ _ (by decide)]
  have hqS : ('S' != q) = true := by rcases hq with rfl | rfl <;> decide
  rw [search_skip_char _ _ _ _ _ hqS, search_skip _ _ _ _ hopen]
  apply search_hit _ _ _ _ (by decide)
  apply cap_any_tail
  · rw [lit_step]; rfl
  · intro k _
    have hnone : searchRe [.lit t!"</DATAS>"] (t!"/DATAS>" ++ (t!"</PACKT>" ++ (q :: post))) = none := by
      rw [search_skip _ _ _ _ (by decide), search_skip _ _ _ _ (by decide)]
      have hq2 : ('<' != q) = true := by rcases hq with rfl | rfl <;> decide
      rw [search_skip_char _ _ _ _ _ hq2]
      exact search_dead _ _ _ hpost (by decide)
    have := no_later _ _ hnone k
    simpa using this

theorem statvDecode_content (idx next : Byte) (data : List Byte) (hl : data.length < 256) :
    statvDecode (statvBytes ++ idx :: next :: UInt8.ofNat data.length :: data) = .ok ⟨idx, next, data⟩ := by
  have : (UInt8.ofNat data.length).toNat = data.length := by simp; omega
  simp [statvDecode, statvBytes, this]

theorem snapshotAlt_segs (line : Text) (s : Snap) : (fire reSnapshotAlt line hSnapshotAlt s).segs = s.segs := by
  unfold fire; split
  · unfold hSnapshotAlt; split <;> rfl
  · rfl

/-- the block expression cannot match a traffic record: its last visible character is not `]` -/
theorem traffic_noBlock (pre post : Text) (pkt : List Byte) (h1 : endsClose post = false) (h2 : post.all isSpace = false) :
    dataLine (trafficLine pre post pkt) = .noMatch := by
  have : reData (trafficLine pre post pkt) = none := by
    apply reData_none_of_open
    unfold trafficLine
    rw [endsClose_append, endsClose_append, h1, List.all_append, h2]; simp
  unfold dataLine; rw [this]

/-- **one record**: `parse` on a STATV record appends its data and, on the final segment, publishes the joined block -/
theorem traffic_parse (s : Snap) (pre post : Text) (src dst : List Byte) (sg : Seg) (hf : FrameOK pre post src dst)
    (hlen : sg.data.length < 256) :
    ∃ s', parseLine s (trafficLine pre post (packet src dst sg)) = .ok s' ∧ s'.segs = s.segs ++ [sg.data] ∧
      (sg.next = 0 → s'.bytes = (s.segs ++ [sg.data]).flatten) := by
  rw [parseLine_split]
  have g1 := snapshotAlt_segs (trafficLine pre post (packet src dst sg)) s
  generalize fire reSnapshotAlt (trafficLine pre post (packet src dst sg)) hSnapshotAlt s = s1 at g1 ⊢
  have g2 := (keeps_mid (trafficLine pre post (packet src dst sg)) s1).2
  generalize midFires (trafficLine pre post (packet src dst sg)) s1 = s2 at g2 ⊢
  have e3 : hData (trafficLine pre post (packet src dst sg)) s2 = .ok s2 := by
    unfold hData; rw [traffic_noBlock _ _ _ hf.postOpen hf.postText]
  rw [e3]
  -- the segment handler
  have hq := quoteOf_cases (packet src dst sg)
  have hlit : litEval (fixQuotes (t!"STATV" ++ escBytes (quoteOf (packet src dst sg))
      (sg.idx :: sg.next :: UInt8.ofNat sg.data.length :: sg.data))) =
      .ok (statvBytes ++ sg.idx :: sg.next :: UInt8.ofNat sg.data.length :: sg.data) := by
    rw [← esc_statv _ hq, ← escBytes_append]
    have := litEval_escBytes _ hq (statvBytes ++ sg.idx :: sg.next :: UInt8.ofNat sg.data.length :: sg.data) []
    rw [List.append_nil] at this
    rw [this]
    simp [litEval, litRun, Except.map]
  simp only [hSegment, statv_search pre post src dst sg hf, hlit, statvDecode_content _ _ _ hlen]
  by_cases hn : sg.next = 0
  · simp [hn, (keeps_post (trafficLine pre post (packet src dst sg)) s2).2, g2, g1]
  · simp [hn, (keeps_post (trafficLine pre post (packet src dst sg)) s2).2, g2, g1]

end GeckoModel.Snapshot
