/-
Soundness of the skeleton analysis (`scan_sound`) and the atomic-section theorem for cooperative schedules (`atomic_sections`).
-/
import GeckoModel.Model.Coop

namespace GeckoModel.Coop

theorem runMon_append (m : Mon) : ∀ (t1 t2 : List Ev) (s : Nat),
    runMon m s (t1 ++ t2) = (runMon m s t1).bind fun s' => runMon m s' t2 := by
  intro t1
  induction t1 with
  | nil => intro t2 s; simp [runMon]
  | cons e t1 ih =>
    intro t2 s
    simp only [List.cons_append, runMon]
    cases h : m s e with
    | none => simp
    | some s' => simpa using ih t2 s'

theorem runMon_append_some {m : Mon} {t1 t2 : List Ev} {s s1 s2 : Nat}
    (h1 : runMon m s t1 = some s1) (h2 : runMon m s1 t2 = some s2) : runMon m s (t1 ++ t2) = some s2 := by
  rw [runMon_append, h1]; simpa using h2

theorem stepAll_mem {m : Mon} {e : Ev} : ∀ {S S' : List Nat}, stepAll m e S = some S' → ∀ s ∈ S, ∃ s', m s e = some s' ∧ s' ∈ S' := by
  intro S
  induction S with
  | nil => intro S' _ s hs; cases hs
  | cons x xs ih =>
    intro S' h s hs
    simp only [stepAll] at h
    cases hx : m x e with
    | none => simp [hx] at h
    | some x' =>
      cases hr : stepAll m e xs with
      | none => simp [hx, hr] at h
      | some r =>
        simp only [hx, hr, Option.some.injEq] at h
        subst h
        rcases List.mem_cons.mp hs with rfl | hs'
        · exact ⟨x', hx, by simp⟩
        · obtain ⟨s', h1, h2⟩ := ih hr s hs'
          exact ⟨s', h1, by simp [h2]⟩

theorem subset_mem {a b : List Nat} (h : subset a b = true) {x : Nat} (hx : x ∈ a) : x ∈ b := by
  simp only [subset, List.all_eq_true] at h
  simpa using h x hx

theorem growInv_superset (body : List Nat → Option Res) : ∀ (n : Nat) (I : List Nat) (x : Nat), x ∈ I → x ∈ growInv body n I := by
  intro n
  induction n with
  | zero => intro I x hx; simpa [growInv] using hx
  | succ n ih =>
    intro I x hx
    simp only [growInv]
    cases body I with
    | none => simpa using hx
    | some r => exact ih _ x (by simp [hx])

/-- the statement proved for every skeleton -/
def Sound (m : Mon) (fuel : Nat) (sk : Sk) : Prop :=
  ∀ (S : List Nat) (r : Res), scan m fuel sk S = some r →
    ∀ s ∈ S, ∀ t o, Run sk t o → ∃ s', runMon m s t = some s' ∧ s' ∈ r.get o

theorem sound_loop (m : Mon) (fuel : Nat) (body : Sk) (ih : Sound m fuel body) : Sound m fuel (.loop body) := by
  intro S r h s hs t o hrun
  simp only [scan] at h
  generalize hI : growInv (scan m fuel body) fuel S = I at h
  cases hb : scan m fuel body I with
  | none => simp [hb] at h
  | some rb =>
    simp only [hb] at h
    by_cases hsub : subset (rb.fall ++ rb.cont) I = true
    · simp only [hsub, if_true, Option.some.injEq] at h
      subst h
      have hsI : s ∈ I := by rw [← hI]; exact growInv_superset _ _ _ _ hs
      -- inner induction over the unrolling of the loop, for every start state of the invariant
      have key : ∀ (l : Sk) t o, Run l t o → l = .loop body → ∀ s ∈ I,
          ∃ s', runMon m s t = some s' ∧ s' ∈ ({ fall := I ++ rb.brk, ret := rb.ret, exc := rb.exc } : Res).get o := by
        intro l t o hr
        induction hr with
        | loopDone => intro _ s hs; exact ⟨s, by simp [runMon], by simp [Res.get, hs]⟩
        | @loopFall b t1 t2 o h1 _ _ ih2 =>
          intro hl s hs
          cases hl
          obtain ⟨s1, hr1, hm1⟩ := ih I rb hb s hs t1 .fall h1
          have : s1 ∈ I := subset_mem hsub (by simp [Res.get] at hm1; simp [hm1])
          obtain ⟨s2, hr2, hm2⟩ := ih2 rfl s1 this
          exact ⟨s2, runMon_append_some hr1 hr2, hm2⟩
        | @loopCont b t1 t2 o h1 _ _ ih2 =>
          intro hl s hs
          cases hl
          obtain ⟨s1, hr1, hm1⟩ := ih I rb hb s hs t1 .cont h1
          have : s1 ∈ I := subset_mem hsub (by simp [Res.get] at hm1; simp [hm1])
          obtain ⟨s2, hr2, hm2⟩ := ih2 rfl s1 this
          exact ⟨s2, runMon_append_some hr1 hr2, hm2⟩
        | @loopBrk b t h1 _ =>
          intro hl s hs
          cases hl
          obtain ⟨s1, hr1, hm1⟩ := ih I rb hb s hs t .brk h1
          exact ⟨s1, hr1, by simp [Res.get] at hm1 ⊢; simp [hm1]⟩
        | @loopRet b t h1 _ =>
          intro hl s hs
          cases hl
          obtain ⟨s1, hr1, hm1⟩ := ih I rb hb s hs t .ret h1
          exact ⟨s1, hr1, by simpa [Res.get] using hm1⟩
        | @loopExc b t h1 _ =>
          intro hl s hs
          cases hl
          obtain ⟨s1, hr1, hm1⟩ := ih I rb hb s hs t .exc h1
          exact ⟨s1, hr1, by simpa [Res.get] using hm1⟩
        | _ => intro hl; cases hl
      exact key _ t o hrun rfl s hsI
    · simp [hsub] at h

theorem scan_sound (m : Mon) (fuel : Nat) : ∀ sk : Sk, Sound m fuel sk := by
  intro sk
  induction sk with
  | ev e =>
    intro S r h s hs t o hrun
    simp only [scan] at h
    cases hst : stepAll m e S with
    | none => simp [hst] at h
    | some S' =>
      simp only [hst, Option.some.injEq] at h
      subst h
      obtain ⟨s', h1, h2⟩ := stepAll_mem hst s hs
      cases hrun with
      | ev => exact ⟨s', by simp [runMon, h1], by simpa [Res.get] using h2⟩
      | awRaise n => exact ⟨s', by simp [runMon, h1], by simpa [Res.get, Ev.isAw] using h2⟩
  | skip =>
    intro S r h s hs t o hrun
    simp only [scan, Option.some.injEq] at h
    subst h
    cases hrun
    exact ⟨s, by simp [runMon], by simpa [Res.get] using hs⟩
  | seq a b iha ihb =>
    intro S r h s hs t o hrun
    simp only [scan] at h
    cases ha : scan m fuel a S with
    | none => simp [ha] at h
    | some ra =>
      cases hb : scan m fuel b ra.fall with
      | none => simp [ha, hb] at h
      | some rb =>
        simp only [ha, hb, Option.some.injEq] at h
        subst h
        cases hrun with
        | @seqFall _ _ t1 t2 _ h1 h2 =>
          obtain ⟨s1, hr1, hm1⟩ := iha S ra ha s hs t1 .fall h1
          obtain ⟨s2, hr2, hm2⟩ := ihb ra.fall rb hb s1 (by simpa [Res.get] using hm1) t2 o h2
          refine ⟨s2, runMon_append_some hr1 hr2, ?_⟩
          cases o <;> simp [Res.get] at hm2 ⊢ <;> simp [hm2]
        | @seqStop _ _ _ _ h1 hne =>
          obtain ⟨s1, hr1, hm1⟩ := iha S ra ha s hs t o h1
          refine ⟨s1, hr1, ?_⟩
          cases o <;> simp [Res.get] at hm1 hne ⊢ <;> simp [hm1]
  | alt a b iha ihb =>
    intro S r h s hs t o hrun
    simp only [scan] at h
    cases ha : scan m fuel a S with
    | none => simp [ha] at h
    | some ra =>
      cases hb : scan m fuel b S with
      | none => simp [ha, hb] at h
      | some rb =>
        simp only [ha, hb, Option.some.injEq] at h
        subst h
        cases hrun with
        | altL h1 =>
          obtain ⟨s1, hr1, hm1⟩ := iha S ra ha s hs t o h1
          exact ⟨s1, hr1, by cases o <;> simp [Res.get, Res.union] at hm1 ⊢ <;> simp [hm1]⟩
        | altR h1 =>
          obtain ⟨s1, hr1, hm1⟩ := ihb S rb hb s hs t o h1
          exact ⟨s1, hr1, by cases o <;> simp [Res.get, Res.union] at hm1 ⊢ <;> simp [hm1]⟩
  | loop body ih => exact sound_loop m fuel body ih
  | exit =>
    intro S r h s hs t o hrun
    simp only [scan, Option.some.injEq] at h
    subst h
    cases hrun
    exact ⟨s, by simp [runMon], by simpa [Res.get] using hs⟩
  | brk =>
    intro S r h s hs t o hrun
    simp only [scan, Option.some.injEq] at h
    subst h
    cases hrun
    exact ⟨s, by simp [runMon], by simpa [Res.get] using hs⟩
  | cont =>
    intro S r h s hs t o hrun
    simp only [scan, Option.some.injEq] at h
    subst h
    cases hrun
    exact ⟨s, by simp [runMon], by simpa [Res.get] using hs⟩
  | raise =>
    intro S r h s hs t o hrun
    simp only [scan, Option.some.injEq] at h
    subst h
    cases hrun
    exact ⟨s, by simp [runMon], by simpa [Res.get] using hs⟩
  | fin body f ihb ihf =>
    intro S r h s hs t o hrun
    simp only [scan] at h
    cases hb : scan m fuel body S with
    | none => simp [hb] at h
    | some rb =>
      simp only [hb] at h
      cases h1 : scan m fuel f rb.fall with
      | none => simp [h1] at h
      | some f1 =>
      cases h2 : scan m fuel f rb.brk with
      | none => simp [h1, h2] at h
      | some f2 =>
      cases h3 : scan m fuel f rb.cont with
      | none => simp [h1, h2, h3] at h
      | some f3 =>
      cases h4 : scan m fuel f rb.ret with
      | none => simp [h1, h2, h3, h4] at h
      | some f4 =>
      cases h5 : scan m fuel f rb.exc with
      | none => simp [h1, h2, h3, h4, h5] at h
      | some f5 =>
        simp only [h1, h2, h3, h4, h5, Option.some.injEq] at h
        subst h
        cases hrun with
        | @finFall _ _ t1 t2 _ hr1 hr2 =>
          obtain ⟨s1, hm1, hin1⟩ := ihb S rb hb s hs t1 o hr1
          cases o with
          | fall =>
            obtain ⟨s2, hm2, hin2⟩ := ihf rb.fall f1 h1 s1 (by simpa [Res.get] using hin1) t2 .fall hr2
            exact ⟨s2, runMon_append_some hm1 hm2, by simpa [Res.get] using hin2⟩
          | brk =>
            obtain ⟨s2, hm2, hin2⟩ := ihf rb.brk f2 h2 s1 (by simpa [Res.get] using hin1) t2 .fall hr2
            exact ⟨s2, runMon_append_some hm1 hm2, by simp [Res.get] at hin2 ⊢; simp [hin2]⟩
          | cont =>
            obtain ⟨s2, hm2, hin2⟩ := ihf rb.cont f3 h3 s1 (by simpa [Res.get] using hin1) t2 .fall hr2
            exact ⟨s2, runMon_append_some hm1 hm2, by simp [Res.get] at hin2 ⊢; simp [hin2]⟩
          | ret =>
            obtain ⟨s2, hm2, hin2⟩ := ihf rb.ret f4 h4 s1 (by simpa [Res.get] using hin1) t2 .fall hr2
            exact ⟨s2, runMon_append_some hm1 hm2, by simp [Res.get] at hin2 ⊢; simp [hin2]⟩
          | exc =>
            obtain ⟨s2, hm2, hin2⟩ := ihf rb.exc f5 h5 s1 (by simpa [Res.get] using hin1) t2 .fall hr2
            exact ⟨s2, runMon_append_some hm1 hm2, by simp [Res.get] at hin2 ⊢; simp [hin2]⟩
        | @finStop _ _ t1 t2 o1 _ hr1 hr2 hne =>
          obtain ⟨s1, hm1, hin1⟩ := ihb S rb hb s hs t1 o1 hr1
          -- whichever way the body ended, the finally block was analysed from that set
          have hf : ∃ fk, scan m fuel f (rb.get o1) = some fk ∧ fk ∈ [f1, f2, f3, f4, f5] := by
            cases o1 <;> simp [Res.get, h1, h2, h3, h4, h5]
          obtain ⟨fk, hfk, hmem⟩ := hf
          obtain ⟨s2, hm2, hin2⟩ := ihf (rb.get o1) fk hfk s1 hin1 t2 o hr2
          refine ⟨s2, runMon_append_some hm1 hm2, ?_⟩
          cases o with
          | fall => exact absurd rfl hne
          | brk => simp only [Res.get, List.mem_append, List.mem_flatMap]; exact Or.inr ⟨fk, hmem, by simpa [Res.get] using hin2⟩
          | cont => simp only [Res.get, List.mem_append, List.mem_flatMap]; exact Or.inr ⟨fk, hmem, by simpa [Res.get] using hin2⟩
          | ret => simp only [Res.get, List.mem_append, List.mem_flatMap]; exact Or.inr ⟨fk, hmem, by simpa [Res.get] using hin2⟩
          | exc => simp only [Res.get, List.mem_append, List.mem_flatMap]; exact Or.inr ⟨fk, hmem, by simpa [Res.get] using hin2⟩
  | tryExc body h ihb ihh =>
    intro S r hh s hs t o hrun
    simp only [scan] at hh
    cases hb : scan m fuel body S with
    | none => simp [hb] at hh
    | some rb =>
      cases hx : scan m fuel h rb.exc with
      | none => simp [hb, hx] at hh
      | some rh =>
        simp only [hb, hx, Option.some.injEq] at hh
        subst hh
        cases hrun with
        | tryOk h1 hne =>
          obtain ⟨s1, hm1, hin1⟩ := ihb S rb hb s hs t o h1
          exact ⟨s1, hm1, by cases o <;> simp [Res.get] at hin1 hne ⊢ <;> simp [hin1]⟩
        | @tryCaught _ _ t1 t2 _ h1 h2 =>
          obtain ⟨s1, hm1, hin1⟩ := ihb S rb hb s hs t1 .exc h1
          obtain ⟨s2, hm2, hin2⟩ := ihh rb.exc rh hx s1 (by simpa [Res.get] using hin1) t2 o h2
          exact ⟨s2, runMon_append_some hm1 hm2, by cases o <;> simp [Res.get] at hin2 ⊢ <;> simp [hin2]⟩
        | tryUncaught h1 =>
          obtain ⟨s1, hm1, hin1⟩ := ihb S rb hb s hs t .exc h1
          exact ⟨s1, hm1, by simp [Res.get] at hin1 ⊢; simp [hin1]⟩

/-- a skeleton without suspension points emits no suspension event: under asyncio the whole call is ONE atomic block -/
theorem no_suspension_no_aw : ∀ (sk : Sk) (t : List Ev) (o : Out), Run sk t o → suspensions sk = 0 → ∀ e ∈ t, e.isAw = false := by
  intro sk t o h
  induction h with
  | ev e => intro h0 x hx; simp at hx; subst hx; cases x <;> simp_all [suspensions, Ev.isAw]
  | awRaise n => intro h0; simp [suspensions] at h0
  | seqFall _ _ ih1 ih2 =>
    intro h0 x hx
    simp only [suspensions, Nat.add_eq_zero_iff] at h0
    rcases List.mem_append.mp hx with h | h
    · exact ih1 h0.1 x h
    · exact ih2 h0.2 x h
  | seqStop _ _ ih1 => intro h0 x hx; simp only [suspensions, Nat.add_eq_zero_iff] at h0; exact ih1 h0.1 x hx
  | altL _ ih => intro h0 x hx; simp only [suspensions, Nat.add_eq_zero_iff] at h0; exact ih h0.1 x hx
  | altR _ ih => intro h0 x hx; simp only [suspensions, Nat.add_eq_zero_iff] at h0; exact ih h0.2 x hx
  | loopDone => intro _ x hx; cases hx
  | loopFall _ _ ih1 ih2 =>
    intro h0 x hx
    rcases List.mem_append.mp hx with h | h
    · exact ih1 (by simpa [suspensions] using h0) x h
    · exact ih2 h0 x h
  | loopCont _ _ ih1 ih2 =>
    intro h0 x hx
    rcases List.mem_append.mp hx with h | h
    · exact ih1 (by simpa [suspensions] using h0) x h
    · exact ih2 h0 x h
  | loopBrk _ ih => intro h0 x hx; exact ih (by simpa [suspensions] using h0) x hx
  | loopRet _ ih => intro h0 x hx; exact ih (by simpa [suspensions] using h0) x hx
  | loopExc _ ih => intro h0 x hx; exact ih (by simpa [suspensions] using h0) x hx
  | exit => intro _ x hx; cases hx
  | brk => intro _ x hx; cases hx
  | cont => intro _ x hx; cases hx
  | raise => intro _ x hx; cases hx
  | skip => intro _ x hx; cases hx
  | finFall _ _ ih1 ih2 =>
    intro h0 x hx
    simp only [suspensions, Nat.add_eq_zero_iff] at h0
    rcases List.mem_append.mp hx with h | h
    · exact ih1 h0.1 x h
    · exact ih2 h0.2 x h
  | finStop _ _ _ ih1 ih2 =>
    intro h0 x hx
    simp only [suspensions, Nat.add_eq_zero_iff] at h0
    rcases List.mem_append.mp hx with h | h
    · exact ih1 h0.1 x h
    · exact ih2 h0.2 x h
  | tryOk _ _ ih => intro h0 x hx; simp only [suspensions, Nat.add_eq_zero_iff] at h0; exact ih h0.1 x hx
  | tryCaught _ _ ih1 ih2 =>
    intro h0 x hx
    simp only [suspensions, Nat.add_eq_zero_iff] at h0
    rcases List.mem_append.mp hx with h | h
    · exact ih1 h0.1 x h
    · exact ih2 h0.2 x h
  | tryUncaught _ ih => intro h0 x hx; simp only [suspensions, Nat.add_eq_zero_iff] at h0; exact ih h0.1 x hx

/-- if the analysis succeeds from one start state, the monitor accepts every trace of the skeleton -/
theorem scan_accepts (m : Mon) (fuel : Nat) (sk : Sk) (s0 : Nat) (h : (scan m fuel sk [s0]).isSome = true)
    (t : List Ev) (o : Out) (hrun : Run sk t o) : (runMon m s0 t).isSome = true := by
  cases hs : scan m fuel sk [s0] with
  | none => simp [hs] at h
  | some r =>
    obtain ⟨s', hm, _⟩ := scan_sound m fuel sk [s0] r hs s0 (by simp) t o hrun
    simp [hm]

/-- **every trace of a skeleton that passes `releasedOnEveryExit` ends without the resource**: however it ends - return, an
exception, a cancellation delivered at any await - the monitor is in state 0 (released / never obtained) or 2 (the acquiring
await itself did not return) -/
theorem releasedOnEveryExit_sound (acquire release : Ev → Bool) (sk : Sk) (h : releasedOnEveryExit acquire release sk = true)
    (t : List Ev) (o : Out) (hrun : Run sk t o) :
    ∃ s, runMon (resourceMon acquire release) 0 t = some s ∧ (s = 0 ∨ s = 2) := by
  unfold releasedOnEveryExit at h
  cases hs : scan (resourceMon acquire release) 4 sk [0] with
  | none => simp [hs] at h
  | some r =>
    simp only [hs] at h
    obtain ⟨s', hm, hin⟩ := scan_sound (resourceMon acquire release) 4 sk [0] r hs 0 (by simp) t o hrun
    have hmem : s' ∈ r.fall ++ r.brk ++ r.cont ++ r.ret ++ r.exc := by
      cases o <;> simp [Res.get] at hin <;> simp [hin]
    have := List.all_eq_true.mp h s' hmem
    exact ⟨s', hm, by simpa using this⟩

/-! ### from the analysis to local traces -/

/-- the section monitor accepts a trace from state `b` and ends outside iff `secOK` says so -/
theorem secOK_of_runMon (opens closes : A → Bool) : ∀ (t : List Ev) (b : Bool),
    runMon (secMon opens closes) (if b then 1 else 0) t = some 0 → secOK opens closes b t = true := by
  intro t
  induction t with
  | nil => intro b h; cases b <;> simp [runMon, secOK] at h ⊢
  | cons e t ih =>
    intro b h
    cases e with
    | aw n =>
      cases b with
      | true => simp [runMon, secMon] at h
      | false =>
        simp only [runMon, secMon] at h
        simp only [secOK, Bool.not_false, Bool.true_and]
        exact ih false (by simpa using h)
    | act n =>
      simp only [runMon, secMon] at h
      simp only [secOK, secNext]
      by_cases hc : closes n = true
      · simp only [hc, if_true] at h ⊢
        exact ih false (by simpa using h)
      · by_cases ho : opens n = true
        · simp only [hc, ho, if_true] at h ⊢
          exact ih true (by simpa using h)
        · simp only [hc, ho] at h ⊢
          exact ih b (by simpa using h)

/-- **every trace of a skeleton that passes `sectionsAtomic` is accepted**: no suspension inside a section, none left open -/
theorem sectionsAtomic_sound (opens closes : A → Bool) (sk : Sk) (h : sectionsAtomic opens closes sk = true)
    (t : List Ev) (o : Out) (hrun : Run sk t o) : secOK opens closes false t = true := by
  unfold sectionsAtomic at h
  cases hs : scan (secMon opens closes) 4 sk [0] with
  | none => simp [hs] at h
  | some r =>
    simp only [hs] at h
    obtain ⟨s', hm, hin⟩ := scan_sound (secMon opens closes) 4 sk [0] r hs 0 (by simp) t o hrun
    have h0 : s' = 0 := by
      have : s' ∈ r.fall ++ r.brk ++ r.cont ++ r.ret ++ r.exc := by
        cases o <;> simp [Res.get] at hin <;> simp [hin]
      simpa using subset_mem h this
    subst h0
    exact secOK_of_runMon opens closes t false (by simpa using hm)

/-! ### atomic sections under every cooperative schedule -/

theorem atomic_sections_aux (opens closes : A → Bool) : ∀ (cur : Option Nat) (rem : Nat → List Ev) (g : List (Nat × Ev)),
    Sched cur rem g → ∀ ins : Nat → Bool, (∀ j, secOK opens closes (ins j) (rem j) = true) → (∀ j, ins j = true → cur = some j) →
    GlobalOK opens closes ins g := by
  intro cur rem g hs
  induction hs with
  | done => intro _ _ _; trivial
  | @stepAct cur rem i n rest g hrem hcur _ ih =>
    intro ins hA hB
    have hothers : ∀ j, j ≠ i → ins j = false := by
      intro j hj
      cases hj' : ins j with
      | false => rfl
      | true =>
        have := hB j hj'
        rcases hcur with h | h
        · rw [h] at this; cases this
        · rw [h] at this; cases this; exact absurd rfl hj
    refine ⟨hothers, ih _ ?_ ?_⟩
    · intro j
      by_cases hj : j = i
      · subst hj
        have := hA j
        rw [hrem] at this
        simpa [upd, secOK] using this
      · simpa [upd, hj] using hA j
    · intro j hj
      by_cases hji : j = i
      · rw [hji]
      · simp [upd, hji, hothers j hji] at hj
  | @stepAw cur rem i n rest g hrem hcur _ ih =>
    intro ins hA hB
    have hothers : ∀ j, j ≠ i → ins j = false := by
      intro j hj
      cases hj' : ins j with
      | false => rfl
      | true =>
        have := hB j hj'
        rcases hcur with h | h
        · rw [h] at this; cases this
        · rw [h] at this; cases this; exact absurd rfl hj
    have hi : ins i = false ∧ secOK opens closes false rest = true := by
      have := hA i
      rw [hrem] at this
      simpa [secOK] using this
    refine ⟨hothers, ih _ ?_ ?_⟩
    · intro j
      by_cases hj : j = i
      · subst hj; simpa [upd, secNext, hi.1] using hi.2
      · simpa [upd, hj] using hA j
    · intro j hj
      by_cases hji : j = i
      · subst hji; simp [upd, secNext, hi.1] at hj
      · simp [upd, hji, hothers j hji] at hj
  | @finish rem i g hrem _ ih =>
    intro ins hA hB
    refine ih ins hA ?_
    intro j hj
    have hji : j = i := by
      have := hB j hj
      cases this; rfl
    subst hji
    have := hA j
    rw [hrem] at this
    simp [secOK, hj] at this

/-- **atomic sections**: tasks whose local traces never suspend inside a section (and never end inside one) are scheduled by
an adversary that may switch only at suspension points; then, in EVERY global schedule, while a task is inside its section no
other task emits any event -/
theorem atomic_sections (opens closes : A → Bool) (locals : Nat → List Ev)
    (hloc : ∀ j, secOK opens closes false (locals j) = true) (g : List (Nat × Ev)) (hs : Sched none locals g) :
    GlobalOK opens closes (fun _ => false) g :=
  atomic_sections_aux opens closes none locals g hs (fun _ => false) hloc (by intro j h; cases h)

/-- … in particular when every task runs (a trace of) a skeleton that passes the static analysis -/
theorem coop_atomic (opens closes : A → Bool) (sks : Nat → Sk) (hscan : ∀ j, sectionsAtomic opens closes (sks j) = true)
    (locals : Nat → List Ev) (hrun : ∀ j, ∃ o, Run (sks j) (locals j) o) (g : List (Nat × Ev)) (hs : Sched none locals g) :
    GlobalOK opens closes (fun _ => false) g :=
  atomic_sections opens closes locals
    (fun j => by obtain ⟨o, ho⟩ := hrun j; exact sectionsAtomic_sound opens closes (sks j) (hscan j) _ o ho) g hs

/-- every cooperative schedule is in particular an interleaving (so `lock_mutex` below also speaks about the event loop) -/
theorem sched_is_inter : ∀ (cur : Option Nat) (rem : Nat → List Ev) (g : List (Nat × Ev)), Sched cur rem g → Inter rem g := by
  intro cur rem g h
  induction h with
  | done => exact .done
  | stepAct hrem _ _ ih => exact .step hrem ih
  | stepAw hrem _ _ ih => exact .step hrem ih
  | finish _ _ ih => exact ih

/-! ### mutual exclusion from the lock shape -/

theorem lock_mutex_aux (acq rel inner : A → Bool) : ∀ (rem : Nat → List Ev) (g : List (Nat × Ev)), Inter rem g →
    ∀ (st : Nat → Nat) (h : Option Nat),
      (∀ j, (runMon (heldMon acq rel inner) (st j) (rem j)).isSome = true) → (∀ j, st j = 1 → h = some j) →
      LockRespecting acq rel h g → InnerByHolder acq rel inner h g := by
  intro rem g hi
  induction hi with
  | done => intro _ _ _ _ _; trivial
  | @step rem i e rest g hrem _ ih =>
    intro st h hacc hinv hlock
    have hi' := hacc i
    rw [hrem] at hi'
    cases e with
    | aw n =>
      simp only [LockRespecting] at hlock
      simp only [InnerByHolder]
      refine ih st h ?_ hinv hlock
      intro j
      by_cases hj : j = i
      · subst hj; simpa [upd, runMon, heldMon] using hi'
      · simpa [upd, hj] using hacc j
    | act a =>
      simp only [LockRespecting] at hlock
      simp only [InnerByHolder]
      cases ha : acq a with
      | true =>
        simp only [ha, if_true] at hlock ⊢
        obtain ⟨hnone, hlock'⟩ := hlock
        refine ih (upd st i 1) (some i) ?_ ?_ hlock'
        · intro j
          by_cases hj : j = i
          · subst hj; simpa [upd, runMon, heldMon, ha] using hi'
          · simpa [upd, hj] using hacc j
        · intro j hj
          by_cases hji : j = i
          · rw [hji]
          · have := hinv j (by simpa [upd, hji] using hj)
            rw [hnone] at this; cases this
      | false =>
        cases hr : rel a with
        | true =>
          simp only [ha, hr, if_true, Bool.false_eq_true, if_false] at hlock ⊢
          refine ih (upd st i 0) _ ?_ ?_ hlock
          · intro j
            by_cases hj : j = i
            · subst hj; simpa [upd, runMon, heldMon, ha, hr] using hi'
            · simpa [upd, hj] using hacc j
          · intro j hj
            by_cases hji : j = i
            · subst hji; simp [upd] at hj
            · have hh := hinv j (by simpa [upd, hji] using hj)
              have hne : h ≠ some i := by
                rw [hh]; intro hc; exact hji (Option.some.inj hc)
              simp only [hne, if_false]; exact hh
        | false =>
          simp only [ha, hr, Bool.false_eq_true, if_false] at hlock ⊢
          cases hin : inner a with
          | true =>
            -- the local monitor accepted an inner action: this task holds
            have hsti : st i = 1 := by
              simp only [runMon, heldMon, ha, hr, hin, Bool.false_eq_true, if_false, if_true] at hi'
              by_cases h1 : (st i == 1) = true
              · simpa using h1
              · simp [h1] at hi'
            refine ⟨fun _ => hinv i hsti, ih st h ?_ hinv hlock⟩
            intro j
            by_cases hj : j = i
            · subst hj
              have h1 : (st j == 1) = true := by simp [hsti]
              simpa [upd, runMon, heldMon, ha, hr, hin, h1] using hi'
            · simpa [upd, hj] using hacc j
          | false =>
            refine ⟨fun hc => (by cases hc), ih st h ?_ hinv hlock⟩
            intro j
            by_cases hj : j = i
            · subst hj; simpa [upd, runMon, heldMon, ha, hr, hin] using hi'
            · simpa [upd, hj] using hacc j

/-- **mutual exclusion from the lock shape**: tasks whose local traces emit `inner` actions only between their own `acq` and `rel`
(the `heldMon` monitor accepts them), interleaved in ANY way that respects the lock (an `acq` only while nobody holds it): every
`inner` action in the global trace is emitted by the task that holds the lock at that moment -/
theorem lock_mutex (acq rel inner : A → Bool) (locals : Nat → List Ev)
    (hloc : ∀ j, (runMon (heldMon acq rel inner) 0 (locals j)).isSome = true) (g : List (Nat × Ev)) (hi : Inter locals g)
    (hl : LockRespecting acq rel none g) : InnerByHolder acq rel inner none g :=
  lock_mutex_aux acq rel inner locals g hi (fun _ => 0) none hloc (by intro j h; cases h) hl

/-- … in particular when every task runs a skeleton that passes `alwaysHeld` -/
theorem lock_mutex_of_skeletons (acq rel inner : A → Bool) (sks : Nat → Sk) (hs : ∀ j, alwaysHeld acq rel inner (sks j) = true)
    (locals : Nat → List Ev) (hrun : ∀ j, ∃ o, Run (sks j) (locals j) o) (g : List (Nat × Ev)) (hi : Inter locals g)
    (hl : LockRespecting acq rel none g) : InnerByHolder acq rel inner none g :=
  lock_mutex acq rel inner locals
    (fun j => by obtain ⟨o, ho⟩ := hrun j; exact scan_accepts _ 4 (sks j) 0 (hs j) _ o ho) g hi hl

/-! ### "every normal end has done it" -/

theorem runMon_didMon (p : A → Bool) : ∀ (t : List Ev) (s s' : Nat), runMon (didMon p) s t = some s' → s' = 1 →
    s = 1 ∨ ∃ a, Ev.act a ∈ t ∧ p a = true := by
  intro t
  induction t with
  | nil => intro s s' h h1; simp [runMon] at h; left; omega
  | cons e t ih =>
    intro s s' h h1
    cases e with
    | aw n =>
      simp only [runMon, didMon] at h
      rcases ih s s' h h1 with h2 | ⟨a, ha, hp⟩
      · left; exact h2
      · right; exact ⟨a, List.mem_cons_of_mem _ ha, hp⟩
    | act a =>
      simp only [runMon, didMon] at h
      by_cases hp : p a = true
      · right; exact ⟨a, List.mem_cons_self, hp⟩
      · simp only [hp] at h
        rcases ih s s' h h1 with h2 | ⟨a', ha, hp'⟩
        · left; exact h2
        · right; exact ⟨a', List.mem_cons_of_mem _ ha, hp'⟩

theorem everyNormalEndDid_sound {p : A → Bool} {sk : Sk} (h : everyNormalEndDid p sk = true)
    {t : List Ev} {o : Out} (hr : Run sk t o) (ho : o = .fall ∨ o = .ret) : ∃ a, Ev.act a ∈ t ∧ p a = true := by
  unfold everyNormalEndDid at h
  cases hs : scan (didMon p) 4 sk [0] with
  | none => simp [hs] at h
  | some r =>
    simp only [hs, List.all_eq_true, List.mem_append] at h
    obtain ⟨s', h1, h2⟩ := scan_sound (didMon p) 4 sk [0] r hs 0 (by simp) t o hr
    have hs1 : s' = 1 := by
      rcases ho with ho | ho <;> subst ho
      · simpa using h s' (Or.inl h2)
      · simpa using h s' (Or.inr h2)
    rcases runMon_didMon p t 0 s' h1 hs1 with h0 | hex
    · omega
    · exact hex

/-! ### "only under both guards" -/

theorem onlyUnderBothGuards_sound {reset g1 g2 guarded : Ev → Bool} {sk : Sk} (h : onlyUnderBothGuards reset g1 g2 guarded sk = true)
    {t : List Ev} {o : Out} (hr : Run sk t o) : (runMon (guardMon reset g1 g2 guarded) 0 t).isSome = true := by
  unfold onlyUnderBothGuards at h
  cases hs : scan (guardMon reset g1 g2 guarded) 4 sk [0] with
  | none => simp [hs] at h
  | some r =>
    obtain ⟨s', h1, _⟩ := scan_sound _ 4 sk [0] r hs 0 (by simp) t o hr
    simp [h1]

end GeckoModel.Coop
