/-
Helper lemmas for the concurrent-callers clause of C16: with the program `[acquire, read, write, release]`
every schedule of every family of threads is a serialisation of the calls.
-/
import GeckoModel.Model.SeqThreads

namespace GeckoModel.SeqThreads
open GeckoModel.Generated

theorem seqResults_append (next : Next) : ∀ (cs : List Bool) (s : SeqState) (c : Bool),
    seqResults next s (cs ++ [c]) = seqResults next s cs ++ [(c, (next (seqState next s cs) c).2)] := by
  intro cs
  induction cs with
  | nil => intro s c; simp [seqResults, seqState]
  | cons d ds ih => intro s c; simp [seqResults, seqState, ih]

theorem seqState_append (next : Next) : ∀ (cs : List Bool) (s : SeqState) (c : Bool),
    seqState next s (cs ++ [c]) = (next (seqState next s cs) c).1 := by
  intro cs
  induction cs with
  | nil => intro s c; simp [seqState]
  | cons d ds ih => intro s c; simp [seqState, ih]

/-- the locked program, as a literal -/
def lockedProg : List MicroOp := [.acquire, .read, .write, .release]

/-- the invariant of the locked program -/
structure LInv (next : Next) (init : SeqState) (s : Sys) : Prop where
  log_ok    : s.log = seqResults next init (s.log.map (·.1))
  shared_ok : s.shared = seqState next init (s.log.map (·.1))
  pc_lt     : ∀ i, (s.thrs i).pc < 4
  holds     : ∀ i, (s.thrs i).pc ≠ 0 → s.holder = some i
  snap_ok   : ∀ i, (s.thrs i).pc = 2 → (s.thrs i).snap = s.shared

theorem linv_init (next : Next) (init : SeqState) (calls : Nat → List Bool) : LInv next init (initSys init calls) := by
  constructor <;> simp [initSys, seqResults, seqState]

theorem setThr_same (f : Nat → Thr) (i : Nat) (t : Thr) : setThr f i t i = t := by simp [setThr]
theorem setThr_other (f : Nat → Thr) (i j : Nat) (t : Thr) (h : j ≠ i) : setThr f i t j = f j := by simp [setThr, h]

theorem linv_step (next : Next) (init : SeqState) (s : Sys) (i : Nat) (h : LInv next init s) :
    LInv next init (step next lockedProg s i) := by
  cases htodo : (s.thrs i).todo with
  | nil =>
    have hs : step next lockedProg s i = s := by simp [step, htodo]
    rw [hs]; exact h
  | cons k rest =>
    have hlt := h.pc_lt i
    -- case analysis on the program counter of thread i
    have hpc : (s.thrs i).pc = 0 ∨ (s.thrs i).pc = 1 ∨ (s.thrs i).pc = 2 ∨ (s.thrs i).pc = 3 := by omega
    rcases hpc with h0 | h1 | h2 | h3
    · -- acquire
      cases hh : s.holder with
      | some j =>
        have hs : step next lockedProg s i = s := by simp [step, htodo, h0, lockedProg, hh]
        rw [hs]; exact h
      | none =>
        have hs : step next lockedProg s i =
            { s with holder := some i, thrs := setThr s.thrs i (advance lockedProg (s.thrs i)) } := by
          simp [step, htodo, h0, lockedProg, hh]
        rw [hs]
        have others : ∀ j, (s.thrs j).pc = 0 := by
          intro j
          by_cases hj : (s.thrs j).pc = 0
          · exact hj
          · have := h.holds j hj; rw [hh] at this; cases this
        constructor
        · exact h.log_ok
        · exact h.shared_ok
        · intro j
          by_cases hji : j = i
          · subst hji; simp [setThr, advance, h0, lockedProg]
          · simp only [setThr, hji, if_false]; exact h.pc_lt j
        · intro j hj
          by_cases hji : j = i
          · subst hji; rfl
          · simp only [setThr, hji, if_false] at hj; exact absurd (others j) hj
        · intro j hj
          by_cases hji : j = i
          · subst hji; simp [setThr, advance, h0, lockedProg] at hj
          · simp only [setThr, hji, if_false] at hj; have := others j; omega
    · -- read
      have hs : step next lockedProg s i =
          { s with thrs := setThr s.thrs i (advance lockedProg { (s.thrs i) with snap := s.shared }) } := by
        simp [step, htodo, h1, lockedProg]
      rw [hs]
      have hi := h.holds i (by omega)
      constructor
      · exact h.log_ok
      · exact h.shared_ok
      · intro j
        by_cases hji : j = i
        · subst hji; simp [setThr, advance, h1, lockedProg]
        · simp only [setThr, hji, if_false]; exact h.pc_lt j
      · intro j hj
        by_cases hji : j = i
        · subst hji; exact hi
        · simp only [setThr, hji, if_false] at hj; exact h.holds j hj
      · intro j hj
        by_cases hji : j = i
        · subst hji; simp [setThr, advance, h1, lockedProg]
        · simp only [setThr, hji, if_false] at hj ⊢
          have := h.holds j (by omega); rw [hi] at this
          exact absurd (Option.some.inj this).symm hji
    · -- write
      have hs : step next lockedProg s i =
          { s with shared := (next (s.thrs i).snap k).1, log := s.log ++ [(k, (next (s.thrs i).snap k).2)],
                   thrs := setThr s.thrs i (advance lockedProg (s.thrs i)) } := by
        simp [step, htodo, h2, lockedProg]
      rw [hs]
      have hi := h.holds i (by omega)
      have hsnap := h.snap_ok i h2
      constructor
      · show s.log ++ [(k, (next (s.thrs i).snap k).2)] = _
        rw [List.map_append, List.map_cons, List.map_nil, seqResults_append, ← h.shared_ok, ← h.log_ok, hsnap]
      · show (next (s.thrs i).snap k).1 = _
        rw [List.map_append, List.map_cons, List.map_nil, seqState_append, ← h.shared_ok, hsnap]
      · intro j
        by_cases hji : j = i
        · subst hji; simp [setThr, advance, h2, lockedProg]
        · simp only [setThr, hji, if_false]; exact h.pc_lt j
      · intro j hj
        by_cases hji : j = i
        · subst hji; exact hi
        · simp only [setThr, hji, if_false] at hj; exact h.holds j hj
      · intro j hj
        by_cases hji : j = i
        · subst hji; simp [setThr, advance, h2, lockedProg] at hj
        · simp only [setThr, hji, if_false] at hj
          have := h.holds j (by omega); rw [hi] at this
          exact absurd (Option.some.inj this).symm hji
    · -- release
      have hs : step next lockedProg s i =
          { s with holder := none, thrs := setThr s.thrs i (advance lockedProg (s.thrs i)) } := by
        simp [step, htodo, h3, lockedProg]
      rw [hs]
      have hi := h.holds i (by omega)
      have others : ∀ j, j ≠ i → (s.thrs j).pc = 0 := by
        intro j hji
        by_cases hj : (s.thrs j).pc = 0
        · exact hj
        · have := h.holds j hj; rw [hi] at this
          exact absurd (Option.some.inj this).symm hji
      constructor
      · exact h.log_ok
      · exact h.shared_ok
      · intro j
        by_cases hji : j = i
        · subst hji; simp [setThr, advance, h3, lockedProg]
        · simp only [setThr, hji, if_false]; exact h.pc_lt j
      · intro j hj
        by_cases hji : j = i
        · subst hji; simp [setThr, advance, h3, lockedProg] at hj
        · simp only [setThr, hji, if_false] at hj; exact absurd (others j hji) hj
      · intro j hj
        by_cases hji : j = i
        · subst hji; simp [setThr, advance, h3, lockedProg] at hj
        · simp only [setThr, hji, if_false] at hj; have := others j hji; omega

theorem linv_run (next : Next) (init : SeqState) : ∀ (sched : List Nat) (s : Sys), LInv next init s →
    LInv next init (run next lockedProg s sched) := by
  intro sched
  induction sched with
  | nil => intro s h; exact h
  | cons i is ih => intro s h; exact ih _ (linv_step next init s i h)

/-- at most one thread is inside the critical section -/
theorem linv_mutex {next : Next} {init : SeqState} {s : Sys} (h : LInv next init s) (i j : Nat)
    (hi : (s.thrs i).pc ≠ 0) (hj : (s.thrs j).pc ≠ 0) : i = j := by
  have a := h.holds i hi
  have b := h.holds j hj
  rw [a] at b
  exact Option.some.inj b

end GeckoModel.SeqThreads
