/-
C11: every member of every object reachable from a facade built under `Req` evaluates without an exception, on any
1024-byte block, any reminder list and any watercare mode (the watercare `__str__` excepted while finding D5b stands).
-/
import GeckoModel.Proofs.FacadeLemmas

namespace GeckoModel.Facade
open GeckoModel
open GeckoModel.Generated.FacadeConsts

/-- the member, when the class has it, evaluates to a value -/
def ResOk (r : Res) : Prop := ∀ x, r = some x → ∃ v, x = .ok v

theorem resOk_none : ResOk none := by intro x h; cases h
theorem resOk_ok (v : RV) : ResOk (some (.ok v)) := by intro x h; cases h; exact ⟨v, rfl⟩
theorem resOk_of {e : Except FErr RV} (h : ∃ v, e = .ok v) : ResOk (some e) := by
  intro x hx; cases hx; exact h
theorem map_ok {α β : Type} {e : Except FErr α} (f : α → β) (h : ∃ v, e = .ok v) : ∃ w, e.map f = .ok w := by
  obtain ⟨v, rfl⟩ := h; exact ⟨f v, rfl⟩

theorem baseMember_ok (id : Ident) (n k : String) (m : Mem) : ResOk (baseMember id n k m) := by
  cases m <;> simp only [baseMember] <;> first | exact resOk_none | exact resOk_ok _

theorem sensorMember_ok (P : Profile) (id : Ident) (b : Block) (s : Sensor) (bin : Bool) (m : Mem)
    (h : ∃ v, P.value s.acc b = .ok v) : ResOk (sensorMember P id b s bin m) := by
  cases m
  case is_on => cases bin <;> simp only [sensorMember] <;> first | exact resOk_none | exact resOk_of (map_ok _ h)
  all_goals simp only [sensorMember]
  all_goals first
    | exact baseMember_ok _ _ _ _
    | exact resOk_ok _
    | exact resOk_of (map_ok _ h)

theorem switchMember_ok (P : Profile) (id : Ident) (b : Block) (sw : Switch) (m : Mem)
    (h : ∃ v, P.value sw.acc b = .ok v) : ResOk (switchMember P id b sw m) := by
  cases m
  case mode => simp only [switchMember]; split <;> first | exact resOk_none | exact resOk_of (map_ok _ h)
  case state_sensor => simp only [switchMember]; split <;> first | exact resOk_none | exact resOk_ok _
  case modes => simp only [switchMember]; split <;> first | exact resOk_none | exact resOk_ok _
  all_goals simp only [switchMember]
  all_goals first
    | exact baseMember_ok _ _ _ _
    | exact resOk_ok _
    | exact resOk_of (map_ok _ h)

theorem pyLt_ok (a b : SVal) (ha : a.isStr = false) (hb : b.isStr = false) : ∃ r, pyLt a b = .ok r := by
  cases a <;> cases b <;> simp [pyLt, SVal.frac, SVal.isStr] at *

theorem fmtTemp_ok (v : SVal) (h : v.isStr = false) : fmtTemp v = .ok () := by
  cases v <;> simp [fmtTemp, SVal.isStr] at *

/-- what the heater members need of the heater's items on the block at hand -/
structure HeaterReads (P : Profile) (b : Block) (h : Heater) : Prop where
  units : ∃ v, P.value h.units b = .ok v
  cur : ∃ v, P.value h.current b = .ok v ∧ v.isStr = false
  tgt : ∃ v, P.value h.target b = .ok v ∧ v.isStr = false
  real : ∃ v, P.value h.real b = .ok v ∧ v.isStr = false
  heating : ∀ it, h.heating = some it → ∃ v, P.value it b = .ok v
  cooling : ∀ it, h.cooling = some it → ∃ v, P.value it b = .ok v

theorem opByTemps_ok {P : Profile} {b : Block} {h : Heater} (r : HeaterReads P b h) : ∃ s, opByTemps P b h = .ok s := by
  obtain ⟨c, hc, hcs⟩ := r.cur
  obtain ⟨t, ht, hts⟩ := r.real
  unfold opByTemps
  rw [hc, ht]
  simp only
  obtain ⟨x, hx⟩ := pyLt_ok c t hcs hts
  obtain ⟨y, hy⟩ := pyLt_ok t c hts hcs
  rw [hx]
  cases x
  · simp only
    rw [hy]
    cases y <;> exact ⟨_, rfl⟩
  · exact ⟨_, rfl⟩

theorem currentOperation_ok {P : Profile} {b : Block} {h : Heater} (r : HeaterReads P b h) :
    ∃ s, currentOperation P b h = .ok s := by
  have ht := opByTemps_ok r
  unfold currentOperation
  cases hh : h.heating with
  | none =>
    cases hc : h.cooling with
    | none => simpa using ht
    | some ci =>
      obtain ⟨cv, hcv⟩ := r.cooling ci hc
      simp only [hcv]
      split
      · exact ⟨_, rfl⟩
      · exact ht
  | some hi =>
    obtain ⟨hv, hhv⟩ := r.heating hi hh
    cases hc : h.cooling with
    | none =>
      simp only [hhv]
      split
      · exact ⟨_, rfl⟩
      · exact ht
    | some ci =>
      obtain ⟨cv, hcv⟩ := r.cooling ci hc
      simp only [hhv, hcv]
      split
      · exact ⟨_, rfl⟩
      · split <;> exact ⟨_, rfl⟩

theorem unitsIsC_ok {P : Profile} {b : Block} {h : Heater} (r : HeaterReads P b h) : ∃ c, unitsIsC P b h = .ok c :=
  map_ok _ r.units

theorem formatTemperature_ok {P : Profile} {b : Block} {h : Heater} (r : HeaterReads P b h) (v : SVal)
    (hv : v.isStr = false) : ∃ x, formatTemperature P b h v = .ok x := by
  unfold formatTemperature
  rw [fmtTemp_ok v hv]
  exact map_ok _ (unitsIsC_ok r)

theorem heaterStr_ok {P : Profile} {b : Block} {h : Heater} (r : HeaterReads P b h) : ∃ x, heaterStr P b h = .ok x := by
  obtain ⟨c, hc, hcs⟩ := r.cur
  obtain ⟨t, ht, hts⟩ := r.tgt
  obtain ⟨rl, hr, hrs⟩ := r.real
  obtain ⟨x1, h1⟩ := formatTemperature_ok r c hcs
  obtain ⟨x2, h2⟩ := formatTemperature_ok r t hts
  obtain ⟨x3, h3⟩ := formatTemperature_ok r rl hrs
  unfold heaterStr
  simp only [hc, ht, hr, h1, h2, h3]
  exact map_ok _ (currentOperation_ok r)

theorem heaterMonitor_ok {P : Profile} {b : Block} {h : Heater} (r : HeaterReads P b h) : ∃ x, heaterMonitor P b h = .ok x := by
  obtain ⟨c, hc, hcs⟩ := r.cur
  obtain ⟨rl, hr, hrs⟩ := r.real
  obtain ⟨x1, h1⟩ := formatTemperature_ok r c hcs
  unfold heaterMonitor
  simp only [hc, hr, h1]
  exact formatTemperature_ok r rl hrs

theorem heaterMember_ok (P : Profile) (id : Ident) (b : Block) (h : Heater) (m : Mem) (r : HeaterReads P b h) :
    ResOk (heaterMember P id b h m) := by
  obtain ⟨c, hc, _⟩ := r.cur
  obtain ⟨t, ht, _⟩ := r.tgt
  obtain ⟨rl, hr, _⟩ := r.real
  cases m
  case target_temperature => exact resOk_of (map_ok _ ⟨t, ht⟩)
  case real_target_temperature => exact resOk_of (map_ok _ ⟨rl, hr⟩)
  case current_temperature => exact resOk_of (map_ok _ ⟨c, hc⟩)
  case min_temp => exact resOk_of (map_ok _ (unitsIsC_ok r))
  case max_temp => exact resOk_of (map_ok _ (unitsIsC_ok r))
  case temperature_unit => exact resOk_of (map_ok _ (unitsIsC_ok r))
  case current_operation => exact resOk_of (map_ok _ (currentOperation_ok r))
  case format_temperature => exact resOk_of (formatTemperature_ok r _ rfl)
  case str_ => exact resOk_of (heaterStr_ok r)
  case monitor => exact resOk_of (heaterMonitor_ok r)
  all_goals simp only [heaterMember]
  all_goals first
    | exact baseMember_ok _ _ _ _
    | exact resOk_ok _

/-! ### watercare and reminders: any mode, any list -/

theorem wcMonitor_ok (mode : Option Int) : ∃ s, wcMonitor mode = .ok s := by
  cases mode <;> exact ⟨_, rfl⟩

/-- with the guard `>=` the label lookup is always in range -/
theorem wcStrWith_false_ok (mode : Option Int) : ∃ s, wcStrWith false mode = .ok s := by
  cases mode with
  | none => exact ⟨_, rfl⟩
  | some m =>
    simp only [wcStrWith, Bool.false_eq_true, if_false]
    by_cases hn : m < 0 ∨ m ≥ (watercareModes.length : Int)
    · rw [if_pos hn]; exact ⟨_, rfl⟩
    · rw [if_neg hn]
      have hlt : m.toNat < watercareModes.length := by omega
      rw [List.getElem?_eq_getElem hlt]
      exact ⟨_, rfl⟩

/-- with the guard `>` (the code today) every mode but `len(WATERCARE_MODE_STRING)` itself is fine -/
theorem wcStrWith_true_ok (mode : Option Int) (h : mode ≠ some (watercareModes.length : Int)) :
    ∃ s, wcStrWith true mode = .ok s := by
  cases mode with
  | none => exact ⟨_, rfl⟩
  | some m =>
    simp only [wcStrWith, if_true]
    by_cases hn : m < 0 ∨ m > (watercareModes.length : Int)
    · rw [if_pos hn]; exact ⟨_, rfl⟩
    · rw [if_neg hn]
      have h3 : m ≠ (watercareModes.length : Int) := fun e => h (by rw [e])
      have hlt : m.toNat < watercareModes.length := by omega
      rw [List.getElem?_eq_getElem hlt]
      exact ⟨_, rfl⟩

theorem watercareMember_ok (id : Ident) (mode : Option Int) (m : Mem) (h : ∃ s, wcStr mode = .ok s) :
    ResOk (watercareMember id mode m) := by
  cases m
  case str_ => exact resOk_of (map_ok _ h)
  case monitor => exact resOk_of (map_ok _ (wcMonitor_ok mode))
  all_goals simp only [watercareMember]
  all_goals first
    | exact baseMember_ok _ _ _ _
    | exact resOk_ok _

/-- everything of the watercare object except `__str__` is total for every mode -/
theorem watercareMember_ok_but_str (id : Ident) (mode : Option Int) (m : Mem) (hm : m ≠ .str_) :
    ResOk (watercareMember id mode m) := by
  cases m
  case str_ => exact absurd rfl hm
  case monitor => exact resOk_of (map_ok _ (wcMonitor_ok mode))
  all_goals simp only [watercareMember]
  all_goals first
    | exact baseMember_ok _ _ _ _
    | exact resOk_ok _

theorem reminderMember_ok (r : Nat × Int) (m : Mem) : ResOk (reminderMember r m) := by
  cases m <;> simp only [reminderMember] <;> first | exact resOk_none | exact resOk_ok _

/-- the async reminders manager is total for every list; the threaded one except `get_reminder` after a report -/
theorem remindersMember_ok (id : Ident) (rems : Option (List (Nat × Int))) (m : Mem)
    (h : id.flavor = .async ∨ rems = none ∨ ∀ t, m ≠ .get_reminder t) : ResOk (remindersMember id rems m) := by
  cases m
  case get_reminder t =>
    simp only [remindersMember, getReminder]
    rcases h with h | h | h
    · rw [h]
      cases rems with
      | none => exact resOk_ok _
      | some rs => simp only; split <;> exact resOk_ok _
    · rw [h]; exact resOk_ok _
    · exact absurd rfl (h t)
  all_goals simp only [remindersMember]
  all_goals first
    | exact baseMember_ok _ _ _ _
    | exact resOk_ok _

theorem keypadMember_ok (id : Ident) (m : Mem) : ResOk (keypadMember id m) := by
  cases m <;> simp only [keypadMember] <;> first | exact baseMember_ok _ _ _ _ | exact resOk_ok _

theorem errorSensorMember_ok (id : Ident) (q : Bool) (m : Mem) : ResOk (errorSensorMember id q m) := by
  cases m <;> simp only [errorSensorMember] <;> first | exact baseMember_ok _ _ _ _ | exact resOk_ok _

theorem facadeMember_ok (f : Facade) (d : Dyn) (m : Mem) : ResOk (facadeMember f d m) := by
  cases m
  all_goals simp only [facadeMember]
  all_goals first
    | exact resOk_none
    | exact resOk_ok _
    | (split <;> first | exact resOk_none | exact resOk_ok _)

/-! ### all objects -/

theorem Good.heaterReads {f : Facade} (g : Good f) (b : Block) (hb : b.length = blockSize) : HeaterReads f.P b f.heater := by
  have hv := fun it hh => held_value_ok g.facts it hh b hb
  refine ⟨hv _ g.units, ?_, ?_, ?_, fun it hit => hv it (g.heating it hit), fun it hit => hv it (g.cooling it hit)⟩
  · obtain ⟨v, h⟩ := hv _ g.cur.1; exact ⟨v, h, value_numeric _ _ _ _ g.cur.2 h⟩
  · obtain ⟨v, h⟩ := hv _ g.tgt.1; exact ⟨v, h, value_numeric _ _ _ _ g.tgt.2 h⟩
  · obtain ⟨v, h⟩ := hv _ g.real.1; exact ⟨v, h, value_numeric _ _ _ _ g.real.2 h⟩

/-- side condition on the dynamic state while finding D5b stands: the member asked is not the watercare `__str__` on the
one mode it cannot render -/
def DynOk (d : Dyn) (o : Obj) (m : Mem) : Prop :=
  o = .watercare → m = .str_ → ∃ s, wcStr d.mode = .ok s

theorem evalObj_ok (f : Facade) (g : Good f) (d : Dyn) (hb : d.block.length = blockSize) (o : Obj) (m : Mem)
    (hd : DynOk d o m) : ResOk (evalObj f d o m) := by
  have hv := fun it hh => held_value_ok g.facts it hh d.block hb
  have hsw : ∀ (l : List Switch), (∀ s ∈ l, Held f.P s.acc) → ∀ i : Nat,
      ResOk (match l[i]? with | some s => switchMember f.P f.ident d.block s m | none => none) := by
    intro l hl i
    cases hi : l[i]? with
    | none => exact resOk_none
    | some s => exact switchMember_ok _ _ _ _ _ (hv _ (hl s (List.mem_of_getElem? hi)))
  have hss : ∀ (l : List Switch), (∀ s ∈ l, Held f.P s.acc) → ∀ i : Nat,
      ResOk (match l[i]? with | some s => sensorMember f.P f.ident d.block (stateSensorOf s) false m | none => none) := by
    intro l hl i
    cases hi : l[i]? with
    | none => exact resOk_none
    | some s => exact sensorMember_ok _ _ _ _ _ _ (hv _ (hl s (List.mem_of_getElem? hi)))
  have hsn : ∀ (l : List Sensor) (bin : Bool), (∀ s ∈ l, Held f.P s.acc) → ∀ i : Nat,
      ResOk (match l[i]? with | some s => sensorMember f.P f.ident d.block s bin m | none => none) := by
    intro l bin hl i
    cases hi : l[i]? with
    | none => exact resOk_none
    | some s => exact sensorMember_ok _ _ _ _ _ _ (hv _ (hl s (List.mem_of_getElem? hi)))
  cases o
  case facade => exact facadeMember_ok f d m
  case heater => exact heaterMember_ok _ _ _ _ _ (g.heaterReads d.block hb)
  case watercare =>
    simp only [evalObj]
    by_cases hm : m = .str_
    · exact watercareMember_ok _ _ _ (hd rfl hm)
    · exact watercareMember_ok_but_str _ _ _ hm
  case reminders =>
    simp only [evalObj]
    split
    · rename_i hfl; exact remindersMember_ok _ _ _ (Or.inl hfl)
    · exact resOk_none
  case keypad => exact keypadMember_ok _ _
  case errorSensor => exact errorSensorMember_ok _ _ _
  case eco => exact switchMember_ok _ _ _ _ _ (hv _ g.eco)
  case ecoState => exact sensorMember_ok _ _ _ _ _ _ (hv _ g.eco)
  case pump i => exact hsw _ g.pumps i
  case blower i => exact hsw _ g.blowers i
  case blowerState i => exact hss _ g.blowers i
  case light i => exact hsw _ g.lights i
  case lightState i => exact hss _ g.lights i
  case sensor i => exact hsn _ false g.sensors i
  case binarySensor i => exact hsn _ true g.binarySensors i
  case reminder i =>
    simp only [evalObj]
    split
    · split
      · exact reminderMember_ok _ _
      · exact resOk_none
    · exact resOk_none

end GeckoModel.Facade
