/-
Lemmas about the simulator's segment chain (over the generated arithmetic) and the async assembler.
-/
import GeckoModel.Model.Transfer
import GeckoModel.Proofs.BlockLemmas

namespace GeckoModel
open GeckoModel.Generated

theorem segCount_def (len : Nat) : segCount len = (len + 38) / 39 := by
  simp [segCount, simSegSize]

theorem simSeg_idx (blk : Block) (start len i : Nat) : (simSeg blk start len i).idx = i := rfl

/-- the generated `next` expression, as a natural number -/
theorem simSeg_next (blk : Block) (start len i : Nat) :
    (simSeg blk start len i).next = (i + 1) % segCount len := by
  simp only [simSeg, simSegNext]
  have h2 : ((i : Int) + 1) = ((i + 1 : Nat) : Int) := by omega
  rw [h2, Int.fmod_eq_emod_of_nonneg _ (Int.natCast_nonneg _)]
  have h3 : (((i + 1 : Nat) : Int) % ((segCount len : Nat) : Int)) = (((i + 1) % segCount len : Nat) : Int) :=
    (Int.natCast_emod _ _).symm
  rw [h3, Int.toNat_natCast]

/-- the generated `length` expression, as a natural number -/
theorem simSeg_data (blk : Block) (start len i : Nat) :
    (simSeg blk start len i).data = (blk.drop (start + 39 * i)).take (min 39 (blk.length - (start + 39 * i))) := by
  simp only [simSeg, simSegLen, simSegSize]
  congr 1
  omega

theorem simChain_length (blk : Block) (start len : Nat) : (simChain blk start len).length = segCount len := by
  simp [simChain]

theorem simChain_getElem? (blk : Block) (start len i : Nat) (hi : i < segCount len) :
    (simChain blk start len)[i]? = some (simSeg blk start len i) := by
  simp [simChain, hi]

theorem mem_simChain (blk : Block) (start len : Nat) (s : Seg) :
    s ∈ simChain blk start len ↔ ∃ i, i < segCount len ∧ s = simSeg blk start len i := by
  simp only [simChain, List.mem_map, List.mem_range]
  constructor
  · rintro ⟨i, hi, rfl⟩; exact ⟨i, hi, rfl⟩
  · rintro ⟨i, hi, rfl⟩; exact ⟨i, hi, rfl⟩

/-- `next = 0` happens exactly at the last segment -/
theorem next_zero_iff (len i : Nat) (hi : i < segCount len) : (i + 1) % segCount len = 0 ↔ i + 1 = segCount len := by
  constructor
  · intro h
    rcases Nat.lt_or_ge (i + 1) (segCount len) with hlt | hge
    · rw [Nat.mod_eq_of_lt hlt] at h; omega
    · omega
  · intro h; rw [h]; exact Nat.mod_self _

/-- data of the first `k` segments -/
def chainPrefix (blk : Block) (start len k : Nat) : List (List Byte) :=
  ((simChain blk start len).take k).map (·.data)

theorem chainPrefix_succ (blk : Block) (start len k : Nat) (hk : k < segCount len) :
    chainPrefix blk start len (k + 1) = chainPrefix blk start len k ++ [(simSeg blk start len k).data] := by
  unfold chainPrefix
  rw [List.take_add_one, simChain_getElem? blk start len k hk]
  simp

theorem chainPrefix_all (blk : Block) (start len k : Nat) (hk : segCount len ≤ k) :
    chainPrefix blk start len k = (simChain blk start len).map (·.data) := by
  unfold chainPrefix
  rw [List.take_of_length_le (by rw [simChain_length]; exact hk)]

/-- a segment's `next` is either 0 or its successor index -/
theorem next_zero_or_succ (len i : Nat) (hi : i < segCount len) :
    (i + 1) % segCount len = 0 ∨ (i + 1) % segCount len = i + 1 := by
  rcases Nat.lt_or_ge (i + 1) (segCount len) with hlt | hge
  · right; exact Nat.mod_eq_of_lt hlt
  · left
    have : i + 1 = segCount len := by omega
    rw [this]; exact Nat.mod_self _

/-- **the assembly invariant**: starting from "the first `k` segments of the chain collected, `k` expected next", any
sequence of genuine segments (lost, duplicated, re-ordered at will) and timeouts either aborts the attempt or installs
exactly the whole chain's data — never a partial, duplicated or mis-ordered set; what it leaves unread is a suffix -/
theorem asyncAttempt_genuine (blk : Block) (start len : Nat) (evs : List Ev)
    (hg : ∀ s, Ev.seg s ∈ evs → s ∈ simChain blk start len) :
    ∀ k, k ≤ segCount len →
      ((asyncAttempt k (chainPrefix blk start len k) evs).1 = .aborted ∨
       (asyncAttempt k (chainPrefix blk start len k) evs).1 = .installed ((simChain blk start len).map (·.data)).flatten) ∧
      (∀ e, e ∈ (asyncAttempt k (chainPrefix blk start len k) evs).2 → e ∈ evs) := by
  induction evs with
  | nil => intro k _; exact ⟨Or.inl rfl, by simp [asyncAttempt]⟩
  | cons e rest ih =>
    intro k hk
    have hg' : ∀ s, Ev.seg s ∈ rest → s ∈ simChain blk start len := fun s hs => hg s (by simp [hs])
    cases e with
    | timeout => exact ⟨Or.inl rfl, by intro e he; simp [asyncAttempt] at he; simp [he]⟩
    | seg s =>
      obtain ⟨i, hi, rfl⟩ := (mem_simChain blk start len s).1 (hg s (by simp))
      simp only [asyncAttempt, simSeg_idx, simSeg_next]
      by_cases hki : k = i
      · subst hki
        simp only [if_true]
        rcases next_zero_or_succ len k hi with hz | hs
        · simp only [hz, if_true]
          refine ⟨Or.inr ?_, by intro e he; simp [he]⟩
          have := (next_zero_iff len k hi).1 hz
          rw [← chainPrefix_succ blk start len k hi, chainPrefix_all blk start len (k + 1) (by omega)]
        · simp only [hs]
          have hne : ¬ (k + 1 = 0) := by omega
          simp only [hne, if_false]
          rw [← chainPrefix_succ blk start len k hi]
          obtain ⟨h1, h2⟩ := ih hg' (k + 1) (by omega)
          exact ⟨h1, fun e he => by simp [h2 e he]⟩
      · simp only [hki, if_false]
        by_cases hz : (i + 1) % segCount len = 0
        · simp only [hz, if_true]; exact ⟨Or.inl trivial, by intro e he; simp [he]⟩
        · simp only [hz, if_false]
          obtain ⟨h1, h2⟩ := ih hg' k hk
          exact ⟨h1, fun e he => by simp [h2 e he]⟩

/-- the bytes of the first `k` segments are one contiguous run of the spa's block starting at `start` -/
theorem chainPrefix_flatten (blk : Block) (start len : Nat) : ∀ k, k ≤ segCount len →
    (chainPrefix blk start len k).flatten = (blk.drop start).take (min (39 * k) (blk.length - start)) := by
  intro k
  induction k with
  | zero => intro _; simp [chainPrefix]
  | succ k ih =>
    intro hk
    rw [chainPrefix_succ blk start len k (by omega), List.flatten_append, ih (by omega), simSeg_data]
    simp only [List.flatten_cons, List.flatten_nil, List.append_nil]
    have hd : blk.drop (start + 39 * k) = (blk.drop start).drop (39 * k) := by rw [List.drop_drop]
    rw [hd]
    have hL : (blk.drop start).length = blk.length - start := by simp
    rcases Nat.le_total (39 * k) (blk.length - start) with h | h
    · have e1 : min (39 * k) (blk.length - start) = 39 * k := by omega
      have e2 : min (39 * (k + 1)) (blk.length - start) = 39 * k + min 39 (blk.length - (start + 39 * k)) := by omega
      rw [e1, e2, List.take_add]
    · have e1 : min (39 * k) (blk.length - start) = blk.length - start := by omega
      have e2 : min (39 * (k + 1)) (blk.length - start) = blk.length - start := by omega
      have e3 : min 39 (blk.length - (start + 39 * k)) = 0 := by omega
      rw [e1, e2, e3]; simp

/-- number of spa bytes a complete chain carries: at least the requested `len` when the request is inside the block -/
def covered (blkLen start len : Nat) : Nat := min (39 * segCount len) (blkLen - start)

theorem covered_ge (blkLen start len : Nat) (h : start + len ≤ blkLen) : len ≤ covered blkLen start len := by
  unfold covered; rw [segCount_def]; omega

theorem chain_data (blk : Block) (start len : Nat) :
    ((simChain blk start len).map (·.data)).flatten = (blk.drop start).take (covered blk.length start len) := by
  rw [← chainPrefix_all blk start len (segCount len) (Nat.le_refl _), chainPrefix_flatten _ _ _ _ (Nat.le_refl _)]
  rfl

/-- **GeckoAsyncStructure.get under any genuine fault pattern** -/
theorem asyncGet_genuine (blk cli : Block) (start len : Nat) : ∀ (retry : Nat) (evs : List Ev) (sends : Nat),
    (∀ s, Ev.seg s ∈ evs → s ∈ simChain blk start len) →
    ((asyncGet retry evs cli start sends).ok = true →
        (asyncGet retry evs cli start sends).block = replaceSeg cli start ((simChain blk start len).map (·.data)).flatten) ∧
    ((asyncGet retry evs cli start sends).ok = false → (asyncGet retry evs cli start sends).block = cli) ∧
    (asyncGet retry evs cli start sends).sends ≤ sends + retry := by
  intro retry
  induction retry with
  | zero => intro evs sends _; simp [asyncGet]
  | succ retry ih =>
    intro evs sends hg
    obtain ⟨h0, hrest⟩ := asyncAttempt_genuine blk start len evs hg 0 (Nat.zero_le _)
    have hp : chainPrefix blk start len 0 = [] := by simp [chainPrefix]
    rw [hp] at h0 hrest
    simp only [asyncGet]
    cases hres : asyncAttempt 0 [] evs with
    | mk res rest =>
      rw [hres] at h0 hrest
      simp only at h0 hrest
      rcases h0 with h0 | h0
      · subst h0
        simp only
        obtain ⟨a, b, c⟩ := ih rest (sends + 1) (fun s hs => hg s (hrest _ hs))
        exact ⟨a, b, by omega⟩
      · subst h0
        simp only
        exact ⟨fun _ => trivial, fun h => by simp at h, by omega⟩

/-- fault-free delivery of the chain from segment `k` on completes the assembly -/
theorem asyncAttempt_inorder (blk : Block) (start len : Nat) (_hlen : 0 < segCount len) : ∀ (n k : Nat), k + n = segCount len → 0 < n →
    asyncAttempt k (chainPrefix blk start len k) (((simChain blk start len).drop k).map Ev.seg) =
      (.installed ((simChain blk start len).map (·.data)).flatten, []) := by
  intro n
  induction n with
  | zero => intro k _ h; omega
  | succ n ih =>
    intro k hk _
    have hki : k < segCount len := by omega
    have hd : (simChain blk start len).drop k = simSeg blk start len k :: (simChain blk start len).drop (k + 1) := by
      rw [List.drop_eq_getElem_cons (by rw [simChain_length]; exact hki)]
      congr 1
      have := simChain_getElem? blk start len k hki
      rw [List.getElem?_eq_getElem (by rw [simChain_length]; exact hki)] at this
      exact Option.some.inj this
    rw [hd]
    simp only [List.map_cons, asyncAttempt, simSeg_idx, simSeg_next, if_true]
    by_cases hlast : k + 1 = segCount len
    · have hz : (k + 1) % segCount len = 0 := (next_zero_iff len k hki).2 hlast
      simp only [hz, if_true]
      rw [← chainPrefix_succ blk start len k hki, chainPrefix_all blk start len (k + 1) (by omega)]
      have hdn : (simChain blk start len).drop (k + 1) = [] := by
        apply List.drop_eq_nil_of_le; rw [simChain_length]; omega
      simp [hdn]
    · have hs : (k + 1) % segCount len = k + 1 := Nat.mod_eq_of_lt (by omega)
      have hne : ¬ (k + 1 = 0) := by omega
      simp only [hs, hne, if_false]
      rw [← chainPrefix_succ blk start len k hki]
      exact ih (k + 1) (by omega) (by omega)

end GeckoModel
