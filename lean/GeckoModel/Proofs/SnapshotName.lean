/- C19 helper lemmas: the `Snapshot (name)` line for every `SafeName`. -/
import GeckoModel.Proofs.SnapshotLines2

set_option linter.unusedSimpArgs false
set_option linter.unusedVariables false

namespace GeckoModel.Snapshot

/-- a state update that leaves the name and the collected segments alone -/
def Keeps (f : Snap → Snap) : Prop := ∀ s, (f s).name = s.name ∧ (f s).segs = s.segs

theorem keeps_fire (re : List Atom) (line : Text) (h : Snap → List Text → Snap)
    (hh : ∀ s g, (h s g).name = s.name ∧ (h s g).segs = s.segs) : Keeps (fire re line h) := by
  intro s; unfold fire; split
  · exact hh _ _
  · exact ⟨rfl, rfl⟩

theorem k_spaPack : ∀ s g, (hSpaPack s g).name = s.name ∧ (hSpaPack s g).segs = s.segs := by
  intro s g; unfold hSpaPack; split <;> exact ⟨rfl, rfl⟩
theorem k_en : ∀ s g, (hEN s g).name = s.name ∧ (hEN s g).segs = s.segs := fun _ _ => ⟨rfl, rfl⟩
theorem k_co : ∀ s g, (hCO s g).name = s.name ∧ (hCO s g).segs = s.segs := fun _ _ => ⟨rfl, rfl⟩
theorem k_cfg : ∀ s g, (hCfg s g).name = s.name ∧ (hCfg s g).segs = s.segs := by
  intro s g; unfold hCfg; split <;> exact ⟨rfl, rfl⟩
theorem k_log : ∀ s g, (hLog s g).name = s.name ∧ (hLog s g).segs = s.segs := by
  intro s g; unfold hLog; split <;> exact ⟨rfl, rfl⟩
theorem k_packType : ∀ s g, (hPackType s g).name = s.name ∧ (hPackType s g).segs = s.segs := by
  intro s g; unfold hPackType; split <;> exact ⟨rfl, rfl⟩
theorem k_packId : ∀ s g, (hPackId s g).name = s.name ∧ (hPackId s g).segs = s.segs := by
  intro s g; unfold hPackId; split <;> exact ⟨rfl, rfl⟩
theorem k_packRev : ∀ s g, (hPackRev s g).name = s.name ∧ (hPackRev s g).segs = s.segs := by
  intro s g; unfold hPackRev; split <;> exact ⟨rfl, rfl⟩
theorem k_packRel : ∀ s g, (hPackRel s g).name = s.name ∧ (hPackRel s g).segs = s.segs := by
  intro s g; unfold hPackRel; split <;> exact ⟨rfl, rfl⟩
theorem k_software : ∀ s g, (hSoftware s g).name = s.name ∧ (hSoftware s g).segs = s.segs := by
  intro s g; unfold hSoftware; split <;> exact ⟨rfl, rfl⟩
theorem k_configAndLog : ∀ s g, (hConfigAndLog s g).name = s.name ∧ (hConfigAndLog s g).segs = s.segs := by
  intro s g; unfold hConfigAndLog; split <;> exact ⟨rfl, rfl⟩

theorem keeps_comp (f g : Snap → Snap) (hf : Keeps f) (hg : Keeps g) : Keeps (fun s => g (f s)) := by
  intro s; exact ⟨(hg (f s)).1.trans (hf s).1, (hg (f s)).2.trans (hf s).2⟩

/-- the handlers between `_re_snapshot_alt` and `_re_data` -/
def midFires (line : Text) (s : Snap) : Snap :=
  fire reLogVersion line hLog (fire reConfigVersion line hCfg (fire reIntouchCO line hCO (fire reIntouchEN line hEN
    (fire reSpaPack line hSpaPack s))))
/-- the handlers between `_re_data` and `_re_data_segment` -/
def postFires (line : Text) (s : Snap) : Snap :=
  fire reConfigAndLog line hConfigAndLog (fire reSoftware line hSoftware (fire rePackRel line hPackRel
    (fire rePackRev line hPackRev (fire rePackId line hPackId (fire rePackType line hPackType s)))))

theorem parseLine_split (s : Snap) (line : Text) :
    parseLine s line = (match hData line (midFires line (fire reSnapshotAlt line hSnapshotAlt s)) with
      | .error e => .error e
      | .ok s => hSegment line (postFires line s)) := rfl

theorem fire_keep (re : List Atom) (line : Text) (h : Snap → List Text → Snap)
    (hh : ∀ s g, (h s g).name = s.name ∧ (h s g).segs = s.segs) (x : Snap) :
    (fire re line h x).name = x.name ∧ (fire re line h x).segs = x.segs := keeps_fire re line h hh x

theorem keeps_mid (line : Text) : Keeps (midFires line) := by
  intro s; unfold midFires
  constructor
  · rw [(fire_keep _ _ _ k_log _).1, (fire_keep _ _ _ k_cfg _).1, (fire_keep _ _ _ k_co _).1, (fire_keep _ _ _ k_en _).1,
      (fire_keep _ _ _ k_spaPack _).1]
  · rw [(fire_keep _ _ _ k_log _).2, (fire_keep _ _ _ k_cfg _).2, (fire_keep _ _ _ k_co _).2, (fire_keep _ _ _ k_en _).2,
      (fire_keep _ _ _ k_spaPack _).2]

theorem keeps_post (line : Text) : Keeps (postFires line) := by
  intro s; unfold postFires
  constructor
  · rw [(fire_keep _ _ _ k_configAndLog _).1, (fire_keep _ _ _ k_software _).1, (fire_keep _ _ _ k_packRel _).1,
      (fire_keep _ _ _ k_packRev _).1, (fire_keep _ _ _ k_packId _).1, (fire_keep _ _ _ k_packType _).1]
  · rw [(fire_keep _ _ _ k_configAndLog _).2, (fire_keep _ _ _ k_software _).2, (fire_keep _ _ _ k_packRel _).2,
      (fire_keep _ _ _ k_packRev _).2, (fire_keep _ _ _ k_packId _).2, (fire_keep _ _ _ k_packType _).2]

/-- `Snapshot \((.*)\)` on the name line gives back the name, whatever it contains -/
theorem snapshotAlt_match (name : Text) :
    matchSeq [.cap anyChar 0, .lit t!")"] (name ++ [')', '\n']) = some [name] := by
  apply cap_any_tail
  · rfl
  · decide

/-- what the file loop needs to know about the name line -/
structure NameFacts (line name : Text) : Prop where
  parse : ∀ s, ∃ s', parseLine s line = .ok s' ∧ s'.name = some name ∧ s'.segs = s.segs
  snap : hasSub t!"Snapshot" line = true
  info : hasSub t!"INFO" line = true
  noConn : hasSub t!"Starting spa connection handshake..." line = false

theorem facts_name (stamp : Text) (hs : stamp.all stampChar = true) (name : Text) (hn : SafeName name) :
    NameFacts (stamp ++ (shellTag ++ nameTail name)) name := by
  obtain ⟨_, hstatv, hconn⟩ := hn
  have h2 : searchRe reSnapshotAlt (stamp ++ (shellTag ++ nameTail name)) = some [name] := by
    unfold reSnapshotAlt nameTail
    skipseg; skipseg
    exact search_hit _ _ _ _ (by decide) (snapshotAlt_match name)
  have h15 : searchRe reStatv (stamp ++ (shellTag ++ nameTail name)) = none := by
    unfold reStatv at hstatv ⊢
    skipseg; skipseg
    exact hstatv
  have hd : dataLine (stamp ++ (shellTag ++ nameTail name)) = .noMatch := by
    have e : stamp ++ (shellTag ++ nameTail name) = (stamp ++ (shellTag ++ (t!"Snapshot (" ++ name))) ++ [')', '\n'] := by
      simp [nameTail]
    have : reData (stamp ++ (shellTag ++ nameTail name)) = none := by
      apply reData_none_of_open
      rw [e, endsClose_append]
      have h1 : endsClose [')', '\n'] = false := by decide
      have h2 : [')', '\n'].all isSpace = false := by decide
      rw [h1, h2]; simp
    unfold dataLine; rw [this]
  have hsnap : searchRe [.lit t!"Snapshot"] (stamp ++ (shellTag ++ nameTail name)) = some [] := by
    skipseg; skipseg
    show searchRe [.lit t!"Snapshot"] (t!"Snapshot" ++ (' ' :: '(' :: (name ++ [')', '\n']))) = some []
    exact search_hit _ _ _ _ (by decide) rfl
  have hc : searchRe [.lit t!"Starting spa connection handshake..."] (stamp ++ (shellTag ++ nameTail name)) = none := by
    skipseg; skipseg
    simpa [hasSub] using hconn
  refine ⟨fun s => ?_, hasSub_true _ _ _ hsnap, info_line _ _ hs, hasSub_false _ _ hc⟩
  rw [parseLine_split]
  have k1 := keeps_mid (stamp ++ (shellTag ++ nameTail name)) (fire reSnapshotAlt (stamp ++ (shellTag ++ nameTail name)) hSnapshotAlt s)
  have n1 : (fire reSnapshotAlt (stamp ++ (shellTag ++ nameTail name)) hSnapshotAlt s).name = some name ∧
      (fire reSnapshotAlt (stamp ++ (shellTag ++ nameTail name)) hSnapshotAlt s).segs = s.segs := by
    simp only [fire, h2, hSnapshotAlt]; exact ⟨trivial, trivial⟩
  generalize fire reSnapshotAlt (stamp ++ (shellTag ++ nameTail name)) hSnapshotAlt s = s1 at k1 n1 ⊢
  generalize midFires (stamp ++ (shellTag ++ nameTail name)) s1 = s2 at k1 ⊢
  have hdl : ∃ s3, hData (stamp ++ (shellTag ++ nameTail name)) s2 = .ok s3 ∧ s3.name = s2.name ∧ s3.segs = s2.segs := by
    unfold hData; rw [hd]
    exact ⟨s2, rfl, rfl, rfl⟩
  obtain ⟨s3, e3, n3, g3⟩ := hdl
  rw [e3]
  have k4 := keeps_post (stamp ++ (shellTag ++ nameTail name)) s3
  refine ⟨postFires (stamp ++ (shellTag ++ nameTail name)) s3, ?_, ?_, ?_⟩
  · simp only [hSegment, h15]
  · rw [k4.1, n3, k1.1, n1.1]
  · rw [k4.2, g3, k1.2, n1.2]

/-! ### one iteration of `parse_log_file`'s loop on these lines -/

theorem fileStep_name (st : FileSt) (hc : st.conn = none) (line name : Text) (f : NameFacts line name) :
    ∃ s', fileStep st line = .ok { done := st.done, snap := some s', conn := none } ∧ s'.name = some name ∧ s'.segs = [] := by
  obtain ⟨s', e, n, g⟩ := f.parse {}
  refine ⟨s', ?_, n, g⟩
  simp [fileStep, f.snap, f.info, f.noConn, hc, e]

theorem fileStep_line (st : FileSt) (s : Snap) (hs : st.snap = some s) (hc : st.conn = none) (line : Text)
    (upd : Snap → Snap) (f : LineFacts line upd) :
    fileStep st line = .ok { done := st.done, snap := some (upd s), conn := none } := by
  simp [fileStep, f.noSnap, f.info, f.noConn, hc, hs, f.parse s]

end GeckoModel.Snapshot
