/-
C04: which `can_handle` accepts which bytes.  Core Lean only.
-/
import GeckoModel.Proofs.WireForms
set_option linter.unusedSimpArgs false

namespace GeckoModel.Wire
open GeckoModel.Generated.WireFormats

theorem isPrefixOf_same_length : ∀ (a b r : Bytes), a.length = b.length → a.isPrefixOf (b ++ r) = (a == b) := by
  intro a
  induction a with
  | nil => intro b r h; cases b <;> simp at h ⊢
  | cons x a ih =>
    intro b r h
    cases b with
    | nil => simp at h
    | cons y b =>
      simp at h
      have := ih b r h
      simp only [List.cons_append, List.isPrefixOf, this]
      cases hxy : x == y <;> simp [hxy] <;> intro hh <;> simp_all

theorem any_startsWith_verb (claims : List Bytes) (v rest : Bytes) (h : ∀ c ∈ claims, c.length = v.length) :
    claims.any (startsWith (v ++ rest)) = claims.contains v := by
  induction claims with
  | nil => rfl
  | cons c cs ih =>
    have hc := h c (by simp)
    have := ih (fun c hc => h c (by simp [hc]))
    rw [List.any_cons, List.contains_cons, this]
    simp only [startsWith, isPrefixOf_same_length c v rest hc]
    have : (c == v) = (v == c) := by
      cases h1 : c == v <;> cases h2 : v == c <;> simp_all
    rw [this]

theorem isSuffixOf_append (x z : Bytes) : z.isSuffixOf (x ++ z) = true :=
  List.isSuffixOf_iff_suffix.2 (List.suffix_append x z)

theorem startsWith_clash (lit v rest : Bytes) (h : clash lit v = true) : startsWith (v ++ rest) lit = false :=
  isPrefixOf_clash lit v rest h

theorem any_startsWith_clash (claims : List Bytes) (v rest : Bytes) (h : ∀ c ∈ claims, clash c v = true) :
    claims.any (startsWith (v ++ rest)) = false := by
  induction claims with
  | nil => rfl
  | cons c cs ih =>
    simp only [List.any_cons, startsWith_clash c v rest (h c (by simp)), Bool.false_or]
    exact ih (fun c hc => h c (by simp [hc]))

/-- every verb is five bytes, every `can_handle` tests five-byte verbs only, no verb starts like a tag -/
theorem verb_shape : (∀ v ∈ allVerbs, v.length = 5) ∧ (∀ k ∈ allHandlers, ∀ c ∈ k.claims, c.length = 5) ∧
    (∀ v ∈ allVerbs, clash tags_Hello.1 v = true ∧ clash tags_Packet.1 v = true) ∧
    (∀ k ∈ allHandlers, ∀ c ∈ k.claims, clash c tags_Hello.1 = true ∧ clash c tags_Packet.1 = true) := by decide

theorem mem_allHandlers (k : Handler) : k ∈ allHandlers := by cases k <;> decide

/-- `can_handle` of any handler class on content that starts with a verb: the catch-all says yes, the tag handlers no,
a verb handler iff the verb is in its list -/
theorem canHandle_verb (k : Handler) (v rest : Bytes) (hv : v ∈ allVerbs) :
    canHandle k (v ++ rest) = (k == .unhandled || k.claims.contains v) := by
  obtain ⟨h5, hc5, htag, _⟩ := verb_shape
  have hk := hc5 k (mem_allHandlers k)
  have hlen : ∀ c ∈ k.claims, c.length = v.length := fun c hc => by rw [hk c hc, h5 v hv]
  have hany := any_startsWith_verb k.claims v rest hlen
  have ht := htag v hv
  cases k <;> simp only [canHandle, hany] <;> try rfl
  · simp [startsWith_clash _ v rest ht.1, Handler.claims]
  · simp [startsWith_clash _ v rest ht.2, Handler.claims]

/-- `can_handle` on a `<HELLO>…</HELLO>` datagram -/
theorem canHandle_helloFrame (k : Handler) (c : Bytes) :
    canHandle k (helloFrame c) = (k == .hello || k == .unhandled) := by
  obtain ⟨_, _, _, hcl⟩ := verb_shape
  have hk := hcl k (mem_allHandlers k)
  have e : helloFrame c = HELLO_OPEN ++ (c ++ HELLO_CLOSE) := by simp [helloFrame]
  have hany : k.claims.any (startsWith (helloFrame c)) = false := by
    rw [e]; exact any_startsWith_clash _ _ _ (fun c hc => (hk c hc).1)
  have h1 : startsWith (helloFrame c) tags_Hello.1 = true := by
    rw [e]; exact List.isPrefixOf_iff_prefix.2 (List.prefix_append _ _)
  have h2 : endsWith (helloFrame c) tags_Hello.2 = true := isSuffixOf_append _ _
  have h3 : startsWith (helloFrame c) tags_Packet.1 = false := by
    rw [e]; exact startsWith_clash _ _ _ (by decide)
  cases k <;> simp only [canHandle, hany, h1, h2, h3] <;> rfl

/-- `can_handle` on a `<PACKT>…</PACKT>` datagram -/
theorem canHandle_frame (k : Handler) (p2 p3 c : Bytes) :
    canHandle k (frame p2 p3 c) = (k == .packet || k == .unhandled) := by
  obtain ⟨_, _, _, hcl⟩ := verb_shape
  have hk := hcl k (mem_allHandlers k)
  have e : frame p2 p3 c = PACKET_OPEN ++ (SRCCN_OPEN ++ parm sendSrcIndex p2 p3 ++ SRCCN_CLOSE ++ DESCN_OPEN ++
      parm sendDstIndex p2 p3 ++ DESCN_CLOSE ++ DATAS_OPEN ++ c ++ DATAS_CLOSE ++ PACKET_CLOSE) := by simp [frame]
  have hany : k.claims.any (startsWith (frame p2 p3 c)) = false := by
    rw [e]; exact any_startsWith_clash _ _ _ (fun c hc => (hk c hc).2)
  have h1 : startsWith (frame p2 p3 c) tags_Packet.1 = true := by
    rw [e]; exact List.isPrefixOf_iff_prefix.2 (List.prefix_append _ _)
  have h2 : endsWith (frame p2 p3 c) tags_Packet.2 = true := by
    unfold frame; exact isSuffixOf_append _ _
  have h3 : startsWith (frame p2 p3 c) tags_Hello.1 = false := by
    rw [e]; exact startsWith_clash _ _ _ (by decide)
  cases k <;> simp only [canHandle, hany, h1, h2, h3] <;> rfl

end GeckoModel.Wire
