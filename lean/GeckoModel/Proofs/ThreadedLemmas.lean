/-
Lemmas about the threaded engine model (C20): how every phase of `engineIter` relates the send queue, the send clock and the trace.
-/
import GeckoModel.Model.Threaded

namespace GeckoModel.Threaded
open GeckoModel.Generated

variable {σ : Type}

/-! ### facts extracted from the source (a change of the source changes these definitions and breaks the `rfl`s) -/

theorem sendPopsFront_eq : sendPopsFront = true := rfl
theorem timeoutStrict_eq : timeoutStrict = true := rfl
theorem threadPhaseCodes_eq : threadPhaseCodes = [0, 1, 2, 3, 4] := rfl
theorem loopPhaseGuarded_eq : loopPhaseGuarded = true := rfl
theorem loopFuncGuarded_eq : loopFuncGuarded = true := rfl
theorem queueSendRecordsDest_eq : queueSendRecordsDest = true := rfl

/-! ### trace projections -/

theorem enqs_append (a b : List Out) : enqs (a ++ b) = enqs a ++ enqs b := by
  induction a with
  | nil => rfl
  | cons x xs ih => cases x <;> simp [enqs, ih]

theorem pops_append (a b : List Out) : pops (a ++ b) = pops a ++ pops b := by
  induction a with
  | nil => rfl
  | cons x xs ih => cases x <;> simp [pops, ih]

theorem sents_append (a b : List Out) : sents (a ++ b) = sents a ++ sents b := by
  induction a with
  | nil => rfl
  | cons x xs ih => cases x <;> simp [sents, ih]

theorem sentTimes_append (a b : List Out) : sentTimes (a ++ b) = sentTimes a ++ sentTimes b := by
  induction a with
  | nil => rfl
  | cons x xs ih => cases x <;> simp [sentTimes, ih]

theorem failedSends_append (a b : List Out) : failedSends (a ++ b) = failedSends a ++ failedSends b := by
  induction a with
  | nil => rfl
  | cons x xs ih => cases x <;> simp [failedSends, ih]

/-- when nothing failed, what was popped is what was transmitted -/
theorem pops_eq_sents (o : List Out) (h : failedSends o = []) : pops o = (sents o).map (fun x => (x.1, some x.2)) := by
  induction o with
  | nil => rfl
  | cons x xs ih =>
    cases x <;> simp_all [pops, sents, failedSends]

theorem sentTimes_length (o : List Out) : (sentTimes o).length = (sents o).length := by
  induction o with
  | nil => rfl
  | cons x xs ih => cases x <;> simp [sentTimes, sents, ih]

/-! ### pacing of a list of transmission times -/

/-- every element is at least `gap` after its predecessor, the first at least `gap` after `t0` -/
def PacedFrom (gap : Nat) : Time → List Time → Prop
  | _, [] => True
  | t0, t :: ts => t0 + gap ≤ t ∧ PacedFrom gap t ts

/-- the last transmission time, `t0` if there was none -/
def lastOr : Time → List Time → Time
  | t0, [] => t0
  | _, t :: ts => lastOr t ts

theorem pacedFrom_append (gap : Nat) : ∀ (l1 l2 : List Time) (t0 : Time),
    PacedFrom gap t0 l1 → PacedFrom gap (lastOr t0 l1) l2 → PacedFrom gap t0 (l1 ++ l2)
  | [], _, _, _, h2 => h2
  | t :: ts, l2, _, h1, h2 => ⟨h1.1, pacedFrom_append gap ts l2 t h1.2 h2⟩

theorem lastOr_append : ∀ (l1 l2 : List Time) (t0 : Time), lastOr t0 (l1 ++ l2) = lastOr (lastOr t0 l1) l2
  | [], _, _ => rfl
  | t :: ts, l2, _ => lastOr_append ts l2 t

/-! ### the relation every phase satisfies -/

/-- what a piece of a run does to the queue and the send clock:
  the clock does not go back; queue-before ++ queue_send calls = popped ++ queue-after;
  transmissions are paced from the previous `_last_send_time`, which afterwards is the time of the last transmission -/
structure Rel (e e' : Engine σ) (o : List Out) : Prop where
  clock_le : e.clock ≤ e'.clock
  fifo : e.sendq ++ enqs o = pops o ++ e'.sendq
  paced : e.lastSend ≤ e.clock →
    PacedFrom throttleMinGapUs e.lastSend (sentTimes o) ∧ e'.lastSend = lastOr e.lastSend (sentTimes o) ∧ e'.lastSend ≤ e'.clock

theorem Rel.refl (e : Engine σ) : Rel e e [] :=
  ⟨Nat.le_refl _, by simp [enqs, pops], fun h => ⟨trivial, rfl, h⟩⟩

theorem Rel.trans {e e1 e2 : Engine σ} {o1 o2 : List Out} (h1 : Rel e e1 o1) (h2 : Rel e1 e2 o2) : Rel e e2 (o1 ++ o2) := by
  refine ⟨Nat.le_trans h1.clock_le h2.clock_le, ?_, fun h => ?_⟩
  · rw [enqs_append, pops_append, ← List.append_assoc, h1.fifo, List.append_assoc, h2.fifo, List.append_assoc]
  · obtain ⟨p1, l1, c1⟩ := h1.paced h
    obtain ⟨p2, l2, c2⟩ := h2.paced c1
    rw [sentTimes_append]
    refine ⟨pacedFrom_append _ _ _ _ p1 (by rw [← l1]; exact p2), ?_, c2⟩
    rw [lastOr_append, ← l1]; exact l2

/-- a phase that neither pops nor transmits, only appends its `queue_send` calls to the queue -/
structure Frame (e e' : Engine σ) (o : List Out) : Prop where
  clock_eq : e'.clock = e.clock
  lastSend_eq : e'.lastSend = e.lastSend
  sendq_eq : e'.sendq = e.sendq ++ enqs o
  pops_nil : pops o = []
  times_nil : sentTimes o = []

theorem Frame.refl (e : Engine σ) : Frame e e [] := ⟨rfl, rfl, by simp [enqs], rfl, rfl⟩

theorem Frame.trans {e e1 e2 : Engine σ} {o1 o2 : List Out} (h1 : Frame e e1 o1) (h2 : Frame e1 e2 o2) : Frame e e2 (o1 ++ o2) :=
  ⟨by rw [h2.clock_eq, h1.clock_eq], by rw [h2.lastSend_eq, h1.lastSend_eq], by rw [h2.sendq_eq, h1.sendq_eq, enqs_append, List.append_assoc],
   by rw [pops_append, h1.pops_nil, h2.pops_nil]; rfl, by rw [sentTimes_append, h1.times_nil, h2.times_nil]; rfl⟩

theorem Frame.rel {e e' : Engine σ} {o : List Out} (h : Frame e e' o) : Rel e e' o :=
  ⟨by rw [h.clock_eq]; exact Nat.le_refl _, by rw [h.pops_nil, h.sendq_eq]; rfl,
   fun hc => by rw [h.times_nil, h.lastSend_eq, h.clock_eq]; exact ⟨trivial, rfl, hc⟩⟩

/-- prefixing / suffixing outputs that are not queue or send events -/
theorem Frame.cons_other {e e' : Engine σ} {o : List Out} (x : Out) (h : Frame e e' o)
    (hx : enqs [x] = [] ∧ pops [x] = [] ∧ sentTimes [x] = []) : Frame e e' (x :: o) := by
  have : x :: o = [x] ++ o := rfl
  rw [this]
  exact ⟨h.clock_eq, h.lastSend_eq, by rw [h.sendq_eq, enqs_append, hx.1]; rfl, by rw [pops_append, hx.2.1, h.pops_nil]; rfl,
         by rw [sentTimes_append, hx.2.2, h.times_nil]; rfl⟩

theorem Frame.append_other {e e' : Engine σ} {o : List Out} (t : List Out) (h : Frame e e' o)
    (ht : enqs t = [] ∧ pops t = [] ∧ sentTimes t = []) : Frame e e' (o ++ t) :=
  ⟨h.clock_eq, h.lastSend_eq, by rw [h.sendq_eq, enqs_append, ht.1, List.append_nil], by rw [pops_append, ht.2.1, h.pops_nil]; rfl,
   by rw [sentTimes_append, ht.2.2, h.times_nil]; rfl⟩

/-! ### phase 0 -/

theorem processSend_rel (P : Prog σ) (e : Engine σ) : Rel e (processSend P e).1 (processSend P e).2 := by
  unfold processSend
  by_cases hthr : e.clock - e.lastSend < throttleMinGapUs
  · simp only [hthr, if_true]; exact Rel.refl e
  · simp only [hthr, if_false]
    unfold popSend
    simp only [sendPopsFront_eq, if_true]
    cases hq : e.sendq with
    | nil => exact Rel.refl e
    | cons x rest =>
      obtain ⟨h, dest⟩ := x
      simp only
      by_cases hs : (P.spec h).sendable = true
      · simp only [hs, Bool.not_true, Bool.false_eq_true, if_false]
        cases dest with
        | none =>
          exact ⟨Nat.le_refl _, by simp [hq, enqs, pops], fun hc => ⟨trivial, rfl, hc⟩⟩
        | some d =>
          refine ⟨Nat.le_refl _, by simp [hq, enqs, pops], fun hc => ?_⟩
          simp only [sentTimes, PacedFrom, lastOr, and_true]
          exact ⟨by omega, trivial, Nat.le_refl _⟩
      · have hs' : (P.spec h).sendable = false := by simpa using hs
        simp only [hs', Bool.not_false, if_true]
        exact ⟨Nat.le_refl _, by simp [hq, enqs, pops], fun hc => ⟨trivial, rfl, hc⟩⟩

theorem processSend_alive (P : Prog σ) (e : Engine σ) : (processSend P e).1.alive = e.alive := by
  unfold processSend
  split
  · rfl
  · split
    · rfl
    · split
      · rfl
      · split <;> rfl

theorem processSend_handlers (P : Prog σ) (e : Engine σ) : (processSend P e).1.handlers = e.handlers := by
  unfold processSend
  split
  · rfl
  · split
    · rfl
    · split
      · rfl
      · split <;> rfl

theorem processSend_clock (P : Prog σ) (e : Engine σ) : (processSend P e).1.clock = e.clock := by
  unfold processSend
  split
  · rfl
  · split
    · rfl
    · split
      · rfl
      · split <;> rfl

/-! ### phase 1: acts, invoke, dispatch -/

theorem actStep_frame (P : Prog σ) (self : HId) (inner : Inner σ) (a : Act) (e : Engine σ)
    (hin : ∀ f, inner = some f → ∀ e, Frame e (f e).1 (f e).2) :
    Frame e (actStep P self inner a e).1 (actStep P self inner a e).2.1 := by
  cases a with
  | markRemove => exact ⟨rfl, rfl, by simp [actStep, enqs], rfl, rfl⟩
  | send h d => exact ⟨rfl, rfl, by simp [actStep, Engine.enq, enqs], rfl, rfl⟩
  | create h => exact ⟨rfl, rfl, by simp [actStep, enqs], rfl, rfl⟩
  | add h => exact ⟨rfl, rfl, by simp [actStep, enqs], rfl, rfl⟩
  | unwrap =>
    cases inner with
    | none => exact ⟨rfl, rfl, by simp [actStep, enqs], rfl, rfl⟩
    | some f => exact hin f rfl e
  | retryOrRaise =>
    unfold actStep
    by_cases h0 : (e.hs self).retries = 0
    · simp only [h0, if_true]; exact ⟨rfl, rfl, by simp [enqs], rfl, rfl⟩
    · simp only [h0, if_false]; exact ⟨rfl, rfl, by simp [Engine.enq, enqs], rfl, rfl⟩

theorem runActs_frame (P : Prog σ) (self : HId) (inner : Inner σ)
    (hin : ∀ f, inner = some f → ∀ e, Frame e (f e).1 (f e).2) :
    ∀ (acts : List Act) (e : Engine σ), Frame e (runActs P self inner acts e).1 (runActs P self inner acts e).2.1 := by
  intro acts
  induction acts with
  | nil => intro e; exact Frame.refl e
  | cons a rest ih =>
    intro e
    have h1 := actStep_frame P self inner a e hin
    unfold runActs
    by_cases hr : (actStep P self inner a e).2.2 = true
    · simp only [hr, if_true]; exact h1
    · simp only [hr]
      exact Frame.trans h1 (ih _)

theorem invoke_frame (P : Prog σ) (inner : Inner σ) (hin : ∀ f, inner = some f → ∀ e, Frame e (f e).1 (f e).2)
    (h : HId) (d : Dgram) (e : Engine σ) : Frame e (invoke P inner h d e).1 (invoke P inner h d e).2 := by
  unfold invoke
  simp only
  have f1 := runActs_frame P h inner hin ((P.spec h).handle e.client d).acts { e with client := ((P.spec h).handle e.client d).client }
  split
  · have : Frame e (runActs P h inner ((P.spec h).handle e.client d).acts { e with client := ((P.spec h).handle e.client d).client }).1
        (runActs P h inner ((P.spec h).handle e.client d).acts { e with client := ((P.spec h).handle e.client d).client }).2.1 :=
      ⟨f1.clock_eq, f1.lastSend_eq, f1.sendq_eq, f1.pops_nil, f1.times_nil⟩
    exact Frame.cons_other _ (Frame.append_other _ this ⟨rfl, rfl, rfl⟩) ⟨rfl, rfl, rfl⟩
  · rename_i hnr
    let e1 := (runActs P h inner ((P.spec h).handle e.client d).acts { e with client := ((P.spec h).handle e.client d).client }).1
    let e2 : Engine σ := { e1 with hs := upd e1.hs h { e1.hs h with start := e1.clock } }
    have f2 := runActs_frame P h inner hin ((P.spec h).onHandled e2.client d).acts { e2 with client := ((P.spec h).onHandled e2.client d).client }
    have f1' : Frame e e1 _ := ⟨f1.clock_eq, f1.lastSend_eq, f1.sendq_eq, f1.pops_nil, f1.times_nil⟩
    have f2' : Frame e1 (runActs P h inner ((P.spec h).onHandled e2.client d).acts { e2 with client := ((P.spec h).onHandled e2.client d).client }).1 _ :=
      ⟨f2.clock_eq, f2.lastSend_eq, f2.sendq_eq, f2.pops_nil, f2.times_nil⟩
    have f12 := Frame.trans f1' f2'
    have := Frame.cons_other (Out.handled h d) (Frame.append_other
      (if (runActs P h inner ((P.spec h).onHandled e2.client d).acts { e2 with client := ((P.spec h).onHandled e2.client d).client }).2.2 = true ∨
          ((P.spec h).onHandled e2.client d).raises = true then [Out.raised h] else []) f12
      (by split <;> exact ⟨rfl, rfl, rfl⟩)) ⟨rfl, rfl, rfl⟩
    simpa [List.append_assoc, e1, e2] using this

theorem dispatchWith_frame (P : Prog σ) (inner : Inner σ) (hin : ∀ f, inner = some f → ∀ e, Frame e (f e).1 (f e).2)
    (d : Dgram) (e : Engine σ) : Frame e (dispatchWith P inner d e).1 (dispatchWith P inner d e).2 := by
  unfold dispatchWith
  split
  · exact ⟨rfl, rfl, by simp [enqs], rfl, rfl⟩
  · exact invoke_frame P inner hin _ d e

theorem dispatch_frame (P : Prog σ) : ∀ (d : Dgram) (e : Engine σ), Frame e (dispatch P d e).1 (dispatch P d e).2
  | .raw v, e => by
    unfold dispatch
    exact dispatchWith_frame P none (fun f hf => by cases hf) _ e
  | .pkt i, e => by
    unfold dispatch
    exact dispatchWith_frame P (some (dispatch P i)) (fun f hf e' => by cases hf; exact dispatch_frame P i e') _ e

/-! ### phases 2, 3, 4 -/

theorem handlerLoop_frame (P : Prog σ) (h : HId) (e : Engine σ) : Frame e (handlerLoop P h e).1 (handlerLoop P h e).2.1 := by
  unfold handlerLoop
  split
  · exact Frame.refl e
  · split
    · split
      · exact ⟨rfl, rfl, by simp [enqs], rfl, rfl⟩
      · exact ⟨rfl, rfl, by simp [enqs], rfl, rfl⟩
      · exact ⟨rfl, rfl, by simp [enqs], rfl, rfl⟩
    · exact ⟨rfl, rfl, by simp [Engine.enq, enqs], rfl, rfl⟩

theorem loopAll_frame (P : Prog σ) : ∀ (l : List HId) (e : Engine σ), Frame e (loopAll P l e).1 (loopAll P l e).2
  | [], e => Frame.refl e
  | h :: rest, e => by
    have h1 := handlerLoop_frame P h e
    unfold loopAll
    by_cases hd : (handlerLoop P h e).2.2 = true
    · simp only [hd, if_true]
      have : Frame e { (handlerLoop P h e).1 with alive := false } (handlerLoop P h e).2.1 :=
        ⟨h1.clock_eq, h1.lastSend_eq, h1.sendq_eq, h1.pops_nil, h1.times_nil⟩
      exact Frame.append_other _ this ⟨rfl, rfl, rfl⟩
    · simp only [hd]
      exact Frame.trans h1 (loopAll_frame P rest _)

theorem cleanup_frame (e : Engine σ) : Frame e (cleanup e) [] := ⟨rfl, rfl, by simp [cleanup, enqs], rfl, rfl⟩

theorem loopFuncPhase_frame (P : Prog σ) (e : Engine σ) : Frame e (loopFuncPhase P e).1 (loopFuncPhase P e).2 := by
  unfold loopFuncPhase
  simp only [loopFuncGuarded_eq, Bool.not_true, Bool.and_false, Bool.false_eq_true, if_false]
  exact ⟨rfl, rfl, by simp [enqs], rfl, rfl⟩

/-! ### an iteration, a step, a run -/

theorem bump_rel (e : Engine σ) (dt : Time) : Rel e { e with clock := e.clock + dt } [] :=
  ⟨Nat.le_add_right _ _, by simp [enqs, pops], fun h => ⟨trivial, rfl, Nat.le_trans h (Nat.le_add_right _ _)⟩⟩

theorem runPhase_rel (P : Prog σ) (env : Env) (p : Nat) (e : Engine σ) : Rel e (runPhase P env p e).1 (runPhase P env p e).2 := by
  unfold runPhase
  split
  · exact processSend_rel P e
  · have hb := bump_rel e env.dtRecv
    split
    · exact hb
    · rename_i d _
      have := Rel.trans hb (dispatch_frame P d { e with clock := e.clock + env.dtRecv }).rel
      simpa using this
  · exact (loopAll_frame P e.handlers e).rel
  · exact (cleanup_frame e).rel
  · exact (loopFuncPhase_frame P e).rel
  · exact Rel.refl e

theorem runPhases_rel (P : Prog σ) (env : Env) : ∀ (ps : List Nat) (e : Engine σ), Rel e (runPhases P env ps e).1 (runPhases P env ps e).2
  | [], e => Rel.refl e
  | p :: ps, e => by
    unfold runPhases
    split
    · exact Rel.refl e
    · exact Rel.trans (runPhase_rel P env p e) (runPhases_rel P env ps _)

theorem engineIter_rel (P : Prog σ) (e : Engine σ) (env : Env) : Rel e (engineIter P e env).1 (engineIter P e env).2 := by
  unfold engineIter
  split
  · exact Rel.refl e
  · have := Rel.trans (bump_rel e env.dtPre) (runPhases_rel P env threadPhaseCodes { e with clock := e.clock + env.dtPre })
    simpa using this

theorem step_rel (P : Prog σ) (e : Engine σ) (s : Step) : Rel e (step P e s).1 (step P e s).2 := by
  cases s with
  | iter env => exact engineIter_rel P e env
  | queueSend h d => exact ⟨Nat.le_refl _, by simp [step, Engine.enq, enqs, pops], fun hc => ⟨trivial, rfl, hc⟩⟩
  | register h => exact ⟨Nat.le_refl _, by simp [step, enqs, pops], fun hc => ⟨trivial, rfl, hc⟩⟩
  | create h => exact ⟨Nat.le_refl _, by simp [step, enqs, pops], fun hc => ⟨trivial, rfl, hc⟩⟩

theorem run_rel (P : Prog σ) : ∀ (steps : List Step) (e : Engine σ), Rel e (run P e steps).1 (run P e steps).2
  | [], e => Rel.refl e
  | s :: ss, e => by
    unfold run
    exact Rel.trans (step_rel P e s) (run_rel P ss _)

end GeckoModel.Threaded
