/-
Two facts that make "the awaitable method and its blocking twin are the same code" (Model/Coop.lean `blockingTwin`, `rassoc`) a
statement about BEHAVIOUR, not only about syntax:

  * `rassoc_equiv`  : re-associating sequences does not change the traces of a skeleton;
  * `twin_refines`  : every trace of the blocking twin is the image of a trace of the awaitable skeleton (awaits completing
                      normally), event for event, with the same way of ending.
-/
import GeckoModel.Model.Coop
namespace GeckoModel.Coop

/-- two skeletons with the same traces -/
def Equiv (a b : Sk) : Prop := ∀ t o, Run a t o ↔ Run b t o

theorem Equiv.refl (a : Sk) : Equiv a a := fun _ _ => Iff.rfl
theorem Equiv.symm {a b : Sk} (h : Equiv a b) : Equiv b a := fun t o => (h t o).symm
theorem Equiv.trans {a b c : Sk} (h1 : Equiv a b) (h2 : Equiv b c) : Equiv a c := fun t o => (h1 t o).trans (h2 t o)

theorem seq_congr {a a' b b' : Sk} (ha : Equiv a a') (hb : Equiv b b') : Equiv (.seq a b) (.seq a' b') := by
  intro t o
  constructor
  · intro h
    cases h with
    | seqFall h1 h2 => exact .seqFall ((ha _ _).1 h1) ((hb _ _).1 h2)
    | seqStop h1 hne => exact .seqStop ((ha _ _).1 h1) hne
  · intro h
    cases h with
    | seqFall h1 h2 => exact .seqFall ((ha _ _).2 h1) ((hb _ _).2 h2)
    | seqStop h1 hne => exact .seqStop ((ha _ _).2 h1) hne

theorem alt_congr {a a' b b' : Sk} (ha : Equiv a a') (hb : Equiv b b') : Equiv (.alt a b) (.alt a' b') := by
  intro t o
  constructor
  · intro h
    cases h with
    | altL h1 => exact .altL ((ha _ _).1 h1)
    | altR h1 => exact .altR ((hb _ _).1 h1)
  · intro h
    cases h with
    | altL h1 => exact .altL ((ha _ _).2 h1)
    | altR h1 => exact .altR ((hb _ _).2 h1)

theorem fin_congr {a a' b b' : Sk} (ha : Equiv a a') (hb : Equiv b b') : Equiv (.fin a b) (.fin a' b') := by
  intro t o
  constructor
  · intro h
    cases h with
    | finFall h1 h2 => exact .finFall ((ha _ _).1 h1) ((hb _ _).1 h2)
    | finStop h1 h2 hne => exact .finStop ((ha _ _).1 h1) ((hb _ _).1 h2) hne
  · intro h
    cases h with
    | finFall h1 h2 => exact .finFall ((ha _ _).2 h1) ((hb _ _).2 h2)
    | finStop h1 h2 hne => exact .finStop ((ha _ _).2 h1) ((hb _ _).2 h2) hne

theorem try_congr {a a' b b' : Sk} (ha : Equiv a a') (hb : Equiv b b') : Equiv (.tryExc a b) (.tryExc a' b') := by
  intro t o
  constructor
  · intro h
    cases h with
    | tryOk h1 hne => exact .tryOk ((ha _ _).1 h1) hne
    | tryCaught h1 h2 => exact .tryCaught ((ha _ _).1 h1) ((hb _ _).1 h2)
    | tryUncaught h1 => exact .tryUncaught ((ha _ _).1 h1)
  · intro h
    cases h with
    | tryOk h1 hne => exact .tryOk ((ha _ _).2 h1) hne
    | tryCaught h1 h2 => exact .tryCaught ((ha _ _).2 h1) ((hb _ _).2 h2)
    | tryUncaught h1 => exact .tryUncaught ((ha _ _).2 h1)

theorem loop_mono {b b' : Sk} (hb : ∀ t o, Run b t o → Run b' t o) : ∀ {sk t o}, Run sk t o → sk = .loop b → Run (.loop b') t o := by
  intro sk t o h
  induction h with
  | loopDone => intro he; cases he; exact .loopDone
  | loopFall h1 _ _ ih2 => intro he; cases he; exact .loopFall (hb _ _ h1) (ih2 rfl)
  | loopCont h1 _ _ ih2 => intro he; cases he; exact .loopCont (hb _ _ h1) (ih2 rfl)
  | loopBrk h1 _ => intro he; cases he; exact .loopBrk (hb _ _ h1)
  | loopRet h1 _ => intro he; cases he; exact .loopRet (hb _ _ h1)
  | loopExc h1 _ => intro he; cases he; exact .loopExc (hb _ _ h1)
  | _ => intro he; cases he

theorem loop_congr {b b' : Sk} (hb : Equiv b b') : Equiv (.loop b) (.loop b') := by
  intro t o
  exact ⟨fun h => loop_mono (fun t o => (hb t o).1) h rfl, fun h => loop_mono (fun t o => (hb t o).2) h rfl⟩

theorem seq_assoc (a b c : Sk) : Equiv (.seq (.seq a b) c) (.seq a (.seq b c)) := by
  intro t o
  constructor
  · intro h
    cases h with
    | seqFall h1 h2 =>
      cases h1 with
      | seqFall ha hb => rw [List.append_assoc]; exact .seqFall ha (.seqFall hb h2)
      | seqStop _ hne => exact absurd rfl hne
    | seqStop h1 hne =>
      cases h1 with
      | seqFall ha hb => exact .seqFall ha (.seqStop hb hne)
      | seqStop ha hne' => exact .seqStop ha hne'
  · intro h
    cases h with
    | seqFall ha h2 =>
      cases h2 with
      | seqFall hb hc => rw [← List.append_assoc]; exact .seqFall (.seqFall ha hb) hc
      | seqStop hb hne => exact .seqStop (.seqFall ha hb) hne
    | seqStop ha hne => exact .seqStop (.seqStop ha hne) hne

theorem seqApp_equiv : ∀ (a c : Sk), Equiv (seqApp a c) (.seq a c) := by
  intro a
  induction a with
  | seq x y _ ihy =>
    intro c
    simp only [seqApp]
    exact (seq_congr (Equiv.refl x) (ihy c)).trans (seq_assoc x y c).symm
  | _ => intro c; simp only [seqApp]; exact Equiv.refl _

/-- re-association does not change what the code can do -/
theorem rassoc_equiv : ∀ sk : Sk, Equiv (rassoc sk) sk := by
  intro sk
  induction sk with
  | seq a b iha ihb => simp only [rassoc]; exact (seqApp_equiv _ _).trans (seq_congr iha ihb)
  | alt a b iha ihb => simp only [rassoc]; exact alt_congr iha ihb
  | loop b ih => simp only [rassoc]; exact loop_congr ih
  | fin a b iha ihb => simp only [rassoc]; exact fin_congr iha ihb
  | tryExc a b iha ihb => simp only [rassoc]; exact try_congr iha ihb
  | _ => simp only [rassoc]; exact Equiv.refl _

/-- what an event of the awaitable method looks like in its blocking twin -/
def twinEv (ren : String → String) : Ev → Ev
  | .aw n => .act ⟨.call, ren n⟩
  | .act a => .act a

theorem loop_twin (ren : String → String) {b : Sk}
    (ihb : ∀ t' o, Run (blockingTwin ren b) t' o → ∃ t, Run b t o ∧ t' = t.map (twinEv ren)) :
    ∀ {sk' t' o}, Run sk' t' o → sk' = .loop (blockingTwin ren b) → ∃ t, Run (.loop b) t o ∧ t' = t.map (twinEv ren) := by
  intro sk' t' o h
  induction h with
  | loopDone => intro he; cases he; exact ⟨[], .loopDone, rfl⟩
  | loopFall h1 _ _ ih2 =>
    intro he; cases he
    obtain ⟨t1, r1, e1⟩ := ihb _ _ h1
    obtain ⟨t2, r2, e2⟩ := ih2 rfl
    exact ⟨t1 ++ t2, .loopFall r1 r2, by rw [e1, e2, List.map_append]⟩
  | loopCont h1 _ _ ih2 =>
    intro he; cases he
    obtain ⟨t1, r1, e1⟩ := ihb _ _ h1
    obtain ⟨t2, r2, e2⟩ := ih2 rfl
    exact ⟨t1 ++ t2, .loopCont r1 r2, by rw [e1, e2, List.map_append]⟩
  | loopBrk h1 _ => intro he; cases he; obtain ⟨t1, r1, e1⟩ := ihb _ _ h1; exact ⟨t1, .loopBrk r1, e1⟩
  | loopRet h1 _ => intro he; cases he; obtain ⟨t1, r1, e1⟩ := ihb _ _ h1; exact ⟨t1, .loopRet r1, e1⟩
  | loopExc h1 _ => intro he; cases he; obtain ⟨t1, r1, e1⟩ := ihb _ _ h1; exact ⟨t1, .loopExc r1, e1⟩
  | _ => intro he; cases he

/-- **everything the blocking twin can do, the awaitable method can do**: a trace of the twin is the image of a trace of the
awaitable skeleton (its awaits completing normally), event for event and with the same way of ending -/
theorem twin_refines (ren : String → String) : ∀ (sk : Sk) (t' : List Ev) (o : Out),
    Run (blockingTwin ren sk) t' o → ∃ t, Run sk t o ∧ t' = t.map (twinEv ren) := by
  intro sk
  induction sk with
  | ev e =>
    intro t' o h
    cases e with
    | aw n =>
      simp only [blockingTwin] at h
      cases h
      exact ⟨[.aw n], .ev _, rfl⟩
    | act a =>
      simp only [blockingTwin] at h
      cases h
      exact ⟨[.act a], .ev _, rfl⟩
  | skip => intro t' o h; simp only [blockingTwin] at h; cases h; exact ⟨[], .skip, rfl⟩
  | exit => intro t' o h; simp only [blockingTwin] at h; cases h; exact ⟨[], .exit, rfl⟩
  | brk => intro t' o h; simp only [blockingTwin] at h; cases h; exact ⟨[], .brk, rfl⟩
  | cont => intro t' o h; simp only [blockingTwin] at h; cases h; exact ⟨[], .cont, rfl⟩
  | raise => intro t' o h; simp only [blockingTwin] at h; cases h; exact ⟨[], .raise, rfl⟩
  | seq a b iha ihb =>
    intro t' o h
    simp only [blockingTwin] at h
    cases h with
    | seqFall h1 h2 =>
      obtain ⟨t1, r1, e1⟩ := iha _ _ h1
      obtain ⟨t2, r2, e2⟩ := ihb _ _ h2
      exact ⟨t1 ++ t2, .seqFall r1 r2, by rw [e1, e2, List.map_append]⟩
    | seqStop h1 hne =>
      obtain ⟨t1, r1, e1⟩ := iha _ _ h1
      exact ⟨t1, .seqStop r1 hne, e1⟩
  | alt a b iha ihb =>
    intro t' o h
    simp only [blockingTwin] at h
    cases h with
    | altL h1 => obtain ⟨t1, r1, e1⟩ := iha _ _ h1; exact ⟨t1, .altL r1, e1⟩
    | altR h1 => obtain ⟨t1, r1, e1⟩ := ihb _ _ h1; exact ⟨t1, .altR r1, e1⟩
  | loop b ih =>
    intro t' o h
    simp only [blockingTwin] at h
    exact loop_twin ren ih h rfl
  | fin a b iha ihb =>
    intro t' o h
    simp only [blockingTwin] at h
    cases h with
    | finFall h1 h2 =>
      obtain ⟨t1, r1, e1⟩ := iha _ _ h1
      obtain ⟨t2, r2, e2⟩ := ihb _ _ h2
      exact ⟨t1 ++ t2, .finFall r1 r2, by rw [e1, e2, List.map_append]⟩
    | finStop h1 h2 hne =>
      obtain ⟨t1, r1, e1⟩ := iha _ _ h1
      obtain ⟨t2, r2, e2⟩ := ihb _ _ h2
      exact ⟨t1 ++ t2, .finStop r1 r2 hne, by rw [e1, e2, List.map_append]⟩
  | tryExc a b iha ihb =>
    intro t' o h
    simp only [blockingTwin] at h
    cases h with
    | tryOk h1 hne => obtain ⟨t1, r1, e1⟩ := iha _ _ h1; exact ⟨t1, .tryOk r1 hne, e1⟩
    | tryCaught h1 h2 =>
      obtain ⟨t1, r1, e1⟩ := iha _ _ h1
      obtain ⟨t2, r2, e2⟩ := ihb _ _ h2
      exact ⟨t1 ++ t2, .tryCaught r1 r2, by rw [e1, e2, List.map_append]⟩
    | tryUncaught h1 => obtain ⟨t1, r1, e1⟩ := iha _ _ h1; exact ⟨t1, .tryUncaught r1, e1⟩

end GeckoModel.Coop
