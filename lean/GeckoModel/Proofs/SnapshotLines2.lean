/- C19 helper lemmas: the `Spa pack` line (greedy `(.*)` in front of the numbers) and the `Snapshot (name)` line. -/
import GeckoModel.Proofs.SnapshotLines

set_option linter.unusedSimpArgs false
set_option linter.unusedVariables false

namespace GeckoModel.Snapshot

/-! ### `(.*)` followed by a tail on which the rest of the expression matches only at its very start -/

theorem cap_any_tail (r : List Atom) (x tail : Text) (gs : List Text) (hgood : matchSeq r tail = some gs)
    (hbad : ∀ k, k < tail.length → matchSeq r (tail.drop (k + 1)) = none) :
    matchSeq (.cap anyChar 0 :: r) (x ++ tail) = some (x :: gs) := by
  simp only [matchSeq, runLen_any]
  rw [tryLens_skip _ _ 0 x.length _ (by simp)]
  · rw [tryLens_hit _ _ _ _ gs (Nat.zero_le _) (by simpa using hgood)]
    simp
  · intro j' h1 h2
    simp only [List.length_append] at h2
    obtain ⟨k, rfl⟩ : ∃ k, j' = x.length + (k + 1) := ⟨j' - x.length - 1, by omega⟩
    rw [List.drop_append]
    have : List.drop (x.length + (k + 1)) x = [] := by simp
    rw [this]
    simpa using hbad k (by omega)

def spDigitAt : Text → Bool
  | c :: d :: _ => c == ' ' && isDigit d
  | _ => false

def hasSpDigit : Text → Bool
  | [] => false
  | c :: t => spDigitAt (c :: t) || hasSpDigit t

theorem need_spDigit (r : List Atom) (t : Text) (h : spDigitAt t = false) :
    matchSeq (.lit [' '] :: .cap isDigit 1 :: r) t = none := by
  cases t with
  | nil => simp [matchSeq, stripPrefix, List.isPrefixOf]
  | cons c t =>
    by_cases hc : c = ' '
    · subst hc
      cases t with
      | nil => simp [matchSeq, stripPrefix, List.isPrefixOf, runLen, tryLens]
      | cons d t =>
        simp [spDigitAt] at h
        simp [matchSeq, stripPrefix, List.isPrefixOf, runLen, h, tryLens]
    · have : (' ' == c) = false := by simp; exact fun e => hc e.symm
      simp [matchSeq, stripPrefix, List.isPrefixOf, this]

theorem spDigitAt_ne (c : Char) (t : Text) (h : (c == ' ') = false) : spDigitAt (c :: t) = false := by
  cases t <;> simp [spDigitAt, h]

theorem hasSpDigit_drop (t : Text) (h : hasSpDigit t = false) (k : Nat) : spDigitAt (t.drop k) = false := by
  induction t generalizing k with
  | nil => simp [spDigitAt]
  | cons c t ih =>
    simp only [hasSpDigit, Bool.or_eq_false_iff] at h
    cases k with
    | zero => exact h.1
    | succ k => simpa using ih h.2 k

theorem digit_ne_space (c : Char) (h : isDigit c = true) : (c == ' ') = false := by
  cases hc : c == ' ' with
  | false => rfl
  | true =>
    have : c = ' ' := by simpa using hc
    subst this; exact absurd h (by decide)

theorem hasSpDigit_digits (run w : Text) (h : run.all isDigit = true) : hasSpDigit (run ++ w) = hasSpDigit w := by
  induction run with
  | nil => rfl
  | cons c run ih =>
    simp only [List.all_cons, Bool.and_eq_true] at h
    simp only [List.cons_append, hasSpDigit, spDigitAt_ne _ _ (digit_ne_space c h.1), Bool.false_or, ih h.2]

/-- after the pack label there is exactly one place where ` <digit>` stands: in front of the configuration id -/
theorem packTail_clean (i r e : Nat) :
    hasSpDigit (natToDec i ++ (t!" v" ++ (natToDec r ++ ('.' :: (natToDec e ++ ['\n']))))) = false := by
  rw [hasSpDigit_digits _ _ (natToDec_digits i)]
  show hasSpDigit (' ' :: 'v' :: (natToDec r ++ ('.' :: (natToDec e ++ ['\n'])))) = false
  have e1 : ∀ Y, spDigitAt (' ' :: 'v' :: Y) = false := fun _ => rfl
  simp only [hasSpDigit, e1, spDigitAt_ne 'v' _ (by decide), spDigitAt_ne '.' _ (by decide), Bool.false_or,
    hasSpDigit_digits _ _ (natToDec_digits r), hasSpDigit_digits _ _ (natToDec_digits e)]
  rfl

theorem spaPack_match (label : Text) (i r e : Nat) :
    matchSeq [.cap anyChar 0, .lit t!" ", .cap isDigit 1, .lit t!" v", .cap isDigit 1, .lit t!".", .cap isDigit 1]
      (label ++ (' ' :: (natToDec i ++ (t!" v" ++ (natToDec r ++ ('.' :: (natToDec e ++ ['\n'])))))))
      = some [label, natToDec i, natToDec r, natToDec e] := by
  apply cap_any_tail
  · show matchSeq (.lit t!" " :: _) (t!" " ++ _) = _
    rw [lit_step]
    apply cap_run _ _ _ _ _ _ (natToDec_digits i) rfl (natToDec_len i)
    rw [lit_step]
    apply cap_run _ _ _ _ _ _ (natToDec_digits r) rfl (natToDec_len r)
    show matchSeq (.lit t!"." :: _) (t!"." ++ _) = _
    rw [lit_step]
    exact cap_run _ _ _ _ _ _ (natToDec_digits e) rfl (natToDec_len e) rfl
  · intro k _
    apply need_spDigit
    simpa using hasSpDigit_drop _ (packTail_clean i r e) k

theorem packLine_reshape (stamp label X : Text) :
    stamp ++ (shellTag ++ (t!"Spa pack " ++ (label ++ (' ' :: X)))) =
      stamp ++ (shellTag ++ (t!"Spa pack " ++ ((label ++ [' ']) ++ X))) := by simp

theorem facts_spaPack (stamp : Text) (hs : stamp.all stampChar = true) (label : Text) (hl : LabelOK label) (i r e : Nat) :
    LineFacts (stamp ++ (shellTag ++ (t!"Spa pack " ++ (label ++ (' ' :: (natToDec i ++ (t!" v" ++ (natToDec r ++ ('.' :: (natToDec e ++ ['\n']))))))))))
      (fun s => { s with packType := some label, confId := some (natToDec i), confRev := some (natToDec r), confRel := some (natToDec e) }) := by
  obtain ⟨hl1, hbr⟩ := hl
  simp only [firstLits, List.all_cons, List.all_nil, Bool.and_eq_true, Bool.and_true] at hl1
  obtain ⟨a1, a2, a3, a4, a5, a6, a7, a8, a9, a10, a11, a12, a13, a14, a15⟩ := hl1
  have h_reSnapshotAlt : searchRe reSnapshotAlt (stamp ++ (shellTag ++ (t!"Spa pack " ++ (label ++ (' ' :: (natToDec i ++ (t!" v" ++ (natToDec r ++ ('.' :: (natToDec e ++ ['\n'])))))))))) = none := by unfold reSnapshotAlt; rw [packLine_reshape]; dead
  have h_reSpaPack : searchRe reSpaPack (stamp ++ (shellTag ++ (t!"Spa pack " ++ (label ++ (' ' :: (natToDec i ++ (t!" v" ++ (natToDec r ++ ('.' :: (natToDec e ++ ['\n'])))))))))) = some [label, natToDec i, natToDec r, natToDec e] := by
    unfold reSpaPack
    skipseg; skipseg
    exact search_hit _ _ _ _ (by decide) (spaPack_match label i r e)
  have h_reIntouchEN : searchRe reIntouchEN (stamp ++ (shellTag ++ (t!"Spa pack " ++ (label ++ (' ' :: (natToDec i ++ (t!" v" ++ (natToDec r ++ ('.' :: (natToDec e ++ ['\n'])))))))))) = none := by unfold reIntouchEN; rw [packLine_reshape]; dead
  have h_reIntouchCO : searchRe reIntouchCO (stamp ++ (shellTag ++ (t!"Spa pack " ++ (label ++ (' ' :: (natToDec i ++ (t!" v" ++ (natToDec r ++ ('.' :: (natToDec e ++ ['\n'])))))))))) = none := by unfold reIntouchCO; rw [packLine_reshape]; dead
  have h_reConfigVersion : searchRe reConfigVersion (stamp ++ (shellTag ++ (t!"Spa pack " ++ (label ++ (' ' :: (natToDec i ++ (t!" v" ++ (natToDec r ++ ('.' :: (natToDec e ++ ['\n'])))))))))) = none := by unfold reConfigVersion; rw [packLine_reshape]; dead
  have h_reLogVersion : searchRe reLogVersion (stamp ++ (shellTag ++ (t!"Spa pack " ++ (label ++ (' ' :: (natToDec i ++ (t!" v" ++ (natToDec r ++ ('.' :: (natToDec e ++ ['\n'])))))))))) = none := by unfold reLogVersion; rw [packLine_reshape]; dead
  have h_rePackType : searchRe rePackType (stamp ++ (shellTag ++ (t!"Spa pack " ++ (label ++ (' ' :: (natToDec i ++ (t!" v" ++ (natToDec r ++ ('.' :: (natToDec e ++ ['\n'])))))))))) = none := by unfold rePackType; rw [packLine_reshape]; dead
  have h_rePackId : searchRe rePackId (stamp ++ (shellTag ++ (t!"Spa pack " ++ (label ++ (' ' :: (natToDec i ++ (t!" v" ++ (natToDec r ++ ('.' :: (natToDec e ++ ['\n'])))))))))) = none := by unfold rePackId; rw [packLine_reshape]; dead
  have h_rePackRev : searchRe rePackRev (stamp ++ (shellTag ++ (t!"Spa pack " ++ (label ++ (' ' :: (natToDec i ++ (t!" v" ++ (natToDec r ++ ('.' :: (natToDec e ++ ['\n'])))))))))) = none := by unfold rePackRev; rw [packLine_reshape]; dead
  have h_rePackRel : searchRe rePackRel (stamp ++ (shellTag ++ (t!"Spa pack " ++ (label ++ (' ' :: (natToDec i ++ (t!" v" ++ (natToDec r ++ ('.' :: (natToDec e ++ ['\n'])))))))))) = none := by unfold rePackRel; rw [packLine_reshape]; dead
  have h_reSoftware : searchRe reSoftware (stamp ++ (shellTag ++ (t!"Spa pack " ++ (label ++ (' ' :: (natToDec i ++ (t!" v" ++ (natToDec r ++ ('.' :: (natToDec e ++ ['\n'])))))))))) = none := by unfold reSoftware; rw [packLine_reshape]; dead
  have h_reConfigAndLog : searchRe reConfigAndLog (stamp ++ (shellTag ++ (t!"Spa pack " ++ (label ++ (' ' :: (natToDec i ++ (t!" v" ++ (natToDec r ++ ('.' :: (natToDec e ++ ['\n'])))))))))) = none := by unfold reConfigAndLog; rw [packLine_reshape]; dead
  have h_reStatv : searchRe reStatv (stamp ++ (shellTag ++ (t!"Spa pack " ++ (label ++ (' ' :: (natToDec i ++ (t!" v" ++ (natToDec r ++ ('.' :: (natToDec e ++ ['\n'])))))))))) = none := by unfold reStatv; rw [packLine_reshape]; dead
  have h_data : dataLine (stamp ++ (shellTag ++ (t!"Spa pack " ++ (label ++ (' ' :: (natToDec i ++ (t!" v" ++ (natToDec r ++ ('.' :: (natToDec e ++ ['\n'])))))))))) = .noMatch := by
    have : reData (stamp ++ (shellTag ++ (t!"Spa pack " ++ (label ++ (' ' :: (natToDec i ++ (t!" v" ++ (natToDec r ++ ('.' :: (natToDec e ++ ['\n'])))))))))) = none := by rw [packLine_reshape]; deaddata
    unfold dataLine; rw [this]
  have h_snap : searchRe [.lit t!"Snapshot"] (stamp ++ (shellTag ++ (t!"Spa pack " ++ (label ++ (' ' :: (natToDec i ++ (t!" v" ++ (natToDec r ++ ('.' :: (natToDec e ++ ['\n'])))))))))) = none := by rw [packLine_reshape]; dead
  have h_conn : searchRe [.lit t!"Starting spa connection handshake..."] (stamp ++ (shellTag ++ (t!"Spa pack " ++ (label ++ (' ' :: (natToDec i ++ (t!" v" ++ (natToDec r ++ ('.' :: (natToDec e ++ ['\n'])))))))))) = none := by rw [packLine_reshape]; dead
  refine ⟨fun s => ?_, hasSub_false _ _ h_snap, info_line _ _ hs, hasSub_false _ _ h_conn⟩
  simp only [parseLine, fire, hData, hSegment, h_data, h_reSnapshotAlt, h_reSpaPack, h_reIntouchEN, h_reIntouchCO, h_reConfigVersion, h_reLogVersion, h_rePackType, h_rePackId, h_rePackRev, h_rePackRel, h_reSoftware, h_reConfigAndLog, h_reStatv] <;> rfl

end GeckoModel.Snapshot
