/- helper lemmas for C15 (model: Model/Discovery.lean) -/
import GeckoModel.Model.Discovery

namespace GeckoModel.Discovery

/-! ### hello parsing -/

theorem content_helloReply (i n : Bytes) : content (helloReply i n) = i ++ bar :: n := by
  unfold content helloReply
  have h1 : (helloOpen ++ (i ++ bar :: n) ++ helloClose).length - 8 = (helloOpen ++ (i ++ bar :: n)).length := by
    simp [helloClose]; omega
  rw [h1, List.take_left']
  · show List.drop 7 (helloOpen ++ (i ++ bar :: n)) = _
    have : (7 : Nat) = helloOpen.length := rfl
    rw [this, List.drop_left']
    rfl
  · rfl

theorem canHandle_helloReply (i n : Bytes) : canHandle (helloReply i n) = true := by
  unfold canHandle helloReply
  simp only [Bool.and_eq_true, List.isPrefixOf_iff_prefix, List.isSuffixOf_iff_suffix]
  exact ⟨by rw [List.append_assoc]; exact List.prefix_append _ _, List.suffix_append _ _⟩

theorem splitBar_ne_nil (b : Bytes) : splitBar b ≠ [] := by
  induction b with
  | nil => simp [splitBar]
  | cons x xs ih =>
    unfold splitBar
    by_cases h : x = bar
    · simp [h]
    · simp only [h, if_false]
      cases hs : splitBar xs <;> simp

theorem splitBar_noBar (n : Bytes) (h : NoBar n) : splitBar n = [n] := by
  induction n with
  | nil => rfl
  | cons x xs ih =>
    have hx : x ≠ bar := by intro e; exact h (by simp [e])
    have hxs : NoBar xs := by intro e; exact h (by simp [e])
    simp [splitBar, hx, ih hxs]

theorem splitBar_append (i rest : Bytes) (h : NoBar i) : splitBar (i ++ bar :: rest) = i :: splitBar rest := by
  induction i with
  | nil => simp [splitBar]
  | cons x xs ih =>
    have hx : x ≠ bar := by intro e; exact h (by simp [e])
    have hxs : NoBar xs := by intro e; exact h (by simp [e])
    simp [splitBar, hx, ih hxs]

theorem prefix3_append (p : Bytes) (hp : p.length = 3) (hb : bar ∉ p) (i n : Bytes) :
    p.isPrefixOf (i ++ bar :: n) = p.isPrefixOf i := by
  match p, hp with
  | [a, b, c], _ =>
    simp at hb
    obtain ⟨ha, hb', hc⟩ := hb
    match i with
    | [] => simp [List.isPrefixOf, Ne.symm ha]
    | [x] => simp [List.isPrefixOf, Ne.symm hb']
    | [x, y] => simp [List.isPrefixOf, Ne.symm hc]
    | x :: y :: z :: rest => simp [List.isPrefixOf]

theorem parseContent_reply (i n : Bytes) (hi : GoodId i) (hn : NoBar n) :
    parseContent (i ++ bar :: n) = .ok (.spa i n) := by
  obtain ⟨h1, h2, h3⟩ := hi
  unfold parseContent
  have hne : i ++ bar :: n ≠ [49] := by
    intro e
    match i, e with
    | [], e => simp [bar] at e
    | [x], e => simp at e
    | x :: y :: r, e => simp at e
  have hios : iosPrefix.isPrefixOf (i ++ bar :: n) = false := by
    rw [prefix3_append _ rfl (by decide)]; exact h2
  have hand : andPrefix.isPrefixOf (i ++ bar :: n) = false := by
    rw [prefix3_append _ rfl (by decide)]; exact h3
  simp only [hne, if_false, hios, hand, Bool.or_self, Bool.false_eq_true]
  rw [splitBar_append _ _ h1, splitBar_noBar _ hn]

theorem codeParse_reply (i n : Bytes) (hi : GoodId i) (hn : NoBar n) : codeParse (helloReply i n) = .ok (i, n) := by
  unfold codeParse
  rw [content_helloReply, parseContent_reply i n hi hn]

theorem takeWhile_stop (p : UInt8 → Bool) (i rest : Bytes) (b : UInt8) (hi : ∀ x ∈ i, p x = true) (hb : p b = false) :
    (i ++ b :: rest).takeWhile p = i := by
  induction i with
  | nil => simp [hb]
  | cons x xs ih =>
    have hx : p x = true := hi x (by simp)
    have := ih (fun y hy => hi y (by simp [hy]))
    simp [hx, this]

theorem dropWhile_stop (p : UInt8 → Bool) (i rest : Bytes) (b : UInt8) (hi : ∀ x ∈ i, p x = true) (hb : p b = false) :
    (i ++ b :: rest).dropWhile p = b :: rest := by
  induction i with
  | nil => simp [hb]
  | cons x xs ih =>
    have hx : p x = true := hi x (by simp)
    have := ih (fun y hy => hi y (by simp [hy]))
    simp [hx, this]

theorem specDecode_reply (i n : Bytes) (a : Addr) (hi : NoBar i) : specDecode ⟨helloReply i n, a⟩ = ⟨i, n, a⟩ := by
  have h1 : ∀ x ∈ i, (x != bar) = true := by
    intro x hx; simp only [bne_iff_ne]; intro e; exact hi (e ▸ hx)
  have h2 : (bar != bar) = false := by simp
  simp only [specDecode, content_helloReply]
  rw [takeWhile_stop _ _ _ _ h1 h2, dropWhile_stop _ _ _ _ h1 h2]
  rfl


/-! ### frame facts of a step -/

variable (c : DCfg) (f : Filter)

theorem onDiscovered_frame (s : DState) (d : Desc) (b : Bool) :
    (onDiscovered f s d b).t = s.t ∧ (onDiscovered f s d b).main = s.main ∧ (onDiscovered f s d b).closed = s.closed ∧
    (onDiscovered f s d b).queue = s.queue ∧ (onDiscovered f s d b).arrived = s.arrived ∧
    (onDiscovered f s d b).popped = s.popped ∧ (onDiscovered f s d b).handled = s.handled ∧
    (onDiscovered f s d b).bcastAlive = s.bcastAlive := by
  unfold onDiscovered finishHandler
  split
  · simp
  · split
    · simp
    · cases b <;> simp <;> split <;> simp

theorem onConsume_frame (s : DState) (b : Bool) :
    (onConsume f s b).t = s.t ∧ (onConsume f s b).main = s.main ∧ (onConsume f s b).closed = s.closed ∧
    (onConsume f s b).arrived = s.arrived ∧ (onConsume f s b).bcastAlive = s.bcastAlive := by
  unfold onConsume
  split
  · split
    · split
      · simp
      · have := onDiscovered_frame f { s with queue := _, popped := _, handled := _ } ⟨_, _, _⟩ b
        simp only [this, and_self]
    · simp
  · simp

theorem onResume_frame (s : DState) :
    (onResume f s).t = s.t ∧ (onResume f s).main = s.main ∧ (onResume f s).closed = s.closed ∧
    (onResume f s).arrived = s.arrived ∧ (onResume f s).bcastAlive = s.bcastAlive ∧ (onResume f s).spas = s.spas ∧
    (onResume f s).seen = s.seen ∧ (onResume f s).queue = s.queue ∧ (onResume f s).popped = s.popped ∧
    (onResume f s).handled = s.handled := by
  unfold onResume finishHandler
  split
  · split <;> simp
  · simp

end GeckoModel.Discovery
