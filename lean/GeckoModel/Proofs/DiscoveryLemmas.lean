/- helper lemmas for C15 (model: Model/Discovery.lean) -/
import GeckoModel.Model.Discovery

namespace GeckoModel.Discovery

/-! ### hello parsing -/

theorem content_helloReply (i n : Bytes) : content (helloReply i n) = i ++ bar :: n := by
  unfold content helloReply
  have h1 : (helloOpen ++ (i ++ bar :: n) ++ helloClose).length - 8 = (helloOpen ++ (i ++ bar :: n)).length := by
    simp [helloClose]; omega
  rw [h1, List.take_left']
  · show List.drop 7 (helloOpen ++ (i ++ bar :: n)) = _
    have : (7 : Nat) = helloOpen.length := rfl
    rw [this, List.drop_left']
    rfl
  · rfl

theorem canHandle_helloReply (i n : Bytes) : canHandle (helloReply i n) = true := by
  unfold canHandle helloReply
  simp only [Bool.and_eq_true, List.isPrefixOf_iff_prefix, List.isSuffixOf_iff_suffix]
  exact ⟨by rw [List.append_assoc]; exact List.prefix_append _ _, List.suffix_append _ _⟩

theorem prefix3_append (p : Bytes) (hp : p.length = 3) (hb : bar ∉ p) (i n : Bytes) :
    p.isPrefixOf (i ++ bar :: n) = p.isPrefixOf i := by
  match p, hp with
  | [a, b, c], _ =>
    simp at hb
    obtain ⟨ha, hb', hc⟩ := hb
    match i with
    | [] => simp [List.isPrefixOf, Ne.symm ha]
    | [x] => simp [List.isPrefixOf, Ne.symm hb']
    | [x, y] => simp [List.isPrefixOf, Ne.symm hc]
    | x :: y :: z :: rest => simp [List.isPrefixOf]

theorem takeWhile_stop (p : UInt8 → Bool) (i rest : Bytes) (b : UInt8) (hi : ∀ x ∈ i, p x = true) (hb : p b = false) :
    (i ++ b :: rest).takeWhile p = i := by
  induction i with
  | nil => simp [hb]
  | cons x xs ih =>
    have hx : p x = true := hi x (by simp)
    have := ih (fun y hy => hi y (by simp [hy]))
    simp [hx, this]

theorem dropWhile_stop (p : UInt8 → Bool) (i rest : Bytes) (b : UInt8) (hi : ∀ x ∈ i, p x = true) (hb : p b = false) :
    (i ++ b :: rest).dropWhile p = b :: rest := by
  induction i with
  | nil => simp [hb]
  | cons x xs ih =>
    have hx : p x = true := hi x (by simp)
    have := ih (fun y hy => hi y (by simp [hy]))
    simp [hx, this]

theorem parseContent_reply (i n : Bytes) (hi : GoodId i) :
    parseContent (i ++ bar :: n) = .ok (.spa i n) := by
  obtain ⟨h1, h2, h3⟩ := hi
  unfold parseContent
  have hne : i ++ bar :: n ≠ [49] := by
    intro e
    match i, e with
    | [], e => simp [bar] at e
    | [x], e => simp at e
    | x :: y :: r, e => simp at e
  have hios : iosPrefix.isPrefixOf (i ++ bar :: n) = false := by
    rw [prefix3_append _ rfl (by decide)]; exact h2
  have hand : andPrefix.isPrefixOf (i ++ bar :: n) = false := by
    rw [prefix3_append _ rfl (by decide)]; exact h3
  have hmem : bar ∈ i ++ bar :: n := by simp
  have h1' : ∀ x ∈ i, (x != bar) = true := by
    intro x hx; simp only [bne_iff_ne]; intro e; exact h1 (e ▸ hx)
  have h2' : (bar != bar) = false := by simp
  simp only [hne, if_false, hios, hand, Bool.or_self, Bool.false_eq_true, hmem, if_true]
  rw [takeWhile_stop _ _ _ _ h1' h2', dropWhile_stop _ _ _ _ h1' h2']
  rfl

theorem codeParse_reply (i n : Bytes) (hi : GoodId i) : codeParse (helloReply i n) = .ok (i, n) := by
  unfold codeParse
  rw [content_helloReply, parseContent_reply i n hi]

theorem specDecode_reply (i n : Bytes) (a : Addr) (hi : NoBar i) : specDecode ⟨helloReply i n, a⟩ = ⟨i, n, a⟩ := by
  have h1 : ∀ x ∈ i, (x != bar) = true := by
    intro x hx; simp only [bne_iff_ne]; intro e; exact hi (e ▸ hx)
  have h2 : (bar != bar) = false := by simp
  simp only [specDecode, content_helloReply]
  rw [takeWhile_stop _ _ _ _ h1 h2, dropWhile_stop _ _ _ _ h1 h2]
  rfl


/-! ### case analysis of the two consumer functions -/

variable (c : DCfg) (f : Filter)

theorem onDiscovered_cases (s : DState) (d : Desc) (b : Bool) :
    ((d.id ∈ s.seen ∨ f.passes d.id = false) ∧ onDiscovered f s d b = s) ∨
    (d.id ∉ s.seen ∧ f.passes d.id = true ∧ b = true ∧
      onDiscovered f s d b = { s with seen := s.seen ++ [d.id], spas := s.spas ++ [d], consumer := .inHandler }) ∨
    (d.id ∉ s.seen ∧ f.passes d.id = true ∧ b = false ∧
      onDiscovered f s d b = { s with seen := s.seen ++ [d.id], spas := s.spas ++ [d], found := s.found || f.restricting }) := by
  unfold onDiscovered finishHandler
  by_cases h1 : d.id ∈ s.seen
  · simp [h1]
  · cases h2 : f.passes d.id
    · simp [h1]
    · cases b <;> simp [h1]

theorem onConsume_cases (s : DState) (b : Bool) :
    (onConsume f s b = s ∧ (s.consumer ≠ .idle ∨ s.queue = [] ∨ ∃ d rest, s.queue = d :: rest ∧ canHandle d.payload = false)) ∨
    (∃ d rest e, s.consumer = .idle ∧ s.queue = d :: rest ∧ canHandle d.payload = true ∧ codeParse d.payload = .error e ∧
      onConsume f s b = { s with queue := rest, popped := s.popped ++ [d], consumer := .dead e }) ∨
    (∃ d rest i n, s.consumer = .idle ∧ s.queue = d :: rest ∧ canHandle d.payload = true ∧ codeParse d.payload = .ok (i, n) ∧
      onConsume f s b = onDiscovered f { s with queue := rest, popped := s.popped ++ [d], handled := s.handled ++ [⟨i, n, d.addr⟩] }
        ⟨i, n, d.addr⟩ b) := by
  unfold onConsume
  cases hc : s.consumer with
  | idle =>
    cases hq : s.queue with
    | nil => simp
    | cons d rest =>
      cases hh : canHandle d.payload with
      | false => exact Or.inl ⟨by simp [hh], Or.inr (Or.inr ⟨d, rest, rfl, hh⟩)⟩
      | true =>
        cases hp : codeParse d.payload with
        | error e => exact Or.inr (Or.inl ⟨d, rest, e, rfl, rfl, hh, hp, by simp [hh, hp]⟩)
        | ok v => obtain ⟨i, n⟩ := v; exact Or.inr (Or.inr ⟨d, rest, i, n, rfl, rfl, hh, hp, by simp [hh, hp]⟩)
  | inHandler => simp
  | dead e => simp
  | cancelled => simp

theorem onResume_cases (s : DState) :
    (s.consumer = .inHandler ∧ onResume f s = { s with consumer := .idle, found := s.found || f.restricting }) ∨
    (s.consumer ≠ .inHandler ∧ onResume f s = s) := by
  unfold onResume finishHandler
  cases hc : s.consumer <;> simp

theorem onPoll_cases (s : DState) :
    (s.main = .running ∧ exitNow c s = true ∧ onPoll c s = finish s) ∨
    ((s.main ≠ .running ∨ exitNow c s = false) ∧ onPoll c s = s) := by
  unfold onPoll
  cases hm : s.main with
  | running => cases he : exitNow c s <;> simp
  | returned r => simp
  | cancelled r => simp

theorem onCancel_cases (s : DState) :
    (s.main = .running ∧ onCancel s = cleanup s (.cancelled s.t)) ∨ (s.main ≠ .running ∧ onCancel s = s) := by
  unfold onCancel
  cases hm : s.main <;> simp


/-! ### the invariant -/

theorem firstPerId_snoc (l : List Desc) (d : Desc) :
    firstPerId (l ++ [d]) = if d.id ∈ (firstPerId l).map (·.id) then firstPerId l else firstPerId l ++ [d] := by
  simp [firstPerId, List.foldl_append]

structure DInv (s : DState) : Prop where
  ids : s.spas.map (·.id) = s.seen
  nodup : s.seen.Nodup
  filt : ∀ d ∈ s.spas, f.passes d.id = true
  listed : s.spas = firstPerId (s.handled.filter (fun d => f.passes d.id))
  fifo : s.arrived = s.popped ++ s.queue
  closedIff : s.closed = true ↔ s.main ≠ .running
  foundImp : s.found = true → f.restricting = true ∧ s.spas ≠ []
  handlerImp : s.consumer = .inHandler → s.spas ≠ [] ∧ s.main = .running
  foundOf : s.main = .running → s.consumer ≠ .inHandler → f.restricting = true → s.spas ≠ [] → s.found = true
  ret : ∀ r, s.main = .returned r → r ≤ s.t ∧ (s.consumer = .cancelled ∨ ∃ e, s.consumer = .dead e) ∧ s.bcastAlive = false ∧
          (c.timeout ≤ r ∨ (c.initial < r ∧ s.spas ≠ []) ∨ s.found = true)
  fin : s.main ≠ .running → (s.consumer = .cancelled ∨ ∃ e, s.consumer = .dead e) ∧ s.bcastAlive = false

theorem inv_init : DInv c f DState.init := by
  constructor <;> simp [DState.init, firstPerId]

theorem inv_datagram (s : DState) (hi : DInv c f s) (d : Datagram) : DInv c f (onDatagram s d) := by
  cases hcl : s.closed with
  | true => simpa [onDatagram, hcl] using hi
  | false =>
    have : onDatagram s d = { s with queue := s.queue ++ [d], arrived := s.arrived ++ [d] } := by simp [onDatagram, hcl]
    rw [this]
    exact { hi with fifo := by simp [hi.fifo] }

theorem inv_tick (s : DState) (hi : DInv c f s) : DInv c f { s with t := s.t + 1 } := by
  have hret : ∀ r, s.main = .returned r → r ≤ s.t + 1 ∧ (s.consumer = .cancelled ∨ ∃ e, s.consumer = .dead e) ∧
      s.bcastAlive = false ∧ (c.timeout ≤ r ∨ (c.initial < r ∧ s.spas ≠ []) ∨ s.found = true) := by
    intro r hr
    obtain ⟨h1, h2⟩ := hi.ret r hr
    exact ⟨Nat.le_succ_of_le h1, h2⟩
  exact { hi with ret := hret }

theorem running_of_idle (s : DState) (hi : DInv c f s) (h : s.consumer = .idle) : s.main = .running := by
  by_cases hm : s.main = .running
  · exact hm
  · obtain ⟨h2, _⟩ := hi.fin hm
    rcases h2 with h2 | ⟨e, h2⟩ <;> simp [h] at h2

theorem inv_discovered (s : DState) (h0 : List Desc) (d : Desc) (b : Bool) (hidle : s.consumer = .idle)
    (hh : s.handled = h0 ++ [d]) (hi0 : DInv c f { s with handled := h0 }) : DInv c f (onDiscovered f s d b) := by
  have hl : s.spas = firstPerId (h0.filter (fun d => f.passes d.id)) := hi0.listed
  have hi : DInv c f { s with handled := h0 } := hi0
  have hids : s.spas.map (·.id) = s.seen := hi0.ids
  have hrun : s.main = .running := running_of_idle c f { s with handled := h0 } hi0 hidle
  have hmem : d.id ∈ (firstPerId (h0.filter (fun d => f.passes d.id))).map (·.id) ↔ d.id ∈ s.seen := by
    rw [← hl, hids]
  rcases onDiscovered_cases f s d b with ⟨h1, h2⟩ | ⟨h1, h2, _, h3⟩ | ⟨h1, h2, _, h3⟩
  · rw [h2]
    refine { hi with listed := ?_ }
    show s.spas = _
    rw [hh, List.filter_append]
    rcases h1 with h1 | h1
    · cases hp : f.passes d.id
      · simp [hp, hl]
      · simp only [List.filter_cons, hp, if_true, List.filter_nil, firstPerId_snoc, hmem.mpr h1]
        exact hl
    · simp [h1, hl]
  · rw [h3]
    exact {
      ids := by simp [hids]
      nodup := by
        rw [List.nodup_append]
        exact ⟨hi.nodup, by simp, by intro a ha b hb; simp at hb; subst hb; intro e; exact h1 (e ▸ ha)⟩
      filt := by
        intro x hx
        rcases List.mem_append.mp hx with hx | hx
        · exact hi.filt x hx
        · simp at hx; rw [hx]; exact h2
      listed := by
        show s.spas ++ [d] = _
        rw [hh, List.filter_append]
        simp only [List.filter_cons, h2, if_true, List.filter_nil, firstPerId_snoc]
        rw [if_neg (fun hc => h1 (hmem.mp hc)), hl]
      fifo := hi.fifo
      closedIff := hi.closedIff
      foundImp := fun hf => ⟨(hi.foundImp hf).1, by simp⟩
      handlerImp := fun _ => ⟨by simp, hrun⟩
      foundOf := fun _ hne => absurd rfl hne
      ret := fun r hr => by rw [hrun] at hr; cases hr
      fin := fun h => absurd hrun h }
  · rw [h3]
    exact {
      ids := by simp [hids]
      nodup := by
        rw [List.nodup_append]
        exact ⟨hi.nodup, by simp, by intro a ha b hb; simp at hb; subst hb; intro e; exact h1 (e ▸ ha)⟩
      filt := by
        intro x hx
        rcases List.mem_append.mp hx with hx | hx
        · exact hi.filt x hx
        · simp at hx; rw [hx]; exact h2
      listed := by
        show s.spas ++ [d] = _
        rw [hh, List.filter_append]
        simp only [List.filter_cons, h2, if_true, List.filter_nil, firstPerId_snoc]
        rw [if_neg (fun hc => h1 (hmem.mp hc)), hl]
      fifo := hi.fifo
      closedIff := hi.closedIff
      foundImp := fun hf => by
        simp only [Bool.or_eq_true] at hf
        refine ⟨?_, by simp⟩
        rcases hf with hf | hf
        · exact (hi.foundImp hf).1
        · exact hf
      handlerImp := fun hc => by rw [hidle] at hc; cases hc
      foundOf := fun _ _ hr _ => by simp [hr]
      ret := fun r hr => by rw [hrun] at hr; cases hr
      fin := fun h => absurd hrun h }


theorem inv_consume (s : DState) (hi : DInv c f s) (b : Bool) : DInv c f (onConsume f s b) := by
  rcases onConsume_cases f s b with ⟨h, _⟩ | ⟨d, rest, e, hc, hq, _, _, h⟩ | ⟨d, rest, i, n, hc, hq, _, _, h⟩
  · rw [h]; exact hi
  · rw [h]
    have hrun := running_of_idle c f s hi hc
    exact { hi with
      fifo := by simp [hi.fifo, hq]
      handlerImp := fun hx => by cases hx
      foundOf := fun h1 _ h3 h4 => hi.foundOf h1 (by simp [hc]) h3 h4
      ret := fun r hr => by rw [show s.main = Main.running from hrun] at hr; cases hr
      fin := fun h => absurd hrun h }
  · rw [h]
    refine inv_discovered c f { s with queue := rest, popped := s.popped ++ [d], handled := s.handled ++ [⟨i, n, d.addr⟩] }
      s.handled ⟨i, n, d.addr⟩ b hc rfl ?_
    exact { hi with fifo := by simp [hi.fifo, hq] }

theorem inv_resume (s : DState) (hi : DInv c f s) : DInv c f (onResume f s) := by
  rcases onResume_cases f s with ⟨hc, h⟩ | ⟨_, h⟩
  · rw [h]
    obtain ⟨hne, hrun⟩ := hi.handlerImp hc
    exact { hi with
      foundImp := fun hf => by
        simp only [Bool.or_eq_true] at hf
        refine ⟨?_, hne⟩
        rcases hf with hf | hf
        · exact (hi.foundImp hf).1
        · exact hf
      handlerImp := fun hx => by cases hx
      foundOf := fun _ _ hr _ => by simp [hr]
      ret := fun r hr => by rw [show s.main = Main.running from hrun] at hr; cases hr
      fin := fun h => absurd hrun h }
  · rw [h]; exact hi

theorem exitNow_spec (s : DState) (h : exitNow c s = true) :
    c.timeout ≤ s.t ∨ (c.initial < s.t ∧ s.spas ≠ []) ∨ s.found = true := by
  unfold exitNow at h
  simp only [Bool.or_eq_true, Bool.and_eq_true, Bool.not_eq_true', decide_eq_false_iff_not, Nat.not_lt, decide_eq_true_eq,
    List.isEmpty_eq_false_iff] at h
  rcases h with (h | h) | h
  · exact Or.inl h
  · exact Or.inr (Or.inl h)
  · exact Or.inr (Or.inr h)

theorem cleanup_consumer (s : DState) (m : Main) :
    (cleanup s m).consumer = .cancelled ∨ ∃ e, (cleanup s m).consumer = .dead e := by
  unfold cleanup
  cases s.consumer <;> simp

theorem inv_poll (s : DState) (hi : DInv c f s) : DInv c f (onPoll c s) := by
  rcases onPoll_cases c s with ⟨_, he, h⟩ | ⟨_, h⟩
  · rw [h]
    have hcons := cleanup_consumer s (.returned s.t)
    have hret : ∀ r, (finish s).main = .returned r → r ≤ (finish s).t ∧
        ((finish s).consumer = .cancelled ∨ ∃ e, (finish s).consumer = .dead e) ∧ (finish s).bcastAlive = false ∧
        (c.timeout ≤ r ∨ (c.initial < r ∧ (finish s).spas ≠ []) ∨ (finish s).found = true) := by
      intro r hr
      have : r = s.t := by simp [finish, cleanup] at hr; exact hr.symm
      subst this
      exact ⟨Nat.le_refl _, hcons, rfl, exitNow_spec c s he⟩
    exact { hi with
      closedIff := by simp [finish, cleanup]
      handlerImp := fun hx => by rcases hcons with h1 | ⟨e, h1⟩ <;> (unfold finish at hx; rw [h1] at hx; cases hx)
      foundOf := fun hx => by simp [finish, cleanup] at hx
      ret := hret
      fin := fun _ => ⟨hcons, rfl⟩ }
  · rw [h]; exact hi

theorem inv_cancel (s : DState) (hi : DInv c f s) : DInv c f (onCancel s) := by
  rcases onCancel_cases s with ⟨_, h⟩ | ⟨_, h⟩
  · rw [h]
    have hcons := cleanup_consumer s (.cancelled s.t)
    exact { hi with
      closedIff := by simp [cleanup]
      handlerImp := fun hx => by rcases hcons with h1 | ⟨e, h1⟩ <;> (rw [h1] at hx; cases hx)
      foundOf := fun hx => by simp [cleanup] at hx
      ret := fun r hr => by simp [cleanup] at hr
      fin := fun _ => ⟨hcons, rfl⟩ }
  · rw [h]; exact hi

theorem inv_step (s : DState) (hi : DInv c f s) (i : Input) : DInv c f (step c f s i) := by
  cases i with
  | datagram d => exact inv_datagram c f s hi d
  | tick => exact inv_tick c f s hi
  | consume b => exact inv_consume c f s hi b
  | resume => exact inv_resume c f s hi
  | poll => exact inv_poll c f s hi
  | cancel => exact inv_cancel c f s hi

theorem inv_run (is : List Input) : ∀ s, DInv c f s → DInv c f (run c f s is) := by
  induction is with
  | nil => intro s h; exact h
  | cons i is ih => intro s h; exact ih _ (inv_step c f s h i)


/-! ### what `firstPerId` means -/

def fpFold (acc : List Desc) (l : List Desc) : List Desc :=
  l.foldl (fun acc d => if d.id ∈ acc.map (·.id) then acc else acc ++ [d]) acc

theorem fpFold_mem (l : List Desc) : ∀ (acc : List Desc) (x : Desc), x ∈ fpFold acc l →
    x ∈ acc ∨ (x.id ∉ acc.map (·.id) ∧ l.find? (fun y => y.id == x.id) = some x) := by
  induction l with
  | nil => intro acc x hx; exact Or.inl hx
  | cons d l ih =>
    intro acc x hx
    simp only [fpFold, List.foldl_cons] at hx
    by_cases hd : d.id ∈ acc.map (·.id)
    · simp only [hd, if_true] at hx
      rcases ih acc x hx with h | ⟨h1, h2⟩
      · exact Or.inl h
      · refine Or.inr ⟨h1, ?_⟩
        have hne : (d.id == x.id) = false := by
          simp only [beq_eq_false_iff_ne, ne_eq]
          intro e; exact h1 (e ▸ hd)
        simp [hne, h2]
    · simp only [hd, if_false] at hx
      rcases ih (acc ++ [d]) x hx with h | ⟨h1, h2⟩
      · rcases List.mem_append.mp h with h | h
        · exact Or.inl h
        · have : x = d := by simpa using h
          subst this
          exact Or.inr ⟨hd, by simp⟩
      · have h1' : x.id ∉ acc.map (·.id) ∧ x.id ≠ d.id := by
          simp only [List.map_append, List.map_cons, List.map_nil, List.mem_append, List.mem_singleton, not_or] at h1
          exact h1
        refine Or.inr ⟨h1'.1, ?_⟩
        have hne : (d.id == x.id) = false := by
          simp only [beq_eq_false_iff_ne, ne_eq]
          intro e; exact h1'.2 e.symm
        simp [hne, h2]

theorem fpFold_covers (l : List Desc) : ∀ (acc : List Desc),
    (∀ x ∈ acc, x ∈ fpFold acc l) ∧ (∀ d ∈ l, d.id ∈ (fpFold acc l).map (·.id)) := by
  induction l with
  | nil => intro acc; exact ⟨fun x hx => hx, by simp⟩
  | cons d l ih =>
    intro acc
    simp only [fpFold, List.foldl_cons]
    by_cases hd : d.id ∈ acc.map (·.id)
    · simp only [hd, if_true]
      obtain ⟨h1, h2⟩ := ih acc
      refine ⟨h1, ?_⟩
      intro y hy
      rcases List.mem_cons.mp hy with rfl | hy
      · obtain ⟨z, hz, hzid⟩ := List.mem_map.mp hd
        exact List.mem_map.mpr ⟨z, h1 z hz, hzid⟩
      · exact h2 y hy
    · simp only [hd, if_false]
      obtain ⟨h1, h2⟩ := ih (acc ++ [d])
      refine ⟨fun x hx => h1 x (List.mem_append.mpr (Or.inl hx)), ?_⟩
      intro y hy
      rcases List.mem_cons.mp hy with rfl | hy
      · exact List.mem_map.mpr ⟨y, h1 y (by simp), rfl⟩
      · exact h2 y hy

/-! ### frame facts used by the timing theorems -/

theorem step_t (s : DState) (i : Input) : (step c f s i).t = s.t + (if i = .tick then 1 else 0) := by
  cases i with
  | datagram d => simp only [step, onDatagram]; split <;> simp
  | tick => simp [step]
  | consume b =>
    simp only [step]
    rcases onConsume_cases f s b with ⟨h, _⟩ | ⟨d, rest, e, _, _, _, _, h⟩ | ⟨d, rest, i, n, _, _, _, _, h⟩
    · rw [h]; simp
    · rw [h]; simp
    · rw [h]
      rcases onDiscovered_cases f { s with queue := rest, popped := s.popped ++ [d], handled := s.handled ++ [⟨i, n, d.addr⟩] }
        ⟨i, n, d.addr⟩ b with ⟨_, h2⟩ | ⟨_, _, _, h2⟩ | ⟨_, _, _, h2⟩ <;> rw [h2] <;> simp
  | resume =>
    simp only [step]
    rcases onResume_cases f s with ⟨_, h⟩ | ⟨_, h⟩ <;> rw [h] <;> simp
  | poll =>
    simp only [step]
    rcases onPoll_cases c s with ⟨_, _, h⟩ | ⟨_, h⟩ <;> rw [h] <;> simp [finish, cleanup]
  | cancel =>
    simp only [step]
    rcases onCancel_cases s with ⟨_, h⟩ | ⟨_, h⟩ <;> rw [h] <;> simp [cleanup]

theorem step_main (s : DState) (i : Input) :
    (step c f s i).main = s.main ∨
    (i = .poll ∧ s.main = .running ∧ exitNow c s = true ∧ (step c f s i).main = .returned s.t) ∨
    (i = .cancel ∧ s.main = .running ∧ (step c f s i).main = .cancelled s.t) := by
  cases i with
  | datagram d => left; simp only [step, onDatagram]; split <;> simp
  | tick => left; simp [step]
  | consume b =>
    left
    simp only [step]
    rcases onConsume_cases f s b with ⟨h, _⟩ | ⟨d, rest, e, _, _, _, _, h⟩ | ⟨d, rest, i, n, _, _, _, _, h⟩
    · rw [h]
    · rw [h]
    · rw [h]
      rcases onDiscovered_cases f { s with queue := rest, popped := s.popped ++ [d], handled := s.handled ++ [⟨i, n, d.addr⟩] }
        ⟨i, n, d.addr⟩ b with ⟨_, h2⟩ | ⟨_, _, _, h2⟩ | ⟨_, _, _, h2⟩ <;> rw [h2]
  | resume =>
    left
    simp only [step]
    rcases onResume_cases f s with ⟨_, h⟩ | ⟨_, h⟩ <;> rw [h]
  | poll =>
    simp only [step]
    rcases onPoll_cases c s with ⟨h1, h2, h⟩ | ⟨_, h⟩
    · right; left; rw [h]; exact ⟨trivial, h1, h2, rfl⟩
    · left; rw [h]
  | cancel =>
    simp only [step]
    rcases onCancel_cases s with ⟨h1, h⟩ | ⟨_, h⟩
    · right; right; rw [h]; exact ⟨trivial, h1, rfl⟩
    · left; rw [h]

/-- once `discover` has returned or was cancelled, its status never changes -/
theorem step_final (s : DState) (i : Input) (h : s.main ≠ .running) : (step c f s i).main = s.main := by
  rcases step_main c f s i with h1 | ⟨_, h2, _⟩ | ⟨_, h2, _⟩
  · exact h1
  · exact absurd h2 h
  · exact absurd h2 h

theorem step_returned (s : DState) (i : Input) (r : Nat) (h : s.main = .returned r) : (step c f s i).main = .returned r := by
  rw [step_final c f s i (by rw [h]; simp), h]

theorem poll_exits (s : DState) (h : s.main = .running) (he : exitNow c s = true) :
    (step c f s .poll).main = .returned s.t := by
  simp only [step]
  rcases onPoll_cases c s with ⟨_, _, h2⟩ | ⟨h1, _⟩
  · rw [h2]; rfl
  · rcases h1 with h1 | h1
    · exact absurd h h1
    · rw [he] at h1; cases h1

theorem step_spas_found (s : DState) (i : Input) :
    (s.spas ≠ [] → (step c f s i).spas ≠ []) ∧ (s.found = true → (step c f s i).found = true) := by
  cases i with
  | datagram d => simp only [step, onDatagram]; split <;> simp
  | tick => simp [step]
  | consume b =>
    simp only [step]
    rcases onConsume_cases f s b with ⟨h, _⟩ | ⟨d, rest, e, _, _, _, _, h⟩ | ⟨d, rest, i, n, _, _, _, _, h⟩
    · rw [h]; simp
    · rw [h]; simp
    · rw [h]
      rcases onDiscovered_cases f { s with queue := rest, popped := s.popped ++ [d], handled := s.handled ++ [⟨i, n, d.addr⟩] }
        ⟨i, n, d.addr⟩ b with ⟨_, h2⟩ | ⟨_, _, _, h2⟩ | ⟨_, _, _, h2⟩ <;> rw [h2] <;> simp <;> intro hf <;> simp [hf]
  | resume =>
    simp only [step]
    rcases onResume_cases f s with ⟨_, h⟩ | ⟨_, h⟩ <;> rw [h] <;> simp <;> intro hf <;> simp [hf]
  | poll =>
    simp only [step]
    rcases onPoll_cases c s with ⟨_, _, h⟩ | ⟨_, h⟩ <;> rw [h] <;> simp [finish, cleanup]
  | cancel =>
    simp only [step]
    rcases onCancel_cases s with ⟨_, h⟩ | ⟨_, h⟩ <;> rw [h] <;> simp [cleanup]

theorem run_append (is js : List Input) : ∀ s, run c f s (is ++ js) = run c f (run c f s is) js := by
  induction is with
  | nil => intro s; rfl
  | cons i is ih => intro s; simp only [List.cons_append, run, ih]

theorem run_returned (is : List Input) : ∀ s r, s.main = .returned r → (run c f s is).main = .returned r := by
  induction is with
  | nil => intro s r h; exact h
  | cons i is ih => intro s r h; exact ih _ r (step_returned c f s i r h)


theorem run_final (is : List Input) : ∀ s : DState, s.main ≠ .running → (run c f s is).main = s.main := by
  induction is with
  | nil => intro s _; rfl
  | cons i is ih =>
    intro s h
    have h1 := step_final c f s i h
    simp only [run]
    rw [ih _ (by rw [h1]; exact h), h1]

/-! ### the lockstep schedule -/

theorem run_noTick (is : List Input) (hnt : Input.tick ∉ is) (hnc : Input.cancel ∉ is) : ∀ s : DState,
    (run c f s is).t = s.t ∧
    (s.main = .running → (run c f s is).main = .running ∨ (run c f s is).main = .returned s.t) := by
  induction is with
  | nil => intro s; exact ⟨rfl, fun h => Or.inl h⟩
  | cons i is ih =>
    intro s
    have hi : i ≠ .tick := fun e => hnt (by simp [e])
    have hic : i ≠ .cancel := fun e => hnc (by simp [e])
    have his : Input.tick ∉ is := fun e => hnt (by simp [e])
    have hisc : Input.cancel ∉ is := fun e => hnc (by simp [e])
    obtain ⟨h1, h2⟩ := ih his hisc (step c f s i)
    have ht : (step c f s i).t = s.t := by rw [step_t]; simp [hi]
    refine ⟨by simp only [run]; rw [h1, ht], ?_⟩
    intro hrun
    simp only [run]
    rcases step_main c f s i with hm | ⟨_, _, _, hm⟩ | ⟨he, _⟩
    · rw [ht] at h2; exact h2 (by rw [hm]; exact hrun)
    · exact Or.inr (run_returned c f is _ _ hm)
    · exact absurd he hic

theorem run_pres (C : DState → Prop) (hC : ∀ s i, C s → C (step c f s i)) (is : List Input) :
    ∀ s, C s → C (run c f s is) := by
  induction is with
  | nil => intro s h; exact h
  | cons i is ih => intro s h; exact ih _ (hC s i h)

theorem run_poll_exits (C : DState → Prop) (K : Nat) (hC : ∀ s i, C s → C (step c f s i))
    (hpoll : ∀ s, C s → K ≤ s.t → s.main = .running → exitNow c s = true)
    (A B : List Input) (hA : Input.tick ∉ A) (hAc : Input.cancel ∉ A) (s : DState) (hs : C s) (hK : K ≤ s.t)
    (hrun : s.main = .running) :
    (run c f s (A ++ Input.poll :: B)).main = .returned s.t := by
  rw [run_append]
  obtain ⟨h1, h2⟩ := run_noTick c f A hA hAc s
  have hC1 := run_pres c f C hC A s hs
  simp only [run]
  rcases h2 hrun with h | h
  · have := poll_exits c f _ h (hpoll _ hC1 (by rw [h1]; exact hK) h)
    rw [h1] at this
    exact run_returned c f B _ _ this
  · exact run_returned c f B _ _ (step_returned c f _ _ _ h)

theorem datagrams_noTick (l : List Datagram) : Input.tick ∉ l.map Input.datagram := by
  simp

theorem datagrams_noCancel (l : List Datagram) : Input.cancel ∉ l.map Input.datagram := by
  simp

/-- one slot from a running state: the clock moves one unit; the loop either keeps running or returned at the slot's time;
it did return if a persistent condition that forces the exit held at the start -/
theorem slot_spec (C : DState → Prop) (K : Nat) (hC : ∀ s i, C s → C (step c f s i))
    (hpoll : ∀ s, C s → K ≤ s.t → s.main = .running → exitNow c s = true)
    (sl : Slot) (s : DState) (hrun : s.main = .running) :
    (run c f s (slotInputs sl)).t = s.t + 1 ∧
    ((run c f s (slotInputs sl)).main = .running ∨ (run c f s (slotInputs sl)).main = .returned s.t) ∧
    (C s → K ≤ s.t → (run c f s (slotInputs sl)).main = .returned s.t) := by
  have hsplit : slotInputs sl = (sl.arrivals.map Input.datagram ++
      (if sl.mainFirst then [Input.poll, Input.consume false] else [Input.consume false, Input.poll])) ++ [Input.tick] := rfl
  have hnt : Input.tick ∉ (sl.arrivals.map Input.datagram ++
      (if sl.mainFirst then [Input.poll, Input.consume false] else [Input.consume false, Input.poll])) := by
    cases sl.mainFirst <;> simp
  have hnc : Input.cancel ∉ (sl.arrivals.map Input.datagram ++
      (if sl.mainFirst then [Input.poll, Input.consume false] else [Input.consume false, Input.poll])) := by
    cases sl.mainFirst <;> simp
  obtain ⟨h1, h2⟩ := run_noTick c f _ hnt hnc s
  rw [hsplit, run_append]
  simp only [run]
  refine ⟨by rw [step_t]; simp [h1], ?_, ?_⟩
  · rcases h2 hrun with h | h
    · left
      rcases step_main c f (run c f s _) .tick with hm | ⟨he, _⟩ | ⟨he, _⟩
      · rw [hm]; exact h
      · cases he
      · cases he
    · right; exact step_returned c f _ _ _ h
  · intro hs hK
    apply step_returned
    cases hmf : sl.mainFirst with
    | true =>
      simp only [if_true]
      exact run_poll_exits c f C K hC hpoll _ [Input.consume false] (datagrams_noTick _) (datagrams_noCancel _) s hs hK hrun
    | false =>
      simp only [Bool.false_eq_true, if_false]
      have : sl.arrivals.map Input.datagram ++ [Input.consume false, Input.poll] =
          (sl.arrivals.map Input.datagram ++ [Input.consume false]) ++ Input.poll :: [] := by simp
      rw [this]
      exact run_poll_exits c f C K hC hpoll _ [] (by simp) (by simp) s hs hK hrun

theorem lockstep_cons (sl : Slot) (slots : List Slot) : lockstep (sl :: slots) = slotInputs sl ++ lockstep slots := by
  simp [lockstep]

theorem lockstep_append (a b : List Slot) : lockstep (a ++ b) = lockstep a ++ lockstep b := by
  simp [lockstep]

theorem slot_t (sl : Slot) (s : DState) : (run c f s (slotInputs sl)).t = s.t + 1 := by
  have hsplit : slotInputs sl = (sl.arrivals.map Input.datagram ++
      (if sl.mainFirst then [Input.poll, Input.consume false] else [Input.consume false, Input.poll])) ++ [Input.tick] := rfl
  have hnt : Input.tick ∉ (sl.arrivals.map Input.datagram ++
      (if sl.mainFirst then [Input.poll, Input.consume false] else [Input.consume false, Input.poll])) := by
    cases sl.mainFirst <;> simp
  have hnc : Input.cancel ∉ (sl.arrivals.map Input.datagram ++
      (if sl.mainFirst then [Input.poll, Input.consume false] else [Input.consume false, Input.poll])) := by
    cases sl.mainFirst <;> simp
  rw [hsplit, run_append]
  simp only [run]
  rw [step_t, (run_noTick c f _ hnt hnc s).1]; simp

theorem lockstep_t (slots : List Slot) : ∀ s : DState, (run c f s (lockstep slots)).t = s.t + slots.length := by
  induction slots with
  | nil => intro s; rfl
  | cons sl slots ih =>
    intro s
    rw [lockstep_cons, run_append, ih, slot_t]
    simp only [List.length_cons]; omega

/-- the generic termination lemma of the lockstep schedule -/
theorem returns_by (C : DState → Prop) (K : Nat) (hC : ∀ s i, C s → C (step c f s i))
    (hpoll : ∀ s, C s → K ≤ s.t → s.main = .running → exitNow c s = true) :
    ∀ (slots : List Slot) (s : DState), C s → (s.main = .running → s.t ≤ K) → (∀ r, s.main = .returned r → r ≤ K) →
      (∀ a, s.main ≠ .cancelled a) →
      K < s.t + slots.length → ∃ r, (run c f s (lockstep slots)).main = .returned r ∧ r ≤ K := by
  intro slots
  induction slots with
  | nil =>
    intro s _ h1 h2 hnc h3
    cases hm : s.main with
    | running => have := h1 hm; simp at h3; omega
    | returned r => exact ⟨r, by simpa [lockstep, run] using hm, h2 r hm⟩
    | cancelled a => exact absurd hm (hnc a)
  | cons sl slots ih =>
    intro s hs h1 h2 hnc h3
    rw [lockstep_cons, run_append]
    cases hm : s.main with
    | cancelled a => exact absurd hm (hnc a)
    | returned r =>
      exact ⟨r, run_returned c f _ _ _ (run_returned c f _ _ _ hm), h2 r hm⟩
    | running =>
      have hle := h1 hm
      obtain ⟨ht, hmain, hexit⟩ := slot_spec c f C K hC hpoll sl s hm
      have hs' := run_pres c f C hC (slotInputs sl) s hs
      by_cases hK : K ≤ s.t
      · have := hexit hs hK
        exact ⟨s.t, run_returned c f _ _ _ this, hle⟩
      · apply ih _ hs'
        · intro _; rw [ht]; omega
        · intro r hr
          rcases hmain with h | h
          · rw [h] at hr; cases hr
          · rw [h] at hr; cases hr; exact hle
        · intro a
          rcases hmain with h | h <;> rw [h] <;> simp
        · rw [ht]; simp only [List.length_cons] at h3; omega

/-- with a handler that never suspends the consumer is never inside the handler -/
def noSuspend (is : List Input) : Prop := ∀ i ∈ is, i ≠ Input.consume true

theorem step_noSuspend (s : DState) (i : Input) (hi : i ≠ .consume true) (h : s.consumer ≠ .inHandler) :
    (step c f s i).consumer ≠ .inHandler := by
  cases i with
  | datagram d => simp only [step, onDatagram]; split <;> simpa using h
  | tick => simpa [step] using h
  | consume b =>
    cases b with
    | true => exact absurd rfl hi
    | false =>
      simp only [step]
      rcases onConsume_cases f s false with ⟨h1, _⟩ | ⟨d, rest, e, _, _, _, _, h1⟩ | ⟨d, rest, i, n, hc, _, _, _, h1⟩
      · rw [h1]; exact h
      · rw [h1]; simp
      · rw [h1]
        rcases onDiscovered_cases f { s with queue := rest, popped := s.popped ++ [d], handled := s.handled ++ [⟨i, n, d.addr⟩] }
          ⟨i, n, d.addr⟩ false with ⟨_, h2⟩ | ⟨_, _, hb, _⟩ | ⟨_, _, _, h2⟩
        · rw [h2]; simpa using h
        · cases hb
        · rw [h2]; simpa using h
  | resume =>
    simp only [step]
    rcases onResume_cases f s with ⟨_, h1⟩ | ⟨_, h1⟩ <;> rw [h1]
    · simp
    · exact h
  | poll =>
    simp only [step]
    rcases onPoll_cases c s with ⟨_, _, h1⟩ | ⟨_, h1⟩ <;> rw [h1]
    · unfold finish cleanup; cases s.consumer <;> simp
    · exact h
  | cancel =>
    simp only [step]
    rcases onCancel_cases s with ⟨_, h1⟩ | ⟨_, h1⟩ <;> rw [h1]
    · unfold cleanup; cases s.consumer <;> simp
    · exact h

theorem run_noSuspend (is : List Input) (hns : noSuspend is) : ∀ s : DState, s.consumer ≠ .inHandler →
    (run c f s is).consumer ≠ .inHandler := by
  induction is with
  | nil => intro s h; exact h
  | cons i is ih =>
    intro s h
    exact ih (fun j hj => hns j (by simp [hj])) _ (step_noSuspend c f s i (hns i (by simp)) h)

theorem lockstep_noSuspend (slots : List Slot) : noSuspend (lockstep slots) := by
  intro i hi
  simp only [lockstep, List.mem_flatMap] at hi
  obtain ⟨sl, _, hi⟩ := hi
  unfold slotInputs at hi
  intro e; subst e
  cases hmf : sl.mainFirst <;> simp [hmf] at hi


/-! ### nothing is lost when every datagram is a spa reply (any name) -/

/-- `handle` (since the D2 fix) parses every spa reply, whatever the name, to what the reply means -/
theorem spaReply_parse (d : Datagram) (h : IsSpaReply d) :
    ∃ i n, codeParse d.payload = .ok (i, n) ∧ specDecode d = ⟨i, n, d.addr⟩ ∧ canHandle d.payload = true := by
  obtain ⟨i, n, hi, hp⟩ := h
  refine ⟨i, n, by rw [hp]; exact codeParse_reply i n hi, ?_, by rw [hp]; exact canHandle_helloReply i n⟩
  have := specDecode_reply i n d.addr hi.1
  rw [← hp] at this
  exact this

structure GInv (s : DState) : Prop where
  good : ∀ d ∈ s.arrived, IsSpaReply d
  decoded : s.handled = s.popped.map specDecode
  alive : ∀ e, s.consumer ≠ .dead e

theorem ginv_step (s : DState) (hi : DInv c f s) (hg : GInv s) (i : Input)
    (hgood : ∀ d, i = .datagram d → IsSpaReply d) : GInv (step c f s i) := by
  cases i with
  | datagram d =>
    simp only [step, onDatagram]
    split
    · exact hg
    · have hgd : ∀ x ∈ s.arrived ++ [d], IsSpaReply x := by
        intro x hx
        rcases List.mem_append.mp hx with hx | hx
        · exact hg.good x hx
        · have : x = d := by simpa using hx
          rw [this]; exact hgood d rfl
      exact { hg with good := hgd }
  | tick => exact { good := hg.good, decoded := hg.decoded, alive := hg.alive }
  | consume b =>
    simp only [step]
    rcases onConsume_cases f s b with ⟨h, _⟩ | ⟨d, rest, e, _, hq, _, hp, h⟩ | ⟨d, rest, i, n, hc, hq, _, hp, h⟩
    · rw [h]; exact hg
    · have hd : d ∈ s.arrived := by rw [hi.fifo, hq]; simp
      obtain ⟨i, n, h1, _⟩ := spaReply_parse d (hg.good d hd)
      rw [h1] at hp; cases hp
    · have hd : d ∈ s.arrived := by rw [hi.fifo, hq]; simp
      obtain ⟨i', n', h1, h2, _⟩ := spaReply_parse d (hg.good d hd)
      rw [h1] at hp
      have hin : i' = i ∧ n' = n := by simpa using hp
      obtain ⟨rfl, rfl⟩ := hin
      rw [h]
      rcases onDiscovered_cases f { s with queue := rest, popped := s.popped ++ [d], handled := s.handled ++ [⟨i', n', d.addr⟩] }
        ⟨i', n', d.addr⟩ b with ⟨_, h3⟩ | ⟨_, _, _, h3⟩ | ⟨_, _, _, h3⟩ <;> rw [h3]
      · exact { good := hg.good, decoded := by simp [hg.decoded, h2], alive := by simp [hc] }
      · exact { good := hg.good, decoded := by simp [hg.decoded, h2], alive := by simp }
      · exact { good := hg.good, decoded := by simp [hg.decoded, h2], alive := by simp [hc] }
  | resume =>
    simp only [step]
    rcases onResume_cases f s with ⟨_, h⟩ | ⟨_, h⟩ <;> rw [h]
    · exact { hg with alive := by simp }
    · exact hg
  | poll =>
    simp only [step]
    rcases onPoll_cases c s with ⟨_, _, h⟩ | ⟨_, h⟩ <;> rw [h]
    · refine { good := hg.good, decoded := hg.decoded, alive := ?_ }
      intro e
      unfold finish cleanup
      cases hcs : s.consumer with
      | dead e' => exact absurd hcs (hg.alive e')
      | idle => simp
      | inHandler => simp
      | cancelled => simp
    · exact hg
  | cancel =>
    simp only [step]
    rcases onCancel_cases s with ⟨_, h⟩ | ⟨_, h⟩ <;> rw [h]
    · refine { good := hg.good, decoded := hg.decoded, alive := ?_ }
      intro e
      unfold cleanup
      cases hcs : s.consumer with
      | dead e' => exact absurd hcs (hg.alive e')
      | idle => simp
      | inHandler => simp
      | cancelled => simp
    · exact hg

theorem ginv_run (is : List Input) (hgood : ∀ d, Input.datagram d ∈ is → IsSpaReply d) :
    ∀ s, DInv c f s → GInv s → GInv (run c f s is) := by
  induction is with
  | nil => intro s _ h; exact h
  | cons i is ih =>
    intro s hi hg
    exact ih (fun d hd => hgood d (by simp [hd])) _ (inv_step c f s hi i)
      (ginv_step c f s hi hg i (fun d e => hgood d (by simp [e])))

theorem ginv_init : GInv DState.init := by
  constructor <;> simp [DState.init]

/-! ### while the loop is running every datagram is queued; after it returned nothing changes -/

def datagramsOf : List Input → List Datagram
  | [] => []
  | .datagram d :: is => d :: datagramsOf is
  | _ :: is => datagramsOf is

theorem arrived_run (is : List Input) : ∀ s : DState, DInv c f s → (run c f s is).main = .running →
    (run c f s is).arrived = s.arrived ++ datagramsOf is := by
  induction is with
  | nil => intro s _ _; simp [run, datagramsOf]
  | cons i is ih =>
    intro s hi hrun
    simp only [run] at hrun ⊢
    have hs : s.main = .running := by
      by_cases hm : s.main = .running
      · exact hm
      · have h1 := step_final c f s i hm
        have := run_final c f is _ (by rw [h1]; exact hm)
        rw [this, h1] at hrun
        exact absurd hrun hm
    have hopen : s.closed = false := by
      cases hcl : s.closed with
      | false => rfl
      | true => exact absurd hs (hi.closedIff.mp hcl)
    rw [ih _ (inv_step c f s hi i) hrun]
    cases i with
    | datagram d => simp [step, onDatagram, hopen, datagramsOf]
    | tick => simp [step, datagramsOf]
    | consume b =>
      simp only [step, datagramsOf]
      rcases onConsume_cases f s b with ⟨h, _⟩ | ⟨d, rest, e, _, _, _, _, h⟩ | ⟨d, rest, i, n, _, _, _, _, h⟩
      · rw [h]
      · rw [h]
      · rw [h]
        rcases onDiscovered_cases f { s with queue := rest, popped := s.popped ++ [d], handled := s.handled ++ [⟨i, n, d.addr⟩] }
          ⟨i, n, d.addr⟩ b with ⟨_, h2⟩ | ⟨_, _, _, h2⟩ | ⟨_, _, _, h2⟩ <;> rw [h2]
    | resume =>
      simp only [step, datagramsOf]
      rcases onResume_cases f s with ⟨_, h⟩ | ⟨_, h⟩ <;> rw [h]
    | poll =>
      simp only [step, datagramsOf]
      rcases onPoll_cases c s with ⟨_, _, h⟩ | ⟨_, h⟩ <;> rw [h] <;> simp [finish, cleanup]
    | cancel =>
      simp only [step, datagramsOf]
      rcases onCancel_cases s with ⟨_, h⟩ | ⟨_, h⟩ <;> rw [h] <;> simp [cleanup]

theorem frozen_step (s : DState) (hi : DInv c f s) (hr : s.main ≠ .running) (i : Input) :
    (step c f s i).spas = s.spas ∧ (step c f s i).seen = s.seen ∧ (step c f s i).found = s.found ∧
    (step c f s i).closed = true ∧ (step c f s i).queue = s.queue ∧ (step c f s i).consumer = s.consumer := by
  obtain ⟨hcons, _⟩ := hi.fin hr
  have hcl : s.closed = true := hi.closedIff.mpr hr
  have hnotidle : s.consumer ≠ .idle := by rcases hcons with h | ⟨e, h⟩ <;> rw [h] <;> simp
  have hnoth : s.consumer ≠ .inHandler := by rcases hcons with h | ⟨e, h⟩ <;> rw [h] <;> simp
  cases i with
  | datagram d => simp [step, onDatagram, hcl]
  | tick => simp [step, hcl]
  | consume b =>
    simp only [step]
    rcases onConsume_cases f s b with ⟨h, _⟩ | ⟨d, rest, e, hc, _⟩ | ⟨d, rest, i, n, hc, _⟩
    · rw [h]; simp [hcl]
    · exact absurd hc hnotidle
    · exact absurd hc hnotidle
  | resume =>
    simp only [step]
    rcases onResume_cases f s with ⟨hc, _⟩ | ⟨_, h⟩
    · exact absurd hc hnoth
    · rw [h]; simp [hcl]
  | poll =>
    simp only [step]
    rcases onPoll_cases c s with ⟨h1, _⟩ | ⟨_, h⟩
    · exact absurd h1 hr
    · rw [h]; simp [hcl]
  | cancel =>
    simp only [step]
    rcases onCancel_cases s with ⟨h1, _⟩ | ⟨_, h⟩
    · exact absurd h1 hr
    · rw [h]; simp [hcl]

theorem frozen_run (is : List Input) : ∀ (s : DState), DInv c f s → s.main ≠ .running →
    (run c f s is).spas = s.spas ∧ (run c f s is).main = s.main ∧ (run c f s is).closed = true ∧
    (run c f s is).queue = s.queue ∧ (run c f s is).consumer = s.consumer := by
  induction is with
  | nil =>
    intro s hi hr
    exact ⟨rfl, rfl, hi.closedIff.mpr hr, rfl, rfl⟩
  | cons i is ih =>
    intro s hi hr
    obtain ⟨h1, _, _, _, h5, h6⟩ := frozen_step c f s hi hr i
    have hm := step_final c f s i hr
    obtain ⟨g1, g2, g3, g4, g5⟩ := ih _ (inv_step c f s hi i) (by rw [hm]; exact hr)
    simp only [run]
    exact ⟨by rw [g1, h1], by rw [g2, hm], g3, by rw [g4, h5], by rw [g5, h6]⟩

/-! ### schedules without a cancellation never end up cancelled -/

theorem run_noCancel (is : List Input) (hnc : Input.cancel ∉ is) : ∀ s : DState, (∀ a, s.main ≠ .cancelled a) →
    ∀ a, (run c f s is).main ≠ .cancelled a := by
  induction is with
  | nil => intro s h; exact h
  | cons i is ih =>
    intro s h
    have hi : i ≠ .cancel := fun e => hnc (by simp [e])
    apply ih (fun e => hnc (by simp [e]))
    intro a
    rcases step_main c f s i with h1 | ⟨_, _, _, h1⟩ | ⟨he, _⟩
    · rw [h1]; exact h a
    · rw [h1]; simp
    · exact absurd he hi

theorem lockstep_noCancel (slots : List Slot) : Input.cancel ∉ lockstep slots := by
  intro hi
  simp only [lockstep, List.mem_flatMap] at hi
  obtain ⟨sl, _, hi⟩ := hi
  unfold slotInputs at hi
  cases hmf : sl.mainFirst <;> simp [hmf] at hi

end GeckoModel.Discovery
