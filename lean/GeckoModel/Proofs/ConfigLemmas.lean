/- helper lemmas for C17 (model: Model/Config.lean) -/
import GeckoModel.Model.Config

namespace GeckoModel.Config
open GeckoModel.Generated.Config

theorem getAttr_setAttr_self (t : Table) (k : String) (v : Int) : getAttr (setAttr t k v) k = some v := by
  induction t with
  | nil => simp [setAttr, getAttr]
  | cons hd tl ih =>
    obtain ⟨k', v'⟩ := hd
    by_cases h : (k == k') = true
    · simp [setAttr, h, getAttr]
    · simp [setAttr, h, getAttr, ih]

theorem getAttr_setAttr_other (t : Table) (k k' : String) (v : Int) (hne : k' ≠ k) :
    getAttr (setAttr t k v) k' = getAttr t k' := by
  induction t with
  | nil => simp [setAttr, getAttr, hne]
  | cons hd tl ih =>
    obtain ⟨k2, v2⟩ := hd
    by_cases h : (k == k2) = true
    · have : k = k2 := by simpa using h
      subst this
      simp [setAttr, getAttr, hne]
    · simp [setAttr, h, getAttr, ih]

/-- the copy loop: succeeds when every member exists in the source; afterwards every listed member has the source's
value and nothing else changed -/
theorem copy_spec (src : Table) : ∀ (ms : List String) (live : Table),
    (∀ m ∈ ms, ∃ v, getAttr src m = some v) →
    ∃ live', copyMembers src ms live = .ok live' ∧
      (∀ m ∈ ms, getAttr live' m = getAttr src m) ∧
      (∀ k, k ∉ ms → getAttr live' k = getAttr live k) := by
  intro ms
  induction ms with
  | nil => intro live _; exact ⟨live, rfl, by simp, by simp⟩
  | cons m ms ih =>
    intro live h
    obtain ⟨v, hv⟩ := h m (by simp)
    obtain ⟨live', h1, h2, h3⟩ := ih (setAttr live m v) (fun m' hm' => h m' (by simp [hm']))
    refine ⟨live', by simp [copyMembers, hv, h1], ?_, ?_⟩
    · intro m' hm'
      by_cases hin : m' ∈ ms
      · exact h2 m' hin
      · have : m' = m := by simpa [hin] using hm'
        subst this
        rw [h3 _ hin, getAttr_setAttr_self, hv]
    · intro k hk
      have hk1 : k ≠ m := by intro e; exact hk (by simp [e])
      have hk2 : k ∉ ms := by intro e; exact hk (by simp [e])
      rw [h3 _ hk2, getAttr_setAttr_other _ _ _ _ hk1]

theorem chooseMode_fold (devs : List DevState) : ∀ acc : Bool,
    devs.foldl (fun acc d => if d.isOn then true else acc) acc = true ↔ (acc = true ∨ ∃ d ∈ devs, d.isOn = true) := by
  induction devs with
  | nil => intro acc; simp
  | cons d ds ih =>
    intro acc
    simp only [List.foldl_cons, ih, List.mem_cons, exists_eq_or_imp]
    by_cases hd : d.isOn = true
    · simp [hd]
    · simp [hd]

/-! ### the sleeper system -/

theorem mem_wakeBy_sleepers (s : Sys) (p : Sleeper → Bool) (c : Cause) (sl : Sleeper) :
    sl ∈ (wakeBy s p c).sleepers ↔ sl ∈ s.sleepers ∧ p sl = false := by
  simp [wakeBy, List.mem_filter]

theorem mem_wakeBy_woken (s : Sys) (p : Sleeper → Bool) (c : Cause) (w : Wake) :
    w ∈ (wakeBy s p c).woken ↔
      (∃ sl ∈ s.sleepers, p sl = true ∧ w = ⟨sl.id, sl.start, sl.deadline, s.t, c⟩) ∨ w ∈ s.woken := by
  simp only [wakeBy, List.mem_append, List.mem_map, List.mem_filter]
  constructor
  · rintro (⟨sl, ⟨h1, h2⟩, rfl⟩ | h)
    · exact Or.inl ⟨sl, h1, h2, rfl⟩
    · exact Or.inr h
  · rintro (⟨sl, h1, h2, rfl⟩ | h)
    · exact Or.inl ⟨sl, ⟨h1, h2⟩, rfl⟩
    · exact Or.inr h

/-- the invariant: every waiting sleeper waits on the current future, which exists and is not resolved; nobody waiting is
overdue; everybody who left did so inside `[start, deadline]`, and a timeout fires exactly at the deadline -/
structure SysInv (s : Sys) : Prop where
  cur : ∀ sl ∈ s.sleepers, sl.gen = s.gen ∧ 0 < s.gen ∧ s.done = false
  due : ∀ sl ∈ s.sleepers, s.t < sl.deadline ∧ sl.start ≤ s.t
  log : ∀ w ∈ s.woken, w.start ≤ w.at_ ∧ w.at_ ≤ w.deadline ∧ w.at_ ≤ s.t ∧ (w.cause = .timeout → w.at_ = w.deadline)

theorem inv_init : SysInv Sys.init := by
  constructor <;> simp [Sys.init]

theorem renew_fields (s : Sys) : (renew s).t = s.t ∧ (renew s).sleepers = s.sleepers ∧ (renew s).woken = s.woken ∧
    (renew s).live = s.live ∧ 0 < (renew s).gen ∧ (renew s).done = false := by
  unfold renew
  by_cases h : s.gen = 0 ∨ s.done = true
  · simp [h]
  · simp only [h, if_false, true_and]
    have h1 : s.gen ≠ 0 := fun e => h (Or.inl e)
    have h2 : s.done = false := by cases hd : s.done <;> simp_all
    exact ⟨by omega, h2⟩

theorem renew_cur (s : Sys) (hi : SysInv s) : ∀ sl ∈ (renew s).sleepers, sl.gen = (renew s).gen := by
  unfold renew
  by_cases h : s.gen = 0 ∨ s.done = true
  · simp only [h, if_true]
    intro sl hsl
    obtain ⟨_, h2, h3⟩ := hi.cur sl hsl
    rcases h with h | h
    · omega
    · simp [h3] at h
  · simp only [h, if_false]
    intro sl hsl
    exact (hi.cur sl hsl).1

theorem inv_sleep (s : Sys) (hi : SysInv s) (id delay : Nat) : SysInv (doSleep s id delay) := by
  obtain ⟨ht, hs, hw, _, hg, hd⟩ := renew_fields s
  have hc := renew_cur s hi
  unfold doSleep
  by_cases h0 : delay = 0
  · simp only [h0, if_true]
    constructor
    · intro sl hsl; exact ⟨hc sl hsl, hg, hd⟩
    · intro sl hsl; simp only [hs, ht] at hsl ⊢; exact hi.due sl hsl
    · intro w hwm
      simp only [List.mem_cons, hw, ht] at hwm ⊢
      rcases hwm with rfl | hwm
      · simp
      · exact hi.log w hwm
  · simp only [h0, if_false]
    constructor
    · intro sl hsl
      simp only [List.mem_append, List.mem_singleton] at hsl
      rcases hsl with hsl | rfl
      · exact ⟨hc sl hsl, hg, hd⟩
      · exact ⟨rfl, hg, hd⟩
    · intro sl hsl
      simp only [List.mem_append, List.mem_singleton, hs, ht] at hsl ⊢
      rcases hsl with hsl | rfl
      · exact hi.due sl hsl
      · simp; omega
    · intro w hwm; simp only [hw, ht] at hwm ⊢; exact hi.log w hwm

theorem inv_tick (s : Sys) (hi : SysInv s) : SysInv (doTick s) := by
  unfold doTick
  constructor
  · intro sl hsl
    rw [mem_wakeBy_sleepers] at hsl
    exact hi.cur sl hsl.1
  · intro sl hsl
    rw [mem_wakeBy_sleepers] at hsl
    obtain ⟨h1, h2⟩ := hsl
    have := hi.due sl h1
    simp only [decide_eq_false_iff_not, Nat.not_le] at h2
    show s.t + 1 < sl.deadline ∧ sl.start ≤ s.t + 1
    omega
  · intro w hwm
    rw [mem_wakeBy_woken] at hwm
    simp only [wakeBy]
    rcases hwm with ⟨sl, h1, h2, rfl⟩ | hwm
    · have := hi.due sl h1
      simp only [decide_eq_true_eq] at h2
      simp only
      refine ⟨by omega, by omega, by omega, fun _ => by omega⟩
    · have := hi.log w hwm
      refine ⟨this.1, this.2.1, ?_, this.2.2.2⟩
      show w.at_ ≤ s.t + 1
      omega

theorem inv_cancel (s : Sys) (hi : SysInv s) (id : Nat) : SysInv (doCancel s id) := by
  unfold doCancel
  constructor
  · intro sl hsl
    rw [mem_wakeBy_sleepers] at hsl
    exact hi.cur sl hsl.1
  · intro sl hsl
    rw [mem_wakeBy_sleepers] at hsl
    exact hi.due sl hsl.1
  · intro w hwm
    rw [mem_wakeBy_woken] at hwm
    simp only [wakeBy]
    rcases hwm with ⟨sl, h1, _, rfl⟩ | hwm
    · have := hi.due sl h1
      exact ⟨by simp; omega, by simp; omega, by simp, by simp⟩
    · exact hi.log w hwm

/-- what `set_config_mode` does to the sleeper system once the copy loop succeeded with `live'` -/
theorem doSetMode_cases (s : Sys) (b : Bool) (live' : Table) (h : setMode b s.live = .ok live') :
    (s.gen = 0 ∧ doSetMode s b = ({ s with live := live' }, .error .assertErr)) ∨
    (s.gen ≠ 0 ∧ s.done = true ∧ doSetMode s b = ({ s with live := live' }, .ok ())) ∨
    (s.gen ≠ 0 ∧ s.done = false ∧
      doSetMode s b = (wakeBy { s with live := live', done := true } (fun sl => sl.gen == s.gen) .switch, .ok ())) := by
  unfold doSetMode
  simp only [h]
  by_cases hg : s.gen = 0
  · simp [hg]
  · cases s.done <;> simp [hg]

theorem doSetMode_error (s : Sys) (b : Bool) (e : Err) (h : setMode b s.live = .error e) :
    doSetMode s b = (s, .error e) := by
  unfold doSetMode; simp [h]

theorem inv_setMode (s : Sys) (hi : SysInv s) (b : Bool) : SysInv (doSetMode s b).1 := by
  cases h : setMode b s.live with
  | error e => rw [doSetMode_error s b e h]; exact hi
  | ok live' =>
    rcases doSetMode_cases s b live' h with ⟨_, h2⟩ | ⟨_, _, h2⟩ | ⟨hg, hd, h2⟩
    · rw [h2]; exact ⟨hi.cur, hi.due, hi.log⟩
    · rw [h2]; exact ⟨hi.cur, hi.due, hi.log⟩
    · rw [h2]
      constructor
      · intro sl hsl
        rw [mem_wakeBy_sleepers] at hsl
        obtain ⟨h3, h4⟩ := hsl
        have := (hi.cur sl h3).1
        simp [this] at h4
      · intro sl hsl
        rw [mem_wakeBy_sleepers] at hsl
        exact hi.due sl hsl.1
      · intro w hwm
        rw [mem_wakeBy_woken] at hwm
        simp only [wakeBy]
        rcases hwm with ⟨sl, h1, _, rfl⟩ | hwm
        · have := hi.due sl h1
          exact ⟨by simp; omega, by simp; omega, by simp, by simp⟩
        · exact hi.log w hwm

theorem inv_step (s : Sys) (hi : SysInv s) (op : Op) : SysInv (step s op).1 := by
  cases op with
  | sleep id d => exact inv_sleep s hi id d
  | setMode b => exact inv_setMode s hi b
  | tick => exact inv_tick s hi
  | cancel id => exact inv_cancel s hi id

theorem inv_run (ops : List Op) : ∀ s, SysInv s → SysInv (run s ops) := by
  induction ops with
  | nil => intro s h; exact h
  | cons op ops ih => intro s h; exact ih _ (inv_step s h op)

/-! generation bookkeeping -/

theorem gen_step (s : Sys) (op : Op) :
    (∀ id d, op = .sleep id d → (step s op).1.gen ≠ 0) ∧
    ((∀ id d, op ≠ .sleep id d) → (step s op).1.gen = s.gen) ∧ (s.gen ≠ 0 → (step s op).1.gen ≠ 0) := by
  cases op with
  | sleep id d =>
    have := (renew_fields s).2.2.2.2.1
    have hg : (doSleep s id d).gen = (renew s).gen := by unfold doSleep; by_cases h : d = 0 <;> simp [h]
    refine ⟨fun _ _ _ => ?_, fun h => absurd rfl (h id d), fun _ => ?_⟩ <;> simp only [step, hg] <;> omega
  | setMode b =>
    have hg : (doSetMode s b).1.gen = s.gen := by
      cases h : setMode b s.live with
      | error e => rw [doSetMode_error s b e h]
      | ok live' =>
        rcases doSetMode_cases s b live' h with ⟨_, h2⟩ | ⟨_, _, h2⟩ | ⟨_, _, h2⟩ <;> rw [h2] <;> simp [wakeBy]
    refine ⟨fun _ _ h => (by cases h), fun _ => hg, fun h => by simp only [step, hg]; exact h⟩
  | tick =>
    refine ⟨fun _ _ h => (by cases h), fun _ => by simp [step, doTick, wakeBy], fun h => by simpa [step, doTick, wakeBy] using h⟩
  | cancel id =>
    refine ⟨fun _ _ h => (by cases h), fun _ => by simp [step, doCancel, wakeBy], fun h => by simpa [step, doCancel, wakeBy] using h⟩

theorem gen_run (ops : List Op) : ∀ s, (run s ops).gen ≠ 0 ↔ (s.gen ≠ 0 ∨ ∃ id d, Op.sleep id d ∈ ops) := by
  induction ops with
  | nil => intro s; simp [run]
  | cons op ops ih =>
    intro s
    simp only [run, ih, List.mem_cons]
    obtain ⟨h1, h2, h3⟩ := gen_step s op
    constructor
    · rintro (h | ⟨id, d, h⟩)
      · by_cases hs : ∃ id d, op = .sleep id d
        · obtain ⟨id, d, rfl⟩ := hs; exact Or.inr ⟨id, d, Or.inl rfl⟩
        · have : ∀ id d, op ≠ .sleep id d := fun id d e => hs ⟨id, d, e⟩
          rw [h2 this] at h; exact Or.inl h
      · exact Or.inr ⟨id, d, Or.inr h⟩
    · rintro (h | ⟨id, d, h | h⟩)
      · exact Or.inl (h3 h)
      · exact Or.inl (h1 id d h.symm)
      · exact Or.inr ⟨id, d, h⟩

/-! accounting: nobody disappears -/

theorem length_filter_split {α} (p : α → Bool) (l : List α) :
    (l.filter (fun a => !p a)).length + (l.filter p).length = l.length := by
  induction l with
  | nil => rfl
  | cons a l ih => cases h : p a <;> simp [h] <;> omega

def total (s : Sys) : Nat := s.sleepers.length + s.woken.length

theorem total_wakeBy (s : Sys) (p : Sleeper → Bool) (c : Cause) : total (wakeBy s p c) = total s := by
  have := length_filter_split p s.sleepers
  simp only [total, wakeBy, List.length_append, List.length_map]
  omega

def isSleep : Op → Bool
  | .sleep _ _ => true
  | _ => false

theorem total_step (s : Sys) (op : Op) : total (step s op).1 = total s + (if isSleep op then 1 else 0) := by
  cases op with
  | sleep id d =>
    obtain ⟨_, hs, hw, _⟩ := renew_fields s
    simp only [step, doSleep, isSleep, if_true]
    by_cases h : d = 0 <;> simp [h, total, hs, hw] <;> omega
  | setMode b =>
    simp only [step, isSleep]
    cases h : setMode b s.live with
    | error e => rw [doSetMode_error s b e h]; simp
    | ok live' =>
      rcases doSetMode_cases s b live' h with ⟨_, h2⟩ | ⟨_, _, h2⟩ | ⟨_, _, h2⟩ <;> rw [h2]
      · simp [total]
      · simp [total]
      · rw [total_wakeBy]; simp [total]
  | tick => simp only [step, doTick, isSleep]; rw [total_wakeBy]; simp [total]
  | cancel id => simp only [step, doCancel, isSleep]; rw [total_wakeBy]; simp

theorem total_run (ops : List Op) : ∀ s, total (run s ops) = total s + (ops.filter isSleep).length := by
  induction ops with
  | nil => intro s; simp [run]
  | cons op ops ih =>
    intro s
    simp only [run, ih, total_step, List.filter_cons]
    cases isSleep op <;> simp <;> omega

end GeckoModel.Config
