/- C19 helper lemmas: what `GeckoSnapshot.parse` does on each kind of line `do_snapshot` writes.
   The per-line blocks are repetitive on purpose (one `dead` per expression of the table); an ordinary checked Lean file. -/
import GeckoModel.Proofs.SnapshotRegex
import GeckoModel.Proofs.SnapshotBlock

set_option linter.unusedSimpArgs false
set_option linter.unusedVariables false

namespace GeckoModel.Snapshot

theorem search_skip_char (a c : Char) (l : Text) (r : List Atom) (y : Text) (h : (a != c) = true) :
    searchRe (.lit (a :: l) :: r) (c :: y) = searchRe (.lit (a :: l) :: r) y := by
  have := search_skip (a :: l) r [c] y (by simp [noPartial, mismatch, h])
  simpa using this

theorem lit_step (l : Text) (r : List Atom) (y : Text) : matchSeq (.lit l :: r) (l ++ y) = matchSeq r y := by
  simp [matchSeq, stripPrefix_append]

theorem all_ne_of_class (p : Char → Bool) (t : Text) (a : Char) (hs : t.all p = true) (ha : p a = false) :
    t.all (· != a) = true := by
  rw [List.all_eq_true] at hs ⊢
  intro c hc
  have := hs c hc
  simp only [bne_iff_ne, ne_eq]
  intro e; subst e; rw [this] at ha; cases ha

theorem stamp_ne (stamp : Text) (a : Char) (hs : stamp.all stampChar = true) (ha : stampChar a = false) :
    stamp.all (· != a) = true := all_ne_of_class _ _ _ hs ha
theorem ver_ne (v : Text) (a : Char) (hs : v.all verChar = true) (ha : verChar a = false) :
    v.all (· != a) = true := all_ne_of_class _ _ _ hs ha

/-- characters of a rendered block -/
def blockChar (c : Char) : Bool :=
  isDigit c || isLowerHex c || c == 'x' || c == '\'' || c == ' ' || c == ',' || c == '[' || c == ']'

theorem item_blockChar : ∀ b : Byte, (blockItem b).all blockChar = true := byte_forall (by decide +kernel)

theorem renderItems_blockChar (bs : List Byte) : (renderItems bs).all blockChar = true := by
  induction bs with
  | nil => rfl
  | cons b bs ih =>
    cases bs with
    | nil => simpa [renderItems] using item_blockChar b
    | cons b' bs =>
      simp only [renderItems, List.all_append, List.all_cons, Bool.and_eq_true]
      exact ⟨item_blockChar b, by decide, by decide, ih⟩

theorem renderBlockL_blockChar (bs : List Byte) : (renderBlockL bs).all blockChar = true := by
  simp only [renderBlockL, List.all_cons, List.all_append, renderItems_blockChar, List.all_nil, Bool.and_true, Bool.and_eq_true]
  decide

theorem block_ne (bs : List Byte) (a : Char) (ha : blockChar a = false) : (renderBlockL bs).all (· != a) = true :=
  all_ne_of_class _ _ _ (renderBlockL_blockChar bs) ha

theorem reData_skip_char (c : Char) (y : Text) (h : (c != '[') = true) : reData (c :: y) = reData y := by
  simp only [bne_iff_ne, ne_eq] at h
  simp [reData, h]

/-- first literals of the expressions of the table and the words `parse_log_file` looks for -/
def firstLits : List Text := [
  t!"Snapshot (", t!"Spa pack ", t!"intouch version EN ", t!"intouch version CO ", t!"Config version ", t!"Log version ",
  t!"PackType adjusted data = ", t!"PackConfID @ 297, Word raw data = ", t!"PackConfRev @ 299, Byte raw data = ",
  t!"PackConfRel @ 300, Byte raw data = ", t!"Got software version ", t!"Got spa configuration Type ", t!"STATV",
  t!"Snapshot", t!"Starting spa connection handshake..."]

/-- a pack label (with the blank that follows it) inside which no expression of the table (other than `Spa pack`'s own
group) can start to match -/
def LabelOK (label : Text) : Prop :=
  firstLits.all (fun l => noPartial l (label ++ [' '])) = true ∧ (label ++ [' ']).all (· != '[') = true

instance (label : Text) : Decidable (LabelOK label) := by unfold LabelOK; exact inferInstance

/-- skip one leading segment of the line (fixed text, a number, the time stamp, a version text, one character) -/
macro "skipseg" : tactic => `(tactic| first
  | (rw [search_skip_char _ _ _ _ _ (by decide)])
  | (rw [search_skip]; rotate_left
     · first
       | assumption
       | decide
       | (apply noPartial_of_head; first
           | exact natToDec_ne _ _ (by decide)
           | exact stamp_ne _ _ (by assumption) (by decide)
           | exact ver_ne _ _ (by assumption) (by decide)
           | exact block_ne _ _ (by decide))))

/-- the expression finds nothing on this line -/
macro "dead" : tactic => `(tactic| ((repeat skipseg) <;> first | rfl | decide))

macro "skipdata" : tactic => `(tactic| first
  | (rw [reData_skip_char _ _ (by decide)])
  | (rw [reData_skip]; rotate_left
     · first
       | assumption
       | decide
       | exact natToDec_ne _ _ (by decide)
       | exact stamp_ne _ _ (by assumption) (by decide)
       | exact ver_ne _ _ (by assumption) (by decide)))

macro "deaddata" : tactic => `(tactic| ((repeat skipdata) <;> first | rfl | decide))

theorem hasSub_false (l line : Text) (h : searchRe [.lit l] line = none) : hasSub l line = false := by simp [hasSub, h]
theorem hasSub_true (l line : Text) (g : List Text) (h : searchRe [.lit l] line = some g) : hasSub l line = true := by simp [hasSub, h]

/-- what the file loop needs to know about a line of an open snapshot -/
structure LineFacts (line : Text) (upd : Snap → Snap) : Prop where
  parse : ∀ s, parseLine s line = .ok (upd s)
  noSnap : hasSub t!"Snapshot" line = false
  info : hasSub t!"INFO" line = true
  noConn : hasSub t!"Starting spa connection handshake..." line = false

theorem info_line (stamp rest : Text) (hs : stamp.all stampChar = true) : hasSub t!"INFO" (stamp ++ (shellTag ++ rest)) = true := by
  apply hasSub_true _ _ []
  skipseg
  show searchRe [.lit t!"INFO"] (t!" geckolib.utils.shell " ++ (t!"INFO" ++ (' ' :: rest))) = some []
  skipseg
  exact search_hit _ _ _ _ (by decide) rfl


theorem facts_libVersion (stamp : Text) (hs : stamp.all stampChar = true) (v : Text) (hv : v.all verChar = true) :
    LineFacts (stamp ++ (shellTag ++ (t!"geckolib version " ++ (v ++ ['\n']))))
      (fun s => s) := by
  have h_reSnapshotAlt : searchRe reSnapshotAlt (stamp ++ (shellTag ++ (t!"geckolib version " ++ (v ++ ['\n'])))) = none := by unfold reSnapshotAlt; dead
  have h_reSpaPack : searchRe reSpaPack (stamp ++ (shellTag ++ (t!"geckolib version " ++ (v ++ ['\n'])))) = none := by unfold reSpaPack; dead
  have h_reIntouchEN : searchRe reIntouchEN (stamp ++ (shellTag ++ (t!"geckolib version " ++ (v ++ ['\n'])))) = none := by unfold reIntouchEN; dead
  have h_reIntouchCO : searchRe reIntouchCO (stamp ++ (shellTag ++ (t!"geckolib version " ++ (v ++ ['\n'])))) = none := by unfold reIntouchCO; dead
  have h_reConfigVersion : searchRe reConfigVersion (stamp ++ (shellTag ++ (t!"geckolib version " ++ (v ++ ['\n'])))) = none := by unfold reConfigVersion; dead
  have h_reLogVersion : searchRe reLogVersion (stamp ++ (shellTag ++ (t!"geckolib version " ++ (v ++ ['\n'])))) = none := by unfold reLogVersion; dead
  have h_rePackType : searchRe rePackType (stamp ++ (shellTag ++ (t!"geckolib version " ++ (v ++ ['\n'])))) = none := by unfold rePackType; dead
  have h_rePackId : searchRe rePackId (stamp ++ (shellTag ++ (t!"geckolib version " ++ (v ++ ['\n'])))) = none := by unfold rePackId; dead
  have h_rePackRev : searchRe rePackRev (stamp ++ (shellTag ++ (t!"geckolib version " ++ (v ++ ['\n'])))) = none := by unfold rePackRev; dead
  have h_rePackRel : searchRe rePackRel (stamp ++ (shellTag ++ (t!"geckolib version " ++ (v ++ ['\n'])))) = none := by unfold rePackRel; dead
  have h_reSoftware : searchRe reSoftware (stamp ++ (shellTag ++ (t!"geckolib version " ++ (v ++ ['\n'])))) = none := by unfold reSoftware; dead
  have h_reConfigAndLog : searchRe reConfigAndLog (stamp ++ (shellTag ++ (t!"geckolib version " ++ (v ++ ['\n'])))) = none := by unfold reConfigAndLog; dead
  have h_reStatv : searchRe reStatv (stamp ++ (shellTag ++ (t!"geckolib version " ++ (v ++ ['\n'])))) = none := by unfold reStatv; dead
  have h_data : dataLine (stamp ++ (shellTag ++ (t!"geckolib version " ++ (v ++ ['\n'])))) = .noMatch := by
    have : reData (stamp ++ (shellTag ++ (t!"geckolib version " ++ (v ++ ['\n'])))) = none := by deaddata
    unfold dataLine; rw [this]
  have h_snap : searchRe [.lit t!"Snapshot"] (stamp ++ (shellTag ++ (t!"geckolib version " ++ (v ++ ['\n'])))) = none := by dead
  have h_conn : searchRe [.lit t!"Starting spa connection handshake..."] (stamp ++ (shellTag ++ (t!"geckolib version " ++ (v ++ ['\n'])))) = none := by dead
  refine ⟨fun s => ?_, hasSub_false _ _ h_snap, info_line _ _ hs, hasSub_false _ _ h_conn⟩
  simp only [parseLine, fire, hData, hSegment, h_data, h_reSnapshotAlt, h_reSpaPack, h_reIntouchEN, h_reIntouchCO, h_reConfigVersion, h_reLogVersion, h_rePackType, h_rePackId, h_rePackRev, h_rePackRel, h_reSoftware, h_reConfigAndLog, h_reStatv] <;> rfl

theorem facts_revision (stamp : Text) (hs : stamp.all stampChar = true) (v : Text) (hv : v.all verChar = true) :
    LineFacts (stamp ++ (shellTag ++ (t!"SpaPackStruct.xml revision " ++ (v ++ ['\n']))))
      (fun s => s) := by
  have h_reSnapshotAlt : searchRe reSnapshotAlt (stamp ++ (shellTag ++ (t!"SpaPackStruct.xml revision " ++ (v ++ ['\n'])))) = none := by unfold reSnapshotAlt; dead
  have h_reSpaPack : searchRe reSpaPack (stamp ++ (shellTag ++ (t!"SpaPackStruct.xml revision " ++ (v ++ ['\n'])))) = none := by unfold reSpaPack; dead
  have h_reIntouchEN : searchRe reIntouchEN (stamp ++ (shellTag ++ (t!"SpaPackStruct.xml revision " ++ (v ++ ['\n'])))) = none := by unfold reIntouchEN; dead
  have h_reIntouchCO : searchRe reIntouchCO (stamp ++ (shellTag ++ (t!"SpaPackStruct.xml revision " ++ (v ++ ['\n'])))) = none := by unfold reIntouchCO; dead
  have h_reConfigVersion : searchRe reConfigVersion (stamp ++ (shellTag ++ (t!"SpaPackStruct.xml revision " ++ (v ++ ['\n'])))) = none := by unfold reConfigVersion; dead
  have h_reLogVersion : searchRe reLogVersion (stamp ++ (shellTag ++ (t!"SpaPackStruct.xml revision " ++ (v ++ ['\n'])))) = none := by unfold reLogVersion; dead
  have h_rePackType : searchRe rePackType (stamp ++ (shellTag ++ (t!"SpaPackStruct.xml revision " ++ (v ++ ['\n'])))) = none := by unfold rePackType; dead
  have h_rePackId : searchRe rePackId (stamp ++ (shellTag ++ (t!"SpaPackStruct.xml revision " ++ (v ++ ['\n'])))) = none := by unfold rePackId; dead
  have h_rePackRev : searchRe rePackRev (stamp ++ (shellTag ++ (t!"SpaPackStruct.xml revision " ++ (v ++ ['\n'])))) = none := by unfold rePackRev; dead
  have h_rePackRel : searchRe rePackRel (stamp ++ (shellTag ++ (t!"SpaPackStruct.xml revision " ++ (v ++ ['\n'])))) = none := by unfold rePackRel; dead
  have h_reSoftware : searchRe reSoftware (stamp ++ (shellTag ++ (t!"SpaPackStruct.xml revision " ++ (v ++ ['\n'])))) = none := by unfold reSoftware; dead
  have h_reConfigAndLog : searchRe reConfigAndLog (stamp ++ (shellTag ++ (t!"SpaPackStruct.xml revision " ++ (v ++ ['\n'])))) = none := by unfold reConfigAndLog; dead
  have h_reStatv : searchRe reStatv (stamp ++ (shellTag ++ (t!"SpaPackStruct.xml revision " ++ (v ++ ['\n'])))) = none := by unfold reStatv; dead
  have h_data : dataLine (stamp ++ (shellTag ++ (t!"SpaPackStruct.xml revision " ++ (v ++ ['\n'])))) = .noMatch := by
    have : reData (stamp ++ (shellTag ++ (t!"SpaPackStruct.xml revision " ++ (v ++ ['\n'])))) = none := by deaddata
    unfold dataLine; rw [this]
  have h_snap : searchRe [.lit t!"Snapshot"] (stamp ++ (shellTag ++ (t!"SpaPackStruct.xml revision " ++ (v ++ ['\n'])))) = none := by dead
  have h_conn : searchRe [.lit t!"Starting spa connection handshake..."] (stamp ++ (shellTag ++ (t!"SpaPackStruct.xml revision " ++ (v ++ ['\n'])))) = none := by dead
  refine ⟨fun s => ?_, hasSub_false _ _ h_snap, info_line _ _ hs, hasSub_false _ _ h_conn⟩
  simp only [parseLine, fire, hData, hSegment, h_data, h_reSnapshotAlt, h_reSpaPack, h_reIntouchEN, h_reIntouchCO, h_reConfigVersion, h_reLogVersion, h_rePackType, h_rePackId, h_rePackRev, h_rePackRel, h_reSoftware, h_reConfigAndLog, h_reStatv] <;> rfl

theorem facts_intouchEN (stamp : Text) (hs : stamp.all stampChar = true) (a b c : Nat) :
    LineFacts (stamp ++ (shellTag ++ (t!"intouch version EN " ++ (natToDec a ++ (t!" v" ++ (natToDec b ++ ('.' :: (natToDec c ++ ['\n']))))))))
      (fun s => { s with en := [natToDec a, natToDec b, natToDec c] }) := by
  have h_reSnapshotAlt : searchRe reSnapshotAlt (stamp ++ (shellTag ++ (t!"intouch version EN " ++ (natToDec a ++ (t!" v" ++ (natToDec b ++ ('.' :: (natToDec c ++ ['\n'])))))))) = none := by unfold reSnapshotAlt; dead
  have h_reSpaPack : searchRe reSpaPack (stamp ++ (shellTag ++ (t!"intouch version EN " ++ (natToDec a ++ (t!" v" ++ (natToDec b ++ ('.' :: (natToDec c ++ ['\n'])))))))) = none := by unfold reSpaPack; dead
  have h_reIntouchEN : searchRe reIntouchEN (stamp ++ (shellTag ++ (t!"intouch version EN " ++ (natToDec a ++ (t!" v" ++ (natToDec b ++ ('.' :: (natToDec c ++ ['\n'])))))))) = some [natToDec a, natToDec b, natToDec c] := by
    unfold reIntouchEN
    skipseg; skipseg
    apply search_hit _ _ _ _ (by decide)
    apply cap_run _ _ _ _ _ _ (natToDec_digits a) rfl (natToDec_len a)
    show matchSeq (.lit t!" v" :: _) (t!" v" ++ _) = _
    rw [lit_step]
    apply cap_run _ _ _ _ _ _ (natToDec_digits b) rfl (natToDec_len b)
    show matchSeq (.lit t!"." :: _) (t!"." ++ _) = _
    rw [lit_step]
    exact cap_run _ _ _ _ _ _ (natToDec_digits c) rfl (natToDec_len c) rfl

  have h_reIntouchCO : searchRe reIntouchCO (stamp ++ (shellTag ++ (t!"intouch version EN " ++ (natToDec a ++ (t!" v" ++ (natToDec b ++ ('.' :: (natToDec c ++ ['\n'])))))))) = none := by unfold reIntouchCO; dead
  have h_reConfigVersion : searchRe reConfigVersion (stamp ++ (shellTag ++ (t!"intouch version EN " ++ (natToDec a ++ (t!" v" ++ (natToDec b ++ ('.' :: (natToDec c ++ ['\n'])))))))) = none := by unfold reConfigVersion; dead
  have h_reLogVersion : searchRe reLogVersion (stamp ++ (shellTag ++ (t!"intouch version EN " ++ (natToDec a ++ (t!" v" ++ (natToDec b ++ ('.' :: (natToDec c ++ ['\n'])))))))) = none := by unfold reLogVersion; dead
  have h_rePackType : searchRe rePackType (stamp ++ (shellTag ++ (t!"intouch version EN " ++ (natToDec a ++ (t!" v" ++ (natToDec b ++ ('.' :: (natToDec c ++ ['\n'])))))))) = none := by unfold rePackType; dead
  have h_rePackId : searchRe rePackId (stamp ++ (shellTag ++ (t!"intouch version EN " ++ (natToDec a ++ (t!" v" ++ (natToDec b ++ ('.' :: (natToDec c ++ ['\n'])))))))) = none := by unfold rePackId; dead
  have h_rePackRev : searchRe rePackRev (stamp ++ (shellTag ++ (t!"intouch version EN " ++ (natToDec a ++ (t!" v" ++ (natToDec b ++ ('.' :: (natToDec c ++ ['\n'])))))))) = none := by unfold rePackRev; dead
  have h_rePackRel : searchRe rePackRel (stamp ++ (shellTag ++ (t!"intouch version EN " ++ (natToDec a ++ (t!" v" ++ (natToDec b ++ ('.' :: (natToDec c ++ ['\n'])))))))) = none := by unfold rePackRel; dead
  have h_reSoftware : searchRe reSoftware (stamp ++ (shellTag ++ (t!"intouch version EN " ++ (natToDec a ++ (t!" v" ++ (natToDec b ++ ('.' :: (natToDec c ++ ['\n'])))))))) = none := by unfold reSoftware; dead
  have h_reConfigAndLog : searchRe reConfigAndLog (stamp ++ (shellTag ++ (t!"intouch version EN " ++ (natToDec a ++ (t!" v" ++ (natToDec b ++ ('.' :: (natToDec c ++ ['\n'])))))))) = none := by unfold reConfigAndLog; dead
  have h_reStatv : searchRe reStatv (stamp ++ (shellTag ++ (t!"intouch version EN " ++ (natToDec a ++ (t!" v" ++ (natToDec b ++ ('.' :: (natToDec c ++ ['\n'])))))))) = none := by unfold reStatv; dead
  have h_data : dataLine (stamp ++ (shellTag ++ (t!"intouch version EN " ++ (natToDec a ++ (t!" v" ++ (natToDec b ++ ('.' :: (natToDec c ++ ['\n'])))))))) = .noMatch := by
    have : reData (stamp ++ (shellTag ++ (t!"intouch version EN " ++ (natToDec a ++ (t!" v" ++ (natToDec b ++ ('.' :: (natToDec c ++ ['\n'])))))))) = none := by deaddata
    unfold dataLine; rw [this]
  have h_snap : searchRe [.lit t!"Snapshot"] (stamp ++ (shellTag ++ (t!"intouch version EN " ++ (natToDec a ++ (t!" v" ++ (natToDec b ++ ('.' :: (natToDec c ++ ['\n'])))))))) = none := by dead
  have h_conn : searchRe [.lit t!"Starting spa connection handshake..."] (stamp ++ (shellTag ++ (t!"intouch version EN " ++ (natToDec a ++ (t!" v" ++ (natToDec b ++ ('.' :: (natToDec c ++ ['\n'])))))))) = none := by dead
  refine ⟨fun s => ?_, hasSub_false _ _ h_snap, info_line _ _ hs, hasSub_false _ _ h_conn⟩
  simp only [parseLine, fire, hData, hSegment, h_data, h_reSnapshotAlt, h_reSpaPack, h_reIntouchEN, h_reIntouchCO, h_reConfigVersion, h_reLogVersion, h_rePackType, h_rePackId, h_rePackRev, h_rePackRel, h_reSoftware, h_reConfigAndLog, h_reStatv] <;> rfl

theorem facts_intouchCO (stamp : Text) (hs : stamp.all stampChar = true) (a b c : Nat) :
    LineFacts (stamp ++ (shellTag ++ (t!"intouch version CO " ++ (natToDec a ++ (t!" v" ++ (natToDec b ++ ('.' :: (natToDec c ++ ['\n']))))))))
      (fun s => { s with co := [natToDec a, natToDec b, natToDec c] }) := by
  have h_reSnapshotAlt : searchRe reSnapshotAlt (stamp ++ (shellTag ++ (t!"intouch version CO " ++ (natToDec a ++ (t!" v" ++ (natToDec b ++ ('.' :: (natToDec c ++ ['\n'])))))))) = none := by unfold reSnapshotAlt; dead
  have h_reSpaPack : searchRe reSpaPack (stamp ++ (shellTag ++ (t!"intouch version CO " ++ (natToDec a ++ (t!" v" ++ (natToDec b ++ ('.' :: (natToDec c ++ ['\n'])))))))) = none := by unfold reSpaPack; dead
  have h_reIntouchEN : searchRe reIntouchEN (stamp ++ (shellTag ++ (t!"intouch version CO " ++ (natToDec a ++ (t!" v" ++ (natToDec b ++ ('.' :: (natToDec c ++ ['\n'])))))))) = none := by unfold reIntouchEN; dead
  have h_reIntouchCO : searchRe reIntouchCO (stamp ++ (shellTag ++ (t!"intouch version CO " ++ (natToDec a ++ (t!" v" ++ (natToDec b ++ ('.' :: (natToDec c ++ ['\n'])))))))) = some [natToDec a, natToDec b, natToDec c] := by
    unfold reIntouchCO
    skipseg; skipseg
    apply search_hit _ _ _ _ (by decide)
    apply cap_run _ _ _ _ _ _ (natToDec_digits a) rfl (natToDec_len a)
    show matchSeq (.lit t!" v" :: _) (t!" v" ++ _) = _
    rw [lit_step]
    apply cap_run _ _ _ _ _ _ (natToDec_digits b) rfl (natToDec_len b)
    show matchSeq (.lit t!"." :: _) (t!"." ++ _) = _
    rw [lit_step]
    exact cap_run _ _ _ _ _ _ (natToDec_digits c) rfl (natToDec_len c) rfl

  have h_reConfigVersion : searchRe reConfigVersion (stamp ++ (shellTag ++ (t!"intouch version CO " ++ (natToDec a ++ (t!" v" ++ (natToDec b ++ ('.' :: (natToDec c ++ ['\n'])))))))) = none := by unfold reConfigVersion; dead
  have h_reLogVersion : searchRe reLogVersion (stamp ++ (shellTag ++ (t!"intouch version CO " ++ (natToDec a ++ (t!" v" ++ (natToDec b ++ ('.' :: (natToDec c ++ ['\n'])))))))) = none := by unfold reLogVersion; dead
  have h_rePackType : searchRe rePackType (stamp ++ (shellTag ++ (t!"intouch version CO " ++ (natToDec a ++ (t!" v" ++ (natToDec b ++ ('.' :: (natToDec c ++ ['\n'])))))))) = none := by unfold rePackType; dead
  have h_rePackId : searchRe rePackId (stamp ++ (shellTag ++ (t!"intouch version CO " ++ (natToDec a ++ (t!" v" ++ (natToDec b ++ ('.' :: (natToDec c ++ ['\n'])))))))) = none := by unfold rePackId; dead
  have h_rePackRev : searchRe rePackRev (stamp ++ (shellTag ++ (t!"intouch version CO " ++ (natToDec a ++ (t!" v" ++ (natToDec b ++ ('.' :: (natToDec c ++ ['\n'])))))))) = none := by unfold rePackRev; dead
  have h_rePackRel : searchRe rePackRel (stamp ++ (shellTag ++ (t!"intouch version CO " ++ (natToDec a ++ (t!" v" ++ (natToDec b ++ ('.' :: (natToDec c ++ ['\n'])))))))) = none := by unfold rePackRel; dead
  have h_reSoftware : searchRe reSoftware (stamp ++ (shellTag ++ (t!"intouch version CO " ++ (natToDec a ++ (t!" v" ++ (natToDec b ++ ('.' :: (natToDec c ++ ['\n'])))))))) = none := by unfold reSoftware; dead
  have h_reConfigAndLog : searchRe reConfigAndLog (stamp ++ (shellTag ++ (t!"intouch version CO " ++ (natToDec a ++ (t!" v" ++ (natToDec b ++ ('.' :: (natToDec c ++ ['\n'])))))))) = none := by unfold reConfigAndLog; dead
  have h_reStatv : searchRe reStatv (stamp ++ (shellTag ++ (t!"intouch version CO " ++ (natToDec a ++ (t!" v" ++ (natToDec b ++ ('.' :: (natToDec c ++ ['\n'])))))))) = none := by unfold reStatv; dead
  have h_data : dataLine (stamp ++ (shellTag ++ (t!"intouch version CO " ++ (natToDec a ++ (t!" v" ++ (natToDec b ++ ('.' :: (natToDec c ++ ['\n'])))))))) = .noMatch := by
    have : reData (stamp ++ (shellTag ++ (t!"intouch version CO " ++ (natToDec a ++ (t!" v" ++ (natToDec b ++ ('.' :: (natToDec c ++ ['\n'])))))))) = none := by deaddata
    unfold dataLine; rw [this]
  have h_snap : searchRe [.lit t!"Snapshot"] (stamp ++ (shellTag ++ (t!"intouch version CO " ++ (natToDec a ++ (t!" v" ++ (natToDec b ++ ('.' :: (natToDec c ++ ['\n'])))))))) = none := by dead
  have h_conn : searchRe [.lit t!"Starting spa connection handshake..."] (stamp ++ (shellTag ++ (t!"intouch version CO " ++ (natToDec a ++ (t!" v" ++ (natToDec b ++ ('.' :: (natToDec c ++ ['\n'])))))))) = none := by dead
  refine ⟨fun s => ?_, hasSub_false _ _ h_snap, info_line _ _ hs, hasSub_false _ _ h_conn⟩
  simp only [parseLine, fire, hData, hSegment, h_data, h_reSnapshotAlt, h_reSpaPack, h_reIntouchEN, h_reIntouchCO, h_reConfigVersion, h_reLogVersion, h_rePackType, h_rePackId, h_rePackRev, h_rePackRel, h_reSoftware, h_reConfigAndLog, h_reStatv] <;> rfl

theorem facts_lowLevel (stamp : Text) (hs : stamp.all stampChar = true) (n : Nat) :
    LineFacts (stamp ++ (shellTag ++ (t!"Low level configuration # " ++ (natToDec n ++ ['\n']))))
      (fun s => s) := by
  have h_reSnapshotAlt : searchRe reSnapshotAlt (stamp ++ (shellTag ++ (t!"Low level configuration # " ++ (natToDec n ++ ['\n'])))) = none := by unfold reSnapshotAlt; dead
  have h_reSpaPack : searchRe reSpaPack (stamp ++ (shellTag ++ (t!"Low level configuration # " ++ (natToDec n ++ ['\n'])))) = none := by unfold reSpaPack; dead
  have h_reIntouchEN : searchRe reIntouchEN (stamp ++ (shellTag ++ (t!"Low level configuration # " ++ (natToDec n ++ ['\n'])))) = none := by unfold reIntouchEN; dead
  have h_reIntouchCO : searchRe reIntouchCO (stamp ++ (shellTag ++ (t!"Low level configuration # " ++ (natToDec n ++ ['\n'])))) = none := by unfold reIntouchCO; dead
  have h_reConfigVersion : searchRe reConfigVersion (stamp ++ (shellTag ++ (t!"Low level configuration # " ++ (natToDec n ++ ['\n'])))) = none := by unfold reConfigVersion; dead
  have h_reLogVersion : searchRe reLogVersion (stamp ++ (shellTag ++ (t!"Low level configuration # " ++ (natToDec n ++ ['\n'])))) = none := by unfold reLogVersion; dead
  have h_rePackType : searchRe rePackType (stamp ++ (shellTag ++ (t!"Low level configuration # " ++ (natToDec n ++ ['\n'])))) = none := by unfold rePackType; dead
  have h_rePackId : searchRe rePackId (stamp ++ (shellTag ++ (t!"Low level configuration # " ++ (natToDec n ++ ['\n'])))) = none := by unfold rePackId; dead
  have h_rePackRev : searchRe rePackRev (stamp ++ (shellTag ++ (t!"Low level configuration # " ++ (natToDec n ++ ['\n'])))) = none := by unfold rePackRev; dead
  have h_rePackRel : searchRe rePackRel (stamp ++ (shellTag ++ (t!"Low level configuration # " ++ (natToDec n ++ ['\n'])))) = none := by unfold rePackRel; dead
  have h_reSoftware : searchRe reSoftware (stamp ++ (shellTag ++ (t!"Low level configuration # " ++ (natToDec n ++ ['\n'])))) = none := by unfold reSoftware; dead
  have h_reConfigAndLog : searchRe reConfigAndLog (stamp ++ (shellTag ++ (t!"Low level configuration # " ++ (natToDec n ++ ['\n'])))) = none := by unfold reConfigAndLog; dead
  have h_reStatv : searchRe reStatv (stamp ++ (shellTag ++ (t!"Low level configuration # " ++ (natToDec n ++ ['\n'])))) = none := by unfold reStatv; dead
  have h_data : dataLine (stamp ++ (shellTag ++ (t!"Low level configuration # " ++ (natToDec n ++ ['\n'])))) = .noMatch := by
    have : reData (stamp ++ (shellTag ++ (t!"Low level configuration # " ++ (natToDec n ++ ['\n'])))) = none := by deaddata
    unfold dataLine; rw [this]
  have h_snap : searchRe [.lit t!"Snapshot"] (stamp ++ (shellTag ++ (t!"Low level configuration # " ++ (natToDec n ++ ['\n'])))) = none := by dead
  have h_conn : searchRe [.lit t!"Starting spa connection handshake..."] (stamp ++ (shellTag ++ (t!"Low level configuration # " ++ (natToDec n ++ ['\n'])))) = none := by dead
  refine ⟨fun s => ?_, hasSub_false _ _ h_snap, info_line _ _ hs, hasSub_false _ _ h_conn⟩
  simp only [parseLine, fire, hData, hSegment, h_data, h_reSnapshotAlt, h_reSpaPack, h_reIntouchEN, h_reIntouchCO, h_reConfigVersion, h_reLogVersion, h_rePackType, h_rePackId, h_rePackRev, h_rePackRel, h_reSoftware, h_reConfigAndLog, h_reStatv] <;> rfl

theorem facts_config (stamp : Text) (hs : stamp.all stampChar = true) (n : Nat) :
    LineFacts (stamp ++ (shellTag ++ (t!"Config version " ++ (natToDec n ++ ['\n']))))
      (fun s => { s with cfg := some (natToDec n) }) := by
  have h_reSnapshotAlt : searchRe reSnapshotAlt (stamp ++ (shellTag ++ (t!"Config version " ++ (natToDec n ++ ['\n'])))) = none := by unfold reSnapshotAlt; dead
  have h_reSpaPack : searchRe reSpaPack (stamp ++ (shellTag ++ (t!"Config version " ++ (natToDec n ++ ['\n'])))) = none := by unfold reSpaPack; dead
  have h_reIntouchEN : searchRe reIntouchEN (stamp ++ (shellTag ++ (t!"Config version " ++ (natToDec n ++ ['\n'])))) = none := by unfold reIntouchEN; dead
  have h_reIntouchCO : searchRe reIntouchCO (stamp ++ (shellTag ++ (t!"Config version " ++ (natToDec n ++ ['\n'])))) = none := by unfold reIntouchCO; dead
  have h_reConfigVersion : searchRe reConfigVersion (stamp ++ (shellTag ++ (t!"Config version " ++ (natToDec n ++ ['\n'])))) = some [natToDec n] := by
    unfold reConfigVersion
    skipseg; skipseg
    apply search_hit _ _ _ _ (by decide)
    exact cap_run _ _ _ _ _ _ (natToDec_digits n) rfl (natToDec_len n) rfl

  have h_reLogVersion : searchRe reLogVersion (stamp ++ (shellTag ++ (t!"Config version " ++ (natToDec n ++ ['\n'])))) = none := by unfold reLogVersion; dead
  have h_rePackType : searchRe rePackType (stamp ++ (shellTag ++ (t!"Config version " ++ (natToDec n ++ ['\n'])))) = none := by unfold rePackType; dead
  have h_rePackId : searchRe rePackId (stamp ++ (shellTag ++ (t!"Config version " ++ (natToDec n ++ ['\n'])))) = none := by unfold rePackId; dead
  have h_rePackRev : searchRe rePackRev (stamp ++ (shellTag ++ (t!"Config version " ++ (natToDec n ++ ['\n'])))) = none := by unfold rePackRev; dead
  have h_rePackRel : searchRe rePackRel (stamp ++ (shellTag ++ (t!"Config version " ++ (natToDec n ++ ['\n'])))) = none := by unfold rePackRel; dead
  have h_reSoftware : searchRe reSoftware (stamp ++ (shellTag ++ (t!"Config version " ++ (natToDec n ++ ['\n'])))) = none := by unfold reSoftware; dead
  have h_reConfigAndLog : searchRe reConfigAndLog (stamp ++ (shellTag ++ (t!"Config version " ++ (natToDec n ++ ['\n'])))) = none := by unfold reConfigAndLog; dead
  have h_reStatv : searchRe reStatv (stamp ++ (shellTag ++ (t!"Config version " ++ (natToDec n ++ ['\n'])))) = none := by unfold reStatv; dead
  have h_data : dataLine (stamp ++ (shellTag ++ (t!"Config version " ++ (natToDec n ++ ['\n'])))) = .noMatch := by
    have : reData (stamp ++ (shellTag ++ (t!"Config version " ++ (natToDec n ++ ['\n'])))) = none := by deaddata
    unfold dataLine; rw [this]
  have h_snap : searchRe [.lit t!"Snapshot"] (stamp ++ (shellTag ++ (t!"Config version " ++ (natToDec n ++ ['\n'])))) = none := by dead
  have h_conn : searchRe [.lit t!"Starting spa connection handshake..."] (stamp ++ (shellTag ++ (t!"Config version " ++ (natToDec n ++ ['\n'])))) = none := by dead
  refine ⟨fun s => ?_, hasSub_false _ _ h_snap, info_line _ _ hs, hasSub_false _ _ h_conn⟩
  simp only [parseLine, fire, hData, hSegment, h_data, h_reSnapshotAlt, h_reSpaPack, h_reIntouchEN, h_reIntouchCO, h_reConfigVersion, h_reLogVersion, h_rePackType, h_rePackId, h_rePackRev, h_rePackRel, h_reSoftware, h_reConfigAndLog, h_reStatv] <;> rfl

theorem facts_log (stamp : Text) (hs : stamp.all stampChar = true) (n : Nat) :
    LineFacts (stamp ++ (shellTag ++ (t!"Log version " ++ (natToDec n ++ ['\n']))))
      (fun s => { s with log := some (natToDec n) }) := by
  have h_reSnapshotAlt : searchRe reSnapshotAlt (stamp ++ (shellTag ++ (t!"Log version " ++ (natToDec n ++ ['\n'])))) = none := by unfold reSnapshotAlt; dead
  have h_reSpaPack : searchRe reSpaPack (stamp ++ (shellTag ++ (t!"Log version " ++ (natToDec n ++ ['\n'])))) = none := by unfold reSpaPack; dead
  have h_reIntouchEN : searchRe reIntouchEN (stamp ++ (shellTag ++ (t!"Log version " ++ (natToDec n ++ ['\n'])))) = none := by unfold reIntouchEN; dead
  have h_reIntouchCO : searchRe reIntouchCO (stamp ++ (shellTag ++ (t!"Log version " ++ (natToDec n ++ ['\n'])))) = none := by unfold reIntouchCO; dead
  have h_reConfigVersion : searchRe reConfigVersion (stamp ++ (shellTag ++ (t!"Log version " ++ (natToDec n ++ ['\n'])))) = none := by unfold reConfigVersion; dead
  have h_reLogVersion : searchRe reLogVersion (stamp ++ (shellTag ++ (t!"Log version " ++ (natToDec n ++ ['\n'])))) = some [natToDec n] := by
    unfold reLogVersion
    skipseg; skipseg
    apply search_hit _ _ _ _ (by decide)
    exact cap_run _ _ _ _ _ _ (natToDec_digits n) rfl (natToDec_len n) rfl

  have h_rePackType : searchRe rePackType (stamp ++ (shellTag ++ (t!"Log version " ++ (natToDec n ++ ['\n'])))) = none := by unfold rePackType; dead
  have h_rePackId : searchRe rePackId (stamp ++ (shellTag ++ (t!"Log version " ++ (natToDec n ++ ['\n'])))) = none := by unfold rePackId; dead
  have h_rePackRev : searchRe rePackRev (stamp ++ (shellTag ++ (t!"Log version " ++ (natToDec n ++ ['\n'])))) = none := by unfold rePackRev; dead
  have h_rePackRel : searchRe rePackRel (stamp ++ (shellTag ++ (t!"Log version " ++ (natToDec n ++ ['\n'])))) = none := by unfold rePackRel; dead
  have h_reSoftware : searchRe reSoftware (stamp ++ (shellTag ++ (t!"Log version " ++ (natToDec n ++ ['\n'])))) = none := by unfold reSoftware; dead
  have h_reConfigAndLog : searchRe reConfigAndLog (stamp ++ (shellTag ++ (t!"Log version " ++ (natToDec n ++ ['\n'])))) = none := by unfold reConfigAndLog; dead
  have h_reStatv : searchRe reStatv (stamp ++ (shellTag ++ (t!"Log version " ++ (natToDec n ++ ['\n'])))) = none := by unfold reStatv; dead
  have h_data : dataLine (stamp ++ (shellTag ++ (t!"Log version " ++ (natToDec n ++ ['\n'])))) = .noMatch := by
    have : reData (stamp ++ (shellTag ++ (t!"Log version " ++ (natToDec n ++ ['\n'])))) = none := by deaddata
    unfold dataLine; rw [this]
  have h_snap : searchRe [.lit t!"Snapshot"] (stamp ++ (shellTag ++ (t!"Log version " ++ (natToDec n ++ ['\n'])))) = none := by dead
  have h_conn : searchRe [.lit t!"Starting spa connection handshake..."] (stamp ++ (shellTag ++ (t!"Log version " ++ (natToDec n ++ ['\n'])))) = none := by dead
  refine ⟨fun s => ?_, hasSub_false _ _ h_snap, info_line _ _ hs, hasSub_false _ _ h_conn⟩
  simp only [parseLine, fire, hData, hSegment, h_data, h_reSnapshotAlt, h_reSpaPack, h_reIntouchEN, h_reIntouchCO, h_reConfigVersion, h_reLogVersion, h_rePackType, h_rePackId, h_rePackRev, h_rePackRel, h_reSoftware, h_reConfigAndLog, h_reStatv] <;> rfl

theorem facts_packTypeNo (stamp : Text) (hs : stamp.all stampChar = true) (n : Nat) :
    LineFacts (stamp ++ (shellTag ++ (t!"Pack type " ++ (natToDec n ++ ['\n']))))
      (fun s => s) := by
  have h_reSnapshotAlt : searchRe reSnapshotAlt (stamp ++ (shellTag ++ (t!"Pack type " ++ (natToDec n ++ ['\n'])))) = none := by unfold reSnapshotAlt; dead
  have h_reSpaPack : searchRe reSpaPack (stamp ++ (shellTag ++ (t!"Pack type " ++ (natToDec n ++ ['\n'])))) = none := by unfold reSpaPack; dead
  have h_reIntouchEN : searchRe reIntouchEN (stamp ++ (shellTag ++ (t!"Pack type " ++ (natToDec n ++ ['\n'])))) = none := by unfold reIntouchEN; dead
  have h_reIntouchCO : searchRe reIntouchCO (stamp ++ (shellTag ++ (t!"Pack type " ++ (natToDec n ++ ['\n'])))) = none := by unfold reIntouchCO; dead
  have h_reConfigVersion : searchRe reConfigVersion (stamp ++ (shellTag ++ (t!"Pack type " ++ (natToDec n ++ ['\n'])))) = none := by unfold reConfigVersion; dead
  have h_reLogVersion : searchRe reLogVersion (stamp ++ (shellTag ++ (t!"Pack type " ++ (natToDec n ++ ['\n'])))) = none := by unfold reLogVersion; dead
  have h_rePackType : searchRe rePackType (stamp ++ (shellTag ++ (t!"Pack type " ++ (natToDec n ++ ['\n'])))) = none := by unfold rePackType; dead
  have h_rePackId : searchRe rePackId (stamp ++ (shellTag ++ (t!"Pack type " ++ (natToDec n ++ ['\n'])))) = none := by unfold rePackId; dead
  have h_rePackRev : searchRe rePackRev (stamp ++ (shellTag ++ (t!"Pack type " ++ (natToDec n ++ ['\n'])))) = none := by unfold rePackRev; dead
  have h_rePackRel : searchRe rePackRel (stamp ++ (shellTag ++ (t!"Pack type " ++ (natToDec n ++ ['\n'])))) = none := by unfold rePackRel; dead
  have h_reSoftware : searchRe reSoftware (stamp ++ (shellTag ++ (t!"Pack type " ++ (natToDec n ++ ['\n'])))) = none := by unfold reSoftware; dead
  have h_reConfigAndLog : searchRe reConfigAndLog (stamp ++ (shellTag ++ (t!"Pack type " ++ (natToDec n ++ ['\n'])))) = none := by unfold reConfigAndLog; dead
  have h_reStatv : searchRe reStatv (stamp ++ (shellTag ++ (t!"Pack type " ++ (natToDec n ++ ['\n'])))) = none := by unfold reStatv; dead
  have h_data : dataLine (stamp ++ (shellTag ++ (t!"Pack type " ++ (natToDec n ++ ['\n'])))) = .noMatch := by
    have : reData (stamp ++ (shellTag ++ (t!"Pack type " ++ (natToDec n ++ ['\n'])))) = none := by deaddata
    unfold dataLine; rw [this]
  have h_snap : searchRe [.lit t!"Snapshot"] (stamp ++ (shellTag ++ (t!"Pack type " ++ (natToDec n ++ ['\n'])))) = none := by dead
  have h_conn : searchRe [.lit t!"Starting spa connection handshake..."] (stamp ++ (shellTag ++ (t!"Pack type " ++ (natToDec n ++ ['\n'])))) = none := by dead
  refine ⟨fun s => ?_, hasSub_false _ _ h_snap, info_line _ _ hs, hasSub_false _ _ h_conn⟩
  simp only [parseLine, fire, hData, hSegment, h_data, h_reSnapshotAlt, h_reSpaPack, h_reIntouchEN, h_reIntouchCO, h_reConfigVersion, h_reLogVersion, h_rePackType, h_rePackId, h_rePackRev, h_rePackRel, h_reSoftware, h_reConfigAndLog, h_reStatv] <;> rfl

theorem facts_block (stamp : Text) (hs : stamp.all stampChar = true) (b : Byte) (bs : List Byte) :
    LineFacts (stamp ++ (shellTag ++ (renderBlockL (b :: bs) ++ ['\n'])))
      (fun s => { s with bytes := b :: bs }) := by
  have h_reSnapshotAlt : searchRe reSnapshotAlt (stamp ++ (shellTag ++ (renderBlockL (b :: bs) ++ ['\n']))) = none := by unfold reSnapshotAlt; dead
  have h_reSpaPack : searchRe reSpaPack (stamp ++ (shellTag ++ (renderBlockL (b :: bs) ++ ['\n']))) = none := by unfold reSpaPack; dead
  have h_reIntouchEN : searchRe reIntouchEN (stamp ++ (shellTag ++ (renderBlockL (b :: bs) ++ ['\n']))) = none := by unfold reIntouchEN; dead
  have h_reIntouchCO : searchRe reIntouchCO (stamp ++ (shellTag ++ (renderBlockL (b :: bs) ++ ['\n']))) = none := by unfold reIntouchCO; dead
  have h_reConfigVersion : searchRe reConfigVersion (stamp ++ (shellTag ++ (renderBlockL (b :: bs) ++ ['\n']))) = none := by unfold reConfigVersion; dead
  have h_reLogVersion : searchRe reLogVersion (stamp ++ (shellTag ++ (renderBlockL (b :: bs) ++ ['\n']))) = none := by unfold reLogVersion; dead
  have h_rePackType : searchRe rePackType (stamp ++ (shellTag ++ (renderBlockL (b :: bs) ++ ['\n']))) = none := by unfold rePackType; dead
  have h_rePackId : searchRe rePackId (stamp ++ (shellTag ++ (renderBlockL (b :: bs) ++ ['\n']))) = none := by unfold rePackId; dead
  have h_rePackRev : searchRe rePackRev (stamp ++ (shellTag ++ (renderBlockL (b :: bs) ++ ['\n']))) = none := by unfold rePackRev; dead
  have h_rePackRel : searchRe rePackRel (stamp ++ (shellTag ++ (renderBlockL (b :: bs) ++ ['\n']))) = none := by unfold rePackRel; dead
  have h_reSoftware : searchRe reSoftware (stamp ++ (shellTag ++ (renderBlockL (b :: bs) ++ ['\n']))) = none := by unfold reSoftware; dead
  have h_reConfigAndLog : searchRe reConfigAndLog (stamp ++ (shellTag ++ (renderBlockL (b :: bs) ++ ['\n']))) = none := by unfold reConfigAndLog; dead
  have h_reStatv : searchRe reStatv (stamp ++ (shellTag ++ (renderBlockL (b :: bs) ++ ['\n']))) = none := by unfold reStatv; dead
  have h_data : dataLine (stamp ++ (shellTag ++ (renderBlockL (b :: bs) ++ ['\n']))) = .bytes (b :: bs) := by
    have : reData (stamp ++ (shellTag ++ (renderBlockL (b :: bs) ++ ['\n']))) = some (renderItems (b :: bs)) := by
      skipdata; skipdata
      have := reData_block [] ['\n'] b bs rfl rfl
      simpa using this
    unfold dataLine; rw [this]; simp only [decodeHexList_renderItems]
  have h_snap : searchRe [.lit t!"Snapshot"] (stamp ++ (shellTag ++ (renderBlockL (b :: bs) ++ ['\n']))) = none := by dead
  have h_conn : searchRe [.lit t!"Starting spa connection handshake..."] (stamp ++ (shellTag ++ (renderBlockL (b :: bs) ++ ['\n']))) = none := by dead
  refine ⟨fun s => ?_, hasSub_false _ _ h_snap, info_line _ _ hs, hasSub_false _ _ h_conn⟩
  simp only [parseLine, fire, hData, hSegment, h_data, h_reSnapshotAlt, h_reSpaPack, h_reIntouchEN, h_reIntouchCO, h_reConfigVersion, h_reLogVersion, h_rePackType, h_rePackId, h_rePackRev, h_rePackRel, h_reSoftware, h_reConfigAndLog, h_reStatv] <;> rfl

end GeckoModel.Snapshot
