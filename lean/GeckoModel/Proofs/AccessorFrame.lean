/-
Frame lemmas: a device write changes only the bits the item owns, and an item's reading depends only on the
bits it owns.  Together: writing one item cannot change another item whose field is disjoint.
-/
import GeckoModel.Proofs.AccessorLemmas

namespace GeckoModel
open GeckoModel.Generated GeckoModel.Bits

theorem byte_testBit_ge (x : Byte) (j : Nat) (hj : 8 ≤ j) : x.toNat.testBit j = false := by
  apply Nat.testBit_lt_two_pow
  have := x.toNat_lt
  exact Nat.lt_of_lt_of_le this (by
    have : (2:Nat) ^ 8 ≤ 2 ^ j := Nat.pow_le_pow_right (by omega) hj
    simpa using this)

/-- bit `t` of the item's word is bit `j` of byte `i` -/
theorem Item.blockBit_of_word (it : Item) (b : Block) (d : Nat) (hd : it.word b = some d) (i j t : Nat)
    (ht : it.wordBitAt i j = some t) : blockBit b i j = d.testBit t := by
  unfold Item.wordBitAt at ht
  unfold Item.word readBE at hd
  by_cases hj : j < 8
  · simp only [hj, if_true] at ht
    by_cases hl1 : it.len = 1
    · simp only [hl1, if_true] at ht hd
      by_cases hi : i = it.pos
      · simp only [hi, if_true] at ht
        cases ht
        subst hi
        cases hx : b[it.pos]? with
        | none => simp [hx] at hd
        | some x => simp only [hx] at hd; cases hd; simp [blockBit, hx]
      · simp [hi] at ht
    · simp only [hl1, if_false] at ht hd
      by_cases hl2 : it.len = 2
      · simp only [hl2, if_true] at ht hd
        cases hhi : b[it.pos]? with
        | none => simp [hhi] at hd
        | some hi =>
          cases hlo : b[it.pos + 1]? with
          | none => simp [hhi, hlo] at hd
          | some lo =>
            simp only [hhi, hlo] at hd
            cases hd
            have key := Nat.testBit_two_pow_mul_add hi.toNat (b := lo.toNat) (i := 8) (by have := lo.toNat_lt; omega)
            have e : hi.toNat * 256 + lo.toNat = 2 ^ 8 * hi.toNat + lo.toNat := by omega
            by_cases hip : i = it.pos
            · simp only [hip, if_true] at ht
              cases ht
              rw [e, key]
              have : ¬ (j + 8 < 8) := by omega
              simp [blockBit, hip, hhi, this]
            · simp only [hip, if_false] at ht
              by_cases hip1 : i = it.pos + 1
              · simp only [hip1, if_true] at ht
                cases ht
                rw [e, key]
                simp [blockBit, hip1, hlo, hj]
              · simp [hip1] at ht
      · simp [hl2] at ht
  · simp [hj] at ht

/-- the word determines, and is determined by, the bits `wordBitAt` maps to -/
theorem Item.wordBitAt_surj (it : Item) (hl : it.len = 1 ∨ it.len = 2) (t : Nat) (ht : t < 8 * it.len) :
    ∃ i j, it.wordBitAt i j = some t := by
  rcases hl with h | h
  · refine ⟨it.pos, t, ?_⟩
    have : t < 8 := by omega
    simp [Item.wordBitAt, h, this]
  · by_cases h8 : t < 8
    · refine ⟨it.pos + 1, t, ?_⟩
      simp [Item.wordBitAt, h, h8]
    · refine ⟨it.pos, t - 8, ?_⟩
      have h1 : t - 8 < 8 := by omega
      have h2 : t - 8 + 8 = t := by omega
      simp [Item.wordBitAt, h, h1, h2]

/-- **a write touches only the item's own field** -/
theorem Item.write_frame (it : Item) (hg : it.Geom) (b b' : Block) (hb : b.length = blockSize)
    (nv : Nat) (w : DevWrite)
    (hw : (match it.bitpos with
           | some p => ∃ e, it.word b = some e ∧ w = ⟨it.pos, it.len, mergeSync e nv it.mask p⟩
           | none => w = ⟨it.pos, it.len, nv⟩))
    (ha : applyWrite b w = some b') :
    ∀ i j, it.owns i j = false → blockBit b' i j = blockBit b i j := by
  intro i j hown
  have hin : it.pos + it.len ≤ b.length := by rw [hb]; exact hg.inBlock
  have hwp : w.pos = it.pos ∧ w.len = it.len := by
    cases hbp : it.bitpos <;> simp only [hbp] at hw
    · subst hw; exact ⟨rfl, rfl⟩
    · obtain ⟨e, _, rfl⟩ := hw; exact ⟨rfl, rfl⟩
  unfold applyWrite at ha
  split at ha
  · rename_i bytes hpk
    cases ha
    have hlen := packBE_length _ _ _ hpk
    rw [hwp.1]
    rw [hwp.2] at hlen hpk
    by_cases hi1 : i < it.pos
    · simp [blockBit, replaceSeg_getElem?_lt b it.pos bytes i hi1 (by omega)]
    · by_cases hi2 : it.pos + it.len ≤ i
      · simp [blockBit, replaceSeg_getElem?_ge b it.pos bytes i (by omega) (by omega)]
      · -- inside the item's bytes
        by_cases hj : j < 8
        · -- a word bit
          have hwb : ∃ t, it.wordBitAt i j = some t := by
            rcases hg.len12 with h | h
            · have : i = it.pos := by omega
              exact ⟨j, by simp [Item.wordBitAt, h, hj, this]⟩
            · by_cases hip : i = it.pos
              · exact ⟨j + 8, by simp [Item.wordBitAt, h, hj, hip]⟩
              · have : i = it.pos + 1 := by omega
                exact ⟨j, by simp [Item.wordBitAt, h, hj, this]⟩
          obtain ⟨t, ht⟩ := hwb
          obtain ⟨e, he⟩ := readBE_isSome b it.pos it.len hg.len12 hin
          have hnew : it.word (replaceSeg b it.pos bytes) = some w.value :=
            readBE_replaceSeg_pack b it.pos it.len w.value bytes hpk hin
          rw [it.blockBit_of_word _ _ hnew i j t ht, it.blockBit_of_word b e he i j t ht]
          unfold Item.owns at hown
          rw [ht] at hown
          cases hbp : it.bitpos with
          | none => simp [hbp] at hown
          | some p =>
            simp only [hbp] at hown hw
            obtain ⟨k, hmk0, hm, _, _⟩ := hg.bits p hbp
            obtain ⟨e', he', rfl⟩ := hw
            have : e' = e := by rw [Item.word] at he'; rw [he] at he'; cases he'; rfl
            subst this
            simp only
            rw [hm, testBit_mergeSync]
            simp only [hmk0, decide_eq_false_iff_not] at hown
            simp [hown]
        · have hj8 : 8 ≤ j := by omega
          simp only [blockBit]
          cases h1 : (replaceSeg b it.pos bytes)[i]? <;> cases h2 : b[i]? <;> simp [byte_testBit_ge, hj8]
  · cases ha

end GeckoModel

namespace GeckoModel
open GeckoModel.Generated GeckoModel.Bits

/-- **an item's reading depends only on the bits it owns** -/
theorem Item.rawRead_congr (it : Item) (hg : it.Geom) (b b' : Block)
    (hb : it.pos + it.len ≤ b.length) (hb' : it.pos + it.len ≤ b'.length)
    (h : ∀ i j, it.owns i j = true → blockBit b i j = blockBit b' i j) : it.rawRead b = it.rawRead b' := by
  obtain ⟨d, hd⟩ := readBE_isSome b it.pos it.len hg.len12 hb
  obtain ⟨d', hd'⟩ := readBE_isSome b' it.pos it.len hg.len12 hb'
  have hdl := readBE_lt _ _ _ _ hd
  have hdl' := readBE_lt _ _ _ _ hd'
  unfold Item.rawRead
  simp only [Item.word, hd, hd']
  cases hbp : it.bitpos with
  | none =>
    simp only
    congr 1
    apply Nat.eq_of_testBit_eq
    intro t
    by_cases ht : t < 8 * it.len
    · obtain ⟨i, j, hij⟩ := it.wordBitAt_surj hg.len12 t ht
      have hown : it.owns i j = true := by simp [Item.owns, hij, hbp]
      rw [← it.blockBit_of_word b d hd i j t hij, ← it.blockBit_of_word b' d' hd' i j t hij]
      exact h i j hown
    · have hle : 8 * it.len ≤ t := by omega
      rw [Nat.testBit_lt_two_pow (Nat.lt_of_lt_of_le hdl (Nat.pow_le_pow_right (by omega) hle)),
          Nat.testBit_lt_two_pow (Nat.lt_of_lt_of_le hdl' (Nat.pow_le_pow_right (by omega) hle))]
  | some p =>
    obtain ⟨k, hmw, hm, hk1, hk2⟩ := hg.bits p hbp
    simp only
    congr 1
    rw [hm]
    apply Nat.eq_of_testBit_eq
    intro j
    rw [testBit_rawExtract, testBit_rawExtract]
    by_cases hj : j < k
    · have ht : p + j < 8 * it.len := by omega
      obtain ⟨i, jj, hij⟩ := it.wordBitAt_surj hg.len12 (p + j) ht
      have hown : it.owns i jj = true := by
        simp [Item.owns, hij, hbp, hmw]; omega
      rw [← it.blockBit_of_word b d hd i jj (p + j) hij, ← it.blockBit_of_word b' d' hd' i jj (p + j) hij]
      simp [h i jj hown, hj]
    · simp [hj]

end GeckoModel
