/-
Lemmas about `replaceSeg`, `readBE`, `packBE`, `blockBit` (core Lean only).
-/
import GeckoModel.Model.Bytes

namespace GeckoModel

theorem replaceSeg_length (b : Block) (off : Nat) (seg : List Byte) (h : off + seg.length ≤ b.length) :
    (replaceSeg b off seg).length = b.length := by
  unfold replaceSeg
  simp only [List.length_append, List.length_take, List.length_drop]
  omega

/-- bytes before the segment are untouched -/
theorem replaceSeg_getElem?_lt (b : Block) (off : Nat) (seg : List Byte) (i : Nat) (hi : i < off) (h : off ≤ b.length) :
    (replaceSeg b off seg)[i]? = b[i]? := by
  unfold replaceSeg
  rw [List.append_assoc, List.getElem?_append_left (by simp [List.length_take]; omega)]
  simp [hi]

/-- bytes after the segment are untouched -/
theorem replaceSeg_getElem?_ge (b : Block) (off : Nat) (seg : List Byte) (i : Nat) (hi : off + seg.length ≤ i)
    (h : off ≤ b.length) :
    (replaceSeg b off seg)[i]? = b[i]? := by
  unfold replaceSeg
  have h1 : (List.take off b).length = off := by simp [List.length_take]; omega
  rw [List.append_assoc, List.getElem?_append_right (by omega), List.getElem?_append_right (by omega)]
  simp only [List.getElem?_drop, h1]
  congr 1
  omega

/-- bytes inside the segment are the segment's -/
theorem replaceSeg_getElem?_mid (b : Block) (off : Nat) (seg : List Byte) (i : Nat) (hi : i < seg.length)
    (h : off ≤ b.length) :
    (replaceSeg b off seg)[off + i]? = seg[i]? := by
  unfold replaceSeg
  have h1 : (List.take off b).length = off := by simp [List.length_take]; omega
  rw [List.append_assoc, List.getElem?_append_right (by omega), List.getElem?_append_left (by omega)]
  congr 1
  omega

theorem toNat_ofNat_of_lt (w : Nat) (h : w < 256) : (UInt8.ofNat w).toNat = w := by
  simp [Nat.mod_eq_of_lt h]

/-- a word read from a block is below `256^len` -/
theorem readBE_lt (b : Block) (pos len d : Nat) (h : readBE b pos len = some d) : d < 2 ^ (8 * len) := by
  unfold readBE at h
  split at h
  · rename_i hl; subst hl
    split at h
    · rename_i x _; cases h; have := x.toNat_lt; omega
    · cases h
  · split at h
    · rename_i hl; subst hl
      split at h
      · rename_i hi lo _ _; cases h
        have := hi.toNat_lt; have := lo.toNat_lt; omega
      · cases h
    · cases h

/-- reading back a packed word -/
theorem readBE_replaceSeg_pack (b : Block) (pos len w : Nat) (bytes : List Byte) (hp : packBE len w = some bytes)
    (hb : pos + len ≤ b.length) : readBE (replaceSeg b pos bytes) pos len = some w := by
  unfold packBE at hp
  split at hp
  · rename_i hl; subst hl
    split at hp
    · rename_i hw; cases hp
      have := replaceSeg_getElem?_mid b pos [UInt8.ofNat w] 0 (by simp) (by omega)
      simp only [Nat.add_zero] at this
      simp [readBE, this, toNat_ofNat_of_lt w hw]
    · cases hp
  · split at hp
    · rename_i hl; subst hl
      split at hp
      · rename_i hw; cases hp
        have h0 := replaceSeg_getElem?_mid b pos [UInt8.ofNat (w / 256), UInt8.ofNat (w % 256)] 0 (by simp) (by omega)
        have h1 := replaceSeg_getElem?_mid b pos [UInt8.ofNat (w / 256), UInt8.ofNat (w % 256)] 1 (by simp) (by omega)
        simp only [Nat.add_zero] at h0
        have e0 : (UInt8.ofNat (w / 256)).toNat = w / 256 := toNat_ofNat_of_lt _ (by omega)
        have e1 : (UInt8.ofNat (w % 256)).toNat = w % 256 := toNat_ofNat_of_lt _ (by omega)
        simp [readBE, h0, h1, e0, e1]
        omega
      · cases hp
    · cases hp

theorem packBE_length (len w : Nat) (bytes : List Byte) (hp : packBE len w = some bytes) : bytes.length = len := by
  unfold packBE at hp
  split at hp
  · split at hp
    · cases hp; simp_all
    · cases hp
  · split at hp
    · split at hp
      · cases hp; simp_all
      · cases hp
    · cases hp

theorem packBE_isSome (len w : Nat) (hl : len = 1 ∨ len = 2) (hw : w < 2 ^ (8 * len)) : ∃ bytes, packBE len w = some bytes := by
  rcases hl with rfl | rfl
  · have : w < 256 := by simpa using hw
    exact ⟨[UInt8.ofNat w], by simp [packBE, this]⟩
  · have : w < 65536 := by simpa using hw
    exact ⟨[UInt8.ofNat (w / 256), UInt8.ofNat (w % 256)], by simp [packBE, this]⟩

/-- a read elsewhere (disjoint byte range) is unchanged -/
theorem readBE_replaceSeg_disjoint (b : Block) (off : Nat) (seg : List Byte) (pos len : Nat)
    (hd : pos + len ≤ off ∨ off + seg.length ≤ pos) (ho : off ≤ b.length) :
    readBE (replaceSeg b off seg) pos len = readBE b pos len := by
  unfold readBE
  by_cases h1 : len = 1
  · subst h1
    have : (replaceSeg b off seg)[pos]? = b[pos]? := by
      rcases hd with hd | hd
      · exact replaceSeg_getElem?_lt _ _ _ _ (by omega) ho
      · exact replaceSeg_getElem?_ge _ _ _ _ (by omega) ho
    simp [this]
  · by_cases h2 : len = 2
    · subst h2
      have e0 : (replaceSeg b off seg)[pos]? = b[pos]? := by
        rcases hd with hd | hd
        · exact replaceSeg_getElem?_lt _ _ _ _ (by omega) ho
        · exact replaceSeg_getElem?_ge _ _ _ _ (by omega) ho
      have e1 : (replaceSeg b off seg)[pos + 1]? = b[pos + 1]? := by
        rcases hd with hd | hd
        · exact replaceSeg_getElem?_lt _ _ _ _ (by omega) ho
        · exact replaceSeg_getElem?_ge _ _ _ _ (by omega) ho
      simp [e0, e1]
    · simp [h1, h2]

end GeckoModel
