/- C19 helper lemmas: the backtracking matcher (`matchSeq`, `searchRe`) on lines built from fixed text and digit runs. -/
import GeckoModel.Model.Snapshot

set_option linter.unusedSimpArgs false

namespace GeckoModel.Snapshot

/-! ### literals -/

theorem stripPrefix_append (l y : Text) : stripPrefix l (l ++ y) = some y := by
  simp [stripPrefix]

/-- the two texts differ at a position both have -/
def mismatch : Text → Text → Bool
  | a :: l, b :: t => a != b || mismatch l t
  | _, _ => false

theorem mismatch_sound (l t : Text) (h : mismatch l t = true) (y : Text) : l.isPrefixOf (t ++ y) = false := by
  induction l generalizing t with
  | nil => simp [mismatch] at h
  | cons a l ih =>
    cases t with
    | nil => simp [mismatch] at h
    | cons b t =>
      simp only [mismatch, Bool.or_eq_true, bne_iff_ne, ne_eq] at h
      simp only [List.cons_append, List.isPrefixOf]
      by_cases hab : a = b
      · subst hab
        rcases h with h | h
        · exact absurd rfl h
        · simp [ih t h]
      · simp [hab]

/-- no start position inside `x` can begin an occurrence of `l`, whatever follows `x` -/
def noPartial (l : Text) : Text → Bool
  | [] => true
  | c :: x => mismatch l (c :: x) && noPartial l x

theorem search_skip (l : Text) (r : List Atom) (x y : Text) (h : noPartial l x = true) :
    searchRe (.lit l :: r) (x ++ y) = searchRe (.lit l :: r) y := by
  induction x with
  | nil => rfl
  | cons c x ih =>
    simp only [noPartial, Bool.and_eq_true] at h
    have := mismatch_sound l (c :: x) h.1 y
    simp only [List.cons_append] at this ⊢
    simp [searchRe, matchSeq, stripPrefix, this, ih h.2]

theorem noPartial_of_head (a : Char) (l x : Text) (h : x.all (· != a) = true) : noPartial (a :: l) x = true := by
  induction x with
  | nil => rfl
  | cons c x ih =>
    simp only [List.all_cons, Bool.and_eq_true, bne_iff_ne, ne_eq] at h
    simp only [noPartial, mismatch, Bool.and_eq_true, Bool.or_eq_true, bne_iff_ne, ne_eq]
    exact ⟨Or.inl (fun e => h.1 e.symm), ih h.2⟩

theorem search_nil_lit (a : Char) (l : Text) (r : List Atom) : searchRe (.lit (a :: l) :: r) [] = none := by
  simp [searchRe, matchSeq, stripPrefix, List.isPrefixOf]

/-- the literal occurs right here and the rest of the expression matches: this is the leftmost match -/
theorem search_hit (l : Text) (r : List Atom) (y : Text) (gs : List Text) (hl : l ≠ [])
    (h : matchSeq r y = some gs) : searchRe (.lit l :: r) (l ++ y) = some gs := by
  cases l with
  | nil => exact absurd rfl hl
  | cons a l =>
    have := stripPrefix_append (a :: l) y
    simp only [List.cons_append] at this ⊢
    simp [searchRe, matchSeq, this, h]

/-- the literal occurs right here but the rest does not match: the search goes on one character further -/
theorem search_miss (a : Char) (l : Text) (r : List Atom) (y : Text)
    (h : matchSeq r y = none) : searchRe (.lit (a :: l) :: r) (a :: l ++ y) = searchRe (.lit (a :: l) :: r) (l ++ y) := by
  have := stripPrefix_append (a :: l) y
  simp only [List.cons_append] at this ⊢
  simp [searchRe, matchSeq, this, h]

/-! ### greedy runs -/

theorem runLen_append (p : Char → Bool) (run y : Text) (hr : run.all p = true)
    (hy : y.head?.all (fun c => !p c) = true) : runLen p (run ++ y) = run.length := by
  induction run with
  | nil =>
    cases y with
    | nil => rfl
    | cons c y => simp at hy; simp [runLen, hy]
  | cons c run ih =>
    simp only [List.all_cons, Bool.and_eq_true] at hr
    simp [runLen, hr.1, ih hr.2]

theorem runLen_any (s : Text) : runLen anyChar s = s.length := by
  induction s with
  | nil => rfl
  | cons c s ih => simp [runLen, anyChar, ih]

theorem tryLens_hit (k : Text → Option (List Text)) (s : Text) (m j : Nat) (gs : List Text)
    (hm : m ≤ j) (h : k (s.drop j) = some gs) : tryLens k s m j = some (s.take j :: gs) := by
  cases j with
  | zero => simp at hm; subst hm; simp at h; simp [tryLens, h]
  | succ j => simp [tryLens, h]; omega

theorem tryLens_skip (k : Text → Option (List Text)) (s : Text) (m j0 j : Nat) (hj : j0 ≤ j)
    (h : ∀ j', j0 < j' → j' ≤ j → k (s.drop j') = none) : tryLens k s m j = tryLens k s m j0 := by
  induction j with
  | zero => have : j0 = 0 := by omega
            subst this; rfl
  | succ j ih =>
    by_cases e : j0 = j + 1
    · subst e; rfl
    · have h1 := h (j + 1) (by omega) (by omega)
      have := ih (by omega) (fun j' a b => h j' a (by omega))
      rw [← this]
      simp only [tryLens, h1]
      split
      · rename_i hlt
        -- all shorter lengths are below `min` as well
        clear this ih h h1
        induction j with
        | zero => simp [tryLens]; omega
        | succ j ih2 => simp only [tryLens]; rw [if_pos (by omega)]
      · rfl

theorem tryLens_none_below (k : Text → Option (List Text)) (s : Text) (m j : Nat) (h : j < m) : tryLens k s m j = none := by
  cases j with
  | zero => simp [tryLens]; omega
  | succ j => simp [tryLens, h]

/-- a captured run followed by something that is not of the class, the rest matching at once: no backtracking -/
theorem cap_run (p : Char → Bool) (m : Nat) (r : List Atom) (run y : Text) (gs : List Text)
    (hr : run.all p = true) (hy : y.head?.all (fun c => !p c) = true) (hm : m ≤ run.length)
    (h : matchSeq r y = some gs) : matchSeq (.cap p m :: r) (run ++ y) = some (run :: gs) := by
  simp only [matchSeq, runLen_append p run y hr hy]
  rw [tryLens_hit _ _ _ _ gs hm (by simpa using h)]
  simp

theorem cap_run_fail (p : Char → Bool) (m : Nat) (r : List Atom) (run y : Text)
    (hr : run.all p = true) (hy : y.head?.all (fun c => !p c) = true) (hm : run.length < m) :
    matchSeq (.cap p m :: r) (run ++ y) = none := by
  simp only [matchSeq, runLen_append p run y hr hy]
  exact tryLens_none_below _ _ _ _ hm

/-! ### decimal numbers -/

theorem digitChar_isDigit (n : Nat) : isDigit (digitChar n) = true := by
  have h : n % 10 < 10 := Nat.mod_lt _ (by decide)
  have : ∀ k, k < 10 → isDigit (Char.ofNat (48 + k)) = true := by decide
  exact this _ h

theorem natToDecF_digits (f n : Nat) : (natToDecF f n).all isDigit = true := by
  induction f generalizing n with
  | zero => simp [natToDecF, digitChar_isDigit]
  | succ f ih =>
    simp only [natToDecF]
    split
    · simp [digitChar_isDigit]
    · simp [ih, digitChar_isDigit]

theorem natToDec_digits (n : Nat) : (natToDec n).all isDigit = true := natToDecF_digits n n

theorem natToDecF_ne (f n : Nat) : 1 ≤ (natToDecF f n).length := by
  cases f with
  | zero => simp [natToDecF]
  | succ f => simp only [natToDecF]; split <;> simp

theorem natToDec_len (n : Nat) : 1 ≤ (natToDec n).length := natToDecF_ne n n

theorem decVal_snoc (cs : Text) (c : Char) : decVal (cs ++ [c]) = decVal cs * 10 + (c.toNat - 48) := by
  simp [decVal, List.foldl_append]

theorem digitChar_val (n : Nat) : (digitChar n).toNat - 48 = n % 10 := by
  have h : n % 10 < 10 := Nat.mod_lt _ (by decide)
  have : ∀ k, k < 10 → (Char.ofNat (48 + k)).toNat - 48 = k := by decide
  exact this _ h

theorem decVal_natToDecF (f n : Nat) (h : n ≤ f) : decVal (natToDecF f n) = n := by
  induction f generalizing n with
  | zero =>
    have : n = 0 := by omega
    subst this; decide
  | succ f ih =>
    simp only [natToDecF]
    split
    · rename_i hlt
      simp [decVal, digitChar_val]; omega
    · rw [decVal_snoc, ih (n / 10) (by omega), digitChar_val]; omega

/-- `int(str(n)) = n` -/
theorem decToNat_natToDec (n : Nat) : decToNat (natToDec n) = some n := by
  unfold decToNat
  have h1 := natToDec_digits n
  have h2 := natToDec_len n
  have h3 : (natToDec n).isEmpty = false := by
    cases h : natToDec n with
    | nil => rw [h] at h2; simp at h2
    | cons _ _ => rfl
  rw [h3, h1]
  simp only [Bool.not_true, Bool.or_self, Bool.false_eq_true, if_false]
  rw [natToDec, decVal_natToDecF n n (Nat.le_refl n)]

/-- characters of a number are none of a given non-digit -/
theorem natToDec_ne (n : Nat) (a : Char) (ha : isDigit a = false) : (natToDec n).all (· != a) = true := by
  have h := natToDec_digits n
  rw [List.all_eq_true] at h ⊢
  intro c hc
  have := h c hc
  simp only [bne_iff_ne, ne_eq]
  intro e; subst e; rw [this] at ha; cases ha

end GeckoModel.Snapshot
