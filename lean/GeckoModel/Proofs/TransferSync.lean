/-
The threaded assembler (GeckoStructure + the request handler's timeout/retry) under genuine faults.
-/
import GeckoModel.Proofs.TransferLemmas

namespace GeckoModel
open GeckoModel.Generated

/-- invariant of the threaded assembly state: what has been collected is a prefix of the genuine chain; the client's
block is either untouched or has exactly the whole chain installed; sends + remaining retries is constant -/
structure SyncInv (blk cli : Block) (start len budget : Nat) (a : SyncAsm) : Prop where
  pref : a.live = true → ∃ k, k ≤ segCount len ∧ a.nextExp = k ∧ a.segs = chainPrefix blk start len k
  untouched : a.installed = false → a.cli = cli
  inst : a.installed = true → a.cli = replaceSeg cli start ((simChain blk start len).map (·.data)).flatten ∧ a.live = false
  budget : a.sends + a.retries = 1 + budget

theorem SyncInv.start (blk cli : Block) (start len budget : Nat) :
    SyncInv blk cli start len budget (SyncAsm.start cli budget) :=
  ⟨fun _ => ⟨0, Nat.zero_le _, rfl, by simp [SyncAsm.start, chainPrefix]⟩, fun _ => rfl, fun h => by simp [SyncAsm.start] at h,
   by simp [SyncAsm.start]⟩

theorem SyncInv.step (blk cli : Block) (start len budget : Nat) (a : SyncAsm) (h : SyncInv blk cli start len budget a)
    (e : Ev) (hg : ∀ s, e = Ev.seg s → s ∈ simChain blk start len) :
    SyncInv blk cli start len budget (a.step start e) := by
  cases e with
  | timeout =>
    unfold SyncAsm.step
    by_cases hl : a.live = true
    · simp only [hl, Bool.not_true, Bool.false_eq_true, if_false]
      by_cases hr : a.retries = 0
      · simp only [hr, if_true]
        exact ⟨fun h' => by simp at h', h.untouched, fun hi => ⟨(h.inst hi).1, rfl⟩, by have := h.budget; simp only; omega⟩
      · simp only [hr, if_false]
        exact ⟨fun _ => h.pref hl, h.untouched, fun hi => by have := (h.inst hi).2; simp [hl] at this, by have := h.budget; simp only; omega⟩
    · have hl' : a.live = false := by simpa using hl
      simp only [hl', Bool.not_false, if_true]
      exact h
  | seg s =>
    obtain ⟨i, hi, rfl⟩ := (mem_simChain blk start len s).1 (hg s rfl)
    unfold SyncAsm.step
    by_cases hl : a.live = true
    · simp only [hl, Bool.not_true, Bool.false_eq_true, if_false, simSeg_idx, simSeg_next]
      obtain ⟨k, hk, hne, hsegs⟩ := h.pref hl
      have hni : a.installed = false := by
        cases hi' : a.installed with
        | false => rfl
        | true => have := (h.inst hi').2; simp [hl] at this
      by_cases hki : a.nextExp = i
      · simp only [hki, if_true]
        have hk' : k = i := by omega
        subst hk'
        rcases next_zero_or_succ len k hi with hz | hs
        · simp only [hz, if_true]
          have hlast := (next_zero_iff len k hi).1 hz
          refine ⟨fun h' => by simp at h', fun h' => by simp at h', fun _ => ⟨?_, rfl⟩, h.budget⟩
          simp only
          rw [h.untouched hni, hsegs, ← chainPrefix_succ blk start len k hi, chainPrefix_all blk start len (k + 1) (by omega)]
        · have hne' : ¬ ((k + 1) % segCount len = 0) := by omega
          simp only [hne', if_false]
          refine ⟨fun _ => ⟨k + 1, by omega, hs, ?_⟩, h.untouched, fun hi' => by simp [hni] at hi', h.budget⟩
          simp only
          rw [hsegs, ← chainPrefix_succ blk start len k hi]
      · simp only [hki, if_false]
        by_cases hz : (i + 1) % segCount len = 0
        · simp only [hz, if_true]
          by_cases hr : a.retries = 0
          · simp only [hr, if_true]
            exact ⟨fun _ => ⟨0, Nat.zero_le _, rfl, by simp [chainPrefix]⟩, h.untouched, fun hi' => by simp [hni] at hi', by have := h.budget; simp only; omega⟩
          · simp only [hr, if_false]
            exact ⟨fun _ => ⟨0, Nat.zero_le _, rfl, by simp [chainPrefix]⟩, h.untouched, fun hi' => by simp [hni] at hi',
                   by have := h.budget; simp only; omega⟩
        · simp only [hz, if_false]
          exact h
    · have hl' : a.live = false := by simpa using hl
      simp only [hl', Bool.not_false, if_true]
      exact h

theorem SyncInv.run (blk cli : Block) (start len budget : Nat) (evs : List Ev)
    (hg : ∀ s, Ev.seg s ∈ evs → s ∈ simChain blk start len) :
    ∀ a, SyncInv blk cli start len budget a → SyncInv blk cli start len budget (a.run start evs) := by
  induction evs with
  | nil => intro a h; exact h
  | cons e rest ih =>
    intro a h
    have h1 := SyncInv.step blk cli start len budget a h e (fun s hs => hg s (by simp [hs]))
    exact ih (fun s hs => hg s (by simp [hs])) _ h1

end GeckoModel
