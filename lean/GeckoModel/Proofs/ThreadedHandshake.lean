/-
The handshake of the threaded client at event level (C20): simple request stages and the block stage (C01's threaded assembler).
-/
import GeckoModel.Proofs.ThreadedRetry
import GeckoModel.Properties.C01

namespace GeckoModel.Threaded
open GeckoModel GeckoModel.Generated

/-! ### the threaded assembler: facts beyond C01's invariant -/

theorem SyncAsm.run_append (a : SyncAsm) (start : Nat) (l1 l2 : List Ev) :
    a.run start (l1 ++ l2) = (a.run start l1).run start l2 := by
  simp [SyncAsm.run, List.foldl_append]

theorem SyncAsm.step_dead (a : SyncAsm) (start : Nat) (e : Ev) (h : a.live = false) : a.step start e = a := by
  cases e <;> simp [SyncAsm.step, h]

theorem SyncAsm.run_dead (a : SyncAsm) (start : Nat) : ∀ (evs : List Ev), a.live = false → a.run start evs = a
  | [], _ => rfl
  | e :: rest, h => by
    simp only [SyncAsm.run, List.foldl_cons]
    rw [SyncAsm.step_dead a start e h]
    exact SyncAsm.run_dead a start rest h

/-- installed ⇒ the request handler is gone -/
def Tidy (a : SyncAsm) : Prop := a.installed = true → a.live = false

theorem Tidy.step (a : SyncAsm) (start : Nat) (e : Ev) (h : Tidy a) : Tidy (a.step start e) := by
  by_cases hl : a.live = true
  · have hni : a.installed = false := by
      cases hi : a.installed with
      | false => rfl
      | true => have := h hi; simp [hl] at this
    cases e with
    | timeout =>
      unfold SyncAsm.step Tidy
      simp only [hl, Bool.not_true, Bool.false_eq_true, if_false]
      split <;> simp [hni]
    | seg s =>
      unfold SyncAsm.step Tidy
      simp only [hl, Bool.not_true, Bool.false_eq_true, if_false]
      split
      · split <;> simp [hni]
      · split
        · split <;> simp [hni]
        · simp [hni]
  · have hl' : a.live = false := by simpa using hl
    rw [SyncAsm.step_dead a start e hl']; exact h

/-- while the handler lives, the next expected index is inside the chain (so a clean chain can still complete it) -/
theorem nextExp_lt (blk : Block) (start len : Nat) (hlen : 0 < segCount len) (a : SyncAsm)
    (hn : a.live = true → a.nextExp < segCount len) (e : Ev) (hg : ∀ s, e = Ev.seg s → s ∈ simChain blk start len) :
    (a.step start e).live = true → (a.step start e).nextExp < segCount len := by
  cases e with
  | timeout =>
    unfold SyncAsm.step
    by_cases hl : a.live = true
    · simp only [hl, Bool.not_true, Bool.false_eq_true, if_false]
      split
      · simp
      · intro _; exact hn hl
    · have hl' : a.live = false := by simpa using hl
      simp [hl']
  | seg s =>
    obtain ⟨i, hi, rfl⟩ := (mem_simChain blk start len s).1 (hg s rfl)
    unfold SyncAsm.step
    by_cases hl : a.live = true
    · simp only [hl, Bool.not_true, Bool.false_eq_true, if_false, simSeg_idx, simSeg_next]
      by_cases hki : a.nextExp = i
      · simp only [hki, if_true]
        rcases next_zero_or_succ len i hi with hz | hs
        · simp [hz]
        · have hne : ¬ ((i + 1) % segCount len = 0) := by omega
          simp only [hne, if_false]
          intro _
          have : (i + 1) % segCount len < segCount len := Nat.mod_lt _ hlen
          exact this
      · simp only [hki, if_false]
        split
        · split <;> (intro _; exact hlen)
        · intro _; exact hn hl
    · have hl' : a.live = false := by simpa using hl
      simp [hl']

theorem nextExp_lt_run (blk : Block) (start len : Nat) (hlen : 0 < segCount len) : ∀ (evs : List Ev) (a : SyncAsm),
    (a.live = true → a.nextExp < segCount len) → (∀ s, Ev.seg s ∈ evs → s ∈ simChain blk start len) →
    (a.run start evs).live = true → (a.run start evs).nextExp < segCount len
  | [], _, hn, _ => hn
  | e :: rest, a, hn, hg => by
    simp only [SyncAsm.run, List.foldl_cons]
    exact nextExp_lt_run blk start len hlen rest (a.step start e)
      (nextExp_lt blk start len hlen a hn e (fun s hs => hg s (by simp [hs]))) (fun s hs => hg s (by simp [hs]))

theorem Tidy.run (start : Nat) : ∀ (evs : List Ev) (a : SyncAsm), Tidy a → Tidy (a.run start evs)
  | [], _, h => h
  | e :: rest, a, h => by
    simp only [SyncAsm.run, List.foldl_cons]
    exact Tidy.run start rest _ (Tidy.step a start e h)

/-- segments before the expected one are ignored (none of them is the final one) -/
theorem skip_prefix (blk : Block) (start len : Nat) (a : SyncAsm) (hl : a.live = true) (hk : a.nextExp < segCount len) :
    ∀ j, j ≤ a.nextExp → a.run start (((simChain blk start len).take j).map Ev.seg) = a := by
  intro j
  induction j with
  | zero => intro _; simp [SyncAsm.run]
  | succ j ih =>
    intro hj
    have hjn : j < segCount len := by omega
    rw [List.take_add_one, simChain_getElem? blk start len j hjn]
    simp only [Option.toList_some, List.map_append, List.map_cons, List.map_nil]
    rw [SyncAsm.run_append, ih (by omega)]
    simp only [SyncAsm.run, List.foldl_cons, List.foldl_nil]
    unfold SyncAsm.step
    have hne : ¬ a.nextExp = j := by omega
    have hnz : ¬ ((j + 1) % segCount len = 0) := by
      rw [Nat.mod_eq_of_lt (by omega)]; omega
    simp [hl, simSeg_idx, simSeg_next, hne, hnz]

/-- **a clean chain completes the transfer from any surviving state**: whatever genuine events came before (the assembly state is
NOT reset by a timeout), if the request handler is still registered (or the block is already installed) then the chain delivered
once in order installs the spa's bytes -/
theorem block_completes (spa cli : Block) (start len budget : Nat) (hlen : 0 < len) (pre : List Ev)
    (hg : ∀ s, Ev.seg s ∈ pre → s ∈ simChain spa start len)
    (hsurv : ((SyncAsm.start cli budget).run start pre).live = true ∨ ((SyncAsm.start cli budget).run start pre).installed = true) :
    ((SyncAsm.start cli budget).run start (pre ++ (simChain spa start len).map Ev.seg)).installed = true ∧
    ((SyncAsm.start cli budget).run start (pre ++ (simChain spa start len).map Ev.seg)).cli = replaceSeg cli start (C01.spaRun spa start len) ∧
    ((SyncAsm.start cli budget).run start (pre ++ (simChain spa start len).map Ev.seg)).sends ≤ 1 + budget := by
  have hc : 0 < segCount len := by rw [segCount_def]; omega
  have hgall : ∀ s, Ev.seg s ∈ pre ++ (simChain spa start len).map Ev.seg → s ∈ simChain spa start len := by
    intro s hs
    rcases List.mem_append.1 hs with h | h
    · exact hg s h
    · simpa using h
  have hfin := C01.sync_install_or_nothing spa cli start len budget _ hgall
  have hinst : ((SyncAsm.start cli budget).run start (pre ++ (simChain spa start len).map Ev.seg)).installed = true := by
    rw [SyncAsm.run_append]
    have htidy : Tidy ((SyncAsm.start cli budget).run start pre) := Tidy.run start pre _ (by intro h; simp [SyncAsm.start] at h)
    by_cases hl : ((SyncAsm.start cli budget).run start pre).live = true
    · have hni : ((SyncAsm.start cli budget).run start pre).installed = false := by
        cases hi : ((SyncAsm.start cli budget).run start pre).installed with
        | false => rfl
        | true => have := htidy hi; simp [hl] at this
      have hk := nextExp_lt_run spa start len hc pre (SyncAsm.start cli budget) (by intro _; simpa [SyncAsm.start] using hc) hg hl
      have hsplit : (simChain spa start len).map Ev.seg =
          ((simChain spa start len).take ((SyncAsm.start cli budget).run start pre).nextExp).map Ev.seg ++
          ((simChain spa start len).drop ((SyncAsm.start cli budget).run start pre).nextExp).map Ev.seg := by
        rw [← List.map_append, List.take_append_drop]
      rw [hsplit, SyncAsm.run_append, skip_prefix spa start len _ hl hk _ (Nat.le_refl _)]
      exact (C01.sync_inorder spa cli start len (segCount len - ((SyncAsm.start cli budget).run start pre).nextExp)
        ((SyncAsm.start cli budget).run start pre).nextExp _ (by omega) (by omega) hl rfl hni).1
    · have hl' : ((SyncAsm.start cli budget).run start pre).live = false := by simpa using hl
      rw [SyncAsm.run_dead _ start _ hl']
      rcases hsurv with h | h
      · exact absurd h hl
      · exact h
  exact ⟨hinst, hfin.1 hinst, hfin.2.2⟩

/-- events that can consume a retry: a timeout, or a final segment (if it arrives out of sequence the assembler retries at once) -/
def evCost : Ev → Nat
  | .timeout => 1
  | .seg s => if s.next = 0 then 1 else 0

def evsCost (evs : List Ev) : Nat := (evs.map evCost).sum

/-- **within the retry budget the request handler survives** (or has already installed the block): any events, any order -/
theorem survives_within_budget (start : Nat) : ∀ (evs : List Ev) (a : SyncAsm),
    (a.live = true ∨ a.installed = true) → (a.live = true → evsCost evs ≤ a.retries) →
    (a.run start evs).live = true ∨ (a.run start evs).installed = true
  | [], _, h, _ => h
  | e :: rest, a, h, hc => by
    simp only [SyncAsm.run, List.foldl_cons]
    apply survives_within_budget start rest
    · by_cases hl : a.live = true
      · have hc' := hc hl
        simp only [evsCost, List.map_cons, List.sum_cons] at hc'
        cases e with
        | timeout =>
          have : a.retries ≠ 0 := by simp only [evCost] at hc'; omega
          left; simp [SyncAsm.step, hl, this]
        | seg s =>
          unfold SyncAsm.step
          simp only [hl, Bool.not_true, Bool.false_eq_true, if_false]
          split
          · split
            · right; rfl
            · left; simp
          · split
            · rename_i hz
              have : a.retries ≠ 0 := by simp only [evCost, hz, if_true] at hc'; omega
              simp only [this, if_false]; left; simp
            · left; exact hl
      · have hl' : a.live = false := by simpa using hl
        rw [SyncAsm.step_dead a start e hl']; exact h
    · intro hl2
      by_cases hl : a.live = true
      · have hc' := hc hl
        simp only [evsCost, List.map_cons, List.sum_cons] at hc'
        cases e with
        | timeout =>
          simp only [evCost] at hc'
          have : a.retries ≠ 0 := by omega
          simp only [SyncAsm.step, hl, Bool.not_true, Bool.false_eq_true, if_false, this]
          unfold evsCost; omega
        | seg s =>
          unfold SyncAsm.step at hl2 ⊢
          simp only [hl, Bool.not_true, Bool.false_eq_true, if_false] at hl2 ⊢
          split
          · split
            · rename_i h1 h2; simp [h1, h2] at hl2
            · unfold evsCost; simp only; omega
          · split
            · rename_i hz
              simp only [evCost, hz, if_true] at hc'
              have : a.retries ≠ 0 := by omega
              simp only [this, if_false]
              unfold evsCost; omega
            · unfold evsCost; omega
      · have hl' : a.live = false := by simpa using hl
        rw [SyncAsm.step_dead a start e hl'] at hl2; exact absurd hl2 hl

/-! ### the handshake -/

def liftEv : Ev → HEv
  | .seg s => .seg s
  | .timeout => .timeout

theorem HS.run_append (h : HS) (cli : Block) (budget start : Nat) (l1 l2 : List HEv) :
    h.run cli budget start (l1 ++ l2) = (h.run cli budget start l1).run cli budget start l2 := by
  simp [HS.run, List.foldl_append]

theorem HS.run_cons (h : HS) (cli : Block) (budget start : Nat) (e : HEv) (l : List HEv) :
    h.run cli budget start (e :: l) = (h.step cli budget start e).run cli budget start l := rfl

/-- version stage: anything but SVERS, with no more timeouts than retries left, leaves the request handler registered -/
theorem stage_version (cli : Block) (budget start : Nat) : ∀ (pre : List HEv) (h : HS), h.stage = .version →
    HEv.svers ∉ pre → pre.count .timeout ≤ h.retries →
    h.run cli budget start pre = { h with retries := h.retries - pre.count .timeout, sendsV := h.sendsV + pre.count .timeout }
  | [], h, _, _, _ => by simp [HS.run]
  | e :: rest, h, hs, hn, hc => by
    rw [HS.run_cons]
    have hn' : HEv.svers ∉ rest := fun x => hn (by simp [x])
    cases e with
    | svers => simp at hn
    | timeout =>
      have hc' : rest.count .timeout + 1 ≤ h.retries := by simpa [List.count_cons] using hc
      have hr : h.retries ≠ 0 := by omega
      have hstep : h.step cli budget start .timeout = { h with retries := h.retries - 1, sendsV := h.sendsV + 1 } := by
        unfold HS.step; simp [hs, hr]
      have ih := stage_version cli budget start rest { h with retries := h.retries - 1, sendsV := h.sendsV + 1 } hs hn' (by simp only; omega)
      rw [hstep, ih]
      have e1 : h.retries - 1 - rest.count .timeout = h.retries - (rest.count .timeout + 1) := by omega
      have e2 : h.sendsV + 1 + rest.count .timeout = h.sendsV + (rest.count .timeout + 1) := by omega
      simp [e1, e2]
    | chcur =>
      have hstep : h.step cli budget start .chcur = h := by unfold HS.step; simp [hs]
      rw [hstep, stage_version cli budget start rest h hs hn' (by simpa [List.count_cons] using hc)]
      simp
    | files =>
      have hstep : h.step cli budget start .files = h := by unfold HS.step; simp [hs]
      rw [hstep, stage_version cli budget start rest h hs hn' (by simpa [List.count_cons] using hc)]
      simp
    | seg s =>
      have hstep : h.step cli budget start (.seg s) = h := by unfold HS.step; simp [hs]
      rw [hstep, stage_version cli budget start rest h hs hn' (by simpa [List.count_cons] using hc)]
      simp

theorem stage_channel (cli : Block) (budget start : Nat) : ∀ (pre : List HEv) (h : HS), h.stage = .channel →
    HEv.chcur ∉ pre → pre.count .timeout ≤ h.retries →
    h.run cli budget start pre = { h with retries := h.retries - pre.count .timeout, sendsC := h.sendsC + pre.count .timeout }
  | [], h, _, _, _ => by simp [HS.run]
  | e :: rest, h, hs, hn, hc => by
    rw [HS.run_cons]
    have hn' : HEv.chcur ∉ rest := fun x => hn (by simp [x])
    cases e with
    | chcur => simp at hn
    | timeout =>
      have hc' : rest.count .timeout + 1 ≤ h.retries := by simpa [List.count_cons] using hc
      have hr : h.retries ≠ 0 := by omega
      have hstep : h.step cli budget start .timeout = { h with retries := h.retries - 1, sendsC := h.sendsC + 1 } := by
        unfold HS.step; simp [hs, hr]
      have ih := stage_channel cli budget start rest { h with retries := h.retries - 1, sendsC := h.sendsC + 1 } hs hn' (by simp only; omega)
      rw [hstep, ih]
      have e1 : h.retries - 1 - rest.count .timeout = h.retries - (rest.count .timeout + 1) := by omega
      have e2 : h.sendsC + 1 + rest.count .timeout = h.sendsC + (rest.count .timeout + 1) := by omega
      simp [e1, e2]
    | svers =>
      have hstep : h.step cli budget start .svers = h := by unfold HS.step; simp [hs]
      rw [hstep, stage_channel cli budget start rest h hs hn' (by simpa [List.count_cons] using hc)]
      simp
    | files =>
      have hstep : h.step cli budget start .files = h := by unfold HS.step; simp [hs]
      rw [hstep, stage_channel cli budget start rest h hs hn' (by simpa [List.count_cons] using hc)]
      simp
    | seg s =>
      have hstep : h.step cli budget start (.seg s) = h := by unfold HS.step; simp [hs]
      rw [hstep, stage_channel cli budget start rest h hs hn' (by simpa [List.count_cons] using hc)]
      simp

theorem stage_config (cli : Block) (budget start : Nat) : ∀ (pre : List HEv) (h : HS), h.stage = .config →
    HEv.files ∉ pre → pre.count .timeout ≤ h.retries →
    h.run cli budget start pre = { h with retries := h.retries - pre.count .timeout, sendsF := h.sendsF + pre.count .timeout }
  | [], h, _, _, _ => by simp [HS.run]
  | e :: rest, h, hs, hn, hc => by
    rw [HS.run_cons]
    have hn' : HEv.files ∉ rest := fun x => hn (by simp [x])
    cases e with
    | files => simp at hn
    | timeout =>
      have hc' : rest.count .timeout + 1 ≤ h.retries := by simpa [List.count_cons] using hc
      have hr : h.retries ≠ 0 := by omega
      have hstep : h.step cli budget start .timeout = { h with retries := h.retries - 1, sendsF := h.sendsF + 1 } := by
        unfold HS.step; simp [hs, hr]
      have ih := stage_config cli budget start rest { h with retries := h.retries - 1, sendsF := h.sendsF + 1 } hs hn' (by simp only; omega)
      rw [hstep, ih]
      have e1 : h.retries - 1 - rest.count .timeout = h.retries - (rest.count .timeout + 1) := by omega
      have e2 : h.sendsF + 1 + rest.count .timeout = h.sendsF + (rest.count .timeout + 1) := by omega
      simp [e1, e2]
    | svers =>
      have hstep : h.step cli budget start .svers = h := by unfold HS.step; simp [hs]
      rw [hstep, stage_config cli budget start rest h hs hn' (by simpa [List.count_cons] using hc)]
      simp
    | chcur =>
      have hstep : h.step cli budget start .chcur = h := by unfold HS.step; simp [hs]
      rw [hstep, stage_config cli budget start rest h hs hn' (by simpa [List.count_cons] using hc)]
      simp
    | seg s =>
      have hstep : h.step cli budget start (.seg s) = h := by unfold HS.step; simp [hs]
      rw [hstep, stage_config cli budget start rest h hs hn' (by simpa [List.count_cons] using hc)]
      simp

theorem pass_version (cli : Block) (budget start : Nat) (pre : List HEv) (h : HS) (hs : h.stage = .version)
    (hn : HEv.svers ∉ pre) (hc : pre.count .timeout ≤ h.retries) :
    h.run cli budget start (pre ++ [.svers]) =
      { stage := .channel, retries := budget, sendsV := h.sendsV + pre.count .timeout, sendsC := 1, sendsF := h.sendsF, asm := h.asm } := by
  rw [HS.run_append, stage_version cli budget start pre h hs hn hc, HS.run_cons]
  unfold HS.step
  simp [hs, HS.run]

theorem pass_channel (cli : Block) (budget start : Nat) (pre : List HEv) (h : HS) (hs : h.stage = .channel)
    (hn : HEv.chcur ∉ pre) (hc : pre.count .timeout ≤ h.retries) :
    h.run cli budget start (pre ++ [.chcur]) =
      { stage := .config, retries := budget, sendsV := h.sendsV, sendsC := h.sendsC + pre.count .timeout, sendsF := 1, asm := h.asm } := by
  rw [HS.run_append, stage_channel cli budget start pre h hs hn hc, HS.run_cons]
  unfold HS.step
  simp [hs, HS.run]

theorem pass_config (cli : Block) (budget start : Nat) (pre : List HEv) (h : HS) (hs : h.stage = .config)
    (hn : HEv.files ∉ pre) (hc : pre.count .timeout ≤ h.retries) :
    h.run cli budget start (pre ++ [.files]) =
      { stage := .block, retries := h.retries - pre.count .timeout, sendsV := h.sendsV, sendsC := h.sendsC,
        sendsF := h.sendsF + pre.count .timeout, asm := SyncAsm.start cli budget } := by
  rw [HS.run_append, stage_config cli budget start pre h hs hn hc, HS.run_cons]
  unfold HS.step
  simp [hs, HS.run]

/-- what the stage field must be for an assembler state -/
def stageOf (a : SyncAsm) : Stage := if a.installed then .connected else if !a.live then .stalled else .block

/-- block stage: the handshake's assembler IS C01's `SyncAsm.run` on the same events; the stage follows it -/
theorem stage_block (cli : Block) (budget start : Nat) : ∀ (evs : List Ev) (h : HS), h.stage = stageOf h.asm → Tidy h.asm →
    (h.stage = .block ∨ h.stage = .connected ∨ h.stage = .stalled) →
    (h.run cli budget start (evs.map liftEv)).asm = h.asm.run start evs ∧
    (h.run cli budget start (evs.map liftEv)).stage = stageOf (h.asm.run start evs) ∧
    (h.run cli budget start (evs.map liftEv)).sendsV = h.sendsV ∧ (h.run cli budget start (evs.map liftEv)).sendsC = h.sendsC ∧
    (h.run cli budget start (evs.map liftEv)).sendsF = h.sendsF
  | [], h, hs, _, _ => ⟨rfl, hs, rfl, rfl, rfl⟩
  | e :: rest, h, hs, ht, hst => by
    simp only [List.map_cons, HS.run_cons, SyncAsm.run, List.foldl_cons]
    have key : (h.step cli budget start (liftEv e)).asm = h.asm.step start e ∧
        (h.step cli budget start (liftEv e)).stage = stageOf (h.asm.step start e) ∧
        (h.step cli budget start (liftEv e)).sendsV = h.sendsV ∧ (h.step cli budget start (liftEv e)).sendsC = h.sendsC ∧
        (h.step cli budget start (liftEv e)).sendsF = h.sendsF := by
      rcases hst with hb | hb | hb
      · cases e with
        | timeout =>
          unfold HS.step; simp only [hb, liftEv, stageOf]
          split
          · rename_i hi; simp
          · rename_i hi
            split
            · rename_i hl; simp
            · rename_i hl; simp
        | seg s =>
          unfold HS.step; simp only [hb, liftEv, stageOf]
          split
          · rename_i hi; simp
          · rename_i hi
            split
            · rename_i hl; simp
            · rename_i hl; simp
      · -- connected: installed, handler gone, every later event is a no-op on both sides
        have hi : h.asm.installed = true := by
          cases hi : h.asm.installed with
          | true => rfl
          | false =>
            unfold stageOf at hs; rw [hb, hi] at hs
            by_cases hl : h.asm.live = true <;> simp [hl] at hs
        have hl := ht hi
        rw [SyncAsm.step_dead _ start e hl]
        have : h.step cli budget start (liftEv e) = h := by unfold HS.step; simp [hb]
        rw [this]; exact ⟨rfl, hs, rfl, rfl, rfl⟩
      · have hl : h.asm.live = false := by
          unfold stageOf at hs; rw [hb] at hs
          by_cases hi : h.asm.installed = true
          · simp [hi] at hs
          · simp only [hi] at hs
            by_cases hl : h.asm.live = true
            · simp [hl] at hs
            · simpa using hl
        rw [SyncAsm.step_dead _ start e hl]
        have : h.step cli budget start (liftEv e) = h := by unfold HS.step; simp [hb]
        rw [this]; exact ⟨rfl, hs, rfl, rfl, rfl⟩
    obtain ⟨k1, k2, k3, k4, k5⟩ := key
    have ih := stage_block cli budget start rest (h.step cli budget start (liftEv e)) (by rw [k2, k1])
      (by rw [k1]; exact Tidy.step _ start e ht)
      (by rw [k2]; unfold stageOf; split
          · right; left; rfl
          · split
            · right; right; rfl
            · left; rfl)
    rw [k1] at ih
    exact ⟨ih.1, ih.2.1, by rw [ih.2.2.1, k3], by rw [ih.2.2.2.1, k4], by rw [ih.2.2.2.2, k5]⟩

end GeckoModel.Threaded
