/-
Invariant of the request engine model (C06) and its preservation by every action.
-/
import GeckoModel.Model.Request

namespace GeckoModel.Request

@[simp] theorem set_self (s : RSys) (c : Caller) : (s.set c).callers c.id = some c := by simp [RSys.set]
theorem set_ne (s : RSys) (c : Caller) (i : Nat) (h : i ≠ c.id) : (s.set c).callers i = s.callers i := by simp [RSys.set, h]
@[simp] theorem set_holder (s : RSys) (c : Caller) : (s.set c).holder = s.holder := rfl
@[simp] theorem set_waitq (s : RSys) (c : Caller) : (s.set c).waitq = s.waitq := rfl
@[simp] theorem set_called (s : RSys) (c : Caller) : (s.set c).called = s.called := rfl
@[simp] theorem set_acquired (s : RSys) (c : Caller) : (s.set c).acquired = s.acquired := rfl
@[simp] theorem set_now (s : RSys) (c : Caller) : (s.set c).now = s.now := rfl

/-- bookkeeping of one call: datagrams sent so far against the retry budget -/
def Acct (c : Caller) : Prop :=
  match c.pc with
  | .waiting => c.sends = [] ∧ c.retry = c.retry0
  | .polling since _ => c.sends.length + c.retry = c.retry0 + 1 ∧ 1 ≤ c.retry ∧ c.sends.getLast? = some since
  | .pausing _ => c.sends.length + c.retry = c.retry0
  | .done _ => c.sends.length ≤ c.retry0

structure Good (s : RSys) : Prop where
  ids : ∀ i c, s.callers i = some c → c.id = i
  calledIff : ∀ i, (s.callers i).isSome = true ↔ i ∈ s.called
  nodup : s.called.Nodup
  fifo : s.acquired ++ s.waitq = s.called
  excl : ∀ i c, s.callers i = some c → (c.inExchange = true ↔ s.holder = some i)
  waitIff : ∀ i c, s.callers i = some c → (c.pc = .waiting ↔ i ∈ s.waitq)
  acct : ∀ i c, s.callers i = some c → Acct c
  held : ∀ i, s.holder = some i → (s.callers i).isSome = true

theorem good_init : Good init :=
  ⟨by simp [init], by simp [init], by simp [init], by simp [init], by simp [init], by simp [init], by simp [init], by simp [init]⟩

/-- replacing caller `c.id` by an updated record that keeps its id, its lock status and its waiting status -/
theorem good_set (s : RSys) (h : Good s) (c c' : Caller) (hc : s.callers c.id = some c) (hid : c'.id = c.id)
    (hex : c'.inExchange = c.inExchange) (hw : (c'.pc = .waiting) ↔ (c.pc = .waiting)) (ha : Acct c') :
    Good (s.set c') := by
  refine ⟨?_, ?_, h.nodup, h.fifo, ?_, ?_, ?_, ?_⟩
  rotate_right
  · intro i hi'
    by_cases hi : i = c'.id
    · subst hi; simp
    · rw [set_ne _ _ _ hi]; exact h.held i hi'
  · intro i x hx
    by_cases hi : i = c'.id
    · subst hi; simp at hx; subst hx; rfl
    · rw [set_ne _ _ _ hi] at hx; exact h.ids i x hx
  · intro i
    by_cases hi : i = c'.id
    · subst hi; simp only [set_self, Option.isSome_some, set_called, true_iff]
      rw [hid]; exact (h.calledIff c.id).1 (by simp [hc])
    · rw [set_ne _ _ _ hi]; exact h.calledIff i
  · intro i x hx
    by_cases hi : i = c'.id
    · subst hi; simp at hx; subst hx
      rw [hex, hid]; exact h.excl c.id c hc
    · rw [set_ne _ _ _ hi] at hx; exact h.excl i x hx
  · intro i x hx
    by_cases hi : i = c'.id
    · subst hi; simp at hx; subst hx
      rw [hw, hid]; exact h.waitIff c.id c hc
    · rw [set_ne _ _ _ hi] at hx; exact h.waitIff i x hx
  · intro i x hx
    by_cases hi : i = c'.id
    · subst hi; simp at hx; subst hx; exact ha
    · rw [set_ne _ _ _ hi] at hx; exact h.acct i x hx

/-- the situation just before a caller takes the free lock: it is recorded as waiting, but no longer in the wait queue -/
structure PreAcq (s : RSys) (c : Caller) : Prop where
  ids : ∀ i x, s.callers i = some x → x.id = i
  calledIff : ∀ i, (s.callers i).isSome = true ↔ i ∈ s.called
  nodup : s.called.Nodup
  me : s.callers c.id = some c
  mine : c.pc = .waiting
  free : s.holder = none
  fifo : s.acquired ++ c.id :: s.waitq = s.called
  excl : ∀ i x, s.callers i = some x → x.inExchange = false
  waitIff : ∀ i x, s.callers i = some x → i ≠ c.id → (x.pc = .waiting ↔ i ∈ s.waitq)
  acct : ∀ i x, s.callers i = some x → Acct x

theorem not_in_waitq_of_fifo (s : RSys) (c : Caller) (h : PreAcq s c) : c.id ∉ s.waitq := by
  intro hm
  have hn := h.nodup
  rw [← h.fifo] at hn
  have := (List.nodup_append.1 hn).2.1
  exact (List.nodup_cons.1 this).1 hm

theorem good_acquire (s : RSys) (c : Caller) (h : PreAcq s c) : Good (acquire s c) := by
  have hnw := not_in_waitq_of_fifo s c h
  have hacct := h.acct c.id c h.me
  simp only [Acct, h.mine] at hacct
  unfold acquire
  by_cases hr : c.retry = 0
  · simp only [hr, if_true]
    refine ⟨?_, ?_, h.nodup, ?_, ?_, ?_, ?_, by intro i hi; cases hi⟩
    · intro i x hx
      by_cases hi : i = c.id
      · subst hi; simp [RSys.set] at hx; subst hx; rfl
      · simp [RSys.set, hi] at hx; exact h.ids i x hx
    · intro i
      by_cases hi : i = c.id
      · subst hi; simp only [RSys.set, if_true, Option.isSome_some, true_iff]
        exact (h.calledIff c.id).1 (by simp [h.me])
      · simp only [RSys.set, hi, if_false]; exact h.calledIff i
    · simp only [RSys.set]; rw [← h.fifo]; simp
    · intro i x hx
      by_cases hi : i = c.id
      · subst hi; simp [RSys.set] at hx; subst hx; simp [Caller.inExchange]
      · simp [RSys.set, hi] at hx; simp [h.excl i x hx]
    · intro i x hx
      by_cases hi : i = c.id
      · subst hi; simp [RSys.set] at hx; subst hx; simp [hnw]
      · simp [RSys.set, hi] at hx; simpa [RSys.set] using h.waitIff i x hx hi
    · intro i x hx
      by_cases hi : i = c.id
      · subst hi; simp [RSys.set] at hx; subst hx; simp [Acct, hacct.1]
      · simp [RSys.set, hi] at hx; exact h.acct i x hx
  · simp only [hr, if_false]
    refine ⟨?_, ?_, h.nodup, ?_, ?_, ?_, ?_, by intro i hi; cases hi; simp [RSys.set, startAttempt]⟩
    · intro i x hx
      by_cases hi : i = c.id
      · subst hi; simp [RSys.set, startAttempt] at hx; subst hx; rfl
      · simp [RSys.set, startAttempt, hi] at hx; exact h.ids i x hx
    · intro i
      by_cases hi : i = c.id
      · subst hi; simp only [RSys.set, startAttempt, if_true, Option.isSome_some, true_iff]
        exact (h.calledIff c.id).1 (by simp [h.me])
      · simp only [RSys.set, startAttempt, hi, if_false]; exact h.calledIff i
    · simp only [RSys.set]; rw [← h.fifo]; simp
    · intro i x hx
      by_cases hi : i = c.id
      · subst hi; simp [RSys.set, startAttempt] at hx; subst hx; simp [Caller.inExchange, startAttempt]
      · simp [RSys.set, startAttempt, hi] at hx
        simp only [h.excl i x hx, Bool.false_eq_true, false_iff]
        intro e; cases e; exact hi rfl
    · intro i x hx
      by_cases hi : i = c.id
      · subst hi; simp [RSys.set, startAttempt] at hx; subst hx; simp [hnw]
      · simp [RSys.set, startAttempt, hi] at hx; simpa [RSys.set] using h.waitIff i x hx hi
    · intro i x hx
      by_cases hi : i = c.id
      · subst hi; simp [RSys.set, startAttempt] at hx; subst hx
        simp only [Acct, hacct.1, List.nil_append, List.length_singleton]
        refine ⟨by omega, by omega, by simp⟩
      · simp [RSys.set, startAttempt, hi] at hx; exact h.acct i x hx

theorem holder_none_excl (s : RSys) (h : Good s) (hf : s.holder = none) : ∀ i x, s.callers i = some x → x.inExchange = false := by
  intro i x hx
  cases hb : x.inExchange with
  | false => rfl
  | true => have := (h.excl i x hx).1 hb; rw [hf] at this; cases this

theorem good_step (fair : Bool) (s : RSys) (h : Good s) (a : Act) (he : enabled fair s a = true) : Good (step s a) := by
  cases a with
  | tick dt => exact ⟨h.ids, h.calledIff, h.nodup, h.fifo, h.excl, h.waitIff, h.acct, h.held⟩
  | call id retry timeout pause =>
    simp only [enabled, Bool.not_eq_true', List.contains_eq_mem, decide_eq_false_iff_not] at he
    have hnone : s.callers id = none := by
      cases hc : s.callers id with
      | none => rfl
      | some x => exact absurd ((h.calledIff id).1 (by simp [hc])) he
    simp only [step]
    -- the state with the new caller recorded as waiting
    let c : Caller := { id := id, retry0 := retry, timeout := timeout, pause := pause, retry := retry, pc := .waiting, sends := [], acquiredAt := 0 }
    have hcid : c.id = id := rfl
    have ids1 : ∀ i x, (s.set c).callers i = some x → x.id = i := by
      intro i x hx
      by_cases hi : i = id
      · subst hi; simp [RSys.set, c] at hx; subst hx; rfl
      · simp [RSys.set, c, hi] at hx; exact h.ids i x hx
    have called1 : ∀ i, ((s.set c).callers i).isSome = true ↔ i ∈ s.called ++ [id] := by
      intro i
      by_cases hi : i = id
      · subst hi; simp [RSys.set, c]
      · simp only [RSys.set, c, hi, if_false, List.mem_append, List.mem_singleton, or_false]; exact h.calledIff i
    have nodup1 : (s.called ++ [id]).Nodup :=
      List.nodup_append.2 ⟨h.nodup, by simp, by intro a ha b hb; simp at hb; subst hb; intro e; subst e; exact he ha⟩
    have acct1 : ∀ i x, (s.set c).callers i = some x → Acct x := by
      intro i x hx
      by_cases hi : i = id
      · subst hi; simp [RSys.set, c] at hx; subst hx; simp [Acct]
      · simp [RSys.set, c, hi] at hx; exact h.acct i x hx
    by_cases hfree : (s.holder.isNone && s.waitq.isEmpty) = true
    · simp only [set_holder, set_waitq, hfree, if_true]
      simp only [Bool.and_eq_true, Option.isNone_iff_eq_none, List.isEmpty_iff] at hfree
      apply good_acquire
      refine ⟨ids1, called1, nodup1, by simp [RSys.set, c], rfl, hfree.1, ?_, ?_, ?_, acct1⟩
      · have := h.fifo; rw [hfree.2] at this ⊢; simp at this ⊢; rw [this]
      · intro i x hx
        by_cases hi : i = id
        · subst hi; simp [RSys.set, c] at hx; subst hx; rfl
        · simp [RSys.set, c, hi] at hx; exact holder_none_excl s h hfree.1 i x hx
      · intro i x hx hi
        have hi' : i ≠ id := hi
        simp [RSys.set, c, hi'] at hx
        simpa using h.waitIff i x hx
    · simp only [set_holder, set_waitq, hfree, Bool.false_eq_true, if_false]
      refine ⟨ids1, called1, nodup1, ?_, ?_, ?_, acct1, ?_⟩
      rotate_right
      · intro i hi'
        by_cases hi : i = id
        · subst hi; simp [RSys.set, c]
        · simp only [RSys.set, c, hi, if_false]; exact h.held i hi'
      · simp only [set_acquired]; rw [← List.append_assoc, h.fifo]
      · intro i x hx
        by_cases hi : i = id
        · subst hi; simp [RSys.set, c] at hx; subst hx
          simp only [Caller.inExchange, Bool.false_eq_true, false_iff]
          intro e
          have := h.held i e
          rw [hnone] at this; cases this
        · simp [RSys.set, c, hi] at hx; exact h.excl i x hx
      · intro i x hx
        by_cases hi : i = id
        · subst hi; simp [RSys.set, c] at hx; subst hx; simp
        · simp [RSys.set, c, hi] at hx
          simp only [List.mem_append, List.mem_singleton, hi, or_false]
          exact h.waitIff i x hx
  | handoff =>
    simp only [enabled, Bool.and_eq_true, Option.isNone_iff_eq_none, Bool.not_eq_true', List.isEmpty_eq_false_iff] at he
    simp only [step]
    cases hq : s.waitq with
    | nil => exact absurd hq he.2
    | cons id rest =>
      simp only
      have hmem : id ∈ s.called := by rw [← h.fifo, hq]; simp
      have hsome := (h.calledIff id).2 hmem
      cases hc : s.callers id with
      | none => rw [hc] at hsome; cases hsome
      | some c =>
        simp only [RSys.get, hc]
        have hcid : c.id = id := h.ids id c hc
        subst hcid
        apply good_acquire
        refine ⟨h.ids, h.calledIff, h.nodup, hc, ?_, he.1, by have := h.fifo; rw [hq] at this; exact this,
                holder_none_excl s h he.1, ?_, h.acct⟩
        · exact (h.waitIff c.id c hc).2 (by rw [hq]; simp)
        · intro i x hx hi
          have := h.waitIff i x hx
          rw [hq] at this
          simp only [List.mem_cons, hi, false_or] at this
          exact this
  | pollStep id reply =>
    simp only [enabled, Bool.and_eq_true, beq_iff_eq] at he
    obtain ⟨hh, hpc⟩ := he
    simp only [step]
    cases hc : s.get id with
    | none => simp [hc] at hpc
    | some c =>
      simp only [hc] at hpc ⊢
      have hc' : s.callers id = some c := hc
      have hcid : c.id = id := h.ids id c hc'
      cases hp : c.pc with
      | polling since np =>
        simp only [hp] at hpc ⊢
        have hacct := h.acct id c hc'
        simp only [Acct, hp] at hacct
        cases reply with
        | some r =>
          simp only [release]
          refine ⟨?_, ?_, h.nodup, h.fifo, ?_, ?_, ?_, by intro i hi; cases hi⟩
          · intro i x hx
            by_cases hi : i = c.id
            · subst hi; simp [RSys.set] at hx; subst hx; rfl
            · simp [RSys.set, hi] at hx; exact h.ids i x hx
          · intro i
            by_cases hi : i = c.id
            · subst hi; simp only [RSys.set, if_true, Option.isSome_some, true_iff]
              exact (h.calledIff c.id).1 (by rw [hcid]; simp [hc'])
            · simp only [RSys.set, hi, if_false]; exact h.calledIff i
          · intro i x hx
            by_cases hi : i = c.id
            · subst hi; simp [RSys.set] at hx; subst hx; simp [Caller.inExchange]
            · simp [RSys.set, hi] at hx
              have hxf : x.inExchange = false := by
                cases hb : x.inExchange with
                | false => rfl
                | true =>
                  have := (h.excl i x hx).1 hb
                  rw [hh] at this; cases this; exact absurd hcid.symm hi
              simp [hxf]
          · intro i x hx
            by_cases hi : i = c.id
            · subst hi; simp [RSys.set] at hx; subst hx
              have := h.waitIff c.id c (by rw [hcid]; exact hc')
              simp only [hp] at this
              simpa using this
            · simp [RSys.set, hi] at hx; exact h.waitIff i x hx
          · intro i x hx
            by_cases hi : i = c.id
            · subst hi; simp [RSys.set] at hx; subst hx; simp only [Acct]; omega
            · simp [RSys.set, hi] at hx; exact h.acct i x hx
        | none =>
          simp only
          split
          · refine good_set s h c (c' := { c with retry := c.retry - 1, pc := .pausing (s.now + c.pause) })
              (by rw [hcid]; exact hc') rfl (by simp [Caller.inExchange, hp]) (by simp [hp]) ?_
            simp only [Acct]; omega
          · refine good_set s h c (c' := { c with pc := .polling since (s.now + poll) })
              (by rw [hcid]; exact hc') rfl (by simp [Caller.inExchange, hp]) (by simp [hp]) ?_
            simp only [Acct]; exact hacct
      | waiting => simp [hp] at hpc
      | pausing u => simp [hp] at hpc
      | done r => simp [hp] at hpc
  | resume id =>
    simp only [enabled, Bool.and_eq_true, beq_iff_eq] at he
    obtain ⟨hh, hpc⟩ := he
    simp only [step]
    cases hc : s.get id with
    | none => simp [hc] at hpc
    | some c =>
      simp only [hc] at hpc ⊢
      have hc' : s.callers id = some c := hc
      have hcid : c.id = id := h.ids id c hc'
      cases hp : c.pc with
      | pausing u =>
        simp only [hp] at hpc ⊢
        have hacct := h.acct id c hc'
        simp only [Acct, hp] at hacct
        by_cases hr : c.retry = 0
        · simp only [hr, if_true, release]
          refine ⟨?_, ?_, h.nodup, h.fifo, ?_, ?_, ?_, by intro i hi; cases hi⟩
          · intro i x hx
            by_cases hi : i = c.id
            · subst hi; simp [RSys.set] at hx; subst hx; rfl
            · simp [RSys.set, hi] at hx; exact h.ids i x hx
          · intro i
            by_cases hi : i = c.id
            · subst hi; simp only [RSys.set, if_true, Option.isSome_some, true_iff]
              exact (h.calledIff c.id).1 (by rw [hcid]; simp [hc'])
            · simp only [RSys.set, hi, if_false]; exact h.calledIff i
          · intro i x hx
            by_cases hi : i = c.id
            · subst hi; simp [RSys.set] at hx; subst hx; simp [Caller.inExchange]
            · simp [RSys.set, hi] at hx
              have hxf : x.inExchange = false := by
                cases hb : x.inExchange with
                | false => rfl
                | true =>
                  have := (h.excl i x hx).1 hb
                  rw [hh] at this; cases this; exact absurd hcid.symm hi
              simp [hxf]
          · intro i x hx
            by_cases hi : i = c.id
            · subst hi; simp [RSys.set] at hx; subst hx
              have := h.waitIff c.id c (by rw [hcid]; exact hc')
              simp only [hp] at this
              simpa using this
            · simp [RSys.set, hi] at hx; exact h.waitIff i x hx
          · intro i x hx
            by_cases hi : i = c.id
            · subst hi; simp [RSys.set] at hx; subst hx; simp only [Acct]; omega
            · simp [RSys.set, hi] at hx; exact h.acct i x hx
        · simp only [hr, if_false]
          refine good_set s h c (c' := startAttempt s.now c) (by rw [hcid]; exact hc') rfl
            (by simp [Caller.inExchange, startAttempt, hp]) (by simp [startAttempt, hp]) ?_
          simp only [Acct, startAttempt, List.length_append, List.length_singleton]
          exact ⟨by omega, by omega, by simp⟩
      | waiting => simp [hp] at hpc
      | polling a b => simp [hp] at hpc
      | done r => simp [hp] at hpc

theorem good_reach (fair : Bool) (s : RSys) (hr : Reach fair s) : Good s := by
  induction hr with
  | init => exact good_init
  | step s a _ he ih => exact good_step fair s ih a he

end GeckoModel.Request
