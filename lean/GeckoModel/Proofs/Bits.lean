/-
Bit-level lemmas about the generated accessor arithmetic (`Generated.rawExtract`, `Generated.mergeSync`,
`Generated.mergeAsync`), over `Nat` with `Nat.testBit`.  No `bv_decide`, no Mathlib.
-/
import GeckoModel.Generated.AccessorArith

namespace GeckoModel.Bits
open GeckoModel.Generated

/-- bit `j` of the merged word: inside the field `[p, p+k)` it is the new value's bit, outside it is the old bit -/
theorem testBit_mergeSync (e v p k j : Nat) :
    (mergeSync e v (2 ^ k - 1) p).testBit j =
      if p ≤ j ∧ j < p + k then v.testBit (j - p) else e.testBit j := by
  unfold mergeSync
  simp only [Nat.testBit_or, Nat.testBit_xor, Nat.testBit_and, Nat.testBit_shiftLeft, Nat.testBit_two_pow_sub_one]
  by_cases h1 : p ≤ j <;> by_cases h2 : j < p + k
  · have : j - p < k := by omega
    simp [h1, h2, this]
  · have : ¬ (j - p < k) := by omega
    simp [h1, h2, this]
  · simp [h1]
  · simp [h1]

theorem testBit_mergeAsync (e v p k j : Nat) :
    (mergeAsync e v (2 ^ k - 1) p).testBit j =
      if p ≤ j ∧ j < p + k then v.testBit (j - p) else e.testBit j := by
  unfold mergeAsync
  simp only [Nat.testBit_or, Nat.testBit_xor, Nat.testBit_and, Nat.testBit_shiftLeft, Nat.testBit_two_pow_sub_one]
  by_cases h1 : p ≤ j <;> by_cases h2 : j < p + k
  · have : j - p < k := by omega
    simp [h1, h2, this]
  · have : ¬ (j - p < k) := by omega
    simp [h1, h2, this]
  · simp [h1]
  · simp [h1]

/-- the two write paths use the same merge -/
theorem mergeSync_eq_mergeAsync : mergeSync = mergeAsync := by
  funext e v m p
  rfl

/-- bit `j` of the extracted field -/
theorem testBit_rawExtract (d p k j : Nat) :
    (rawExtract d p (2 ^ k - 1)).testBit j = (d.testBit (p + j) && decide (j < k)) := by
  unfold rawExtract
  simp only [Nat.testBit_and, Nat.testBit_shiftRight, Nat.testBit_two_pow_sub_one]

/-- the extracted field is below `2^k` -/
theorem rawExtract_lt (d p k : Nat) : rawExtract d p (2 ^ k - 1) < 2 ^ k := by
  apply Nat.lt_pow_two_of_testBit
  intro i hi
  rw [testBit_rawExtract]
  have : ¬ (i < k) := by omega
  simp [this]

/-- **read after write at the word level**: extracting the field from the merged word gives the new value
(truncated to the field width) -/
theorem rawExtract_mergeSync (e v p k : Nat) :
    rawExtract (mergeSync e v (2 ^ k - 1) p) p (2 ^ k - 1) = v % 2 ^ k := by
  apply Nat.eq_of_testBit_eq
  intro j
  rw [testBit_rawExtract, testBit_mergeSync, Nat.testBit_mod_two_pow]
  by_cases h : j < k
  · have : p ≤ p + j ∧ p + j < p + k := by omega
    simp [h, this]
  · simp [h]

/-- the merged word stays inside the width of the field's bytes -/
theorem mergeSync_lt (e v p k n : Nat) (he : e < 2 ^ n) (hk : p + k ≤ n) :
    mergeSync e v (2 ^ k - 1) p < 2 ^ n := by
  apply Nat.lt_pow_two_of_testBit
  intro i hi
  rw [testBit_mergeSync]
  have h1 : ¬ (p ≤ i ∧ i < p + k) := by omega
  simp only [h1, if_false]
  exact Nat.testBit_lt_two_pow (Nat.lt_of_lt_of_le he (Nat.pow_le_pow_right (by omega) hi))

/-- another field `[p', p'+k')` of the same word, disjoint from `[p, p+k)`, reads the same before and after -/
theorem rawExtract_mergeSync_disjoint (e v p k p' k' : Nat) (hd : p' + k' ≤ p ∨ p + k ≤ p') :
    rawExtract (mergeSync e v (2 ^ k - 1) p) p' (2 ^ k' - 1) = rawExtract e p' (2 ^ k' - 1) := by
  apply Nat.eq_of_testBit_eq
  intro j
  rw [testBit_rawExtract, testBit_rawExtract, testBit_mergeSync]
  by_cases h : j < k'
  · have : ¬ (p ≤ p' + j ∧ p' + j < p + k) := by omega
    simp [this]
  · simp [h]

end GeckoModel.Bits
