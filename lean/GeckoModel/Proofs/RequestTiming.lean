/-
Time bound of the request engine under fairness (no event-loop stall): potential-function invariant.
-/
import GeckoModel.Proofs.RequestLemmas

namespace GeckoModel.Request

/-- worst-case duration of one attempt: timeout, one polling interval to notice it, the pause -/
def Caller.attemptMs (c : Caller) : Nat := c.timeout + poll + c.pause

/-- latest time at which the call can still be holding the lock, from its current position -/
def Caller.potential (c : Caller) : Nat :=
  match c.pc with
  | .polling since _ => since + c.attemptMs + (c.retry - 1) * c.attemptMs
  | .pausing u => u + c.retry * c.attemptMs
  | _ => 0

structure TimedC (now : Nat) (c : Caller) : Prop where
  pol : ∀ since np, c.pc = .polling since np → now ≤ np ∧ since ≤ now ∧ np ≤ since + c.timeout + poll ∧ 1 ≤ c.retry
  pau : ∀ u, c.pc = .pausing u → now ≤ u
  pot : c.inExchange = true → c.potential ≤ c.acquiredAt + c.retry0 * c.attemptMs

def Timed (s : RSys) : Prop := ∀ i c, s.holder = some i → s.callers i = some c → TimedC s.now c

theorem timed_init : Timed init := by intro i c h; simp [init] at h

theorem timedC_start (now : Nat) (c : Caller) (hr : 1 ≤ c.retry) (hq : c.retry ≤ c.retry0)
    (hpot : now + c.retry * c.attemptMs ≤ c.acquiredAt + c.retry0 * c.attemptMs) : TimedC now (startAttempt now c) := by
  refine ⟨?_, ?_, ?_⟩
  · intro since np h
    simp only [startAttempt, Pc.polling.injEq] at h
    obtain ⟨rfl, rfl⟩ := h
    exact ⟨Nat.le_refl _, Nat.le_refl _, by omega, hr⟩
  · intro u h; simp [startAttempt] at h
  · intro _
    simp only [Caller.potential, startAttempt, Caller.attemptMs] at *
    have : c.retry = (c.retry - 1) + 1 := by omega
    rw [this, Nat.add_mul] at hpot
    simp only [Nat.one_mul] at hpot
    omega

theorem timed_acquire (s : RSys) (c : Caller) (hg : ∀ i x, s.callers i = some x → x.id = i) (hme : s.callers c.id = some c)
    (hacct : c.retry = c.retry0) : Timed (acquire s c) := by
  intro i x hh hx
  unfold acquire at hh hx ⊢
  by_cases hr : c.retry = 0
  · simp only [hr, if_true] at hh; cases hh
  · simp only [hr, if_false] at hh hx ⊢
    cases hh
    simp [RSys.set, startAttempt] at hx
    subst hx
    have := timedC_start s.now { c with acquiredAt := s.now } (by simp; omega) (by simp [hacct])
      (by simp [hacct, Caller.attemptMs])
    simpa [startAttempt] using this

theorem timed_step (s : RSys) (hg : Good s) (h : Timed s) (a : Act) (he : enabled true s a = true) : Timed (step s a) := by
  cases a with
  | tick dt =>
    simp only [enabled, if_true] at he
    intro i c hh hc
    simp only [step] at hh hc ⊢
    have ht := h i c hh hc
    simp only [dueBy, hh, RSys.get, hc] at he
    refine ⟨?_, ?_, ht.pot⟩
    · intro since np hp
      simp only [hp, decide_eq_true_eq] at he
      obtain ⟨h1, h2, h3, h4⟩ := ht.pol since np hp
      exact ⟨he, by omega, h3, h4⟩
    · intro u hp
      simp only [hp, decide_eq_true_eq] at he
      exact he
  | call id retry timeout pause =>
    simp only [enabled, Bool.not_eq_true', List.contains_eq_mem, decide_eq_false_iff_not] at he
    have hnone : s.callers id = none := by
      cases hc : s.callers id with
      | none => rfl
      | some x => exact absurd ((hg.calledIff id).1 (by simp [hc])) he
    simp only [step]
    by_cases hfree : (s.holder.isNone && s.waitq.isEmpty) = true
    · simp only [set_holder, set_waitq, hfree, if_true]
      apply timed_acquire
      · intro i x hx
        by_cases hi : i = id
        · subst hi; simp [RSys.set] at hx; subst hx; rfl
        · simp [RSys.set, hi] at hx; exact hg.ids i x hx
      · simp [RSys.set]
      · rfl
    · simp only [set_holder, set_waitq, hfree, Bool.false_eq_true, if_false]
      intro i c hh hc
      simp only [RSys.set] at hc
      by_cases hi : i = id
      · subst hi
        have := hg.held i hh
        rw [hnone] at this; cases this
      · simp only [hi, if_false] at hc
        exact h i c hh hc
  | handoff =>
    simp only [enabled, Bool.and_eq_true, Option.isNone_iff_eq_none, Bool.not_eq_true', List.isEmpty_eq_false_iff] at he
    simp only [step]
    cases hq : s.waitq with
    | nil => exact absurd hq he.2
    | cons id rest =>
      simp only
      cases hc : s.callers id with
      | none =>
        simp only [RSys.get, hc]
        intro i c hh _; rw [he.1] at hh; cases hh
      | some c =>
        simp only [RSys.get, hc]
        have hcid : c.id = id := hg.ids id c hc
        subst hcid
        have hw : c.pc = .waiting := (hg.waitIff c.id c hc).2 (by rw [hq]; simp)
        have hacct := hg.acct c.id c hc
        simp only [Acct, hw] at hacct
        exact timed_acquire _ c hg.ids hc hacct.2
  | pollStep id reply =>
    simp only [enabled, Bool.and_eq_true, beq_iff_eq] at he
    obtain ⟨hh, hpc⟩ := he
    simp only [step]
    cases hc : s.get id with
    | none => simp [hc] at hpc
    | some c =>
      simp only [hc] at hpc ⊢
      have hc' : s.callers id = some c := hc
      have hcid : c.id = id := hg.ids id c hc'
      subst hcid
      have ht := h c.id c hh hc'
      cases hp : c.pc with
      | polling since np =>
        simp only [hp, decide_eq_true_eq] at hpc ⊢
        obtain ⟨h1, h2, h3, h4⟩ := ht.pol since np hp
        have hnow : s.now = np := by omega
        have hpot := ht.pot (by simp [Caller.inExchange, hp])
        simp only [Caller.potential, hp] at hpot
        cases reply with
        | some r => intro i x hx; simp [release] at hx
        | none =>
          simp only
          split
          · intro i x hx hxc
            simp only [set_holder] at hx
            rw [hh] at hx; cases hx
            simp [RSys.set] at hxc; subst hxc
            refine ⟨by intro a b e; simp at e, by intro u e; simp at e; subst e; simp only [set_now]; omega, ?_⟩
            intro _
            dsimp only [Caller.potential, Caller.attemptMs] at hpot ⊢
            have : c.retry - 1 + 1 = c.retry := by omega
            omega
          · rename_i hnt
            intro i x hx hxc
            simp only [set_holder] at hx
            rw [hh] at hx; cases hx
            simp [RSys.set] at hxc; subst hxc
            refine ⟨?_, by intro u e; simp at e, ?_⟩
            · intro a b e
              simp only [Pc.polling.injEq] at e
              obtain ⟨rfl, rfl⟩ := e
              simp only [set_now]
              exact ⟨by omega, h2, by omega, h4⟩
            · intro _
              dsimp only [Caller.potential, Caller.attemptMs] at hpot ⊢
              exact hpot
      | waiting => simp [hp] at hpc
      | pausing u => simp [hp] at hpc
      | done r => simp [hp] at hpc
  | resume id =>
    simp only [enabled, Bool.and_eq_true, beq_iff_eq] at he
    obtain ⟨hh, hpc⟩ := he
    simp only [step]
    cases hc : s.get id with
    | none => simp [hc] at hpc
    | some c =>
      simp only [hc] at hpc ⊢
      have hc' : s.callers id = some c := hc
      have hcid : c.id = id := hg.ids id c hc'
      subst hcid
      have ht := h c.id c hh hc'
      cases hp : c.pc with
      | pausing u =>
        simp only [hp] at hpc ⊢
        have hu := ht.pau u hp
        have hpot := ht.pot (by simp [Caller.inExchange, hp])
        simp only [Caller.potential, hp] at hpot
        have hacct := hg.acct c.id c hc'
        simp only [Acct, hp] at hacct
        by_cases hr : c.retry = 0
        · simp only [hr, if_true]
          intro i x hx; simp [release] at hx
        · simp only [hr, if_false]
          intro i x hx hxc
          simp only [set_holder] at hx
          rw [hh] at hx; cases hx
          simp [RSys.set, startAttempt] at hxc; subst hxc
          have := timedC_start s.now c (by omega) (by omega) (by omega)
          simpa [startAttempt] using this
      | waiting => simp [hp] at hpc
      | polling a b => simp [hp] at hpc
      | done r => simp [hp] at hpc

theorem timed_reach (s : RSys) (hr : Reach true s) : Timed s := by
  induction hr with
  | init => exact timed_init
  | step s a hr' he ih => exact timed_step s (good_reach true s hr') ih a he

end GeckoModel.Request
