/-
Helper lemmas for C04 (wire format): `struct` pack/unpack inversion, `split` / `replace` / `int()` on byte strings,
and the backtracking groups of the packet regex.  Core Lean only.
-/
import GeckoModel.Model.Packet

namespace GeckoModel.Wire

/-! ### struct -/

theorem toNat_byteOf {n : Nat} (h : n < 256) : (byteOf n).toNat = n := by
  simp [byteOf, Nat.mod_eq_of_lt h]

theorem wordVal_word (big : Bool) {n : Nat} (h : n < 65536) :
    ∀ a b, word big n = [a, b] → wordVal big a b = n := by
  intro a b hw
  have h1 : n / 256 < 256 := by omega
  have h2 : n % 256 < 256 := by omega
  cases big <;> simp [word] at hw <;> obtain ⟨rfl, rfl⟩ := hw <;> simp [wordVal, toNat_byteOf h1, toNat_byteOf h2] <;> omega

theorem unpack_pack_items (big : Bool) : ∀ (cs : List Code) (vs : List Int) (bs : Bytes),
    packItems big cs vs = some bs → unpackItems big cs bs = some vs := by
  intro cs
  induction cs with
  | nil => intro vs bs h; cases vs <;> simp [packItems] at h; subst h; simp [unpackItems]
  | cons c cs ih =>
    intro vs bs h
    cases vs with
    | nil => simp [packItems] at h
    | cons v vs =>
      simp only [packItems] at h
      split at h
      · rename_i hr
        split at h
        · rename_i r hp
          cases h
          have := ih vs r hp
          cases c
          · simp [Code.inRange] at hr
            simp [Code.bytes, unpackItems, this, toNat_byteOf (show v.toNat < 256 by omega)]
            omega
          · simp [Code.inRange] at hr
            have hn : v.toNat < 65536 := by omega
            have hw := wordVal_word big hn
            cases big <;> simp [Code.bytes, word, unpackItems, this] <;> simp [word] at hw <;> rw [hw] <;> omega
          · simp [Code.inRange] at hr
            have hn : (v % 65536).toNat < 65536 := by omega
            have hw := wordVal_word big hn
            cases big <;> simp [Code.bytes, word, unpackItems, this] <;> simp [word] at hw <;> rw [hw] <;> split <;> omega
        · cases h
      · cases h

theorem unpack_pack {f : Fmt} {vs : List Int} {bs : Bytes} (h : pack f vs = .ok bs) : unpack f bs = .ok vs := by
  unfold pack at h
  split at h
  · rename_i b hb; cases h; simp [unpack, unpack_pack_items _ _ _ _ hb]
  · cases h

theorem Code.bytes_length (big : Bool) (c : Code) (v : Int) : (c.bytes big v).length = c.size := by
  cases c <;> cases big <;> simp [Code.bytes, word, Code.size]

theorem packItems_length (big : Bool) : ∀ (cs : List Code) (vs : List Int) (bs : Bytes),
    packItems big cs vs = some bs → bs.length = (cs.map Code.size).sum := by
  intro cs
  induction cs with
  | nil => intro vs bs h; cases vs <;> simp [packItems] at h; subst h; simp
  | cons c cs ih =>
    intro vs bs h
    cases vs with
    | nil => simp [packItems] at h
    | cons v vs =>
      simp only [packItems] at h
      split at h
      · split at h
        · rename_i r hp
          cases h
          simp [Code.bytes_length, ih vs r hp]
        · cases h
      · cases h

theorem pack_length {f : Fmt} {vs : List Int} {bs : Bytes} (h : pack f vs = .ok bs) : bs.length = f.size := by
  unfold pack at h
  split at h
  · rename_i b hb; cases h; exact packItems_length _ _ _ _ hb
  · cases h

theorem packItems_append (big : Bool) : ∀ (c1 : List Code) (v1 : List Int) (c2 : List Code) (v2 : List Int) (bs : Bytes),
    v1.length = c1.length → packItems big (c1 ++ c2) (v1 ++ v2) = some bs →
    ∃ b1 b2, bs = b1 ++ b2 ∧ packItems big c1 v1 = some b1 ∧ packItems big c2 v2 = some b2 := by
  intro c1
  induction c1 with
  | nil => intro v1 c2 v2 bs hl h; cases v1 <;> simp at hl; exact ⟨[], bs, by simp, by simp [packItems], by simpa using h⟩
  | cons c c1 ih =>
    intro v1 c2 v2 bs hl h
    cases v1 with
    | nil => simp at hl
    | cons v v1 =>
      simp only [List.cons_append, packItems] at h
      split at h
      · rename_i hr
        split at h
        · rename_i r hp
          cases h
          obtain ⟨b1, b2, rfl, h1, h2⟩ := ih v1 c2 v2 r (by simpa using hl) hp
          exact ⟨c.bytes big v ++ b1, b2, by simp, by simp [packItems, hr, h1], h2⟩
        · cases h
      · cases h

theorem pack_append {big : Bool} {c1 c2 : List Code} {v1 v2 : List Int} {bs : Bytes} (hl : v1.length = c1.length)
    (h : pack ⟨big, c1 ++ c2⟩ (v1 ++ v2) = .ok bs) :
    ∃ b1 b2, bs = b1 ++ b2 ∧ pack ⟨big, c1⟩ v1 = .ok b1 ∧ pack ⟨big, c2⟩ v2 = .ok b2 := by
  unfold pack at h
  split at h
  · rename_i b hb
    cases h
    obtain ⟨b1, b2, e, h1, h2⟩ := packItems_append big c1 v1 c2 v2 _ hl hb
    exact ⟨b1, b2, e, by simp [pack, h1], by simp [pack, h2]⟩
  · cases h

theorem pack_single {big : Bool} {c : Code} {v : Int} {bs : Bytes} (h : pack ⟨big, [c]⟩ [v] = .ok bs) :
    bs = c.bytes big v ∧ c.inRange v = true := by
  simp only [pack, packItems] at h
  by_cases hr : c.inRange v = true
  · simp [hr] at h; exact ⟨h.symm, hr⟩
  · simp [hr] at h

/-! ### split / replace -/

theorem splitOn_skip (sep : UInt8) : ∀ (x t : Bytes), sep ∉ x →
    splitOn sep (x ++ t) = (x ++ (splitOn sep t).1, (splitOn sep t).2) := by
  intro x
  induction x with
  | nil => intro t _; simp
  | cons c x ih =>
    intro t h
    have hc : (c == sep) = false := by
      simp at h; simp; exact fun e => h.1 e.symm
    have := ih t (by simp at h; exact h.2)
    simp [splitOn, hc, this]

theorem splitOn_sep (sep : UInt8) (t : Bytes) : splitOn sep (sep :: t) = ([], (splitOn sep t).1 :: (splitOn sep t).2) := by
  simp [splitOn]

theorem splitOn_none (sep : UInt8) (x : Bytes) (h : sep ∉ x) : splitOn sep x = (x, []) := by
  have := splitOn_skip sep x [] h
  simpa [splitOn] using this


theorem removeAllAux_skip (pat : Bytes) (p0 : UInt8) (pt : Bytes) (hp : pat = p0 :: pt) : ∀ (x t : Bytes), p0 ∉ x →
    removeAllAux pat 0 (x ++ t) = x ++ removeAllAux pat 0 t := by
  intro x
  induction x with
  | nil => intro t _; simp
  | cons c x ih =>
    intro t h
    simp at h
    have hc : (p0 == c) = false := by simp; exact h.1
    simp [removeAllAux, hp, List.isPrefixOf, hc]
    rw [← hp]; exact ih t h.2

theorem removeAllAux_drop (pat : Bytes) : ∀ (x t : Bytes), removeAllAux pat x.length (x ++ t) = removeAllAux pat 0 t := by
  intro x
  induction x with
  | nil => intro t; simp
  | cons c x ih => intro t; simp [removeAllAux, ih]

theorem removeAllAux_hit (pat : Bytes) (p0 : UInt8) (pt : Bytes) (hp : pat = p0 :: pt) (t : Bytes) :
    removeAllAux pat 0 (pat ++ t) = removeAllAux pat 0 t := by
  subst hp
  simp [removeAllAux]
  exact removeAllAux_drop _ pt t

/-! ### decimal text -/

def toB (c : Char) : UInt8 := UInt8.ofNat c.toNat

theorem pad2_eq (n : Nat) : pad2 n = if n < 10 then 48 :: (Nat.toDigits 10 n).map toB else (Nat.toDigits 10 n).map toB := rfl

theorem digit_char {c : Char} (h : c.isDigit = true) : 48 ≤ c.toNat ∧ c.toNat ≤ 57 := by
  simp [Char.isDigit] at h
  have h1 : (48 : UInt32) ≤ c.val := h.1
  have h2 : c.val ≤ (57 : UInt32) := h.2
  rw [UInt32.le_iff_toNat_le] at h1 h2
  exact ⟨h1, h2⟩

theorem toB_digit {c : Char} (h : c.isDigit = true) : (toB c).toNat = c.toNat := by
  have := digit_char h
  simp [toB]; omega

theorem isDigit_toB {c : Char} (h : c.isDigit = true) : isDigit (toB c) = true := by
  have := digit_char h
  simp [isDigit, toB_digit h]; omega

theorem digitsVal_map : ∀ (cs : List Char) (init : Nat), (∀ c ∈ cs, c.isDigit = true) →
    digitsVal (cs.map toB) init = Nat.ofDigitChars 10 cs init := by
  intro cs
  induction cs with
  | nil => intro init _; simp [digitsVal, Nat.ofDigitChars]
  | cons c cs ih =>
    intro init h
    have hc := h c (by simp)
    have := ih (10 * init + (c.toNat - 48)) (fun x hx => h x (by simp [hx]))
    simp [digitsVal, Nat.ofDigitChars, toB_digit hc] at this ⊢
    exact this

theorem digits_isDigit (n : Nat) : ∀ c ∈ Nat.toDigits 10 n, c.isDigit = true :=
  fun _ hc => Nat.isDigit_of_mem_toDigits (by decide) (by decide) hc

theorem pad2_all_digit (n : Nat) : ∀ b ∈ pad2 n, isDigit b = true := by
  intro b hb
  rw [pad2_eq] at hb
  have hm : ∀ b ∈ (Nat.toDigits 10 n).map toB, isDigit b = true := by
    intro b hb
    simp at hb
    obtain ⟨c, hc, rfl⟩ := hb
    exact isDigit_toB (digits_isDigit n c hc)
  split at hb
  · simp at hb
    rcases hb with rfl | hb
    · decide
    · exact hm b (by simpa using hb)
  · exact hm b hb

theorem pad2_ne_nil (n : Nat) : pad2 n ≠ [] := by
  rw [pad2_eq]; split
  · simp
  · simp

theorem parseInt_pad2 (n : Nat) : parseInt (pad2 n) = .ok (Int.ofNat n) := by
  have hall : (pad2 n).all isDigit = true := by
    rw [List.all_eq_true]; exact pad2_all_digit n
  have hne : (pad2 n).isEmpty = false := by
    cases h : pad2 n with
    | nil => exact absurd h (pad2_ne_nil n)
    | cons _ _ => rfl
  have hv : digitsVal (pad2 n) 0 = n := by
    rw [pad2_eq]
    have := digitsVal_map (Nat.toDigits 10 n) 0 (digits_isDigit n)
    rw [Nat.ofDigitChars_toDigits (by decide) (by decide)] at this
    split
    · simp [digitsVal] at this ⊢; exact this
    · exact this
  simp [parseInt, hne, hall, hv]

/-! ### the regex groups -/

def clash : Bytes → Bytes → Bool
  | a :: as, b :: bs => a != b || clash as bs
  | _, _ => false

def allClash (lit : Bytes) : Bytes → Bool
  | [] => true
  | c :: t => clash lit (c :: t) && allClash lit t

theorem isPrefixOf_clash : ∀ (lit y t : Bytes), clash lit y = true → lit.isPrefixOf (y ++ t) = false := by
  intro lit
  induction lit with
  | nil => intro y t h; cases y <;> simp [clash] at h
  | cons a as ih =>
    intro y t h
    cases y with
    | nil => simp [clash] at h
    | cons b bs =>
      simp [clash] at h
      simp [List.isPrefixOf]
      intro hab
      rcases h with h | h
      · exact absurd hab h
      · exact ih bs t h

theorem here_none_of_clash {α : Type} (lit : Bytes) (k : Bytes → Option α) (y t : Bytes) (h : clash lit y = true) :
    here lit k (y ++ t) = none := by
  simp [here, isPrefixOf_clash lit y t h]

def pre {α : Type} (x : Bytes) (r : Option (Bytes × α)) : Option (Bytes × α) :=
  match r with
  | some (g, a) => some (x ++ g, a)
  | none => none

theorem group_skip {α : Type} (g : Bool) (lit : Bytes) (k : Bytes → Option α) : ∀ (x t : Bytes), allClash lit x = true →
    group g lit k (x ++ t) = pre x (group g lit k t) := by
  intro x
  induction x with
  | nil => intro t _; simp [pre]; cases group g lit k t <;> simp
  | cons c x ih =>
    intro t h
    simp [allClash] at h
    have hh : here lit k (c :: (x ++ t)) = none := here_none_of_clash lit k (c :: x) t h.1
    have := ih t h.2
    cases g
    · simp [group, hh, this, pre]; cases group false lit k t <;> simp
    · simp [group, hh, this, pre]; cases group true lit k t <;> simp

theorem allClash_of_not_mem (lit : Bytes) (l0 : UInt8) (lt : Bytes) (hl : lit = l0 :: lt) : ∀ x : Bytes, l0 ∉ x → allClash lit x = true := by
  intro x
  induction x with
  | nil => intro _; rfl
  | cons c x ih =>
    intro h
    simp at h
    simp [allClash, hl, clash, h.1]
    rw [← hl]; exact ih h.2

theorem isPrefixOf_short (lit s : Bytes) (h : s.length < lit.length) : lit.isPrefixOf s = false := by
  cases hp : lit.isPrefixOf s with
  | false => rfl
  | true =>
    have := List.isPrefixOf_iff_prefix.1 hp
    have := this.length_le
    omega

theorem group_short {α : Type} (g : Bool) (lit : Bytes) (k : Bytes → Option α) : ∀ s : Bytes, s.length < lit.length →
    group g lit k s = none := by
  intro s
  induction s with
  | nil => intro h; simp [group, here, isPrefixOf_short lit [] h]
  | cons c s ih =>
    intro h
    have h1 := isPrefixOf_short lit (c :: s) h
    have h2 := ih (by simp at h; omega)
    cases g <;> simp [group, here, h1, h2]

theorem here_self {α : Type} (lit : Bytes) (k : Bytes → Option α) (t : Bytes) :
    here lit k (lit ++ t) = (k t).map fun r => ([], r) := by
  have : lit.isPrefixOf (lit ++ t) = true := List.isPrefixOf_iff_prefix.2 (List.prefix_append _ _)
  simp [here, this]
  cases k t <;> rfl

theorem group_greedy_last (lit : Bytes) (hne : lit ≠ []) : ∀ payload : Bytes,
    group true lit (fun _ => some ()) (payload ++ lit) = some (payload, ()) := by
  intro payload
  induction payload with
  | nil =>
    cases lit with
    | nil => exact absurd rfl hne
    | cons a t =>
      have h1 : group true (a :: t) (fun _ => some ()) t = none := group_short _ _ _ _ (by simp)
      have h2 := here_self (a :: t) (fun _ => some ()) []
      simp at h2
      simp [group, h1, h2]
  | cons c p ih => simp [group, ih]

theorem occurs_tail (lit : Bytes) (c : UInt8) (s : Bytes) (h : occurs lit (c :: s) = false) : occurs lit s = false := by
  simp [occurs] at h; exact h.2

theorem group_none_of_not_occurs {α : Type} (g : Bool) (lit : Bytes) (k : Bytes → Option α) : ∀ s : Bytes,
    occurs lit s = false → group g lit k s = none := by
  intro s
  induction s with
  | nil => intro h; simp [occurs] at h; simp [group, here, h]
  | cons c s ih =>
    intro h
    simp [occurs] at h
    have := ih h.2
    cases g <;> simp [group, here, h.1, this]

/-- every hit's continuation fails -/
theorem group_none_of_k {α : Type} (g : Bool) (lit : Bytes) (k : Bytes → Option α) : ∀ s : Bytes,
    (∀ i, k (s.drop i) = none) → group g lit k s = none := by
  intro s
  induction s with
  | nil =>
    intro h
    have := h lit.length
    simp at this
    simp [group, here, this]
  | cons c s ih =>
    intro h
    have h1 : here lit k (c :: s) = none := by
      simp [here]; intro _; rw [h lit.length]
    have h2 := ih (fun i => by have := h (i + 1); simpa using this)
    cases g <;> simp [group, h1, h2]

theorem occurs_drop (lit : Bytes) : ∀ (s : Bytes) (i : Nat), occurs lit s = false → occurs lit (s.drop i) = false := by
  intro s
  induction s with
  | nil => intro i h; simpa using h
  | cons c s ih =>
    intro i h
    cases i with
    | zero => simpa using h
    | succ i => simp; exact ih i (occurs_tail lit c s h)

theorem isPrefixOf_append_cases : ∀ (lit q r : Bytes), lit.isPrefixOf (q ++ r) = true →
    lit.isPrefixOf q = true ∨ (q.length < lit.length ∧ (lit.drop q.length).isPrefixOf r = true) := by
  intro lit
  induction lit with
  | nil => intro q r _; left; simp
  | cons l lt ih =>
    intro q r h
    cases q with
    | nil => right; simpa using h
    | cons a q =>
      simp [List.isPrefixOf] at h
      rcases ih q r (List.isPrefixOf_iff_prefix.2 h.2) with h' | h'
      · left; simp [List.isPrefixOf, h.1]; exact List.isPrefixOf_iff_prefix.1 h'
      · right; simp; exact ⟨h'.1, by simpa using h'.2⟩

/-- no occurrence of `lit` can start inside `p` and end inside `r` -/
def noStraddle (lit r : Bytes) : Bool := (List.range lit.length).all fun j => j == 0 || !(lit.drop j).isPrefixOf r

theorem occurs_append (lit r : Bytes) (hs : noStraddle lit r = true) (hr : occurs lit r = false) : ∀ p : Bytes,
    occurs lit p = false → occurs lit (p ++ r) = false := by
  intro p
  induction p with
  | nil => intro _; simpa using hr
  | cons c p ih =>
    intro h
    simp [occurs] at h
    have h2 := ih h.2
    simp [occurs, h2]
    cases hp : lit.isPrefixOf (c :: (p ++ r)) with
    | false => rfl
    | true =>
      rcases isPrefixOf_append_cases lit (c :: p) r hp with h' | ⟨hl, h'⟩
      · rw [h.1] at h'; cases h'
      · simp [noStraddle, List.all_eq_true] at hs
        have := hs (p.length + 1) (by simpa using hl)
        simp at this
        rw [List.length_cons, this] at h'; cases h'

end GeckoModel.Wire
