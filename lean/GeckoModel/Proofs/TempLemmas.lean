/-
Helper lemmas for C14: truncation toward zero over core `Rat`, closed forms of the generated conversions.
Core Lean only.
-/
import GeckoModel.Model.Temp

namespace GeckoModel.TempLemmas
open GeckoModel GeckoModel.Generated GeckoModel.Temp

theorem truncZ_natCast (n : Nat) : truncZ (n : Rat) = n := by
  unfold truncZ
  have h : (0 : Rat) ≤ (n : Rat) := Rat.natCast_nonneg
  rw [if_pos h, ← Rat.intCast_natCast, Rat.floor_intCast]

/-- truncation moves a number by less than one, in either direction -/
theorem truncZ_bounds (x : Rat) : x - 1 < (truncZ x : Rat) ∧ (truncZ x : Rat) < x + 1 := by
  unfold truncZ
  split
  · have h1 := Rat.floor_le x
    have h2 := Rat.lt_floor_add_one x
    rw [Rat.intCast_add] at h2
    constructor <;> grind
  · have h1 := Rat.floor_le (-x)
    have h2 := Rat.lt_floor_add_one (-x)
    rw [Rat.intCast_add] at h2
    rw [Rat.intCast_neg]
    constructor <;> grind

/-- on non-negative numbers truncation is the floor -/
theorem truncZ_nonneg {x : Rat} (h : 0 ≤ x) : 0 ≤ truncZ x ∧ (truncZ x : Rat) ≤ x ∧ x < (truncZ x : Rat) + 1 := by
  unfold truncZ
  rw [if_pos h]
  have h2 := Rat.lt_floor_add_one x
  rw [Rat.intCast_add] at h2
  exact ⟨Rat.le_floor_iff.2 (by simpa using h), Rat.floor_le x, by simpa using h2⟩

theorem truncZ_mono {x y : Rat} (h : x ≤ y) : truncZ x ≤ truncZ y := by
  unfold truncZ
  split <;> split
  · exact Rat.floor_monotone h
  · grind
  · rename_i hx hy
    have : (0:Rat) ≤ -x := by grind
    have h0 : (0 : Int) ≤ (-x).floor := Rat.le_floor_iff.2 (by simpa using this)
    have h1 : (0 : Int) ≤ y.floor := Rat.le_floor_iff.2 (by simpa using hy)
    omega
  · have : -y ≤ -x := by grind
    have := Rat.floor_monotone this
    omega

/-- closed form of the generated read with exact arithmetic -/
theorem read_eq (u : String) (raw : Nat) :
    Temp.read u raw = if u = "C" then (raw : Rat) / 18 else ((raw : Rat) + 320) / 10 := by
  simp only [Temp.read, readRat, tempRead, id]

theorem readRat_eq (u : String) (x : Rat) : readRat u x = if u = "C" then x / 18 else (x + 320) / 10 := by
  simp only [readRat, tempRead, id]

/-- closed form of the generated write with exact arithmetic -/
theorem write_eq (u : String) (t : Rat) : write u t = if u = "C" then truncZ (t * 18) else truncZ (t * 10 - 320) := by
  simp only [write, tempWriteSync, id]

theorem readFl_eq (fl : Rat → Rat) (u : String) (raw : Nat) :
    readFl fl u raw = if u = "C" then fl ((raw : Rat) / 18) else fl (((raw : Rat) + 320) / 10) := by
  simp only [readFl, tempRead]

theorem writeFl_eq (fl : Rat → Rat) (u : String) (t : Rat) :
    writeFl fl u t = if u = "C" then truncZ (fl (fl t * 18)) else truncZ (fl (fl (fl t * 10) - 320)) := by
  simp only [writeFl, tempWriteSync]

theorem absQ_nonneg (x : Rat) : 0 ≤ absQ x := by unfold absQ; split <;> grind

theorem absQ_le {x M : Rat} (h1 : -M ≤ x) (h2 : x ≤ M) : absQ x ≤ M := by unfold absQ; split <;> grind

/-- a relative error bound becomes an absolute one on a bounded range -/
theorem abs_err {fl : Rat → Rat} {ε e0 : Rat} (hr : Rounding fl ε) (he : ε ≤ e0) (h0 : 0 ≤ e0)
    {x M : Rat} (h1 : -M ≤ x) (h2 : x ≤ M) : x - e0 * M ≤ fl x ∧ fl x ≤ x + e0 * M := by
  have ha := absQ_nonneg x
  have hb := absQ_le h1 h2
  have s1 : ε * absQ x ≤ e0 * absQ x := Rat.mul_le_mul_of_nonneg_right he ha
  have s2 : e0 * absQ x ≤ e0 * M := Rat.mul_le_mul_of_nonneg_left hb h0
  have := hr.relErr x
  constructor <;> grind

theorem float_within (fl : Rat → Rat) (ε : Rat) (hr : Rounding fl ε) (hε : ε ≤ eps0) (u : String) (t : Rat)
    (hlo : Temp.read u 0 ≤ t) (hhi : t ≤ Temp.read u 65535) :
    t - step u - 1 / 1000000000 < readRat u (writeFl fl u t) ∧ readRat u (writeFl fl u t) < t + step u + 1 / 1000000000 := by
  rw [read_eq] at hlo hhi
  rw [writeFl_eq, readRat_eq]
  unfold step
  have h0 : (0:Rat) ≤ eps0 := by decide +kernel
  unfold eps0 at hε h0
  by_cases hu : u = "C"
  · simp only [hu, if_true] at hlo hhi ⊢
    have a := abs_err hr hε h0 (x := t) (M := 3641) (by grind) (by grind)
    have c := abs_err hr hε h0 (x := fl t * 18) (M := 65540) (by grind) (by grind)
    have := truncZ_bounds (fl (fl t * 18))
    constructor <;> grind
  · simp only [hu, if_false] at hlo hhi ⊢
    have a := abs_err hr hε h0 (x := t) (M := 6586) (by grind) (by grind)
    have c := abs_err hr hε h0 (x := fl t * 10) (M := 65860) (by grind) (by grind)
    have e := abs_err hr hε h0 (x := fl (fl t * 10) - 320) (M := 65860) (by grind) (by grind)
    have := truncZ_bounds (fl (fl (fl t * 10) - 320))
    constructor <;> grind

theorem float_strict_read (fl : Rat → Rat) (ε : Rat) (hr : Rounding fl ε) (hε : ε ≤ eps0) (u : String) (raw raw' : Nat)
    (hlt : raw < raw') (hw : raw' ≤ 65535) : readFl fl u raw < readFl fl u raw' := by
  rw [readFl_eq, readFl_eq]
  have h0 : (0:Rat) ≤ eps0 := by decide +kernel
  unfold eps0 at hε h0
  have c1 : (raw : Rat) + 1 ≤ (raw' : Rat) := by
    have : ((raw + 1 : Nat) : Rat) ≤ (raw' : Rat) := Rat.natCast_le_natCast.2 hlt
    rwa [Rat.natCast_add] at this
  have c2 : (raw' : Rat) ≤ 65535 := by
    have : (raw' : Rat) ≤ ((65535 : Nat) : Rat) := Rat.natCast_le_natCast.2 hw
    simpa using this
  have c3 : (0 : Rat) ≤ (raw : Rat) := Rat.natCast_nonneg
  split
  · have a := abs_err hr hε h0 (x := (raw : Rat) / 18) (M := 3641) (by grind) (by grind)
    have b := abs_err hr hε h0 (x := (raw' : Rat) / 18) (M := 3641) (by grind) (by grind)
    grind
  · have a := abs_err hr hε h0 (x := ((raw : Rat) + 320) / 10) (M := 6586) (by grind) (by grind)
    have b := abs_err hr hε h0 (x := ((raw' : Rat) + 320) / 10) (M := 6586) (by grind) (by grind)
    grind

end GeckoModel.TempLemmas
