/- C19 helper lemmas and hypotheses packages for the whole-file theorems (writer lines in normal form, the file loop,
   chains of traffic records). -/
import GeckoModel.Proofs.SnapshotTraffic

set_option linter.unusedSimpArgs false
set_option linter.unusedVariables false

namespace GeckoModel.Snapshot

theorem renderVersions_eq (stamp : Text) (h : Header) : renderVersions stamp h = [
    stamp ++ (shellTag ++ (t!"geckolib version " ++ (h.libVersion ++ ['\n']))),
    stamp ++ (shellTag ++ (t!"SpaPackStruct.xml revision " ++ (h.revision ++ ['\n']))),
    stamp ++ (shellTag ++ (t!"intouch version EN " ++ (natToDec h.enB ++ (t!" v" ++ (natToDec h.enMaj ++ ('.' :: (natToDec h.enMin ++ ['\n']))))))),
    stamp ++ (shellTag ++ (t!"intouch version CO " ++ (natToDec h.coB ++ (t!" v" ++ (natToDec h.coMaj ++ ('.' :: (natToDec h.coMin ++ ['\n']))))))),
    stamp ++ (shellTag ++ (t!"Spa pack " ++ (h.pack ++ (' ' :: (natToDec h.confId ++ (t!" v" ++ (natToDec h.confRev ++ ('.' :: (natToDec h.confRel ++ ['\n']))))))))),
    stamp ++ (shellTag ++ (t!"Low level configuration # " ++ (natToDec h.configNumber ++ ['\n']))),
    stamp ++ (shellTag ++ (t!"Config version " ++ (natToDec h.cfg ++ ['\n']))),
    stamp ++ (shellTag ++ (t!"Log version " ++ (natToDec h.log ++ ['\n']))),
    stamp ++ (shellTag ++ (t!"Pack type " ++ (natToDec h.packTypeNo ++ ['\n'])))] := by
  simp [renderVersions, versionMessages, logLine]

/-- header hypotheses: the two free-text fields are digits and dots, the label is one inside which no expression can start -/
structure HeaderOK (h : Header) : Prop where
  lib : h.libVersion.all verChar = true
  rev : h.revision.all verChar = true
  label : LabelOK h.pack

theorem writeSnapshot_eq (s0 s1 s2 s3 s4 s5 s6 s7 s8 s9 s10 : Text) (name : Text) (h : Header) (bs : List Byte) :
    writeSnapshot [s0, s1, s2, s3, s4, s5, s6, s7, s8, s9, s10] name h bs = [
    s0 ++ (shellTag ++ nameTail name),
    s1 ++ (shellTag ++ (t!"geckolib version " ++ (h.libVersion ++ ['\n']))),
    s2 ++ (shellTag ++ (t!"SpaPackStruct.xml revision " ++ (h.revision ++ ['\n']))),
    s3 ++ (shellTag ++ (t!"intouch version EN " ++ (natToDec h.enB ++ (t!" v" ++ (natToDec h.enMaj ++ ('.' :: (natToDec h.enMin ++ ['\n']))))))),
    s4 ++ (shellTag ++ (t!"intouch version CO " ++ (natToDec h.coB ++ (t!" v" ++ (natToDec h.coMaj ++ ('.' :: (natToDec h.coMin ++ ['\n']))))))),
    s5 ++ (shellTag ++ (t!"Spa pack " ++ (h.pack ++ (' ' :: (natToDec h.confId ++ (t!" v" ++ (natToDec h.confRev ++ ('.' :: (natToDec h.confRel ++ ['\n']))))))))),
    s6 ++ (shellTag ++ (t!"Low level configuration # " ++ (natToDec h.configNumber ++ ['\n']))),
    s7 ++ (shellTag ++ (t!"Config version " ++ (natToDec h.cfg ++ ['\n']))),
    s8 ++ (shellTag ++ (t!"Log version " ++ (natToDec h.log ++ ['\n']))),
    s9 ++ (shellTag ++ (t!"Pack type " ++ (natToDec h.packTypeNo ++ ['\n']))),
    s10 ++ (shellTag ++ (renderBlockL bs ++ ['\n']))] := by
  simp [writeSnapshot, versionMessages, logLine, nameTail]

theorem fileLoop_cons (d : List Snap) (s : Snap) (line : Text) (upd : Snap → Snap) (rest : List Text)
    (f : LineFacts line upd) :
    fileLoop { done := d, snap := some s, conn := none } (line :: rest) =
      fileLoop { done := d, snap := some (upd s), conn := none } rest := by
  have := fileStep_line { done := d, snap := some s, conn := none } s rfl rfl line upd f
  simp only [fileLoop, this]

theorem fileLoop_name (line name : Text) (rest : List Text) (f : NameFacts line name) :
    ∃ s', fileLoop {} (line :: rest) = fileLoop { done := [], snap := some s', conn := none } rest ∧
      s'.name = some name ∧ s'.segs = [] := by
  obtain ⟨s', e, n, g⟩ := fileStep_name {} rfl line name f
  exact ⟨s', by simp [fileLoop, e], n, g⟩

/-- one `Received ..` record of a traffic log -/
structure Rec where
  pre : Text
  post : Text
  seg : Seg

def recLine (src dst : List Byte) (r : Rec) : Text := trafficLine r.pre r.post (packet src dst r.seg)

/-- every segment but the last announces a successor -/
def Chained : List Seg → Prop
  | [] => False
  | s :: t => (t = [] → s.next = 0) ∧ (t ≠ [] → s.next ≠ 0 ∧ Chained t)

/-- per-record hypotheses: framing text that cannot be mistaken for `STATV` / `</DATAS>` and does not end with `]`, and a
length that fits the length byte.  (Nothing about the DATA any more: the hypotheses `quotes` (D13) and `noBlockError` went
with the repairs d863da2 and 609eb50.) -/
structure RecOK (src dst : List Byte) (r : Rec) : Prop where
  frame : FrameOK r.pre r.post src dst
  len : r.seg.data.length < 256

theorem parseLines_chain (src dst : List Byte) (recs : List Rec) (hch : Chained (recs.map (·.seg)))
    (hok : ∀ r ∈ recs, RecOK src dst r) (s : Snap) :
    ∃ s', parseLines s (recs.map (recLine src dst)) = .ok s' ∧
      s'.bytes = (s.segs ++ recs.map (·.seg.data)).flatten := by
  induction recs generalizing s with
  | nil => exact absurd hch (by simp [Chained])
  | cons r rs ih =>
    have ok := hok r (by simp)
    obtain ⟨s1, e1, g1, b1⟩ := traffic_parse s r.pre r.post src dst r.seg ok.frame ok.len
    cases rs with
    | nil =>
      simp only [List.map_cons, List.map_nil, Chained] at hch
      refine ⟨s1, ?_, ?_⟩
      · simp only [List.map_cons, List.map_nil, parseLines, recLine, e1]
      · simpa using b1 (hch.1 trivial)
    | cons r2 rs =>
      simp only [List.map_cons, Chained] at hch
      obtain ⟨s2, e2, b2⟩ := ih (by simpa [Chained] using (hch.2 (by simp)).2) (fun x hx => hok x (by simp [hx])) s1
      refine ⟨s2, ?_, ?_⟩
      · simp only [List.map_cons, parseLines, recLine, e1] at e2 ⊢
        exact e2
      · rw [b2, g1]; simp

theorem chainFrom_data (i : Nat) (parts : List (List Byte)) : (chainFrom i parts).map (·.data) = parts := by
  induction parts generalizing i with
  | nil => rfl
  | cons d ds ih =>
    cases ds with
    | nil => rfl
    | cons d' ds => simp only [chainFrom, List.map_cons]; rw [ih (i + 1)]

theorem chainFrom_ne (i : Nat) (d : List Byte) (ds : List (List Byte)) : chainFrom i (d :: ds) ≠ [] := by
  cases ds <;> simp [chainFrom]

theorem chainFrom_chained (i : Nat) (parts : List (List Byte)) (hne : parts ≠ []) (hlen : i + parts.length ≤ 256) :
    Chained (chainFrom i parts) := by
  induction parts generalizing i with
  | nil => exact absurd rfl hne
  | cons d ds ih =>
    cases ds with
    | nil => simp [chainFrom, Chained]
    | cons d' ds =>
      simp only [chainFrom, Chained]
      simp only [List.length_cons] at hlen
      refine ⟨fun e => absurd e (chainFrom_ne _ _ _), fun _ => ⟨?_, ih (i + 1) (by simp) (by simp; omega)⟩⟩
      intro e
      have : (UInt8.ofNat (i + 1)).toNat = 0 := by rw [e]; rfl
      simp at this; omega

end GeckoModel.Snapshot
