/-
Round-trip lemmas for C04, one per message family, and the two instantiations of the packet regex (current / repaired).
Core Lean only.
-/
import GeckoModel.Proofs.WireLemmas
set_option linter.unusedSimpArgs false

namespace GeckoModel.Wire
open GeckoModel.Generated.WireFormats

theorem content_ok {m : Msg} {c : Bytes} (h : m.content = .ok c) : ∃ b, m.body = .ok b ∧ c = m.verb.getD [] ++ b := by
  unfold Msg.content at h
  split at h
  · cases h
  · rename_i b hb
    refine ⟨b, hb, ?_⟩
    split at h <;> cases h <;> simp [*]


/-! ### the packet regex -/

theorem search_of_matchHere (gr : Greed) (ls : Lits) (s : Bytes) (r : Bytes × Bytes × Bytes)
    (h : matchHere gr ls s = some r) : search gr ls s = some r := by
  cases s with
  | nil => simpa [search] using h
  | cons c t => simp [search, h]

theorem group_lazy_here {α : Type} (lit : Bytes) (k : Bytes → Option α) (t : Bytes) (r : α) (h : k t = some r) :
    group false lit k (lit ++ t) = some ([], r) := by
  have hh := here_self lit k t
  rw [h] at hh
  cases hs : lit ++ t with
  | nil => rw [hs] at hh; simp [group, hh]
  | cons c u => rw [hs] at hh; simp [group, hh]

theorem group_greedy_here {α : Type} (lit : Bytes) (k : Bytes → Option α) (l0 : UInt8) (lt : Bytes) (hl : lit = l0 :: lt)
    (t : Bytes) (r : α) (h : k t = some r) (hn : group true lit k (lt ++ t) = none) :
    group true lit k (lit ++ t) = some ([], r) := by
  have hh := here_self lit k t
  rw [h] at hh
  subst hl
  simp at hh hn
  simp [group, hn, hh]

/-- lazy / lazy / greedy: any literals, identifiers free of the first byte of the closing literals, ANY payload -/
theorem matchHere_lazy (ls : Lits) (h3 : ls.2.2.2 ≠ []) (src dst payload : Bytes)
    (hs : allClash ls.2.1 src = true) (hd : allClash ls.2.2.1 dst = true) :
    matchHere (false, false, true) ls (ls.1 ++ (src ++ (ls.2.1 ++ (dst ++ (ls.2.2.1 ++ (payload ++ ls.2.2.2))))))
      = some (src, dst, payload) := by
  obtain ⟨l0, l1, l2, l3⟩ := ls
  simp only at h3 hs hd ⊢
  have e3 := group_greedy_last l3 h3 payload
  have e2 : group false l2 (fun s3 => group true l3 (fun _ => some ()) s3) (dst ++ (l2 ++ (payload ++ l3)))
      = some (dst, payload, ()) := by
    rw [group_skip _ _ _ _ _ hd, group_lazy_here _ _ _ _ e3]; simp [pre]
  have e1 : group false l1 (fun s2 => group false l2 (fun s3 => group true l3 (fun _ => some ()) s3) s2)
      (src ++ (l1 ++ (dst ++ (l2 ++ (payload ++ l3))))) = some (src, dst, payload, ()) := by
    rw [group_skip _ _ _ _ _ hs, group_lazy_here _ _ _ _ e2]; simp [pre]
  have hp : l0.isPrefixOf (l0 ++ (src ++ (l1 ++ (dst ++ (l2 ++ (payload ++ l3)))))) = true :=
    List.isPrefixOf_iff_prefix.2 (List.prefix_append _ _)
  simp [matchHere, hp, e1]

/-- greedy / greedy / greedy: needs the payload free of the third literal, and the literals not to overlap -/
theorem matchHere_greedy (ls : Lits) (a1 : UInt8) (t1 : Bytes) (a2 : UInt8) (t2 : Bytes)
    (h1 : ls.2.1 = a1 :: t1) (h2 : ls.2.2.1 = a2 :: t2) (h3 : ls.2.2.2 ≠ [])
    (c11 : allClash ls.2.1 t1 = true) (c12 : allClash ls.2.1 ls.2.2.1 = true) (c22 : allClash ls.2.2.1 t2 = true)
    (src dst payload : Bytes)
    (hs : allClash ls.2.1 src = true) (hd1 : allClash ls.2.1 dst = true) (hd : allClash ls.2.2.1 dst = true)
    (hp : occurs ls.2.2.1 (payload ++ ls.2.2.2) = false) :
    matchHere (true, true, true) ls (ls.1 ++ (src ++ (ls.2.1 ++ (dst ++ (ls.2.2.1 ++ (payload ++ ls.2.2.2))))))
      = some (src, dst, payload) := by
  obtain ⟨l0, l1, l2, l3⟩ := ls
  simp only at h1 h2 h3 c11 c12 c22 hs hd1 hd hp ⊢
  have e3 := group_greedy_last l3 h3 payload
  let k2 : Bytes → Option (Bytes × Unit) := fun s3 => group true l3 (fun _ => some ()) s3
  let k1 : Bytes → Option (Bytes × Bytes × Unit) := fun s2 => group true l2 k2 s2
  have n2 : group true l2 k2 (t2 ++ (payload ++ l3)) = none := by
    rw [group_skip _ _ _ _ _ c22, group_none_of_not_occurs _ _ _ _ hp]; rfl
  have e2 : group true l2 k2 (dst ++ (l2 ++ (payload ++ l3))) = some (dst, payload, ()) := by
    rw [group_skip _ _ _ _ _ hd, group_greedy_here l2 k2 a2 t2 h2 _ _ e3 n2]; simp [pre]
  have n1 : group true l1 k1 (t1 ++ (dst ++ (l2 ++ (payload ++ l3)))) = none := by
    rw [group_skip _ _ _ _ _ c11, group_skip _ _ _ _ _ hd1, group_skip _ _ _ _ _ c12]
    rw [group_none_of_k]
    · rfl
    · intro i
      exact group_none_of_not_occurs _ _ _ _ (occurs_drop _ _ _ hp)
  have e1 : group true l1 k1 (src ++ (l1 ++ (dst ++ (l2 ++ (payload ++ l3))))) = some (src, dst, payload, ()) := by
    rw [group_skip _ _ _ _ _ hs, group_greedy_here l1 k1 a1 t1 h1 _ _ e2 n1]; simp [pre]
  have hp0 : l0.isPrefixOf (l0 ++ (src ++ (l1 ++ (dst ++ (l2 ++ (payload ++ l3)))))) = true :=
    List.isPrefixOf_iff_prefix.2 (List.prefix_append _ _)
  simp only [matchHere, hp0, if_true, List.drop_left']
  show (match group true l1 k1 (src ++ (l1 ++ (dst ++ (l2 ++ (payload ++ l3))))) with
    | some (g1, g2, g3, _) => some (g1, g2, g3) | none => none) = _
  rw [e1]

/-! ### STATP records -/

theorem slice_mid (pre b post : Bytes) (i j : Nat) (hi : pre.length = i) (hj : i + b.length = j) :
    slice i j (pre ++ (b ++ post)) = b := by
  subst hi hj
  simp [slice, List.take_append, List.drop_append]

theorem slice_tail (pre b : Bytes) (i j : Nat) (hi : pre.length = i) (hj : i + b.length ≤ j) :
    slice i j (pre ++ b) = b := by
  subst hi
  unfold slice
  rw [List.take_of_length_le (by simp; omega)]
  simp

theorem statp_records (f : Fmt) (hsz : f.size = 2) : ∀ (changes : List (Int × Bytes)) (pre cs : Bytes) (i : Nat),
    pre.length = 1 + i * 4 → packChanges f changes = .ok cs → StatpOK changes = true →
    statpRecords f (pre ++ cs) i changes.length = .ok changes := by
  intro changes
  induction changes with
  | nil => intro pre cs i _ _ _; simp [statpRecords]
  | cons pd rest ih =>
    intro pre cs i hpre hp hok
    obtain ⟨p, d⟩ := pd
    simp only [packChanges] at hp
    split at hp
    · cases hp
    · rename_i b hb
      split at hp
      · cases hp
      · rename_i br hbr
        cases hp
        have lb : b.length = 2 := by rw [pack_length hb, hsz]
        have ub := unpack_pack hb
        have s1 : slice (1 + i * 4) (3 + i * 4) (pre ++ (b ++ d ++ br)) = b := by
          rw [List.append_assoc b d br]; exact slice_mid pre b (d ++ br) _ _ hpre (by omega)
        simp only [List.length_cons, statpRecords, s1, unpackFirst, ub]
        cases rest with
        | nil =>
          simp [packChanges] at hbr; subst hbr
          simp [StatpOK] at hok
          have s2 : slice (3 + i * 4) (5 + i * 4) (pre ++ (b ++ d)) = d := by
            have : pre ++ (b ++ d) = (pre ++ b) ++ d := by simp
            rw [this]; exact slice_tail (pre ++ b) d _ _ (by simp; omega) (by omega)
          simp [statpRecords, s2]
        | cons q rest' =>
          simp [StatpOK] at hok
          have e : pre ++ (b ++ d ++ br) = (pre ++ b ++ d) ++ br := by simp
          have hrec := ih (pre ++ b ++ d) br (i + 1) (by simp; omega) hbr hok.2
          rw [e, hrec]
          have s2 : slice (3 + i * 4) (5 + i * 4) (pre ++ (b ++ (d ++ br))) = d := by
            rw [← List.append_assoc pre b]; exact slice_mid (pre ++ b) d br _ _ (by simp; omega) (by omega)
          simp [s2]



/-! ### reminders -/

theorem length_four {α : Type} (l : List α) (h : l.length = 4) : ∃ a b c d, l = [a, b, c, d] := by
  match l, h with
  | [a, b, c, d], _ => exact ⟨a, b, c, d, rfl⟩

theorem reminder_records (f : Fmt) (hsz : f.size = 4) : ∀ (rs : List (Int × Int)) (bs : Bytes),
    packReminders f rs = .ok bs → (∀ td ∈ rs, reminderTypeValues.contains td.1 = true) →
    reminderRecords f bs = .ok rs := by
  intro rs
  induction rs with
  | nil => intro bs h _; simp [packReminders] at h; subst h; simp [reminderRecords]
  | cons td rest ih =>
    intro bs h hall
    obtain ⟨t, d⟩ := td
    simp only [packReminders] at h
    split at h
    · cases h
    · rename_i b hb
      split at h
      · cases h
      · rename_i br hbr
        cases h
        have lb : b.length = 4 := by rw [pack_length hb, hsz]
        obtain ⟨x0, x1, x2, x3, rfl⟩ := length_four b lb
        have ub := unpack_pack hb
        have ht := hall (t, d) (by simp)
        have hr := ih br hbr (fun td h => hall td (by simp [h]))
        simp at ht
        simp [reminderRecords, unpack3, ub, hr, ht]

/-! ### FILES text -/

theorem not_mem_pad2 (x : UInt8) (hx : isDigit x = false) (n : Nat) : x ∉ pad2 n := by
  intro h
  have := pad2_all_digit n x h
  rw [hx] at this; cases this

theorem goodName_not_mem {p : Bytes} (h : GoodName p = true) : 44 ∉ p ∧ 95 ∉ p ∧ 46 ∉ p := by
  simp [GoodName, List.all_eq_true] at h
  refine ⟨fun hm => ?_, fun hm => ?_, fun hm => ?_⟩
  · exact (h _ hm).1.1 rfl
  · exact (h _ hm).1.2 rfl
  · exact (h _ hm).2 rfl

theorem files_roundtrip (p : Bytes) (c l : Nat) (hp : GoodName p = true) (bs : Bytes)
    (h : (Msg.configResponse p c l).content = .ok bs) :
    decode .config bs = .ok (Msg.configResponse p c l).fields := by
  obtain ⟨b, hb, rfl⟩ := content_ok h
  simp only [Msg.body] at hb
  cases hb
  obtain ⟨hc, hu, hd⟩ := goodName_not_mem hp
  have dc : ∀ n, (44 : UInt8) ∉ pad2 n := not_mem_pad2 44 (by decide)
  have du : ∀ n, (95 : UInt8) ∉ pad2 n := not_mem_pad2 95 (by decide)
  have dd : ∀ n, (46 : UInt8) ∉ pad2 n := not_mem_pad2 46 (by decide)
  -- the text after "FILES,"
  have e0 : (Msg.verb (Msg.configResponse p c l)).getD [] ++
      ([44] ++ p ++ [95, 67] ++ pad2 c ++ [46, 120, 109, 108, 44] ++ p ++ [95, 83] ++ pad2 l ++ [46, 120, 109, 108])
      = FILES_VERB ++ [44] ++ ((p ++ [95, 67] ++ pad2 c) ++ (xmlSuffix ++ (([44] ++ p ++ [95, 83] ++ pad2 l) ++ (xmlSuffix ++ [])))) := by
    simp [Msg.verb, xmlSuffix]
  rw [e0]
  have hA : (46 : UInt8) ∉ p ++ [95, 67] ++ pad2 c := by simp [hd, dd]
  have hB : (46 : UInt8) ∉ [44] ++ p ++ [95, 83] ++ pad2 l := by simp [hd, dd]
  have r1 : removeAll xmlSuffix ((p ++ [95, 67] ++ pad2 c) ++ (xmlSuffix ++ (([44] ++ p ++ [95, 83] ++ pad2 l) ++ (xmlSuffix ++ []))))
      = (p ++ [95, 67] ++ pad2 c) ++ ([44] ++ p ++ [95, 83] ++ pad2 l) := by
    unfold removeAll
    rw [removeAllAux_skip xmlSuffix 46 [120, 109, 108] rfl _ _ hA, removeAllAux_hit xmlSuffix 46 [120, 109, 108] rfl,
      removeAllAux_skip xmlSuffix 46 [120, 109, 108] rfl _ _ hB, removeAllAux_hit xmlSuffix 46 [120, 109, 108] rfl]
    simp [removeAllAux]
  have hA' : (44 : UInt8) ∉ p ++ [95, 67] ++ pad2 c := by simp [hc, dc]
  have hB' : (44 : UInt8) ∉ p ++ [95, 83] ++ pad2 l := by simp [hc, dc]
  have r2 : splitOn 44 ((p ++ [95, 67] ++ pad2 c) ++ ([44] ++ p ++ [95, 83] ++ pad2 l))
      = (p ++ [95, 67] ++ pad2 c, [p ++ [95, 83] ++ pad2 l]) := by
    have : [44] ++ p ++ [95, 83] ++ pad2 l = 44 :: (p ++ [95, 83] ++ pad2 l) := by simp
    rw [this, splitOn_skip 44 _ _ hA', splitOn_sep, splitOn_none 44 _ hB']
    simp
  have r3 : ∀ (x : UInt8) (n : Nat), x ≠ 95 → splitOn 95 (p ++ [95, x] ++ pad2 n) = (p, [[x] ++ pad2 n]) := by
    intro x n hx
    have : p ++ [95, x] ++ pad2 n = p ++ (95 :: ([x] ++ pad2 n)) := by simp
    rw [this, splitOn_skip 95 _ _ hu, splitOn_sep, splitOn_none 95 _ (by simp [du, Ne.symm hx])]
    simp
  have hv : startsWith (FILES_VERB ++ [44] ++ ((p ++ [95, 67] ++ pad2 c) ++ (xmlSuffix ++ (([44] ++ p ++ [95, 83] ++ pad2 l) ++ (xmlSuffix ++ []))))) SFILE_VERB = false := by
    simp [startsWith, FILES_VERB, SFILE_VERB, List.isPrefixOf]
  have hdrop : (FILES_VERB ++ [44] ++ ((p ++ [95, 67] ++ pad2 c) ++ (xmlSuffix ++ (([44] ++ p ++ [95, 83] ++ pad2 l) ++ (xmlSuffix ++ []))))).drop 6
      = (p ++ [95, 67] ++ pad2 c) ++ (xmlSuffix ++ (([44] ++ p ++ [95, 83] ++ pad2 l) ++ (xmlSuffix ++ []))) := by
    simp [FILES_VERB]
  simp only [decode, decodeConfig, hv, hdrop, r1, r2, r3 67 c (by decide), r3 83 l (by decide)]
  simp [versionOfParts, parseInt_pad2, Msg.fields]

/-! ### hello -/

theorem sliceNegEnd_frame (a c z : Bytes) (ha : a.length = 7) (hz : z.length = 8) : sliceNegEnd 7 8 (a ++ c ++ z) = c := by
  unfold sliceNegEnd
  have : (a ++ c ++ z).length - 8 = (a ++ c).length := by simp [hz]; omega
  rw [this, List.take_left' rfl, ← ha, List.drop_left']
  rfl

theorem splitFirst_skip (sep : UInt8) : ∀ (x t : Bytes), sep ∉ x → splitFirst sep (x ++ sep :: t) = (x, some t) := by
  intro x
  induction x with
  | nil => intro t _; simp [splitFirst]
  | cons c x ih =>
    intro t h
    simp at h
    have hc : (c == sep) = false := by simp; exact fun e => h.1 e.symm
    simp [splitFirst, hc, ih t h.2]

theorem hello_broadcast_rt (mx : Option Nat) : decodeHelloWith mx (helloFrame helloBroadcastContent) = .ok (.hello true none none none) := by
  unfold decodeHelloWith helloFrame
  rw [sliceNegEnd_frame _ _ _ (by decide) (by decide)]
  simp

theorem hello_client_rt (mx : Option Nat) (id : Bytes) (h : helloClientPrefixes.any (startsWith id) = true) :
    decodeHelloWith mx (helloFrame id) = .ok (.hello false (some id) none none) := by
  unfold decodeHelloWith helloFrame
  rw [sliceNegEnd_frame _ _ _ (by decide) (by decide)]
  have hne : (id == helloBroadcastContent) = false := by
    simp [helloClientPrefixes, startsWith] at h
    rcases h with ⟨t, rfl⟩ | ⟨t, rfl⟩ <;> simp [helloBroadcastContent]
  simp [hne, h]

theorem hello_content_not_client (id name : Bytes) (h : helloClientPrefixes.any (startsWith id) = false) :
    helloClientPrefixes.any (startsWith (id ++ [helloSep] ++ name)) = false := by
  simp only [helloClientPrefixes, List.any_cons, List.any_nil, Bool.or_false, Bool.or_eq_false_iff, startsWith] at h ⊢
  constructor
  · cases hp : List.isPrefixOf [73, 79, 83] (id ++ [helloSep] ++ name) with
    | false => rfl
    | true =>
      rw [List.append_assoc] at hp
      rcases isPrefixOf_append_cases _ _ _ hp with h' | ⟨hl, h'⟩
      · rw [h.1] at h'; cases h'
      · simp at hl
        have : id.length = 0 ∨ id.length = 1 ∨ id.length = 2 := by omega
        rcases this with e | e | e <;> rw [e] at h' <;> simp [helloSep, List.isPrefixOf] at h'
  · cases hp : List.isPrefixOf [65, 78, 68] (id ++ [helloSep] ++ name) with
    | false => rfl
    | true =>
      rw [List.append_assoc] at hp
      rcases isPrefixOf_append_cases _ _ _ hp with h' | ⟨hl, h'⟩
      · rw [h.2] at h'; cases h'
      · simp at hl
        have : id.length = 0 ∨ id.length = 1 ∨ id.length = 2 := by omega
        rcases this with e | e | e <;> rw [e] at h' <;> simp [helloSep, List.isPrefixOf] at h'

theorem hello_content_not_broadcast (id name : Bytes) : (id ++ [helloSep] ++ name == helloBroadcastContent) = false := by
  cases id with
  | nil => simp [helloSep, helloBroadcastContent]
  | cons a t => cases t <;> simp [helloSep, helloBroadcastContent]

/-- with `split(b"|", 1)`: any name -/
theorem hello_response_rt_split1 (n : Nat) (id name : Bytes) (hid : helloSep ∉ id) (h : helloClientPrefixes.any (startsWith id) = false) :
    decodeHelloWith (some n) (helloFrame (id ++ [helloSep] ++ name)) = .ok (.hello false none (some id) (some name)) := by
  unfold decodeHelloWith helloFrame
  rw [sliceNegEnd_frame _ _ _ (by decide) (by decide)]
  simp only [hello_content_not_broadcast, hello_content_not_client id name h]
  have : id ++ [helloSep] ++ name = id ++ helloSep :: name := by simp
  rw [this, splitFirst_skip _ _ _ hid]
  simp

/-- with `split(b"|")`: the name must not contain the separator -/
theorem hello_response_rt_split (id name : Bytes) (hid : helloSep ∉ id) (hname : helloSep ∉ name)
    (h : helloClientPrefixes.any (startsWith id) = false) :
    decodeHelloWith none (helloFrame (id ++ [helloSep] ++ name)) = .ok (.hello false none (some id) (some name)) := by
  unfold decodeHelloWith helloFrame
  rw [sliceNegEnd_frame _ _ _ (by decide) (by decide)]
  simp only [hello_content_not_broadcast, hello_content_not_client id name h]
  have : id ++ [helloSep] ++ name = id ++ helloSep :: name := by simp
  rw [this, splitOn_skip _ _ _ hid, splitOn_sep, splitOn_none _ _ hname]
  simp

end GeckoModel.Wire
