/-
One iteration of the engine seen from a single handler `h` that no callback touches (C20: retry_exact, answered_removed).
-/
import GeckoModel.Proofs.ThreadedHandler

namespace GeckoModel.Threaded
open GeckoModel.Generated

variable {σ : Type}

/-! ### phase 2 without assumptions on the other handlers -/

theorem loopAll_gen (P : Prog σ) : ∀ (l : List HId) (e : Engine σ),
    (loopAll P l e).1.clock = e.clock ∧ (loopAll P l e).1.handlers = e.handlers
  | [], e => ⟨rfl, rfl⟩
  | g :: rest, e => by
    obtain ⟨hc, hh, _, _⟩ := handlerLoop_misc P g e
    unfold loopAll
    by_cases hd : (handlerLoop P g e).2.2 = true
    · simp only [hd, if_true]; exact ⟨hc, hh⟩
    · rw [if_neg hd]
      obtain ⟨c2, h2⟩ := loopAll_gen P rest (handlerLoop P g e).1
      exact ⟨by simp only; rw [c2, hc], by simp only; rw [h2, hh]⟩

/-- a handler that is not registered is not looped -/
theorem loopAll_notin (P : Prog σ) (h : HId) : ∀ (l : List HId) (e : Engine σ), h ∉ l →
    (loopAll P l e).1.hs h = e.hs h ∧ enqsOf h (loopAll P l e).2 = []
  | [], e, _ => ⟨rfl, rfl⟩
  | g :: rest, e, hn => by
    have hg : h ≠ g := fun x => hn (by simp [x])
    have hr : h ∉ rest := fun x => hn (by simp [x])
    obtain ⟨s1, s2⟩ := handlerLoop_other P h g hg e
    unfold loopAll
    by_cases hd : (handlerLoop P g e).2.2 = true
    · simp only [hd, if_true]
      exact ⟨s1, by rw [enqsOf_append, s2]; rfl⟩
    · rw [if_neg hd]
      obtain ⟨i1, i2⟩ := loopAll_notin P h rest (handlerLoop P g e).1 hr
      exact ⟨by simp only; rw [i1, s1], by simp only; rw [enqsOf_append, s2, i2]; rfl⟩

/-- a handler whose timeout was reset at the current clock is left alone by the loop phase (whatever else happens there) -/
theorem loopAll_fresh (P : Prog σ) (h : HId) : ∀ (l : List HId) (e : Engine σ), (e.hs h).start = e.clock →
    (loopAll P l e).1.hs h = e.hs h ∧ enqsOf h (loopAll P l e).2 = []
  | [], e, _ => ⟨rfl, rfl⟩
  | g :: rest, e, hs => by
    have hstep : (handlerLoop P g e).1.hs h = e.hs h ∧ enqsOf h (handlerLoop P g e).2.1 = [] := by
      by_cases hg : h = g
      · subst hg
        have : timedOut P h e = false := by
          have : ¬ expired (P.spec h).timeout e.clock (e.hs h) := by
            unfold expired; rw [hs]; simp
          cases ht : timedOut P h e with
          | false => rfl
          | true => exact absurd ((timedOut_iff P h e).1 ht) this
        unfold handlerLoop
        simp [this, enqsOf, enqs]
      · exact handlerLoop_other P h g hg e
    obtain ⟨hc, _, _, _⟩ := handlerLoop_misc P g e
    unfold loopAll
    by_cases hd : (handlerLoop P g e).2.2 = true
    · simp only [hd, if_true]
      exact ⟨hstep.1, by rw [enqsOf_append, hstep.2]; rfl⟩
    · rw [if_neg hd]
      obtain ⟨i1, i2⟩ := loopAll_fresh P h rest (handlerLoop P g e).1 (by rw [hstep.1, hc]; exact hs)
      exact ⟨by simp only; rw [i1, hstep.1], by simp only; rw [enqsOf_append, hstep.2, i2]; rfl⟩

/-! ### phases 0 and 1 seen from `h` -/

theorem afterSend_facts (P : Prog σ) (h : HId) (e : Engine σ) (env : Env) :
    (afterSend P e env).1.clock = e.clock + env.dtPre ∧ (afterSend P e env).1.handlers = e.handlers ∧
    ((afterSend P e env).1.hs h = e.hs h ∨ ∃ d, (h, some d) ∈ e.sendq ∧ (afterSend P e env).1.hs h = { e.hs h with lastDest := some d }) ∧
    (∀ x ∈ (afterSend P e env).1.sendq, x ∈ e.sendq) ∧ enqs (afterSend P e env).2 = [] := by
  unfold afterSend
  obtain ⟨a, b, c⟩ := processSend_h P h { e with clock := e.clock + env.dtPre }
  exact ⟨processSend_clock P _, processSend_handlers P _, a, b, c⟩

/-- the receive phase under `Quiet`: `c` = "every datagram of this iteration is unanswered by `h`" -/
theorem afterRecv_q (P : Prog σ) (h : HId) (hq : Quiet P h) (e : Engine σ) (env : Env) :
    QFrame h (∀ d, env.dgram = some d → Unanswered P h d)
      { (afterSend P e env).1 with clock := (afterSend P e env).1.clock + env.dtRecv } (afterRecv P e env).1 (afterRecv P e env).2 ∧
    Frame { (afterSend P e env).1 with clock := (afterSend P e env).1.clock + env.dtRecv } (afterRecv P e env).1 (afterRecv P e env).2 := by
  unfold afterRecv
  cases hd : env.dgram with
  | none => exact ⟨QFrame.refl h _ _, Frame.refl _⟩
  | some d =>
    exact ⟨(dispatch_q P h hq d _).weaken (fun x => x d rfl), dispatch_frame P d _⟩

theorem mem_enqs_of (h : HId) (o : List Out) (x : HId × Option Dest) (hx : x ∈ enqs o) (hh : x.1 = h) : x ∈ enqsOf h o := by
  unfold enqsOf
  simp [hx, hh]

theorem loopFuncPhase_facts (P : Prog σ) (e : Engine σ) :
    (loopFuncPhase P e).1.handlers = e.handlers ∧ (loopFuncPhase P e).1.hs = e.hs ∧ (loopFuncPhase P e).1.sendq = e.sendq ∧
    (loopFuncPhase P e).1.clock = e.clock ∧ enqs (loopFuncPhase P e).2 = [] := by
  unfold loopFuncPhase
  simp [loopFuncGuarded_eq, enqs]

/-! ### the whole iteration -/

/-- one iteration, seen from an unanswered handler `h` with the default on_retry_failed that no callback touches: with `s` = its
state after the send phase (only `last_destination` may have been set, from one of its own queue entries) and `c` the clock of the
loop phase, its state is `tick c s` if it is registered, it is registered afterwards iff it was and `tick` did not flag it, and the
only `queue_send` for it is the one `tick` makes -/
theorem iter_summary (P : Prog σ) (h : HId) (hq : Quiet P h) (hf : (P.spec h).onFail = .remove)
    (e : Engine σ) (env : Env) (ha : e.alive = true) (hun : ∀ d, env.dgram = some d → Unanswered P h d) :
    ∃ s : HState,
      (s = e.hs h ∨ ∃ d, (h, some d) ∈ e.sendq ∧ s = { e.hs h with lastDest := some d }) ∧
      (engineIter P e env).1.alive = true ∧
      (engineIter P e env).1.clock = e.clock + env.dtPre + env.dtRecv ∧
      (engineIter P e env).1.hs h =
        (if h ∈ e.handlers then tick (P.spec h).timeout (e.clock + env.dtPre + env.dtRecv) s else s) ∧
      enqsOf h (engineIter P e env).2 =
        (if h ∈ e.handlers then tickEnq h (P.spec h).timeout (e.clock + env.dtPre + env.dtRecv) s else []) ∧
      (h ∈ (engineIter P e env).1.handlers ↔ h ∈ e.handlers ∧ ((engineIter P e env).1.hs h).remove = false) ∧
      (∀ x ∈ (engineIter P e env).1.sendq, x ∈ e.sendq ∨ x.1 ≠ h ∨
        (h ∈ e.handlers ∧ x ∈ tickEnq h (P.spec h).timeout (e.clock + env.dtPre + env.dtRecv) s)) := by
  obtain ⟨c0, h0, s0, q0, n0⟩ := afterSend_facts P h e env
  obtain ⟨qf, fr⟩ := afterRecv_q P h hq e env
  have c1 : (afterRecv P e env).1.clock = e.clock + env.dtPre + env.dtRecv := by rw [qf.clock_eq]; simp only; rw [c0]
  have s1 : (afterRecv P e env).1.hs h = (afterSend P e env).1.hs h := qf.same hun
  have m1 : h ∈ (afterRecv P e env).1.handlers ↔ h ∈ e.handlers := by rw [qf.mem]; simp only; rw [h0]
  obtain ⟨c2, h2, a2⟩ := loopAll_misc P (afterRecv P e env).1.handlers (afterRecv P e env).1
  obtain ⟨s2, n2⟩ := loopAll_h P h hf (afterRecv P e env).1.handlers (afterRecv P e env).1
  have fr2 := loopAll_frame P (afterRecv P e env).1.handlers (afterRecv P e env).1
  have hal : (afterLoop P e env).1.alive = true := by unfold afterLoop; rw [a2, afterRecv_alive]; exact ha
  rw [engineIter_unfold P e env ha]
  have hlf : (loopFuncPhase P (cleanup (afterLoop P e env).1)) =
      ({ cleanup (afterLoop P e env).1 with client := (P.loopFunc (cleanup (afterLoop P e env).1).client).1 }, []) := by
    unfold loopFuncPhase; simp [loopFuncGuarded_eq]
  rw [hlf]
  refine ⟨(afterSend P e env).1.hs h, s0, hal, ?_, ?_, ?_, ?_, ?_⟩
  · show (afterLoop P e env).1.clock = _
    unfold afterLoop; rw [c2, c1]
  · show (afterLoop P e env).1.hs h = _
    unfold afterLoop; rw [s2, s1, c1]; simp only [m1]
  · rw [enqsOf_append, enqsOf_append, enqsOf_append]
    have : enqsOf h (afterSend P e env).2 = [] := by unfold enqsOf; rw [n0]; rfl
    rw [this, qf.noEnq]
    show [] ++ ([] ++ (enqsOf h (afterLoop P e env).2 ++ [])) = _
    unfold afterLoop; rw [n2, s1, c1]; simp only [m1]; simp
  · show h ∈ (cleanup (afterLoop P e env).1).handlers ↔ _
    unfold cleanup
    simp only [List.mem_filter]
    have : (afterLoop P e env).1.handlers = (afterRecv P e env).1.handlers := by unfold afterLoop; exact h2
    rw [this, m1]
    simp
  · intro x hx
    have hx' : x ∈ (afterLoop P e env).1.sendq := hx
    unfold afterLoop at hx'
    rw [fr2.sendq_eq, fr.sendq_eq] at hx'
    simp only [List.mem_append] at hx'
    rcases hx' with (hx' | hx') | hx'
    · left; exact q0 x hx'
    · by_cases hh : x.1 = h
      · have := mem_enqs_of h _ x hx' hh
        rw [qf.noEnq] at this; cases this
      · right; left; exact hh
    · by_cases hh : x.1 = h
      · have := mem_enqs_of h _ x hx' hh
        rw [n2, s1, c1] at this
        by_cases hm : h ∈ e.handlers
        · right; right; exact ⟨hm, by simpa [m1, hm] using this⟩
        · simp [m1, hm] at this
      · right; left; exact hh

/-! ### answered -/

/-- the reply reached `h` in this dispatch phase: flagged for removal, timeout reset at the current clock -/
def Answered (h : HId) (e : Engine σ) : Prop := (e.hs h).remove = true ∧ (e.hs h).start = e.clock

theorem Answered.of_q {h : HId} {c : Prop} {e e' : Engine σ} {o : List Out} (hq : QFrame h c e e' o) (ha : Answered h e) :
    Answered h e' := by
  refine ⟨hq.remove ha.1, ?_⟩
  rw [hq.clock_eq]
  rcases hq.start with s | s
  · rw [s]; exact ha.2
  · exact s

/-- the level at which `h` is the first match and its `handle` marks it (the shape of every reply handler of the library:
`handle` parses and sets `_should_remove_handler`, everything else happens in `on_handled`) -/
theorem answered_at_level (P : Prog σ) (h : HId) (hq : Quiet P h) (ci : Prop) (inner : Inner σ)
    (hin : ∀ f, inner = some f → ∀ e, QFrame h ci e (f e).1 (f e).2)
    (d : Dgram) (e : Engine σ) (hfirst : e.handlers.find? (fun g => (P.spec g).canHandle d) = some h)
    (hacts : ((P.spec h).handle e.client d).acts = [.markRemove]) (hnr : ((P.spec h).handle e.client d).raises = false) :
    Answered h (dispatchWith P inner d e).1 := by
  unfold dispatchWith
  rw [hfirst]
  unfold invoke
  simp only [hacts, hnr, runActs, actStep, Bool.false_eq_true, if_false, Bool.or_self]
  refine Answered.of_q (runActs_q P h h ci inner hin _ ((hq h _ d).2) _) ?_
  unfold Answered
  simp only [upd_self]
  exact ⟨trivial, trivial⟩

/-- ... or one `<PACKT>` level above it: the first match unwraps, and the inner dispatch answers `h` -/
theorem answered_through_packet (P : Prog σ) (h : HId) (hq : Quiet P h) (i : Dgram) (e : Engine σ) (g : HId)
    (hfirst : e.handlers.find? (fun g => (P.spec g).canHandle (.pkt i)) = some g)
    (hacts : ((P.spec g).handle e.client (.pkt i)).acts = [.unwrap]) (hnr : ((P.spec g).handle e.client (.pkt i)).raises = false)
    (hinner : Answered h (dispatch P i { e with client := ((P.spec g).handle e.client (.pkt i)).client }).1) :
    Answered h (dispatch P (.pkt i) e).1 := by
  have hin : ∀ f, some (dispatch P i) = some f → ∀ e, QFrame h (Unanswered P h i) e (f e).1 (f e).2 :=
    fun f hf e' => by cases hf; exact dispatch_q P h hq i e'
  unfold dispatch dispatchWith
  rw [hfirst]
  unfold invoke
  simp only [hacts, hnr, runActs, actStep, Bool.false_eq_true, if_false, Bool.or_self]
  refine Answered.of_q (runActs_q P h g (Unanswered P h i) (some (dispatch P i)) hin _ ((hq g _ (.pkt i)).2) _) ?_
  unfold Answered
  by_cases hg : h = g
  · subst hg; simp only [upd_self]; exact ⟨hinner.1, trivial⟩
  · simp only; rw [upd_other _ _ _ _ hg]; exact hinner

/-! ### a handler that is not registered stays out (nobody re-registers it) -/

def Step.mentions (h : HId) : Step → Bool
  | .iter _ => false
  | .queueSend g _ => g == h
  | .register g => g == h
  | .create g => g == h

theorem iter_gone (P : Prog σ) (h : HId) (hq : Quiet P h) (e : Engine σ) (env : Env) (hn : h ∉ e.handlers) :
    h ∉ (engineIter P e env).1.handlers ∧ enqsOf h (engineIter P e env).2 = [] := by
  cases ha : e.alive with
  | false => unfold engineIter; simp [ha, hn, enqsOf, enqs]
  | true =>
    obtain ⟨_, h0, _, _, n0⟩ := afterSend_facts P h e env
    obtain ⟨qf, _⟩ := afterRecv_q P h hq e env
    have m1 : h ∉ (afterRecv P e env).1.handlers := by rw [qf.mem]; simp only; rw [h0]; exact hn
    obtain ⟨_, h2⟩ := loopAll_gen P (afterRecv P e env).1.handlers (afterRecv P e env).1
    obtain ⟨_, n2⟩ := loopAll_notin P h (afterRecv P e env).1.handlers (afterRecv P e env).1 m1
    have e0 : enqsOf h (afterSend P e env).2 = [] := by unfold enqsOf; rw [n0]; rfl
    have m2 : h ∉ (afterLoop P e env).1.handlers := by unfold afterLoop; rw [h2]; exact m1
    have n2' : enqsOf h (afterLoop P e env).2 = [] := n2
    rw [engineIter_unfold P e env ha]
    refine ⟨?_, ?_⟩
    · have : (loopFuncPhase P (cleanup (afterLoop P e env).1)).1.handlers = (cleanup (afterLoop P e env).1).handlers :=
        (loopFuncPhase_facts P _).1
      show h ∉ (loopFuncPhase P (cleanup (afterLoop P e env).1)).1.handlers
      rw [this]; unfold cleanup; simp only [List.mem_filter]; exact fun x => m2 x.1
    · show enqsOf h (_ ++ (_ ++ (_ ++ _))) = []
      rw [enqsOf_append, enqsOf_append, enqsOf_append, e0, qf.noEnq, n2']
      unfold enqsOf; rw [(loopFuncPhase_facts P _).2.2.2.2]; rfl

theorem run_gone (P : Prog σ) (h : HId) (hq : Quiet P h) : ∀ (steps : List Step) (e : Engine σ),
    (∀ s ∈ steps, s.mentions h = false) → h ∉ e.handlers →
    h ∉ (run P e steps).1.handlers ∧ enqsOf h (run P e steps).2 = []
  | [], _, _, hn => ⟨hn, rfl⟩
  | s :: ss, e, hs, hn => by
    have h1 : h ∉ (step P e s).1.handlers ∧ enqsOf h (step P e s).2 = [] := by
      have hm := hs s (by simp)
      cases s with
      | iter env => exact iter_gone P h hq e env hn
      | queueSend g d =>
        have : (g == h) = false := by simpa [Step.mentions] using hm
        exact ⟨hn, by simp [step, enqsOf, enqs, this]⟩
      | register g =>
        have : g ≠ h := by simpa [Step.mentions] using hm
        exact ⟨by simp [step, hn]; exact fun x => this x.symm, rfl⟩
      | create g => exact ⟨hn, rfl⟩
    obtain ⟨i1, i2⟩ := run_gone P h hq ss (step P e s).1 (fun s' hs' => hs s' (by simp [hs'])) h1.1
    unfold run
    exact ⟨i1, by simp only; rw [enqsOf_append, h1.2, i2]; rfl⟩

/-! ### the life of an unanswered request (retry_exact) -/

/-- the steps allowed while watching `h`: iterations whose total clock advance is at most `Δ` and whose datagram (at every nesting
level) `h` does not accept; client calls that do not concern `h` -/
def StepOK (P : Prog σ) (h : HId) (Δ : Time) : Step → Prop
  | .iter env => env.dtPre + env.dtRecv ≤ Δ ∧ ∀ d, env.dgram = some d → Unanswered P h d
  | .queueSend g _ => g ≠ h
  | .register g => g ≠ h
  | .create g => g ≠ h

/-- invariant of the run: `k` = number of `queue_send` calls for `h` so far (all made by `retry`) -/
structure RInv (h : HId) (T N : Nat) (dst : Dest) (s0 Δ : Time) (e : Engine σ) (k : Nat) : Prop where
  alive : e.alive = true
  qdst : ∀ x ∈ e.sendq, x.1 = h → x.2 = some dst
  live : h ∈ e.handlers →
    (e.hs h).remove = false ∧ (e.hs h).lastDest = some dst ∧ (e.hs h).retries + k = N ∧
    e.clock ≤ (e.hs h).start + T ∧
    (e.hs h).start + ((e.hs h).retries + 1) * (T + Δ) ≤ s0 + (N + 1) * (T + Δ) ∧
    s0 + (N + 1) * T ≤ (e.hs h).start + ((e.hs h).retries + 1) * T
  gone : h ∉ e.handlers → k = N ∧ s0 + (N + 1) * T < e.clock

theorem rinv_iter (P : Prog σ) (h : HId) (T N : Nat) (dst : Dest) (s0 Δ : Time) (hq : Quiet P h)
    (hT : (P.spec h).timeout = T) (hTpos : 0 < T) (hf : (P.spec h).onFail = .remove)
    (e : Engine σ) (k : Nat) (inv : RInv h T N dst s0 Δ e k) (env : Env) (hok : StepOK P h Δ (.iter env)) :
    RInv h T N dst s0 Δ (engineIter P e env).1 (k + (enqsOf h (engineIter P e env).2).length) ∧
    (∀ x ∈ enqsOf h (engineIter P e env).2, x = (h, some dst)) := by
  obtain ⟨hΔ, hun⟩ := hok
  obtain ⟨s, hs, hal, hclk, hst, henq, hmem, hq'⟩ := iter_summary P h hq hf e env inv.alive hun
  rw [hT] at hst henq hq'
  by_cases hm : h ∈ e.handlers
  · obtain ⟨l1, l2, l3, l4, l5, l6⟩ := inv.live hm
    have hs' : s = e.hs h := by
      rcases hs with hs | ⟨d, hd, hs⟩
      · exact hs
      · have := inv.qdst _ hd rfl
        simp only at this
        rw [hs, this, ← l2]
    subst hs'
    simp only [hm, if_true] at hst henq hq'
    generalize hc : e.clock + env.dtPre + env.dtRecv = c at *
    have hcΔ : c ≤ e.clock + Δ := by omega
    by_cases hex : expired T c (e.hs h)
    · have hex' : (e.hs h).start + T < c := by unfold expired at hex; omega
      by_cases hr : (e.hs h).retries = 0
      · -- the (N+1)-th timeout: on_retry_failed flags it, the clean-up of this very iteration removes it
        have ht : tick T c (e.hs h) = { e.hs h with remove := true } := by unfold tick; simp [hex, hr]
        have hte : tickEnq h T c (e.hs h) = [] := by unfold tickEnq; simp [hr]
        rw [ht] at hst; rw [hte] at henq hq'
        have hout : h ∉ (engineIter P e env).1.handlers := by rw [hmem, hst]; simp
        rw [henq]
        refine ⟨⟨hal, ?_, fun x => absurd x hout, fun _ => ?_⟩, by simp⟩
        · intro x hx hxh
          rcases hq' x hx with a | a | a
          · exact inv.qdst x a hxh
          · exact absurd hxh a
          · simp at a
        · rw [hclk]
          rw [hr] at l3 l6
          simp only [Nat.zero_add, Nat.one_mul] at l6
          exact ⟨by simp; omega, by omega⟩
      · -- a retry: decrement, reset the timeout at `c`, one queue_send to the recorded destination
        obtain ⟨r', hr'⟩ := Nat.exists_eq_succ_of_ne_zero hr
        have ht : tick T c (e.hs h) = { e.hs h with retries := (e.hs h).retries - 1, start := c } := by unfold tick; simp [hex, hr]
        have hte : tickEnq h T c (e.hs h) = [(h, some dst)] := by unfold tickEnq; simp [hex, hr, l2]
        rw [ht] at hst; rw [hte] at henq hq'
        have hin : h ∈ (engineIter P e env).1.handlers := by rw [hmem, hst]; exact ⟨hm, l1⟩
        rw [henq]
        refine ⟨⟨hal, ?_, fun _ => ?_, fun x => absurd hin x⟩, by simp⟩
        · intro x hx hxh
          rcases hq' x hx with a | a | a
          · exact inv.qdst x a hxh
          · exact absurd hxh a
          · have : x = (h, some dst) := by simpa using a.2
            rw [this]
        · rw [hst, hclk]
          simp only [List.length_singleton]
          rw [hr'] at l3 l5 l6 ⊢
          have e1 : (r' + 1 + 1) * (T + Δ) = (r' + 1) * (T + Δ) + (T + Δ) := Nat.succ_mul _ _
          have e2 : (r' + 1 + 1) * T = (r' + 1) * T + T := Nat.succ_mul _ _
          rw [e1] at l5; rw [e2] at l6
          simp only [Nat.succ_eq_add_one, Nat.add_sub_cancel]
          generalize (r' + 1) * (T + Δ) = X at *
          generalize (r' + 1) * T = Y at *
          exact ⟨l1, l2, by omega, by omega, by omega, by omega⟩
    · -- not timed out: nothing happens to it
      have ht : tick T c (e.hs h) = e.hs h := by unfold tick; simp [hex]
      have hte : tickEnq h T c (e.hs h) = [] := by unfold tickEnq; simp [hex]
      rw [ht] at hst; rw [hte] at henq hq'
      have hin : h ∈ (engineIter P e env).1.handlers := by rw [hmem, hst]; exact ⟨hm, l1⟩
      rw [henq]
      refine ⟨⟨hal, ?_, fun _ => ?_, fun x => absurd hin x⟩, by simp⟩
      · intro x hx hxh
        rcases hq' x hx with a | a | a
        · exact inv.qdst x a hxh
        · exact absurd hxh a
        · simp at a
      · rw [hst, hclk]
        have : c ≤ (e.hs h).start + T := by unfold expired at hex; omega
        exact ⟨l1, l2, by simpa using l3, this, l5, l6⟩
  · obtain ⟨g1, g2⟩ := inv.gone hm
    simp only [hm, if_false] at hst henq hq'
    have hout : h ∉ (engineIter P e env).1.handlers := by rw [hmem]; exact fun x => hm x.1
    rw [henq]
    refine ⟨⟨hal, ?_, fun x => absurd x hout, fun _ => ⟨by simpa using g1, by rw [hclk]; omega⟩⟩, by simp⟩
    intro x hx hxh
    rcases hq' x hx with a | a | a
    · exact inv.qdst x a hxh
    · exact absurd hxh a
    · exact a.1.elim

theorem rinv_run (P : Prog σ) (h : HId) (T N : Nat) (dst : Dest) (s0 Δ : Time) (hq : Quiet P h)
    (hT : (P.spec h).timeout = T) (hTpos : 0 < T) (hf : (P.spec h).onFail = .remove) :
    ∀ (steps : List Step) (e : Engine σ) (k : Nat), RInv h T N dst s0 Δ e k → (∀ s ∈ steps, StepOK P h Δ s) →
      RInv h T N dst s0 Δ (run P e steps).1 (k + (enqsOf h (run P e steps).2).length) ∧
      (∀ x ∈ enqsOf h (run P e steps).2, x = (h, some dst))
  | [], e, k, inv, _ => ⟨by simpa [run, enqsOf, enqs] using inv, by simp [run, enqsOf, enqs]⟩
  | s :: ss, e, k, inv, hok => by
    have h1 : RInv h T N dst s0 Δ (step P e s).1 (k + (enqsOf h (step P e s).2).length) ∧
        (∀ x ∈ enqsOf h (step P e s).2, x = (h, some dst)) := by
      have hs := hok s (by simp)
      cases s with
      | iter env => exact rinv_iter P h T N dst s0 Δ hq hT hTpos hf e k inv env hs
      | queueSend g d =>
        have hg : g ≠ h := hs
        have hb : (g == h) = false := by simpa using hg
        have hen : enqsOf h (step P e (.queueSend g d)).2 = [] := by simp [step, enqsOf, enqs, hb]
        rw [hen]
        have hhs : (step P e (.queueSend g d)).1.hs h = e.hs h := enq_hs_other e g h d (fun x => hg x.symm)
        refine ⟨⟨inv.alive, ?_, fun x => by rw [hhs]; simpa [step, Engine.enq] using inv.live x, by simpa [step, Engine.enq] using inv.gone⟩, by simp⟩
        intro x hx hxh
        simp only [step, Engine.enq, List.mem_append, List.mem_singleton] at hx
        rcases hx with hx | hx
        · exact inv.qdst x hx hxh
        · rw [hx] at hxh; exact absurd hxh hg
      | register g =>
        have hg : g ≠ h := hs
        have hen : enqsOf h (step P e (.register g)).2 = [] := rfl
        have hmem : h ∈ (step P e (.register g)).1.handlers ↔ h ∈ e.handlers := by
          simp [step]; exact fun x => absurd x.symm hg
        rw [hen]
        exact ⟨⟨inv.alive, inv.qdst, fun x => by simpa [step] using inv.live (hmem.1 x),
                fun x => by simpa [step] using inv.gone (fun y => x (hmem.2 y))⟩, by simp⟩
      | create g =>
        have hg : h ≠ g := fun x => hs x.symm
        have hen : enqsOf h (step P e (.create g)).2 = [] := rfl
        have hhs : (step P e (.create g)).1.hs h = e.hs h := by simp only [step]; exact upd_other _ _ _ _ hg
        rw [hen]
        refine ⟨⟨inv.alive, inv.qdst, fun x => ?_, by simpa [step] using inv.gone⟩, by simp⟩
        rw [hhs]; simpa [step] using inv.live x
    obtain ⟨i1, i2⟩ := rinv_run P h T N dst s0 Δ hq hT hTpos hf ss (step P e s).1 _ h1.1 (fun s' hs' => hok s' (by simp [hs']))
    unfold run
    simp only
    rw [enqsOf_append, List.length_append, ← Nat.add_assoc]
    refine ⟨i1, fun x hx => ?_⟩
    rcases List.mem_append.1 hx with hx | hx
    · exact h1.2 x hx
    · exact i2 x hx

/-! ### which popped entries fail to be transmitted -/

/-- a send fails only for a handler without `send_bytes` or a `None` destination -/
def FailOK (P : Prog σ) (o : List Out) : Prop := ∀ x ∈ failedSends o, (P.spec x.1).sendable = false ∨ x.2 = none

theorem failedSends_of_pops_nil : ∀ (o : List Out), pops o = [] → failedSends o = []
  | [], _ => rfl
  | a :: r, h => by
    cases a <;> simp [pops] at h <;> simp [failedSends] <;> exact failedSends_of_pops_nil r h

theorem FailOK.nil (P : Prog σ) : FailOK P [] := by intro x hx; simp [failedSends] at hx

theorem FailOK.append {P : Prog σ} {a b : List Out} (ha : FailOK P a) (hb : FailOK P b) : FailOK P (a ++ b) := by
  intro x hx
  rw [failedSends_append] at hx
  rcases List.mem_append.1 hx with h | h
  · exact ha x h
  · exact hb x h

theorem FailOK.of_frame {P : Prog σ} {e e' : Engine σ} {o : List Out} (h : Frame e e' o) : FailOK P o := by
  intro x hx; rw [failedSends_of_pops_nil o h.pops_nil] at hx; cases hx

theorem processSend_fails (P : Prog σ) (e : Engine σ) : FailOK P (processSend P e).2 := by
  unfold processSend
  split
  · exact FailOK.nil P
  · unfold popSend
    simp only [sendPopsFront_eq, if_true]
    cases e.sendq with
    | nil => exact FailOK.nil P
    | cons x rest =>
      obtain ⟨g, dest⟩ := x
      simp only
      split
      · rename_i hs
        intro x hx
        simp only [failedSends, List.mem_singleton] at hx
        subst hx; left; simpa using hs
      · cases dest with
        | none =>
          intro x hx
          simp only [failedSends, List.mem_singleton] at hx
          subst hx; right; rfl
        | some d => intro x hx; simp [failedSends] at hx

theorem runPhase_fails (P : Prog σ) (env : Env) (p : Nat) (e : Engine σ) : FailOK P (runPhase P env p e).2 := by
  unfold runPhase
  split
  · exact processSend_fails P e
  · split
    · exact FailOK.nil P
    · exact FailOK.of_frame (dispatch_frame P _ _)
  · exact FailOK.of_frame (loopAll_frame P _ _)
  · exact FailOK.nil P
  · exact FailOK.of_frame (loopFuncPhase_frame P _)
  · exact FailOK.nil P

theorem runPhases_fails (P : Prog σ) (env : Env) : ∀ (ps : List Nat) (e : Engine σ), FailOK P (runPhases P env ps e).2
  | [], _ => FailOK.nil P
  | p :: ps, e => by
    unfold runPhases
    split
    · exact FailOK.nil P
    · exact FailOK.append (runPhase_fails P env p e) (runPhases_fails P env ps _)

theorem run_fails (P : Prog σ) : ∀ (steps : List Step) (e : Engine σ), FailOK P (run P e steps).2
  | [], _ => FailOK.nil P
  | s :: ss, e => by
    unfold run
    refine FailOK.append ?_ (run_fails P ss _)
    cases s with
    | iter env =>
      show FailOK P (engineIter P e env).2
      unfold engineIter
      split
      · exact FailOK.nil P
      · exact runPhases_fails P env _ _
    | queueSend g d => intro x hx; simp [step, failedSends] at hx
    | register g => exact FailOK.nil P
    | create g => exact FailOK.nil P

theorem failedSends_sub_pops : ∀ (o : List Out) (x : HId × Option Dest), x ∈ failedSends o → x ∈ pops o
  | [], _, h => by simp [failedSends] at h
  | a :: r, x, h => by
    cases a with
    | sendFailed g d =>
      simp only [failedSends, List.mem_cons] at h
      simp only [pops, List.mem_cons]
      rcases h with h | h
      · left; exact h
      · right; exact failedSends_sub_pops r x h
    | sent g d t => simp only [failedSends] at h; simp only [pops, List.mem_cons]; right; exact failedSends_sub_pops r x h
    | enq g d => simp only [failedSends] at h; simpa [pops] using failedSends_sub_pops r x h
    | handled g d => simp only [failedSends] at h; simpa [pops] using failedSends_sub_pops r x h
    | unhandled d => simp only [failedSends] at h; simpa [pops] using failedSends_sub_pops r x h
    | raised g => simp only [failedSends] at h; simpa [pops] using failedSends_sub_pops r x h
    | timedOut g => simp only [failedSends] at h; simpa [pops] using failedSends_sub_pops r x h
    | failed g => simp only [failedSends] at h; simpa [pops] using failedSends_sub_pops r x h
    | died => simp only [failedSends] at h; simpa [pops] using failedSends_sub_pops r x h

/-- what was popped for `h` is what was transmitted for `h`, when none of its sends failed -/
theorem popsOf_eq_sentsOf (h : HId) : ∀ (o : List Out), (∀ x ∈ failedSends o, x.1 ≠ h) →
    (pops o).filter (fun x => x.1 == h) = ((sents o).filter (fun x => x.1 == h)).map (fun x => (x.1, some x.2))
  | [], _ => rfl
  | a :: r, hf => by
    cases a with
    | sent g d t =>
      have ih := popsOf_eq_sentsOf h r (fun x hx => hf x (by simpa [failedSends] using hx))
      simp only [pops, sents, List.filter_cons]
      by_cases hg : (g == h) = true
      · simp [hg, ih]
      · simp [hg, ih]
    | sendFailed g d =>
      have hg : g ≠ h := hf (g, d) (by simp [failedSends])
      have hb : (g == h) = false := by simpa using hg
      have ih := popsOf_eq_sentsOf h r (fun x hx => hf x (by simp [failedSends, hx]))
      simp [pops, sents, hb, ih]
    | enq g d => simpa [pops, sents, failedSends] using popsOf_eq_sentsOf h r (fun x hx => hf x (by simpa [failedSends] using hx))
    | handled g d => simpa [pops, sents, failedSends] using popsOf_eq_sentsOf h r (fun x hx => hf x (by simpa [failedSends] using hx))
    | unhandled d => simpa [pops, sents, failedSends] using popsOf_eq_sentsOf h r (fun x hx => hf x (by simpa [failedSends] using hx))
    | raised g => simpa [pops, sents, failedSends] using popsOf_eq_sentsOf h r (fun x hx => hf x (by simpa [failedSends] using hx))
    | timedOut g => simpa [pops, sents, failedSends] using popsOf_eq_sentsOf h r (fun x hx => hf x (by simpa [failedSends] using hx))
    | failed g => simpa [pops, sents, failedSends] using popsOf_eq_sentsOf h r (fun x hx => hf x (by simpa [failedSends] using hx))
    | died => simpa [pops, sents, failedSends] using popsOf_eq_sentsOf h r (fun x hx => hf x (by simpa [failedSends] using hx))

end GeckoModel.Threaded
