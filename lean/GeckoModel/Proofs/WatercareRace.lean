/- invariant of the watercare command/poll race for the statement order [awaitSet, localChange] -/
import GeckoModel.Model.WatercareRace

namespace GeckoModel.WatercareRace
open GeckoModel.Generated

def goodSteps : List WStep := [.awaitSet, .localChange]

structure WInv (m : Nat) (s : WSys) : Prop where
  pc_le    : s.cmdPc ≤ 2
  sub_pc   : s.cmdSub = true → s.cmdPc = 0
  hold_cmd : s.holder = some 0 ↔ s.cmdSub = true
  hold_poll : ∀ k, (s.polls k).1 = 1 ↔ s.holder = some (k + 1)
  spa_set  : (s.cmdSub = true ∨ 1 ≤ s.cmdPc) → s.spaWc = m
  inflight : (s.cmdSub = true ∨ 1 ≤ s.cmdPc) → ∀ k, (s.polls k).1 = 1 → (s.polls k).2 = m
  done_cli : s.cmdPc = 2 → s.cliWc = m

theorem winv_init (m spa cli : Nat) : WInv m (initSys spa cli) := by
  constructor <;> simp [initSys]

theorem winv_step (m : Nat) (s : WSys) (t : Nat) (h : WInv m s) : WInv m (step goodSteps m s t) := by
  cases t with
  | zero =>
    have hpc := h.pc_le
    have hc : s.cmdPc = 0 ∨ s.cmdPc = 1 ∨ s.cmdPc = 2 := by omega
    rcases hc with h0 | h1 | h2
    · -- awaitSet
      cases hsub : s.cmdSub with
      | true =>
        have hs : step goodSteps m s 0 = { s with holder := none, cmdSub := false, cmdPc := s.cmdPc + 1 } := by
          simp [step, goodSteps, h0, hsub]
        rw [hs]
        have hh := h.hold_cmd.2 hsub
        constructor
        · simp [h0]
        · simp
        · simp
        · intro k
          have := h.hold_poll k
          constructor
          · intro hk; have := this.1 hk; rw [hh] at this; cases this
          · intro hk; cases hk
        · intro _; exact h.spa_set (Or.inl hsub)
        · intro _ k hk; exact h.inflight (Or.inl hsub) k hk
        · intro hk; simp [h0] at hk
      | false =>
        cases hh : s.holder with
        | some j =>
          have hs : step goodSteps m s 0 = s := by simp [step, goodSteps, h0, hsub, hh]
          rw [hs]; exact h
        | none =>
          have hs : step goodSteps m s 0 = { s with holder := some 0, spaWc := m, cmdSub := true } := by
            simp [step, goodSteps, h0, hsub, hh]
          rw [hs]
          have nopoll : ∀ k, (s.polls k).1 ≠ 1 := by
            intro k hk; have := (h.hold_poll k).1 hk; rw [hh] at this; cases this
          constructor
          · exact h.pc_le
          · intro _; exact h0
          · simp
          · intro k
            constructor
            · intro hk; exact absurd hk (nopoll k)
            · intro hk; simp at hk
          · intro _; rfl
          · intro _ k hk; exact absurd hk (nopoll k)
          · intro hk; rw [h0] at hk; cases hk
    · -- localChange
      have hsub : s.cmdSub = false := by
        cases hs : s.cmdSub with
        | false => rfl
        | true => have := h.sub_pc hs; omega
      have hs : step goodSteps m s 0 = { s with cliWc := m, cmdPc := s.cmdPc + 1 } := by
        simp [step, goodSteps, h1]
      rw [hs]
      constructor
      · simp [h1]
      · intro hk; simp [hsub] at hk
      · exact h.hold_cmd
      · exact h.hold_poll
      · intro _; exact h.spa_set (Or.inr (by omega))
      · intro _ k hk; exact h.inflight (Or.inr (by omega)) k hk
      · intro _; rfl
    · have hs : step goodSteps m s 0 = s := by simp [step, goodSteps, h2]
      rw [hs]; exact h
  | succ k =>
    have hp : (s.polls k).1 = 0 ∨ (s.polls k).1 = 1 ∨ 2 ≤ (s.polls k).1 := by omega
    rcases hp with p0 | p1 | p2
    · cases hh : s.holder with
      | some j =>
        have hs : step goodSteps m s (k + 1) = s := by simp [step, p0, hh]
        rw [hs]; exact h
      | none =>
        have hs : step goodSteps m s (k + 1) = { s with holder := some (k + 1), polls := setPoll s.polls k (1, s.spaWc) } := by
          simp [step, p0, hh]
        rw [hs]
        have nosub : s.cmdSub = false := by
          cases hs' : s.cmdSub with
          | false => rfl
          | true => have := h.hold_cmd.2 hs'; rw [hh] at this; cases this
        have nopoll : ∀ j, (s.polls j).1 ≠ 1 := by
          intro j hj; have := (h.hold_poll j).1 hj; rw [hh] at this; cases this
        constructor
        · exact h.pc_le
        · exact h.sub_pc
        · constructor
          · intro hk; simp at hk
          · intro hk; rw [nosub] at hk; cases hk
        · intro j
          by_cases hj : j = k
          · subst hj; simp [setPoll]
          · simp only [setPoll, hj, if_false]
            constructor
            · intro hk; exact absurd hk (nopoll j)
            · intro hk; simp at hk; omega
        · exact h.spa_set
        · intro hset j hj
          by_cases hjk : j = k
          · subst hjk; simp [setPoll]; exact h.spa_set hset
          · simp only [setPoll, hjk, if_false] at hj; exact absurd hj (nopoll j)
        · exact h.done_cli
    · have hs : step goodSteps m s (k + 1) =
          { s with cliWc := (s.polls k).2, holder := none, polls := setPoll s.polls k (2, (s.polls k).2) } := by
        simp [step, p1]
      rw [hs]
      have hh := (h.hold_poll k).1 p1
      have nosub : s.cmdSub = false := by
        cases hs' : s.cmdSub with
        | false => rfl
        | true => have := h.hold_cmd.2 hs'; rw [hh] at this; simp at this
      have others : ∀ j, j ≠ k → (s.polls j).1 ≠ 1 := by
        intro j hj hj1
        have := (h.hold_poll j).1 hj1; rw [hh] at this
        have : k + 1 = j + 1 := Option.some.inj this
        omega
      constructor
      · exact h.pc_le
      · exact h.sub_pc
      · constructor
        · intro hk; cases hk
        · intro hk; rw [nosub] at hk; cases hk
      · intro j
        by_cases hj : j = k
        · subst hj; simp [setPoll]
        · simp only [setPoll, hj, if_false]
          constructor
          · intro hk; exact absurd hk (others j hj)
          · intro hk; cases hk
      · exact h.spa_set
      · intro hset j hj
        by_cases hjk : j = k
        · subst hjk; simp [setPoll] at hj
        · simp only [setPoll, hjk, if_false] at hj; exact absurd hj (others j hjk)
      · intro hk
        show (s.polls k).2 = m
        have hk' : s.cmdPc = 2 := hk
        exact h.inflight (Or.inr (by omega)) k p1
    · have hs : step goodSteps m s (k + 1) = s := by
        have : ∃ n, (s.polls k).1 = n + 2 := ⟨(s.polls k).1 - 2, by omega⟩
        obtain ⟨n, hn⟩ := this
        simp [step, hn]
      rw [hs]; exact h

theorem winv_run (m : Nat) : ∀ (sched : List Nat) (s : WSys), WInv m s → WInv m (run goodSteps m s sched) := by
  intro sched
  induction sched with
  | nil => intro s h; exact h
  | cons t ts ih => intro s h; exact ih _ (winv_step m s t h)

end GeckoModel.WatercareRace
