/-
Per-handler lemmas for the threaded engine model (C20): what a run can do to ONE handler instance `h` that nobody else touches.
-/
import GeckoModel.Proofs.ThreadedLemmas

namespace GeckoModel.Threaded
open GeckoModel.Generated

variable {σ : Type}

/-- the act (performed by handler `self`) re-queues, re-creates or re-registers `h` -/
def Act.touches (h self : HId) : Act → Bool
  | .send h' _ => h' == h
  | .create h' => h' == h
  | .add h' => h' == h
  | .retryOrRaise => self == h
  | _ => false

/-- no callback of any handler re-queues, re-creates or re-registers `h` (the client queued and registered it, the engine's
own `retry` is the only other source of sends) -/
def Quiet (P : Prog σ) (h : HId) : Prop :=
  ∀ g c d, (∀ a ∈ ((P.spec g).handle c d).acts, a.touches h g = false) ∧
           (∀ a ∈ ((P.spec g).onHandled c d).acts, a.touches h g = false)

/-- `h` accepts neither the datagram nor anything wrapped inside it -/
def Unanswered (P : Prog σ) (h : HId) : Dgram → Prop
  | .raw v => (P.spec h).canHandle (.raw v) = false
  | .pkt i => (P.spec h).canHandle (.pkt i) = false ∧ Unanswered P h i

/-- the `queue_send` calls for `h` in a trace -/
def enqsOf (h : HId) (o : List Out) : List (HId × Option Dest) := (enqs o).filter (fun x => x.1 == h)

theorem enqsOf_append (h : HId) (a b : List Out) : enqsOf h (a ++ b) = enqsOf h a ++ enqsOf h b := by
  simp [enqsOf, enqs_append]

theorem enqsOf_nil (h : HId) : enqsOf h [] = [] := rfl

theorem upd_self (f : HId → HState) (i : HId) (v : HState) : upd f i v i = v := by simp [upd]
theorem upd_other (f : HId → HState) (i j : HId) (v : HState) (h : j ≠ i) : upd f i v j = f j := by simp [upd, h]

/-- what a dispatch-phase piece does to handler `h` under `Quiet`; `c` = a condition under which `h` is not even invoked -/
structure QFrame (h : HId) (c : Prop) (e e' : Engine σ) (o : List Out) : Prop where
  clock_eq : e'.clock = e.clock
  noEnq : enqsOf h o = []
  mem : h ∈ e'.handlers ↔ h ∈ e.handlers
  remove : (e.hs h).remove = true → (e'.hs h).remove = true
  start : (e'.hs h).start = (e.hs h).start ∨ (e'.hs h).start = e.clock
  same : c → e'.hs h = e.hs h

theorem QFrame.refl (h : HId) (c : Prop) (e : Engine σ) : QFrame h c e e [] :=
  ⟨rfl, rfl, Iff.rfl, id, Or.inl rfl, fun _ => rfl⟩

theorem QFrame.trans {h : HId} {c : Prop} {e e1 e2 : Engine σ} {o1 o2 : List Out}
    (h1 : QFrame h c e e1 o1) (h2 : QFrame h c e1 e2 o2) : QFrame h c e e2 (o1 ++ o2) := by
  refine ⟨by rw [h2.clock_eq, h1.clock_eq], by rw [enqsOf_append, h1.noEnq, h2.noEnq]; rfl, h2.mem.trans h1.mem,
          fun hr => h2.remove (h1.remove hr), ?_, fun hc => by rw [h2.same hc, h1.same hc]⟩
  rcases h2.start with s2 | s2
  · rcases h1.start with s1 | s1
    · left; rw [s2, s1]
    · right; rw [s2, s1]
  · right; rw [s2, h1.clock_eq]

theorem QFrame.weaken {h : HId} {c c' : Prop} {e e' : Engine σ} {o : List Out} (hq : QFrame h c e e' o) (hc : c' → c) :
    QFrame h c' e e' o :=
  ⟨hq.clock_eq, hq.noEnq, hq.mem, hq.remove, hq.start, fun x => hq.same (hc x)⟩

theorem QFrame.cons_other {h : HId} {c : Prop} {e e' : Engine σ} {o : List Out} (x : Out) (hq : QFrame h c e e' o)
    (hx : enqs [x] = []) : QFrame h c e e' (x :: o) := by
  have : x :: o = [x] ++ o := rfl
  refine ⟨hq.clock_eq, ?_, hq.mem, hq.remove, hq.start, hq.same⟩
  rw [this, enqsOf_append, hq.noEnq]
  simp [enqsOf, hx]

theorem QFrame.append_other {h : HId} {c : Prop} {e e' : Engine σ} {o : List Out} (t : List Out) (hq : QFrame h c e e' o)
    (ht : enqs t = []) : QFrame h c e e' (o ++ t) := by
  refine ⟨hq.clock_eq, ?_, hq.mem, hq.remove, hq.start, hq.same⟩
  rw [enqsOf_append, hq.noEnq]
  simp [enqsOf, ht]

theorem actStep_q (P : Prog σ) (h g : HId) (ci : Prop) (inner : Inner σ)
    (hin : ∀ f, inner = some f → ∀ e, QFrame h ci e (f e).1 (f e).2)
    (a : Act) (ha : a.touches h g = false) (e : Engine σ) :
    QFrame h (g ≠ h ∧ ci) e (actStep P g inner a e).1 (actStep P g inner a e).2.1 := by
  cases a with
  | markRemove =>
    refine ⟨rfl, rfl, Iff.rfl, fun hr => ?_, Or.inl ?_, fun hc => ?_⟩
    · simp only [actStep]
      by_cases hg : h = g
      · subst hg; rw [upd_self]
      · rw [upd_other _ _ _ _ hg]; exact hr
    · simp only [actStep]
      by_cases hg : h = g
      · subst hg; rw [upd_self]
      · rw [upd_other _ _ _ _ hg]
    · simp only [actStep]
      rw [upd_other _ _ _ _ (fun x => hc.1 x.symm)]
  | send h' d =>
    have hne : (h' == h) = false := by simpa [Act.touches] using ha
    exact ⟨rfl, by simp [actStep, enqsOf, enqs, hne], Iff.rfl, id, Or.inl rfl, fun _ => rfl⟩
  | create h' =>
    have hne : h ≠ h' := by
      have : (h' == h) = false := by simpa [Act.touches] using ha
      intro x; subst x; simp at this
    exact ⟨rfl, rfl, Iff.rfl, fun hr => by simp only [actStep]; rw [upd_other _ _ _ _ hne]; exact hr,
           Or.inl (by simp only [actStep]; rw [upd_other _ _ _ _ hne]), fun _ => by simp only [actStep]; rw [upd_other _ _ _ _ hne]⟩
  | add h' =>
    have hne : h ≠ h' := by
      have : (h' == h) = false := by simpa [Act.touches] using ha
      intro x; subst x; simp at this
    exact ⟨rfl, rfl, by simp [actStep, hne], id, Or.inl rfl, fun _ => rfl⟩
  | unwrap =>
    cases inner with
    | none => exact QFrame.refl h _ e
    | some f => exact (hin f rfl e).weaken (fun x => x.2)
  | retryOrRaise =>
    have hne : h ≠ g := by
      have : (g == h) = false := by simpa [Act.touches] using ha
      intro x; subst x; simp at this
    unfold actStep
    by_cases h0 : (e.hs g).retries = 0
    · simp only [h0, if_true]; exact QFrame.refl h _ e
    · simp only [h0, if_false]
      refine ⟨rfl, ?_, Iff.rfl, fun hr => ?_, Or.inl ?_, fun _ => ?_⟩
      · have : (g == h) = false := by simpa using fun x : g = h => hne x.symm
        simp [enqsOf, enqs, this]
      · simp only [Engine.enq]; rw [upd_other _ _ _ _ hne]; exact hr
      · simp only [Engine.enq]; rw [upd_other _ _ _ _ hne]
      · simp only [Engine.enq]; rw [upd_other _ _ _ _ hne]

theorem runActs_q (P : Prog σ) (h g : HId) (ci : Prop) (inner : Inner σ)
    (hin : ∀ f, inner = some f → ∀ e, QFrame h ci e (f e).1 (f e).2) :
    ∀ (acts : List Act), (∀ a ∈ acts, a.touches h g = false) → ∀ (e : Engine σ),
      QFrame h (g ≠ h ∧ ci) e (runActs P g inner acts e).1 (runActs P g inner acts e).2.1 := by
  intro acts
  induction acts with
  | nil => intro _ e; exact QFrame.refl h _ e
  | cons a rest ih =>
    intro hall e
    have h1 := actStep_q P h g ci inner hin a (hall a (by simp)) e
    unfold runActs
    by_cases hr : (actStep P g inner a e).2.2 = true
    · simp only [hr, if_true]; exact h1
    · simp only [hr]
      exact QFrame.trans h1 (ih (fun a' ha' => hall a' (by simp [ha'])) _)

theorem invoke_q (P : Prog σ) (h : HId) (hq : Quiet P h) (ci : Prop) (inner : Inner σ)
    (hin : ∀ f, inner = some f → ∀ e, QFrame h ci e (f e).1 (f e).2)
    (g : HId) (d : Dgram) (e : Engine σ) : QFrame h (g ≠ h ∧ ci) e (invoke P inner g d e).1 (invoke P inner g d e).2 := by
  unfold invoke
  simp only
  have q1 := runActs_q P h g ci inner hin ((P.spec g).handle e.client d).acts ((hq g e.client d).1)
    { e with client := ((P.spec g).handle e.client d).client }
  have q1' : QFrame h (g ≠ h ∧ ci) e
      (runActs P g inner ((P.spec g).handle e.client d).acts { e with client := ((P.spec g).handle e.client d).client }).1
      (runActs P g inner ((P.spec g).handle e.client d).acts { e with client := ((P.spec g).handle e.client d).client }).2.1 :=
    ⟨q1.clock_eq, q1.noEnq, q1.mem, q1.remove, q1.start, q1.same⟩
  split
  · exact QFrame.cons_other _ (QFrame.append_other _ q1' rfl) rfl
  · let e1 := (runActs P g inner ((P.spec g).handle e.client d).acts { e with client := ((P.spec g).handle e.client d).client }).1
    let e2 : Engine σ := { e1 with hs := upd e1.hs g { e1.hs g with start := e1.clock } }
    have qr : QFrame h (g ≠ h ∧ ci) e1 e2 [] := by
      refine ⟨rfl, rfl, Iff.rfl, fun hr => ?_, ?_, fun hc => ?_⟩
      · show (upd e1.hs g _ h).remove = true
        by_cases hg : h = g
        · subst hg; rw [upd_self]; exact hr
        · rw [upd_other _ _ _ _ hg]; exact hr
      · show (upd e1.hs g _ h).start = _ ∨ (upd e1.hs g _ h).start = _
        by_cases hg : h = g
        · subst hg; right; rw [upd_self]
        · left; rw [upd_other _ _ _ _ hg]
      · show upd e1.hs g _ h = _
        rw [upd_other _ _ _ _ (fun x => hc.1 x.symm)]
    have q2 := runActs_q P h g ci inner hin ((P.spec g).onHandled e2.client d).acts ((hq g e2.client d).2)
      { e2 with client := ((P.spec g).onHandled e2.client d).client }
    have q2' : QFrame h (g ≠ h ∧ ci) e2
        (runActs P g inner ((P.spec g).onHandled e2.client d).acts { e2 with client := ((P.spec g).onHandled e2.client d).client }).1
        (runActs P g inner ((P.spec g).onHandled e2.client d).acts { e2 with client := ((P.spec g).onHandled e2.client d).client }).2.1 :=
      ⟨q2.clock_eq, q2.noEnq, q2.mem, q2.remove, q2.start, q2.same⟩
    have q12 := QFrame.trans (QFrame.trans q1' qr) q2'
    have := QFrame.cons_other (Out.handled g d) (QFrame.append_other
      (if (runActs P g inner ((P.spec g).onHandled e2.client d).acts { e2 with client := ((P.spec g).onHandled e2.client d).client }).2.2 = true ∨
          ((P.spec g).onHandled e2.client d).raises = true then [Out.raised g] else []) q12
      (by split <;> rfl)) rfl
    simpa [List.append_assoc, e1, e2] using this

theorem dispatchWith_q (P : Prog σ) (h : HId) (hq : Quiet P h) (ci : Prop) (inner : Inner σ)
    (hin : ∀ f, inner = some f → ∀ e, QFrame h ci e (f e).1 (f e).2)
    (d : Dgram) (e : Engine σ) :
    QFrame h ((P.spec h).canHandle d = false ∧ ci) e (dispatchWith P inner d e).1 (dispatchWith P inner d e).2 := by
  unfold dispatchWith
  split
  · exact ⟨rfl, rfl, Iff.rfl, id, Or.inl rfl, fun _ => rfl⟩
  · rename_i g hg
    have hcan : (P.spec g).canHandle d = true := by simpa using List.find?_some hg
    exact (invoke_q P h hq ci inner hin g d e).weaken (fun x => ⟨fun hgh => by rw [hgh] at hcan; rw [hcan] at x; simp at x, x.2⟩)

theorem dispatch_q (P : Prog σ) (h : HId) (hq : Quiet P h) :
    ∀ (d : Dgram) (e : Engine σ), QFrame h (Unanswered P h d) e (dispatch P d e).1 (dispatch P d e).2
  | .raw v, e => by
    unfold dispatch
    exact (dispatchWith_q P h hq True none (fun f hf => by cases hf) _ e).weaken (fun x => ⟨x, trivial⟩)
  | .pkt i, e => by
    unfold dispatch
    exact (dispatchWith_q P h hq (Unanswered P h i) (some (dispatch P i)) (fun f hf e' => by cases hf; exact dispatch_q P h hq i e') _ e).weaken
      (fun x => x)

end GeckoModel.Threaded
