/-
Per-handler lemmas for the threaded engine model (C20): what a run can do to ONE handler instance `h` that nobody else touches.
-/
import GeckoModel.Proofs.ThreadedLemmas

namespace GeckoModel.Threaded
open GeckoModel.Generated

variable {σ : Type}

/-- the act (performed by handler `self`) re-queues, re-creates or re-registers `h` -/
def Act.touches (h self : HId) : Act → Bool
  | .send h' _ => h' == h
  | .create h' => h' == h
  | .add h' => h' == h
  | .retryOrRaise => self == h
  | _ => false

/-- no callback of any handler re-queues, re-creates or re-registers `h` (the client queued and registered it, the engine's
own `retry` is the only other source of sends) -/
def Quiet (P : Prog σ) (h : HId) : Prop :=
  ∀ g c d, (∀ a ∈ ((P.spec g).handle c d).acts, a.touches h g = false) ∧
           (∀ a ∈ ((P.spec g).onHandled c d).acts, a.touches h g = false)

/-- `h` accepts neither the datagram nor anything wrapped inside it -/
def Unanswered (P : Prog σ) (h : HId) : Dgram → Prop
  | .raw v => (P.spec h).canHandle (.raw v) = false
  | .pkt i => (P.spec h).canHandle (.pkt i) = false ∧ Unanswered P h i

/-- the `queue_send` calls for `h` in a trace -/
def enqsOf (h : HId) (o : List Out) : List (HId × Option Dest) := (enqs o).filter (fun x => x.1 == h)

theorem enqsOf_append (h : HId) (a b : List Out) : enqsOf h (a ++ b) = enqsOf h a ++ enqsOf h b := by
  simp [enqsOf, enqs_append]

theorem enqsOf_nil (h : HId) : enqsOf h [] = [] := rfl

theorem upd_self (f : HId → HState) (i : HId) (v : HState) : upd f i v i = v := by simp [upd]
theorem upd_other (f : HId → HState) (i j : HId) (v : HState) (h : j ≠ i) : upd f i v j = f j := by simp [upd, h]

/-- `retry` queues `(self, self.last_destination)`: recording that destination changes nothing -/
theorem recordDest_self (s : HState) : recordDest s s.lastDest = s := by
  unfold recordDest
  split
  · cases s; rfl
  · rfl

theorem enq_hs_other (e : Engine σ) (g h : HId) (d : Option Dest) (hne : h ≠ g) : (e.enq g d).hs h = e.hs h := by
  simp only [Engine.enq]; exact upd_other _ _ _ _ hne

/-- what a dispatch-phase piece does to handler `h` under `Quiet`; `c` = a condition under which `h` is not even invoked -/
structure QFrame (h : HId) (c : Prop) (e e' : Engine σ) (o : List Out) : Prop where
  clock_eq : e'.clock = e.clock
  noEnq : enqsOf h o = []
  mem : h ∈ e'.handlers ↔ h ∈ e.handlers
  remove : (e.hs h).remove = true → (e'.hs h).remove = true
  start : (e'.hs h).start = (e.hs h).start ∨ (e'.hs h).start = e.clock
  same : c → e'.hs h = e.hs h

theorem QFrame.refl (h : HId) (c : Prop) (e : Engine σ) : QFrame h c e e [] :=
  ⟨rfl, rfl, Iff.rfl, id, Or.inl rfl, fun _ => rfl⟩

theorem QFrame.trans {h : HId} {c : Prop} {e e1 e2 : Engine σ} {o1 o2 : List Out}
    (h1 : QFrame h c e e1 o1) (h2 : QFrame h c e1 e2 o2) : QFrame h c e e2 (o1 ++ o2) := by
  refine ⟨by rw [h2.clock_eq, h1.clock_eq], by rw [enqsOf_append, h1.noEnq, h2.noEnq]; rfl, h2.mem.trans h1.mem,
          fun hr => h2.remove (h1.remove hr), ?_, fun hc => by rw [h2.same hc, h1.same hc]⟩
  rcases h2.start with s2 | s2
  · rcases h1.start with s1 | s1
    · left; rw [s2, s1]
    · right; rw [s2, s1]
  · right; rw [s2, h1.clock_eq]

theorem QFrame.weaken {h : HId} {c c' : Prop} {e e' : Engine σ} {o : List Out} (hq : QFrame h c e e' o) (hc : c' → c) :
    QFrame h c' e e' o :=
  ⟨hq.clock_eq, hq.noEnq, hq.mem, hq.remove, hq.start, fun x => hq.same (hc x)⟩

theorem QFrame.cons_other {h : HId} {c : Prop} {e e' : Engine σ} {o : List Out} (x : Out) (hq : QFrame h c e e' o)
    (hx : enqs [x] = []) : QFrame h c e e' (x :: o) := by
  have : x :: o = [x] ++ o := rfl
  refine ⟨hq.clock_eq, ?_, hq.mem, hq.remove, hq.start, hq.same⟩
  rw [this, enqsOf_append, hq.noEnq]
  simp [enqsOf, hx]

theorem QFrame.append_other {h : HId} {c : Prop} {e e' : Engine σ} {o : List Out} (t : List Out) (hq : QFrame h c e e' o)
    (ht : enqs t = []) : QFrame h c e e' (o ++ t) := by
  refine ⟨hq.clock_eq, ?_, hq.mem, hq.remove, hq.start, hq.same⟩
  rw [enqsOf_append, hq.noEnq]
  simp [enqsOf, ht]

theorem actStep_q (P : Prog σ) (h g : HId) (ci : Prop) (inner : Inner σ)
    (hin : ∀ f, inner = some f → ∀ e, QFrame h ci e (f e).1 (f e).2)
    (a : Act) (ha : a.touches h g = false) (e : Engine σ) :
    QFrame h (g ≠ h ∧ ci) e (actStep P g inner a e).1 (actStep P g inner a e).2.1 := by
  cases a with
  | markRemove =>
    refine ⟨rfl, rfl, Iff.rfl, fun hr => ?_, Or.inl ?_, fun hc => ?_⟩
    · simp only [actStep]
      by_cases hg : h = g
      · subst hg; rw [upd_self]
      · rw [upd_other _ _ _ _ hg]; exact hr
    · simp only [actStep]
      by_cases hg : h = g
      · subst hg; rw [upd_self]
      · rw [upd_other _ _ _ _ hg]
    · simp only [actStep]
      rw [upd_other _ _ _ _ (fun x => hc.1 x.symm)]
  | send h' d =>
    have hne : (h' == h) = false := by simpa [Act.touches] using ha
    have hne' : h ≠ h' := by intro x; subst x; simp at hne
    have hhs : (actStep P g inner (.send h' d) e).1.hs h = e.hs h := by simp only [actStep]; exact enq_hs_other e h' h d hne'
    exact ⟨rfl, by simp [actStep, enqsOf, enqs, hne], Iff.rfl, fun hr => by rw [hhs]; exact hr, Or.inl (by rw [hhs]), fun _ => hhs⟩
  | create h' =>
    have hne : h ≠ h' := by
      have : (h' == h) = false := by simpa [Act.touches] using ha
      intro x; subst x; simp at this
    exact ⟨rfl, rfl, Iff.rfl, fun hr => by simp only [actStep]; rw [upd_other _ _ _ _ hne]; exact hr,
           Or.inl (by simp only [actStep]; rw [upd_other _ _ _ _ hne]), fun _ => by simp only [actStep]; rw [upd_other _ _ _ _ hne]⟩
  | add h' =>
    have hne : h ≠ h' := by
      have : (h' == h) = false := by simpa [Act.touches] using ha
      intro x; subst x; simp at this
    exact ⟨rfl, rfl, by simp [actStep, hne], id, Or.inl rfl, fun _ => rfl⟩
  | unwrap =>
    cases inner with
    | none => exact QFrame.refl h _ e
    | some f => exact (hin f rfl e).weaken (fun x => x.2)
  | retryOrRaise =>
    have hne : h ≠ g := by
      have : (g == h) = false := by simpa [Act.touches] using ha
      intro x; subst x; simp at this
    unfold actStep
    by_cases h0 : (e.hs g).retries = 0
    · simp only [h0, if_true]; exact QFrame.refl h _ e
    · simp only [h0, if_false]
      refine ⟨rfl, ?_, Iff.rfl, fun hr => ?_, Or.inl ?_, fun _ => ?_⟩
      · have : (g == h) = false := by simpa using fun x : g = h => hne x.symm
        simp [enqsOf, enqs, this]
      · rw [enq_hs_other _ _ _ _ hne]; simp only; rw [upd_other _ _ _ _ hne]; exact hr
      · rw [enq_hs_other _ _ _ _ hne]; simp only; rw [upd_other _ _ _ _ hne]
      · rw [enq_hs_other _ _ _ _ hne]; simp only; rw [upd_other _ _ _ _ hne]

theorem runActs_q (P : Prog σ) (h g : HId) (ci : Prop) (inner : Inner σ)
    (hin : ∀ f, inner = some f → ∀ e, QFrame h ci e (f e).1 (f e).2) :
    ∀ (acts : List Act), (∀ a ∈ acts, a.touches h g = false) → ∀ (e : Engine σ),
      QFrame h (g ≠ h ∧ ci) e (runActs P g inner acts e).1 (runActs P g inner acts e).2.1 := by
  intro acts
  induction acts with
  | nil => intro _ e; exact QFrame.refl h _ e
  | cons a rest ih =>
    intro hall e
    have h1 := actStep_q P h g ci inner hin a (hall a (by simp)) e
    unfold runActs
    by_cases hr : (actStep P g inner a e).2.2 = true
    · simp only [hr, if_true]; exact h1
    · simp only [hr]
      exact QFrame.trans h1 (ih (fun a' ha' => hall a' (by simp [ha'])) _)

theorem invoke_q (P : Prog σ) (h : HId) (hq : Quiet P h) (ci : Prop) (inner : Inner σ)
    (hin : ∀ f, inner = some f → ∀ e, QFrame h ci e (f e).1 (f e).2)
    (g : HId) (d : Dgram) (e : Engine σ) : QFrame h (g ≠ h ∧ ci) e (invoke P inner g d e).1 (invoke P inner g d e).2 := by
  unfold invoke
  simp only
  have q1 := runActs_q P h g ci inner hin ((P.spec g).handle e.client d).acts ((hq g e.client d).1)
    { e with client := ((P.spec g).handle e.client d).client }
  have q1' : QFrame h (g ≠ h ∧ ci) e
      (runActs P g inner ((P.spec g).handle e.client d).acts { e with client := ((P.spec g).handle e.client d).client }).1
      (runActs P g inner ((P.spec g).handle e.client d).acts { e with client := ((P.spec g).handle e.client d).client }).2.1 :=
    ⟨q1.clock_eq, q1.noEnq, q1.mem, q1.remove, q1.start, q1.same⟩
  split
  · exact QFrame.cons_other _ (QFrame.append_other _ q1' rfl) rfl
  · let e1 := (runActs P g inner ((P.spec g).handle e.client d).acts { e with client := ((P.spec g).handle e.client d).client }).1
    let e2 : Engine σ := { e1 with hs := upd e1.hs g { e1.hs g with start := e1.clock } }
    have qr : QFrame h (g ≠ h ∧ ci) e1 e2 [] := by
      refine ⟨rfl, rfl, Iff.rfl, fun hr => ?_, ?_, fun hc => ?_⟩
      · show (upd e1.hs g _ h).remove = true
        by_cases hg : h = g
        · subst hg; rw [upd_self]; exact hr
        · rw [upd_other _ _ _ _ hg]; exact hr
      · show (upd e1.hs g _ h).start = _ ∨ (upd e1.hs g _ h).start = _
        by_cases hg : h = g
        · subst hg; right; rw [upd_self]
        · left; rw [upd_other _ _ _ _ hg]
      · show upd e1.hs g _ h = _
        rw [upd_other _ _ _ _ (fun x => hc.1 x.symm)]
    have q2 := runActs_q P h g ci inner hin ((P.spec g).onHandled e2.client d).acts ((hq g e2.client d).2)
      { e2 with client := ((P.spec g).onHandled e2.client d).client }
    have q2' : QFrame h (g ≠ h ∧ ci) e2
        (runActs P g inner ((P.spec g).onHandled e2.client d).acts { e2 with client := ((P.spec g).onHandled e2.client d).client }).1
        (runActs P g inner ((P.spec g).onHandled e2.client d).acts { e2 with client := ((P.spec g).onHandled e2.client d).client }).2.1 :=
      ⟨q2.clock_eq, q2.noEnq, q2.mem, q2.remove, q2.start, q2.same⟩
    have q12 := QFrame.trans (QFrame.trans q1' qr) q2'
    have := QFrame.cons_other (Out.handled g d) (QFrame.append_other
      (if (runActs P g inner ((P.spec g).onHandled e2.client d).acts { e2 with client := ((P.spec g).onHandled e2.client d).client }).2.2 = true ∨
          ((P.spec g).onHandled e2.client d).raises = true then [Out.raised g] else []) q12
      (by split <;> rfl)) rfl
    simpa [List.append_assoc, e1, e2] using this

theorem dispatchWith_q (P : Prog σ) (h : HId) (hq : Quiet P h) (ci : Prop) (inner : Inner σ)
    (hin : ∀ f, inner = some f → ∀ e, QFrame h ci e (f e).1 (f e).2)
    (d : Dgram) (e : Engine σ) :
    QFrame h ((P.spec h).canHandle d = false ∧ ci) e (dispatchWith P inner d e).1 (dispatchWith P inner d e).2 := by
  unfold dispatchWith
  split
  · exact ⟨rfl, rfl, Iff.rfl, id, Or.inl rfl, fun _ => rfl⟩
  · rename_i g hg
    have hcan : (P.spec g).canHandle d = true := by simpa using List.find?_some hg
    exact (invoke_q P h hq ci inner hin g d e).weaken (fun x => ⟨fun hgh => by rw [hgh] at hcan; rw [hcan] at x; simp at x, x.2⟩)

theorem dispatch_q (P : Prog σ) (h : HId) (hq : Quiet P h) :
    ∀ (d : Dgram) (e : Engine σ), QFrame h (Unanswered P h d) e (dispatch P d e).1 (dispatch P d e).2
  | .raw v, e => by
    unfold dispatch
    exact (dispatchWith_q P h hq True none (fun f hf => by cases hf) _ e).weaken (fun x => ⟨x, trivial⟩)
  | .pkt i, e => by
    unfold dispatch
    exact (dispatchWith_q P h hq (Unanswered P h i) (some (dispatch P i)) (fun f hf e' => by cases hf; exact dispatch_q P h hq i e') _ e).weaken
      (fun x => x)

/-! ### the engine survives the dispatch phase whatever the callbacks do -/

theorem actStep_alive (P : Prog σ) (g : HId) (inner : Inner σ) (hin : ∀ f, inner = some f → ∀ e, (f e).1.alive = e.alive)
    (a : Act) (e : Engine σ) : (actStep P g inner a e).1.alive = e.alive := by
  cases a with
  | unwrap =>
    cases inner with
    | none => rfl
    | some f => exact hin f rfl e
  | retryOrRaise =>
    simp only [actStep]
    split <;> rfl
  | markRemove => rfl
  | send h d => rfl
  | create h => rfl
  | add h => rfl

theorem runActs_alive (P : Prog σ) (g : HId) (inner : Inner σ) (hin : ∀ f, inner = some f → ∀ e, (f e).1.alive = e.alive) :
    ∀ (acts : List Act) (e : Engine σ), (runActs P g inner acts e).1.alive = e.alive := by
  intro acts
  induction acts with
  | nil => intro e; rfl
  | cons a rest ih =>
    intro e
    unfold runActs
    by_cases hr : (actStep P g inner a e).2.2 = true
    · simp only [hr, if_true]; exact actStep_alive P g inner hin a e
    · rw [if_neg hr]; simp only; rw [ih, actStep_alive P g inner hin a e]

theorem invoke_alive (P : Prog σ) (inner : Inner σ) (hin : ∀ f, inner = some f → ∀ e, (f e).1.alive = e.alive)
    (g : HId) (d : Dgram) (e : Engine σ) : (invoke P inner g d e).1.alive = e.alive := by
  unfold invoke
  simp only
  split
  · rw [runActs_alive P g inner hin]
  · rw [runActs_alive P g inner hin]; simp only; rw [runActs_alive P g inner hin]

theorem dispatchWith_alive (P : Prog σ) (inner : Inner σ) (hin : ∀ f, inner = some f → ∀ e, (f e).1.alive = e.alive)
    (d : Dgram) (e : Engine σ) : (dispatchWith P inner d e).1.alive = e.alive := by
  unfold dispatchWith
  split
  · rfl
  · exact invoke_alive P inner hin _ d e

theorem dispatch_alive (P : Prog σ) : ∀ (d : Dgram) (e : Engine σ), (dispatch P d e).1.alive = e.alive
  | .raw v, e => by unfold dispatch; exact dispatchWith_alive P none (fun f hf => by cases hf) _ e
  | .pkt i, e => by
    unfold dispatch
    exact dispatchWith_alive P (some (dispatch P i)) (fun f hf e' => by cases hf; exact dispatch_alive P i e') _ e

/-! ### one iteration, phase by phase (the order is the generated `threadPhaseCodes`) -/

def afterSend (P : Prog σ) (e : Engine σ) (env : Env) : Engine σ × List Out :=
  processSend P { e with clock := e.clock + env.dtPre }

def afterRecv (P : Prog σ) (e : Engine σ) (env : Env) : Engine σ × List Out :=
  match env.dgram with
  | none => ({ (afterSend P e env).1 with clock := (afterSend P e env).1.clock + env.dtRecv }, [])
  | some d => dispatch P d { (afterSend P e env).1 with clock := (afterSend P e env).1.clock + env.dtRecv }

def afterLoop (P : Prog σ) (e : Engine σ) (env : Env) : Engine σ × List Out :=
  loopAll P (afterRecv P e env).1.handlers (afterRecv P e env).1

theorem afterSend_alive (P : Prog σ) (e : Engine σ) (env : Env) : (afterSend P e env).1.alive = e.alive := by
  unfold afterSend; rw [processSend_alive]

theorem afterRecv_alive (P : Prog σ) (e : Engine σ) (env : Env) : (afterRecv P e env).1.alive = e.alive := by
  unfold afterRecv
  split
  · exact afterSend_alive P e env
  · rw [dispatch_alive]; exact afterSend_alive P e env

theorem runPhases_cons_alive (P : Prog σ) (env : Env) (p : Nat) (ps : List Nat) (e : Engine σ) (ha : e.alive = true) :
    runPhases P env (p :: ps) e =
      ((runPhases P env ps (runPhase P env p e).1).1, (runPhase P env p e).2 ++ (runPhases P env ps (runPhase P env p e).1).2) := by
  rw [runPhases]; simp [ha]

theorem runPhases_dead (P : Prog σ) (env : Env) (ps : List Nat) (e : Engine σ) (ha : e.alive = false) :
    runPhases P env ps e = (e, []) := by
  cases ps with
  | nil => rfl
  | cons p ps => rw [runPhases]; simp [ha]

/-! ### phase 2 seen from one handler whose on_retry_failed is the default -/

/-- has_timedout at clock `c` for timeout `T` -/
def expired (T c : Time) (s : HState) : Prop := 0 < T ∧ T < c - s.start

instance (T c : Time) (s : HState) : Decidable (expired T c s) := by unfold expired; exact inferInstance

/-- GeckoUdpProtocolHandler.loop on the handler's own state, default on_retry_failed -/
def tick (T c : Time) (s : HState) : HState :=
  if expired T c s then
    (if s.retries = 0 then { s with remove := true } else { s with retries := s.retries - 1, start := c })
  else s

/-- the `queue_send` that `loop` makes -/
def tickEnq (h : HId) (T c : Time) (s : HState) : List (HId × Option Dest) :=
  if expired T c s ∧ s.retries ≠ 0 then [(h, s.lastDest)] else []

theorem timedOut_iff (P : Prog σ) (h : HId) (e : Engine σ) :
    timedOut P h e = true ↔ expired (P.spec h).timeout e.clock (e.hs h) := by
  unfold timedOut expired
  simp only [timeoutStrict_eq, if_true]
  by_cases hT : (P.spec h).timeout > 0
  · simp [hT]
  · simp [hT]

theorem tick_idem (T c : Time) (s : HState) : tick T c (tick T c s) = tick T c s := by
  unfold tick
  by_cases he : expired T c s
  · simp only [he, if_true]
    by_cases hr : s.retries = 0
    · simp only [hr, if_true]
      simp
    · simp only [hr, if_false]
      have : ¬ expired T c { s with retries := s.retries - 1, start := c } := by
        unfold expired; simp
      simp [this]
  · simp [he]

theorem tickEnq_tick (h : HId) (T c : Time) (s : HState) : tickEnq h T c (tick T c s) = [] := by
  unfold tickEnq tick
  by_cases he : expired T c s
  · simp only [he, if_true]
    by_cases hr : s.retries = 0
    · simp [hr]
    · simp only [hr, if_false]
      have : ¬ expired T c { s with retries := s.retries - 1, start := c } := by
        unfold expired; simp
      simp [this]
  · simp [he]

theorem handlerLoop_self (P : Prog σ) (h : HId) (hf : (P.spec h).onFail = .remove) (e : Engine σ) :
    (handlerLoop P h e).1.hs h = tick (P.spec h).timeout e.clock (e.hs h) ∧
    enqsOf h (handlerLoop P h e).2.1 = tickEnq h (P.spec h).timeout e.clock (e.hs h) ∧
    (handlerLoop P h e).2.2 = false := by
  unfold handlerLoop tick tickEnq
  by_cases ht : timedOut P h e = true
  · have he := (timedOut_iff P h e).1 ht
    simp only [ht, Bool.not_true, Bool.false_eq_true, if_false, he, if_true, true_and]
    by_cases hr : (e.hs h).retries = 0
    · simp [hr, hf, upd_self, enqsOf, enqs]
    · simp [hr, Engine.enq, upd_self, enqsOf, enqs]
      exact recordDest_self _
  · have he : ¬ expired (P.spec h).timeout e.clock (e.hs h) := fun x => ht ((timedOut_iff P h e).2 x)
    have ht' : timedOut P h e = false := by simpa using ht
    simp [ht', he, enqsOf, enqs]

theorem handlerLoop_other (P : Prog σ) (h g : HId) (hne : h ≠ g) (e : Engine σ) :
    (handlerLoop P g e).1.hs h = e.hs h ∧ enqsOf h (handlerLoop P g e).2.1 = [] := by
  have hb : (g == h) = false := by simpa using fun x : g = h => hne x.symm
  unfold handlerLoop
  split
  · exact ⟨rfl, rfl⟩
  · split
    · split
      · exact ⟨rfl, rfl⟩
      · exact ⟨upd_other _ _ _ _ hne, rfl⟩
      · exact ⟨rfl, rfl⟩
    · exact ⟨by rw [enq_hs_other _ _ _ _ hne]; simp only; exact upd_other _ _ _ _ hne, by simp [enqsOf, enqs, hb]⟩

theorem handlerLoop_misc (P : Prog σ) (g : HId) (e : Engine σ) :
    (handlerLoop P g e).1.clock = e.clock ∧ (handlerLoop P g e).1.handlers = e.handlers ∧ (handlerLoop P g e).1.alive = e.alive ∧
    (handlerLoop P g e).2.2 = false := by
  unfold handlerLoop
  split
  · exact ⟨rfl, rfl, rfl, rfl⟩
  · split
    · split
      · exact ⟨rfl, rfl, rfl, rfl⟩
      · exact ⟨rfl, rfl, rfl, rfl⟩
      · exact ⟨rfl, rfl, rfl, by simp [loopPhaseGuarded_eq]⟩
    · exact ⟨rfl, rfl, rfl, rfl⟩

/-- the loop phase never stops the engine: each `handler.loop` call is guarded (source fact `loopPhaseGuarded`) -/
theorem loopAll_misc (P : Prog σ) : ∀ (l : List HId) (e : Engine σ),
    (loopAll P l e).1.clock = e.clock ∧ (loopAll P l e).1.handlers = e.handlers ∧ (loopAll P l e).1.alive = e.alive
  | [], e => ⟨rfl, rfl, rfl⟩
  | g :: rest, e => by
    obtain ⟨hc, hh, ha, hd⟩ := handlerLoop_misc P g e
    unfold loopAll
    simp only [hd, Bool.false_eq_true, if_false]
    obtain ⟨c2, h2, a2⟩ := loopAll_misc P rest (handlerLoop P g e).1
    exact ⟨by rw [c2, hc], by rw [h2, hh], by rw [a2, ha]⟩

theorem loopAll_h (P : Prog σ) (h : HId) (hf : (P.spec h).onFail = .remove) : ∀ (l : List HId) (e : Engine σ),
    (loopAll P l e).1.hs h = (if h ∈ l then tick (P.spec h).timeout e.clock (e.hs h) else e.hs h) ∧
    enqsOf h (loopAll P l e).2 = (if h ∈ l then tickEnq h (P.spec h).timeout e.clock (e.hs h) else [])
  | [], e => by simp [loopAll, enqsOf, enqs]
  | g :: rest, e => by
    obtain ⟨hc, _, _, hd'⟩ := handlerLoop_misc P g e
    have ih := loopAll_h P h hf rest (handlerLoop P g e).1
    unfold loopAll
    simp only [hd', Bool.false_eq_true, if_false]
    rw [enqsOf_append, ih.1, ih.2, hc]
    by_cases hg : h = g
    · subst hg
      obtain ⟨s1, s2, _⟩ := handlerLoop_self P h hf e
      rw [s1, s2]
      by_cases hm : h ∈ rest
      · simp [hm, tick_idem, tickEnq_tick]
      · simp [hm]
    · obtain ⟨s1, s2⟩ := handlerLoop_other P h g hg e
      rw [s1, s2]
      have : (h ∈ g :: rest) ↔ h ∈ rest := by simp [hg]
      by_cases hm : h ∈ rest
      · simp [hm, hg]
      · simp [hm, hg]

/-! ### phase 0 seen from one handler -/

theorem processSend_h (P : Prog σ) (h : HId) (e : Engine σ) :
    ((processSend P e).1.hs h = e.hs h ∨
      ∃ d, (h, some d) ∈ e.sendq ∧ (processSend P e).1.hs h = { e.hs h with lastDest := some d }) ∧
    (∀ x ∈ (processSend P e).1.sendq, x ∈ e.sendq) ∧ enqs (processSend P e).2 = [] := by
  unfold processSend
  split
  · exact ⟨Or.inl rfl, fun x hx => hx, rfl⟩
  · unfold popSend
    simp only [sendPopsFront_eq, if_true]
    cases hq : e.sendq with
    | nil => exact ⟨Or.inl rfl, fun x hx => by simp_all, rfl⟩
    | cons x rest =>
      obtain ⟨g, dest⟩ := x
      simp only
      split
      · exact ⟨Or.inl rfl, fun x hx => by simp [hx], rfl⟩
      · cases dest with
        | none => exact ⟨Or.inl rfl, fun x hx => by simp [hx], rfl⟩
        | some d =>
          simp only
          refine ⟨?_, fun x hx => by simp [hx], rfl⟩
          by_cases hg : h = g
          · subst hg; right; exact ⟨d, by simp, by rw [upd_self]⟩
          · left; exact upd_other _ _ _ _ hg

/-! ### the whole iteration, unfolded -/

theorem afterLoop_alive (P : Prog σ) (e : Engine σ) (env : Env) : (afterLoop P e env).1.alive = e.alive := by
  unfold afterLoop; rw [(loopAll_misc P _ _).2.2, afterRecv_alive]

theorem loopFuncPhase_alive (P : Prog σ) (e : Engine σ) : (loopFuncPhase P e).1.alive = e.alive := by
  unfold loopFuncPhase
  simp [loopFuncGuarded_eq]

theorem engineIter_unfold (P : Prog σ) (e : Engine σ) (env : Env) (ha : e.alive = true) :
    engineIter P e env =
      ((loopFuncPhase P (cleanup (afterLoop P e env).1)).1,
       (afterSend P e env).2 ++ ((afterRecv P e env).2 ++ ((afterLoop P e env).2 ++ (loopFuncPhase P (cleanup (afterLoop P e env).1)).2))) := by
  have h0 : (afterSend P e env).1.alive = true := by rw [afterSend_alive]; exact ha
  have h1 : (afterRecv P e env).1.alive = true := by rw [afterRecv_alive]; exact ha
  have h2 : (afterLoop P e env).1.alive = true := by rw [afterLoop_alive]; exact ha
  have e0 : runPhase P env 0 { e with clock := e.clock + env.dtPre } = afterSend P e env := rfl
  have e1 : runPhase P env 1 (afterSend P e env).1 = afterRecv P e env := by
    unfold runPhase afterRecv
    cases env.dgram <;> rfl
  have e2 : runPhase P env 2 (afterRecv P e env).1 = afterLoop P e env := rfl
  have e3 : runPhase P env 3 (afterLoop P e env).1 = (cleanup (afterLoop P e env).1, []) := rfl
  have e4 : runPhase P env 4 (cleanup (afterLoop P e env).1) = loopFuncPhase P (cleanup (afterLoop P e env).1) := rfl
  have h3 : (cleanup (afterLoop P e env).1).alive = true := h2
  unfold engineIter
  rw [if_neg (by simp [ha]), threadPhaseCodes_eq]
  rw [runPhases_cons_alive P env 0 _ { e with clock := e.clock + env.dtPre } ha, e0, runPhases_cons_alive P env 1 _ _ h0, e1,
      runPhases_cons_alive P env 2 _ _ h1, e2, runPhases_cons_alive P env 3 _ _ h2, e3, runPhases_cons_alive P env 4 _ _ h3, e4]
  simp [runPhases]

end GeckoModel.Threaded
