/-
C08 — lemmas for the statement that holds under every interleaving: the runner hands the client a delivery only
through `execFinish`, which updates the status sensor immediately before (same atomic step).
-/
import GeckoModel.Generated.LifecycleTable
import GeckoModel.Model.Lifecycle

namespace GeckoModel.Lifecycle

theorem exec_out_is_finish (env : Env) (m m' : M) (op : Op) (d : Delivered) (push : List Op)
    (h : exec table env m op = .out m' d push) : ∃ e, op = .finish e ∧ execFinish table m e = .out m' d push := by
  cases op with
  | finish e => exact ⟨e, rfl, h⟩
  | handle e => simp only [exec, execHandle] at h; repeat' split at h
                all_goals cases h
  | chain e => simp only [exec, execChain] at h; repeat' split at h
               all_goals cases h
  | act a =>
      cases a <;> simp only [exec, execAct, execCreate, execWc] at h <;> (repeat' split at h) <;> cases h
  | rstmt r => simp only [exec, execRStmt] at h; repeat' split at h
               all_goals cases h
  | rop o => cases o <;> simp only [exec, execROp] at h <;> cases h
  | dop o => cases o <;> simp only [exec, execDOp] at h <;> cases h
  | phase p => simp only [exec] at h; cases h
  | enterTry p => simp only [exec] at h; cases h
  | pop p =>
      cases p <;> simp only [exec, execPOp, execDiscover, execBuild] at h <;> (repeat' split at h) <;> cases h
  | fin ps => simp only [exec] at h; cases h
  | reraise => simp only [exec] at h; cases h
  | raiseNow => simp only [exec] at h; cases h
  | cstep c => cases c <;> simp only [exec, execCStep] at h <;> (repeat' split at h) <;> cases h
  | yield => simp only [exec] at h; cases h
  | setInfo i n => simp only [exec] at h; cases h
  | afterLocate => simp only [exec, execAfterLocate] at h; repeat' split at h
                   all_goals cases h

theorem finish_mirrors (m m' : M) (e : Event) (d : Delivered) (push : List Op)
    (h : execFinish table m e = .out m' d push) : d.sensor = true → d.status = some d.state := by
  simp only [execFinish] at h
  injection h with _ hd _
  subst hd
  intro hs
  by_cases hc : (m.sensor && table.touchBeforeDeliver) = true
  · simp only [hc, if_true] at hs ⊢
    cases m; rfl
  · have ht : table.touchBeforeDeliver = true := by decide
    simp only [hc] at hs
    simp [ht] at hc
    simp [hc] at hs

def Mirrors (d : Delivered) : Prop := d.sensor = true → d.status = some d.state

theorem unwind_go (c : Cfg) (op : Op) (ops : List Op) : ∃ c', unwind c op ops = .go c' ∧ c'.acc = c.acc := by
  cases op <;> exact ⟨_, rfl, rfl⟩

/-- one runner step either halts with the accumulated deliveries (plus at most one new one) or goes on with them -/
theorem next1_acc (env : Env) (c : Cfg) (hacc : ∀ d ∈ c.acc, Mirrors d) :
    match next1 table env c with
    | .halt r => ∀ d ∈ r.out, Mirrors d
    | .go c' => ∀ d ∈ c'.acc, Mirrors d := by
  unfold next1
  cases hops : c.ops with
  | nil => simp only; intro d hd; exact hacc d (List.mem_reverse.1 hd)
  | cons op ops =>
      simp only
      cases hr : c.raising with
      | true =>
          simp only [↓reduceIte]
          obtain ⟨c', h1, h2⟩ := unwind_go c op ops
          rw [h1]; simp only; rw [h2]; exact hacc
      | false =>
          simp only [Bool.false_eq_true, ↓reduceIte]
          cases hex : exec table env c.m op with
          | next m' push => simp only [applyRes]; exact hacc
          | raise m' => simp only [applyRes]; exact hacc
          | out m' d' push =>
              obtain ⟨e, _, hf⟩ := exec_out_is_finish env c.m m' op d' push hex
              have hm := finish_mirrors c.m m' e d' push hf
              have hall : ∀ x ∈ d' :: c.acc, Mirrors x := by
                intro x hx; rcases List.mem_cons.1 hx with rfl | hx
                · exact hm
                · exact hacc x hx
              simp only [applyRes, suspend]
              cases hs : c.stop with
              | none => exact hall
              | some k =>
                  cases k with
                  | zero => intro d hd; exact hall d (List.mem_reverse.1 hd)
                  | succ k => exact hall
          | pause m' push =>
              simp only [applyRes, suspend]
              cases hs : c.stop with
              | none => exact hacc
              | some k =>
                  cases k with
                  | zero => intro d hd; exact hacc d (List.mem_reverse.1 hd)
                  | succ k => exact hacc

theorem runCfg_mirrors (env : Env) : ∀ (fuel : Nat) (c : Cfg), (∀ d ∈ c.acc, Mirrors d) →
    ∀ d ∈ (runCfg table env fuel c).out, Mirrors d := by
  intro fuel
  induction fuel with
  | zero => intro c hacc d hd; simp only [runCfg, List.mem_reverse] at hd; exact hacc d hd
  | succ n ih =>
      intro c hacc
      have h := next1_acc env c hacc
      simp only [runCfg]
      cases hn : next1 table env c with
      | halt r => rw [hn] at h; exact h
      | go c' => rw [hn] at h; exact ih c' h

end GeckoModel.Lifecycle
