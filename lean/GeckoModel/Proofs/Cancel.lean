/-
Soundness of the cancellation analysis (Model/Cancel.lean): `outs` over-approximates how a skeleton can end, `cancelOuts`
over-approximates how it ends when cancelled at one of its awaits; `cancel_propagates`: a skeleton the analysis accepts ends by the
exception under EVERY cancellation.
-/
import GeckoModel.Model.Cancel
namespace GeckoModel.Coop

theorem mem_filter_ne {o x : Out} {l : List Out} (h : o ∈ l) (hne : o ≠ x) : o ∈ l.filter (· != x) := by
  simp [List.mem_filter, h, hne]

theorem contains_of_mem {o : Out} {l : List Out} (h : o ∈ l) : l.contains o = true := by
  simpa using h

theorem outs_sound {sk t o} (h : Run sk t o) : o ∈ outs sk := by
  induction h with
  | ev e => cases e <;> simp [outs]
  | awRaise n => simp [outs]
  | skip => simp [outs]
  | seqFall _ _ ih1 ih2 =>
    simp only [outs, List.mem_append]; right; rw [if_pos (contains_of_mem ih1)]; exact ih2
  | seqStop _ hne ih =>
    simp only [outs, List.mem_append]; left; exact mem_filter_ne ih hne
  | altL _ ih => simp only [outs, List.mem_append]; left; exact ih
  | altR _ ih => simp only [outs, List.mem_append]; right; exact ih
  | loopDone => simp [outs]
  | loopFall _ _ _ ih2 => exact ih2
  | loopCont _ _ _ ih2 => exact ih2
  | loopBrk _ _ => simp [outs]
  | loopRet _ ih => simp only [outs, List.mem_cons, List.mem_filter]; right; exact ⟨ih, by simp⟩
  | loopExc _ ih => simp only [outs, List.mem_cons, List.mem_filter]; right; exact ⟨ih, by simp⟩
  | exit => simp [outs]
  | brk => simp [outs]
  | cont => simp [outs]
  | raise => simp [outs]
  | finFall _ _ ih1 ih2 =>
    simp only [outs, List.mem_append]; left; rw [if_pos (contains_of_mem ih2)]; exact ih1
  | finStop _ _ hne _ ih2 =>
    simp only [outs, List.mem_append]; right; exact mem_filter_ne ih2 hne
  | tryOk _ hne ih => simp only [outs, List.mem_append]; left; exact mem_filter_ne ih hne
  | tryCaught _ _ ih1 ih2 =>
    simp only [outs, List.mem_append]; right; rw [if_pos (contains_of_mem ih1)]; exact List.mem_cons_of_mem _ ih2
  | tryUncaught _ ih =>
    simp only [outs, List.mem_append]; right; rw [if_pos (contains_of_mem ih)]; exact List.mem_cons_self

theorem thrownOuts_sound {catches : String → Bool} {point : Ev → Bool} {sk o} (h : Thrown catches point sk o) : o ∈ thrownOuts catches point sk := by
  induction h with
  | «at» e hp => simp [thrownOuts, hp]
  | seqL _ ih =>
    simp only [thrownOuts, List.mem_append]; left; exact ih
  | seqR ha _ ih =>
    simp only [thrownOuts, List.mem_append]; right; rw [if_pos (contains_of_mem (outs_sound ha))]; exact ih
  | altL _ ih => simp only [thrownOuts, List.mem_append]; left; exact ih
  | altR _ ih => simp only [thrownOuts, List.mem_append]; right; exact ih
  | loopNow _ ih => simp only [thrownOuts]; exact List.mem_map_of_mem ih
  | loopLater _ _ _ ih2 => exact ih2
  | finBody _ hf ih =>
    simp only [thrownOuts, List.mem_append]; left; left; rw [if_pos (contains_of_mem (outs_sound hf))]; exact ih
  | @finBodyStop body f t o o' _ hf hne ih =>
    simp only [thrownOuts, List.mem_append]; left; right
    have hne' : (thrownOuts catches point body).isEmpty = false := by
      cases hc : thrownOuts catches point body with
      | nil => rw [hc] at ih; cases ih
      | cons _ _ => rfl
    rw [hne']; exact mem_filter_ne (outs_sound hf) hne
  | @finIn body f t o o' hb _ ih =>
    simp only [thrownOuts, List.mem_append]; right
    by_cases ho : o' = .fall
    · subst ho; simp only [if_true]; right; rw [if_pos (contains_of_mem ih)]; exact outs_sound hb
    · rw [if_neg ho]; left; exact mem_filter_ne ih ho
  | tryPass _ hne ih =>
    simp only [thrownOuts, List.mem_append]; left; left; exact mem_filter_ne ih hne
  | tryCaught _ hfh hr ih =>
    simp only [thrownOuts, List.mem_append]; left; right
    rw [if_pos (contains_of_mem ih), hfh]; exact outs_sound hr
  | tryThrough _ hfh ih =>
    simp only [thrownOuts, List.mem_append]; left; right
    rw [if_pos (contains_of_mem ih), hfh]; simp
  | tryInHandler hb _ ih =>
    simp only [thrownOuts, List.mem_append]; right; rw [if_pos (contains_of_mem (outs_sound hb))]; exact ih

theorem cancelOuts_sound {sk o} (h : Cancelled sk o) : o ∈ cancelOuts sk := thrownOuts_sound h

/-- if the analysis says so, EVERY cancellation of the skeleton - at whichever await, after whatever prefix - propagates -/
theorem cancel_propagates {sk o} (hs : neverSwallowsCancel sk = true) (h : Cancelled sk o) : o = .exc := by
  have := cancelOuts_sound h
  simp only [neverSwallowsCancel, List.all_eq_true] at hs
  simpa using hs o this

/-- if the analysis says so, an ordinary exception raised at any of the awaits in `point` - after whatever prefix - never
propagates out of the skeleton -/
theorem exception_is_contained {point : Ev → Bool} {sk o} (hs : survivesEveryException point sk = true)
    (h : Thrown catchesAny point sk o) : o ≠ .exc := by
  have := thrownOuts_sound h
  simp only [survivesEveryException, List.all_eq_true] at hs
  simpa using hs o this

end GeckoModel.Coop
