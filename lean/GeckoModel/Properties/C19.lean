/-
C19 — Snapshot capture/replay round-trip.

Model: `Model/Snapshot.lean` (hand model of the writer `GeckoShell.do_snapshot`/`version_strings`, of the reader
`GeckoSnapshot.parse`/`parse_log_file` with its table of 15 regular expressions, of CPython's `bytes.__repr__` and of the
bytes-literal subset of `ast.literal_eval`).  Tie: the expression texts, handler order, method bodies, version templates and
log format are re-extracted from the source on every run (`Generated/SnapshotSrc.lean`, pinned below by `source_pinned`);
the behaviour of the model functions is compared with the real code by `harness/props/c19.py`.

Quantifiers: every byte list (any length ≥ 1, in particular every 1024-byte block), every version tuple, every pack label of
the shipped tables, every `SafeName`, every time stamp; every segmentation of a transferred range.
-/
import GeckoModel.Proofs.SnapshotWhole
import GeckoModel.Generated.SnapshotSrc

set_option linter.unusedSimpArgs false
set_option linter.unusedVariables false

namespace GeckoModel.C19
open GeckoModel GeckoModel.Snapshot GeckoModel.Generated

/-! ## the source the model mirrors has not moved -/

/-- the regex table (texts, order, handlers), the bodies of `_re_data`, `_re_data_segment`, `parse`, `parse_log_file`, the
version templates, `do_snapshot` and the log record format are exactly the ones the hand model was written against -/
theorem source_pinned :
    SnapshotSrc.regexes = regexTexts ∧ SnapshotSrc.handlers = regexHandlers ∧
    SnapshotSrc.reDataSrc = "self._bytes = bytes(bytearray([int(b.strip()[1:-1], 16) for b in groups[0].split(',')]))" ∧
    SnapshotSrc.reDataSegmentSrc = "data = re.sub(\"\\\\\\\\.|'\", lambda m: '\\\\x27' if m.group(0) in (\"'\", \"\\\\'\") else m.group(0), groups[0], flags=re.DOTALL); bytes_ = ast.literal_eval(f\"b'{data}'\"); self._status_block_handler.handle(bytes_, None); self._status_block_segments.append(self._status_block_handler.data); if self._status_block_handler.next == 0:     self._bytes = b''.join(self._status_block_segments)" ∧
    SnapshotSrc.parseSrc = "self._lines.append(line); for fn in self._funcs:     match = re.search(fn[0], line, re.DOTALL)     if match:         fn[1](match.groups())" ∧
    SnapshotSrc.parseLogFileSrc = "snapshots = []; snapshot = None; connection = None; with open(file) as f:     for line in f:         if 'Snapshot' in line:             snapshot = GeckoSnapshot()         if snapshot:             if 'INFO' in line:                 snapshot.parse(line)             else:                 snapshots.append(snapshot)                 snapshot = None         if 'Starting spa connection handshake...' in line:             connection = GeckoSnapshot()             connection._name = 'Connection found'         if connection:             if 'Spa is connected' in line:                 connection.parse(line)                 snapshots.append(connection)                 connection = None             else:                 connection.parse(line); if snapshot is not None:     snapshots.append(snapshot); if connection is not None:     snapshots.append(connection); return snapshots" ∧
    SnapshotSrc.versionTemplates = [
      "geckolib version {VERSION}",
      "SpaPackStruct.xml revision {self.facade.spa.revision}",
      "intouch version EN {self.facade.spa.intouch_version_en}",
      "intouch version CO {self.facade.spa.intouch_version_co}",
      "Spa pack {self.facade.spa.pack} {self.facade.spa.version}",
      "Low level configuration # {self.facade.spa.config_number}",
      "Config version {self.facade.spa.config_version}",
      "Log version {self.facade.spa.log_version}",
      "Pack type {self.facade.spa.pack_type}"] ∧
    SnapshotSrc.doSnapshotSrc = "logger.info('Snapshot (%s)', arg); for ver_str in self.version_strings:     logger.info(ver_str); logger.info([hex(b) for b in self.facade.spa.struct.status_block])" ∧
    SnapshotSrc.logFormat = "%(asctime)s %(name)s %(levelname)s %(message)s" :=
  ⟨rfl, rfl, rfl, rfl, rfl, rfl, rfl, rfl, rfl⟩

/-! ## the block dump -/

/-- **block round trip, the regex included**: a line that carries the dump of ANY non-empty byte list after a `[`-free prefix
(the time stamp and logger tag are) and before white space only (the line end) parses back to exactly those bytes -/
theorem block_roundtrip_line (pfx sfx : Text) (b : Byte) (bs : List Byte) (h : pfx.all (· != '[') = true)
    (hs : sfx.all isSpace = true) :
    parseBlockL (pfx ++ (renderBlockL (b :: bs) ++ sfx)) = some (b :: bs) := by
  unfold parseBlockL dataLine
  simp only [reData_block _ _ _ _ h hs, decodeHexList_renderItems]

/-- **block round trip**: `parseBlock (renderBlock bs) = some bs` for every byte list of any length ≥ 1 -/
theorem block_roundtrip (b : Byte) (bs : List Byte) : parseBlock (renderBlock (b :: bs)) = some (b :: bs) := by
  have := block_roundtrip_line [] [] b bs rfl rfl
  simpa [parseBlock, renderBlock] using this

/-- the property's quantifier: every 1024-byte block -/
theorem block_roundtrip_1024 (blk : List Byte) (h : blk.length = 1024) : parseBlock (renderBlock blk) = some blk := by
  cases blk with
  | nil => simp at h
  | cons b bs => exact block_roundtrip b bs

/-- outside the quantifier (a status block is never empty): the dump `[]` of the empty list is not matched by the block
expression (it wants at least one item), so `_bytes` keeps its initial value `b""` -/
theorem empty_block_not_matched : dataLine (renderBlockL []) = .noMatch := by decide

/-- the block expression never fires on a line whose last visible character is not `]` - in particular not on the name
line `.. Snapshot (<any name>)` (D14, repaired by 609eb50) and not on a `Received b'..' from (..)` record -/
theorem block_regex_needs_closing_bracket (line : Text) (h : endsClose line = false) : dataLine line = .noMatch := by
  unfold dataLine; rw [reData_none_of_open line h]

/-! ## the version header -/

theorem shipped_labels_ok : ∀ l ∈ SnapshotSrc.packTypeLabels, LabelOK l := by decide

/-- **version round trip**: for all version numbers, all configuration / log versions and every pack label (`LabelOK`; all
15 labels of the shipped tables are, `shipped_labels_ok`), the nine header lines parse back to the same pack type, pack
configuration id / revision / release, in.touch EN and CO triples, and config / log versions -/
theorem versions_roundtrip (stamp : Text) (hs : stamp.all stampChar = true) (h : Header) (hh : HeaderOK h) :
    parseVersions (renderVersions stamp h) = .ok { h.expected [] [] with name := none } := by
  rw [renderVersions_eq]
  simp only [parseVersions, parseLines,
    (facts_libVersion stamp hs _ hh.lib).parse, (facts_revision stamp hs _ hh.rev).parse,
    (facts_intouchEN stamp hs _ _ _).parse, (facts_intouchCO stamp hs _ _ _).parse,
    (facts_spaPack stamp hs _ hh.label _ _ _).parse, (facts_lowLevel stamp hs _).parse,
    (facts_config stamp hs _).parse, (facts_log stamp hs _).parse, (facts_packTypeNo stamp hs _).parse]
  simp [Except.map, Snap.view, Header.expected, decToNat_natToDec]

/-! ## the whole snapshot record through `parse_log_file` -/

/-- **whole round trip**: for every `SafeName`, every header (`HeaderOK`), every non-empty block and any time stamps, the
eleven records `do_snapshot` appends to the log are read by `parse_log_file` as exactly ONE snapshot whose name, pack type,
pack configuration, in.touch versions, config / log versions and bytes are the ones written -/
theorem whole_roundtrip (stamps : List Text) (hlen : stamps.length = 11) (hst : ∀ st ∈ stamps, st.all stampChar = true)
    (name : Text) (hn : SafeName name) (h : Header) (hh : HeaderOK h) (b : Byte) (bs : List Byte) :
    (parseLogFile (writeSnapshot stamps name h (b :: bs))).map (·.map Snap.view) = .ok [h.expected name (b :: bs)] := by
  match stamps, hlen with
  | [s0, s1, s2, s3, s4, s5, s6, s7, s8, s9, s10], _ =>
    have q : ∀ st, st ∈ [s0, s1, s2, s3, s4, s5, s6, s7, s8, s9, s10] → st.all stampChar = true := hst
    simp only [List.mem_cons, List.not_mem_nil, or_false] at q
    rw [writeSnapshot_eq]
    obtain ⟨n0, e0, hname, _⟩ := fileLoop_name _ name _ (facts_name s0 (q s0 (by simp)) name hn)
    simp only [parseLogFile]
    rw [e0,
      fileLoop_cons _ _ _ _ _ (facts_libVersion s1 (q s1 (by simp)) _ hh.lib),
      fileLoop_cons _ _ _ _ _ (facts_revision s2 (q s2 (by simp)) _ hh.rev),
      fileLoop_cons _ _ _ _ _ (facts_intouchEN s3 (q s3 (by simp)) h.enB h.enMaj h.enMin),
      fileLoop_cons _ _ _ _ _ (facts_intouchCO s4 (q s4 (by simp)) h.coB h.coMaj h.coMin),
      fileLoop_cons _ _ _ _ _ (facts_spaPack s5 (q s5 (by simp)) _ hh.label h.confId h.confRev h.confRel),
      fileLoop_cons _ _ _ _ _ (facts_lowLevel s6 (q s6 (by simp)) h.configNumber),
      fileLoop_cons _ _ _ _ _ (facts_config s7 (q s7 (by simp)) h.cfg),
      fileLoop_cons _ _ _ _ _ (facts_log s8 (q s8 (by simp)) h.log),
      fileLoop_cons _ _ _ _ _ (facts_packTypeNo s9 (q s9 (by simp)) h.packTypeNo),
      fileLoop_cons _ _ _ _ _ (facts_block s10 (q s10 (by simp)) b bs)]
    simp [fileLoop, Except.map, Snap.view, Header.expected, decToNat_natToDec, hname]

/-! ### outside `SafeName`: the two recorded findings -/

def exHeader : Header := ⟨t!"0.4.8", t!"19.00", 88, 15, 0, 89, 11, 0, t!"inXM", 186, 3, 0, 4, 9, 9, 6⟩
def exStamps : List Text := List.replicate 11 t!"2020-12-08 19:53:28,310"

/-- D14 is repaired (609eb50): the name `[]` is safe and round-trips (it used to raise ValueError out of `parse_log_file`) -/
example : SafeName t!"[]" ∧ SafeName t!"['0x100']" ∧ SafeName t!"x [,] y" := by decide
example : (parseLogFile (writeSnapshot exStamps t!"[]" exHeader [4, 0, 0x78])).map (·.map Snap.view)
    = .ok [exHeader.expected t!"[]" [4, 0, 0x78]] :=
  whole_roundtrip exStamps rfl (by decide) _ (by decide) _ ⟨by decide, by decide, by decide⟩ 4 [0, 0x78]

/-- recorded finding `name:struct.error:_re_data_segment`: a name that carries `STATV..</DATAS>` makes the segment handler's
`struct.unpack` raise out of `parse_log_file` -/
theorem name_statv_fails :
    ¬ SafeName t!"STATV</DATAS>" ∧
    parseLogFile (writeSnapshot exStamps t!"STATV</DATAS>" exHeader [4, 0, 0x78]) = .error .structError := by
  constructor
  · decide
  · decide +kernel

/-- recorded finding `name:extra-records`: a name containing the handshake text opens a connection record as well -/
theorem name_handshake_extra_record :
    ¬ SafeName t!"Starting spa connection handshake..." ∧
    (parseLogFile (writeSnapshot exStamps t!"Starting spa connection handshake..." exHeader [4, 0, 0x78])).map (·.length)
      = .ok 2 := by
  constructor
  · decide
  · decide +kernel

/-- .. while names with brackets, parentheses, digits or header-like text are safe -/
example : SafeName t!"Heating" ∧ SafeName t!"Config version 3" ∧ SafeName t!"a (b) [c" ∧ SafeName t!"['0x1f']" ∧
    SafeName t!"pump) 2 (on" ∧ SafeName t!"Spa pack inYT 1 v2.3" := by decide

/-! ## traffic logs -/

/-- **segment round trip (FULL, since d863da2)**: every byte string is read back exactly from the text `bytes.__repr__`
wrote for it, through the tokenising quote replacement and `ast.literal_eval` -/
theorem segment_roundtrip (seg : List Byte) : litEval (fixQuotes (escBytes (quoteOf seg) seg)) = .ok seg := by
  have := litEval_escBytes _ (quoteOf_cases seg) seg []
  rw [List.append_nil] at this
  rw [this]; simp [litEval, litRun, Except.map]

/-- .. and so is every stretch of a datagram, whatever quote `bytes.__repr__` chose for the whole datagram -/
theorem segment_roundtrip_in_packet (pkt seg : List Byte) : litEval (fixQuotes (escBytes (quoteOf pkt) seg)) = .ok seg := by
  have := litEval_escBytes _ (quoteOf_cases pkt) seg []
  rw [List.append_nil] at this
  rw [this]; simp [litEval, litRun, Except.map]

/-- the former D13 witness now round-trips: `'"` is written `b'\'"'` and read as `\x27"` = the same two bytes -/
example : litEval (fixQuotes (escBytes (quoteOf [0x27, 0x22]) [0x27, 0x22])) = .ok [0x27, 0x22] := by decide

/-- **reassembly of a chain**: the records of one transfer, in order, the last one announcing segment 0, give back the
concatenation of the segment data -/
theorem reassemble_chain (src dst : List Byte) (recs : List Rec) (hch : Chained (recs.map (·.seg)))
    (hok : ∀ r ∈ recs, RecOK src dst r) :
    reassemble (recs.map (recLine src dst)) = .ok (recs.map (·.seg.data)).flatten := by
  obtain ⟨s', e, b⟩ := parseLines_chain src dst recs hch hok connInit
  unfold reassemble; rw [e]; simp [Except.map, b, connInit]

/-- **any segmentation (FULL: no hypothesis on the data)**: for EVERY split `parts` of the transferred range into at most 256 pieces, the in-order chain
(idx 0,1,2.., next = idx+1, last next = 0) reassembles to the range -/
theorem reassemble_any_segmentation (src dst : List Byte) (range : List Byte) (parts : List (List Byte))
    (hsplit : parts.flatten = range) (hne : parts ≠ []) (hcount : parts.length ≤ 256)
    (recs : List Rec) (hsegs : recs.map (·.seg) = chainFrom 0 parts) (hok : ∀ r ∈ recs, RecOK src dst r) :
    reassemble (recs.map (recLine src dst)) = .ok range := by
  rw [reassemble_chain src dst recs (by rw [hsegs]; exact chainFrom_chained 0 parts hne (by omega)) hok]
  have : recs.map (·.seg.data) = parts := by
    have e : recs.map (·.seg.data) = (recs.map (·.seg)).map (·.data) := by simp [List.map_map]
    rw [e, hsegs, chainFrom_data]
  rw [this, hsplit]

/-! ## non-vacuity: the hypotheses are met by concrete, realistic instances; the excluded cases really fail -/

example : HeaderOK exHeader := ⟨by decide, by decide, by decide⟩
example : ∀ st ∈ exStamps, st.all stampChar = true := by decide

/-- the theorem instantiated (hypotheses discharged by evaluation) and the same value obtained by running the model -/
example : (parseLogFile (writeSnapshot exStamps t!"Pump 1 (low) [test]" exHeader [4, 0, 0x78, 0xff])).map (·.map Snap.view)
    = .ok [exHeader.expected t!"Pump 1 (low) [test]" [4, 0, 0x78, 0xff]] :=
  whole_roundtrip exStamps rfl (by decide) _ (by decide) _ ⟨by decide, by decide, by decide⟩ 4 [0, 0x78, 0xff]
example : (parseLogFile (writeSnapshot exStamps t!"Config version 3" exHeader [4, 0, 0x78, 0xff])).map (·.map Snap.view)
    = .ok [exHeader.expected t!"Config version 3" [4, 0, 0x78, 0xff]] := by decide +kernel

def exSrc : List Byte := asciiBytes t!"SPA01:02:03:04:05:06"
def exDst : List Byte := asciiBytes t!"IOS02ac6d28-42d0-41e3-ad22-274d0aa491da"
def exPre : Text := t!"2020-12-14 10:31:39,710 geckolib.driver.udp_socket DEBUG Received "
def exPost : Text := t!" from ('192.168.86.229', 10022)\n"
/-- a 39-byte first segment (its length byte IS the quote character `'`) and a short last one -/
def exSeg0 : Seg := ⟨0, 1, [2, 2, 0xac, 2, 8, 0, 1, 0x1e, 0x17, 0, 0x0c, 0, 1, 0, 2, 3, 4, 0, 0, 0, 0, 0x0c, 0, 0, 0, 0, 0x0e, 0, 0,
  1, 0, 1, 2, 1, 0x5b, 0x41, 0x5c, 0x0a, 0x7f]⟩
def exSeg1 : Seg := ⟨1, 0, [0x30, 0x40, 0x80]⟩
def exRecs : List Rec := [⟨exPre, exPost, exSeg0⟩, ⟨exPre, exPost, exSeg1⟩]

example : ∀ r ∈ exRecs, RecOK exSrc exDst r := by
  intro r hr
  simp only [exRecs, List.mem_cons, List.not_mem_nil, or_false] at hr
  rcases hr with rfl | rfl
  · exact ⟨⟨by decide, by decide, by decide, by decide, by decide, by decide⟩, by decide⟩
  · exact ⟨⟨by decide, by decide, by decide, by decide, by decide, by decide⟩, by decide⟩
example : Chained (exRecs.map (·.seg)) := by simp [Chained, exRecs, exSeg0, exSeg1]
example : exRecs.map (·.seg) = chainFrom 0 [exSeg0.data, exSeg1.data] := by decide
example : reassemble (exRecs.map (recLine exSrc exDst)) = .ok (exSeg0.data ++ exSeg1.data) := by decide +kernel

/-- the two records that used to break the connection parse now reassemble (instances of the theorem, and by evaluation):
one `"` (0x22) in a full 39-byte segment whose length byte is `'` (D13), and data that spells `[]` (0x5b 0x5d) -/
def exSegQ : Seg := ⟨0, 0, 0x22 :: List.replicate 38 0⟩
def exSegB : Seg := ⟨0, 0, [0x5b, 0x5d, 1, 2]⟩
example : reassemble [recLine exSrc exDst ⟨exPre, exPost, exSegQ⟩] = .ok exSegQ.data := by decide +kernel
example : reassemble [recLine exSrc exDst ⟨exPre, exPost, exSegB⟩] = .ok exSegB.data := by decide +kernel
example : reassemble [recLine exSrc exDst ⟨exPre, exPost, exSegB⟩] = .ok exSegB.data :=
  reassemble_any_segmentation exSrc exDst _ [exSegB.data] rfl (by decide) (by decide) [⟨exPre, exPost, exSegB⟩] rfl
    (by intro r hr; simp only [List.mem_cons, List.not_mem_nil, or_false] at hr; subst hr
        exact ⟨⟨by decide, by decide, by decide, by decide, by decide, by decide⟩, by decide⟩)

end GeckoModel.C19
