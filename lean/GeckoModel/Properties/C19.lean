/-
C19 — Snapshot capture/replay round-trip.

Model: `Model/Snapshot.lean` (hand model of the writer `GeckoShell.do_snapshot`/`version_strings`, of the reader
`GeckoSnapshot.parse`/`parse_log_file` with its table of 15 regular expressions, of CPython's `bytes.__repr__` and of the
bytes-literal subset of `ast.literal_eval`).  Tie: the expression texts, handler order, method bodies, version templates and
log format are re-extracted from the source on every run (`Generated/SnapshotSrc.lean`, pinned below by `source_pinned`);
the behaviour of the model functions is compared with the real code by `harness/props/c19.py`.

Quantifiers: every byte list (any length ≥ 1, in particular every 1024-byte block), every version tuple, every pack label of
the shipped tables, every `SafeName`, every time stamp; every segmentation of a transferred range.
-/
import GeckoModel.Proofs.SnapshotTraffic
import GeckoModel.Generated.SnapshotSrc

set_option linter.unusedSimpArgs false
set_option linter.unusedVariables false

namespace GeckoModel.C19
open GeckoModel GeckoModel.Snapshot GeckoModel.Generated

/-! ## the source the model mirrors has not moved -/

/-- the regex table (texts, order, handlers), the bodies of `_re_data`, `_re_data_segment`, `parse`, `parse_log_file`, the
version templates, `do_snapshot` and the log record format are exactly the ones the hand model was written against -/
theorem source_pinned :
    SnapshotSrc.regexes = regexTexts ∧ SnapshotSrc.handlers = regexHandlers ∧
    SnapshotSrc.reDataSrc = "self._bytes = bytes(bytearray([int(b.strip()[1:-1], 16) for b in groups[0].split(',')]))" ∧
    SnapshotSrc.reDataSegmentSrc = "data = groups[0].replace(\"'\", '\\\\x27'); bytes_ = ast.literal_eval(f\"b'{data}'\"); self._status_block_handler.handle(bytes_, None); self._status_block_segments.append(self._status_block_handler.data); if self._status_block_handler.next == 0:     self._bytes = b''.join(self._status_block_segments)" ∧
    SnapshotSrc.parseSrc = "self._lines.append(line); for fn in self._funcs:     match = re.search(fn[0], line, re.DOTALL)     if match:         fn[1](match.groups())" ∧
    SnapshotSrc.parseLogFileSrc = "snapshots = []; snapshot = None; connection = None; with open(file) as f:     for line in f:         if 'Snapshot' in line:             snapshot = GeckoSnapshot()         if snapshot:             if 'INFO' in line:                 snapshot.parse(line)             else:                 snapshots.append(snapshot)                 snapshot = None         if 'Starting spa connection handshake...' in line:             connection = GeckoSnapshot()             connection._name = 'Connection found'         if connection:             if 'Spa is connected' in line:                 connection.parse(line)                 snapshots.append(connection)                 connection = None             else:                 connection.parse(line); if snapshot is not None:     snapshots.append(snapshot); if connection is not None:     snapshots.append(connection); return snapshots" ∧
    SnapshotSrc.versionTemplates = [
      "geckolib version {VERSION}",
      "SpaPackStruct.xml revision {self.facade.spa.revision}",
      "intouch version EN {self.facade.spa.intouch_version_en}",
      "intouch version CO {self.facade.spa.intouch_version_co}",
      "Spa pack {self.facade.spa.pack} {self.facade.spa.version}",
      "Low level configuration # {self.facade.spa.config_number}",
      "Config version {self.facade.spa.config_version}",
      "Log version {self.facade.spa.log_version}",
      "Pack type {self.facade.spa.pack_type}"] ∧
    SnapshotSrc.doSnapshotSrc = "logger.info('Snapshot (%s)', arg); for ver_str in self.version_strings:     logger.info(ver_str); logger.info([hex(b) for b in self.facade.spa.struct.status_block])" ∧
    SnapshotSrc.logFormat = "%(asctime)s %(name)s %(levelname)s %(message)s" :=
  ⟨rfl, rfl, rfl, rfl, rfl, rfl, rfl, rfl, rfl⟩

/-! ## the block dump -/

/-- **block round trip, the regex included**: a line that carries the dump of ANY non-empty byte list after a `[`-free prefix
(the time stamp and logger tag are) and before anything at all parses back to exactly those bytes -/
theorem block_roundtrip_line (pfx sfx : Text) (b : Byte) (bs : List Byte) (h : pfx.all (· != '[') = true) :
    parseBlockL (pfx ++ (renderBlockL (b :: bs) ++ sfx)) = some (b :: bs) := by
  unfold parseBlockL dataLine
  simp only [reData_block _ _ _ h, decodeHexList_renderItems]

/-- **block round trip**: `parseBlock (renderBlock bs) = some bs` for every byte list of any length ≥ 1 -/
theorem block_roundtrip (b : Byte) (bs : List Byte) : parseBlock (renderBlock (b :: bs)) = some (b :: bs) := by
  have := block_roundtrip_line [] [] b bs rfl
  simpa [parseBlock, renderBlock] using this

/-- the property's quantifier: every 1024-byte block -/
theorem block_roundtrip_1024 (blk : List Byte) (h : blk.length = 1024) : parseBlock (renderBlock blk) = some blk := by
  cases blk with
  | nil => simp at h
  | cons b bs => exact block_roundtrip b bs

/-- outside the quantifier (a status block is never empty): the dump `[]` of the empty list is NOT readable, the element
parser sees one empty token and `int('', 16)` raises -/
theorem empty_block_unreadable : dataLine (renderBlockL []) = .raises := by decide

/-! ## the version header -/

theorem shipped_labels_ok : ∀ l ∈ SnapshotSrc.packTypeLabels, LabelOK l := by decide

theorem renderVersions_eq (stamp : Text) (h : Header) : renderVersions stamp h = [
    stamp ++ (shellTag ++ (t!"geckolib version " ++ (h.libVersion ++ ['\n']))),
    stamp ++ (shellTag ++ (t!"SpaPackStruct.xml revision " ++ (h.revision ++ ['\n']))),
    stamp ++ (shellTag ++ (t!"intouch version EN " ++ (natToDec h.enB ++ (t!" v" ++ (natToDec h.enMaj ++ ('.' :: (natToDec h.enMin ++ ['\n']))))))),
    stamp ++ (shellTag ++ (t!"intouch version CO " ++ (natToDec h.coB ++ (t!" v" ++ (natToDec h.coMaj ++ ('.' :: (natToDec h.coMin ++ ['\n']))))))),
    stamp ++ (shellTag ++ (t!"Spa pack " ++ (h.pack ++ (' ' :: (natToDec h.confId ++ (t!" v" ++ (natToDec h.confRev ++ ('.' :: (natToDec h.confRel ++ ['\n']))))))))),
    stamp ++ (shellTag ++ (t!"Low level configuration # " ++ (natToDec h.configNumber ++ ['\n']))),
    stamp ++ (shellTag ++ (t!"Config version " ++ (natToDec h.cfg ++ ['\n']))),
    stamp ++ (shellTag ++ (t!"Log version " ++ (natToDec h.log ++ ['\n']))),
    stamp ++ (shellTag ++ (t!"Pack type " ++ (natToDec h.packTypeNo ++ ['\n'])))] := by
  simp [renderVersions, versionMessages, logLine]

/-- header hypotheses: the two free-text fields are digits and dots, the label is one inside which no expression can start -/
structure HeaderOK (h : Header) : Prop where
  lib : h.libVersion.all verChar = true
  rev : h.revision.all verChar = true
  label : LabelOK h.pack

/-- **version round trip**: for all version numbers, all configuration / log versions and every pack label (`LabelOK`; all
15 labels of the shipped tables are, `shipped_labels_ok`), the nine header lines parse back to the same pack type, pack
configuration id / revision / release, in.touch EN and CO triples, and config / log versions -/
theorem versions_roundtrip (stamp : Text) (hs : stamp.all stampChar = true) (h : Header) (hh : HeaderOK h) :
    parseVersions (renderVersions stamp h) = .ok { h.expected [] [] with name := none } := by
  rw [renderVersions_eq]
  simp only [parseVersions, parseLines,
    (facts_libVersion stamp hs _ hh.lib).parse, (facts_revision stamp hs _ hh.rev).parse,
    (facts_intouchEN stamp hs _ _ _).parse, (facts_intouchCO stamp hs _ _ _).parse,
    (facts_spaPack stamp hs _ hh.label _ _ _).parse, (facts_lowLevel stamp hs _).parse,
    (facts_config stamp hs _).parse, (facts_log stamp hs _).parse, (facts_packTypeNo stamp hs _).parse]
  simp [Except.map, Snap.view, Header.expected, decToNat_natToDec]

end GeckoModel.C19
