/-
C05 — Partial updates are applied exactly once, in arrival order, and acknowledged.

Model: `Model/Partial.lean`, parameterised by the facts regenerated from the source (`Generated/PartialFacts.lean`:
record slicing, the `self.changes = []` reset of the async handler, the clear-after-apply of the threaded callback,
"acknowledge before parsing", the counter kind of the acknowledgement) and by the generated sequence counters.
Quantifiers: every finite history of STATP messages (any number of records, any positions/values, repeated positions,
the simulator's 1-byte form) interleaved with refreshes, for both clients, by induction over the history.
-/
import GeckoModel.Model.Partial
import GeckoModel.Properties.C16
import GeckoModel.Proofs.Coop
import GeckoModel.Generated.Skeletons
import GeckoModel.Model.Coop
import GeckoModel.Model.Wire

namespace GeckoModel.C05
open GeckoModel GeckoModel.Generated

/-- **async client = reference**, whatever the handler's pending list held before (e.g. left over from any earlier
message): no change is dropped, none replayed from an earlier message, none applied twice -/
theorem async_equals_reference (h : List PEvent) : ∀ (c : PClient),
    (PClient.runAsync c h).map (·.block) = refBlock parseStatpAsync c.block h := by
  induction h with
  | nil => intro c; rfl
  | cons e es ih =>
    intro c
    cases e with
    | statp rem =>
      simp only [PClient.runAsync, PClient.runWith, PClient.stepWith, PClient.statpAsync, refBlock]
      cases hp : parseStatpAsync rem with
      | none => rfl
      | some recs =>
        have := ih { block := applyChanges c.block recs, changes := recs,
                     seq := (nextSeqAsync c.seq ackUsesCommandCounterAsync).1,
                     acks := c.acks ++ [(nextSeqAsync c.seq ackUsesCommandCounterAsync).2] }
        simpa [PClient.runAsync, resetsChangesAsync, asyncAppliesInOrder] using this
    | refresh off seg =>
      simp only [PClient.runAsync, PClient.runWith, PClient.stepWith, refBlock]
      exact ih (c.refresh off seg)

/-- **threaded client = reference**, provided nothing is pending at the start (true of a fresh handler) … -/
theorem sync_equals_reference (h : List PEvent) : ∀ (c : PClient), c.changes = [] →
    (PClient.runSync c h).map (·.block) = refBlock parseStatpSync c.block h ∧
    ∀ c', PClient.runSync c h = some c' → c'.changes = [] := by
  induction h with
  | nil => intro c hc; exact ⟨rfl, by intro c' h; cases h; exact hc⟩
  | cons e es ih =>
    intro c hc
    cases e with
    | statp rem =>
      simp only [PClient.runSync, PClient.runWith, PClient.stepWith, PClient.statpSync, refBlock]
      cases hp : parseStatpSync rem with
      | none => exact ⟨rfl, by intro c' h; cases h⟩
      | some recs =>
        have := ih { block := applyChanges c.block recs, changes := [],
                     seq := (nextSeqSync c.seq ackUsesCommandCounterSync).1,
                     acks := c.acks ++ [(nextSeqSync c.seq ackUsesCommandCounterSync).2] } rfl
        simpa [PClient.runSync, resetsChangesSync, syncAppliesInOrder, syncClearsAfterApply, hc] using this
    | refresh off seg =>
      simp only [PClient.runSync, PClient.runWith, PClient.stepWith, refBlock]
      exact ih (c.refresh off seg) hc

/-- … and **the pending list is empty between messages** (the 0.3.19 "accumulating for all time" bug class) -/
theorem pending_empty_between_messages (h : List PEvent) (c c' : PClient) (hc : c.changes = [])
    (hr : PClient.runSync c h = some c') : c'.changes = [] :=
  (sync_equals_reference h c hc).2 c' hr

/-- both record parsers read the same layout -/
theorem same_record_layout : parseStatpAsync = parseStatpSync := by
  funext rem; rfl

def countStatp : List PEvent → Nat
  | [] => 0
  | .statp _ :: es => countStatp es + 1
  | .refresh _ _ :: es => countStatp es

/-- counter-state invariant of C16, existentially over the number of calls so far -/
def SeqOK (s : SeqState) : Prop := ∃ np nc, C16.Inv s np nc

theorem acks_async (h : List PEvent) : ∀ (c c' : PClient), SeqOK c.seq → PClient.runAsync c h = some c' →
    SeqOK c'.seq ∧ ∃ new, c'.acks = c.acks ++ new ∧ new.length = countStatp h ∧ ∀ n ∈ new, 1 ≤ n ∧ n ≤ 191 := by
  induction h with
  | nil => intro c c' hs hr; cases hr; exact ⟨hs, [], by simp, rfl, by simp⟩
  | cons e es ih =>
    intro c c' hs hr
    cases e with
    | statp rem =>
      simp only [PClient.runAsync, PClient.runWith, PClient.stepWith, PClient.statpAsync] at hr
      cases hp : parseStatpAsync rem with
      | none => simp [hp] at hr
      | some recs =>
        simp only [hp] at hr
        obtain ⟨np, nc, hinv⟩ := hs
        obtain ⟨h1, h2, _⟩ := C16.async_step_ok.proto_step c.seq np nc hinv
        have hk : ackUsesCommandCounterAsync = false := rfl
        obtain ⟨hs', new, e1, e2, e3⟩ := ih _ c' ⟨np + 1, nc, by simpa [hk] using h2⟩ hr
        refine ⟨hs', (nextSeqAsync c.seq false).2 :: new, ?_, by simp [countStatp, e2], ?_⟩
        · simpa [hk, List.append_assoc] using e1
        · intro n hn
          simp only [List.mem_cons] at hn
          rcases hn with rfl | hn
          · rw [h1]; omega
          · exact e3 n hn
    | refresh off seg =>
      simp only [PClient.runAsync, PClient.runWith, PClient.stepWith] at hr
      exact ih (c.refresh off seg) c' hs hr

theorem acks_sync (h : List PEvent) : ∀ (c c' : PClient), SeqOK c.seq → PClient.runSync c h = some c' →
    SeqOK c'.seq ∧ ∃ new, c'.acks = c.acks ++ new ∧ new.length = countStatp h ∧ ∀ n ∈ new, 1 ≤ n ∧ n ≤ 191 := by
  induction h with
  | nil => intro c c' hs hr; cases hr; exact ⟨hs, [], by simp, rfl, by simp⟩
  | cons e es ih =>
    intro c c' hs hr
    cases e with
    | statp rem =>
      simp only [PClient.runSync, PClient.runWith, PClient.stepWith, PClient.statpSync] at hr
      cases hp : parseStatpSync rem with
      | none => simp [hp] at hr
      | some recs =>
        simp only [hp] at hr
        obtain ⟨np, nc, hinv⟩ := hs
        obtain ⟨h1, h2, _⟩ := C16.sync_step_ok.proto_step c.seq np nc hinv
        have hk : ackUsesCommandCounterSync = false := rfl
        obtain ⟨hs', new, e1, e2, e3⟩ := ih _ c' ⟨np + 1, nc, by simpa [hk] using h2⟩ hr
        refine ⟨hs', (nextSeqSync c.seq false).2 :: new, ?_, by simp [countStatp, e2], ?_⟩
        · simpa [hk, List.append_assoc] using e1
        · intro n hn
          simp only [List.mem_cons] at hn
          rcases hn with rfl | hn
          · rw [h1]; omega
          · exact e3 n hn
    | refresh off seg =>
      simp only [PClient.runSync, PClient.runWith, PClient.stepWith] at hr
      exact ih (c.refresh off seg) c' hs hr

/-- **exactly one acknowledgement per partial-update message, each with a protocol-range sequence number** (async) -/
theorem one_ack_per_statp_async (h : List PEvent) (b : Block) (c' : PClient)
    (hr : PClient.runAsync ⟨b, [], seqInitAsync, []⟩ h = some c') :
    c'.acks.length = countStatp h ∧ ∀ n ∈ c'.acks, 1 ≤ n ∧ n ≤ 191 := by
  obtain ⟨_, new, e1, e2, e3⟩ := acks_async h _ c' ⟨0, 0, C16.init_inv.1⟩ hr
  simp only [List.nil_append] at e1
  rw [e1]; exact ⟨e2, e3⟩

theorem one_ack_per_statp_sync (h : List PEvent) (b : Block) (c' : PClient)
    (hr : PClient.runSync ⟨b, [], seqInitSync, []⟩ h = some c') :
    c'.acks.length = countStatp h ∧ ∀ n ∈ c'.acks, 1 ≤ n ∧ n ≤ 191 := by
  obtain ⟨_, new, e1, e2, e3⟩ := acks_sync h _ c' ⟨0, 0, C16.init_inv.2⟩ hr
  simp only [List.nil_append] at e1
  rw [e1]; exact ⟨e2, e3⟩

/-- the acknowledgement is queued before the body is parsed, in both handlers (syntactic facts) -/
theorem ack_before_parse : ackBeforeParseAsync = true ∧ ackBeforeParseSync = true := by decide

theorem be16?_of_length_two (l : List Byte) (h : l.length = 2) : ∃ n, be16? l = some n := by
  match l, h with
  | [a, b], _ => exact ⟨_, rfl⟩

theorem parseRecordsFrom_wellformed (rem : List Byte) : ∀ (n i : Nat), 4 * (i + n) + 1 ≤ rem.length →
    ∃ cs, parseRecordsFrom recPosLoAsync recPosHiAsync recDataLoAsync recDataHiAsync rem i n = some cs ∧ cs.length = n := by
  intro n
  induction n with
  | zero => intro i _; exact ⟨[], rfl, rfl⟩
  | succ n ih =>
    intro i hl
    have hlen : (pySlice rem (recPosLoAsync i) (recPosHiAsync i)).length = 2 := by
      simp only [pySlice, recPosLoAsync, recPosHiAsync, List.length_take, List.length_drop]; omega
    obtain ⟨pos, hpos⟩ := be16?_of_length_two _ hlen
    obtain ⟨cs, hcs, hl2⟩ := ih (i + 1) (by omega)
    refine ⟨⟨pos, pySlice rem (recDataLoAsync i) (recDataHiAsync i)⟩ :: cs, ?_, by simp [hl2]⟩
    simp only [parseRecordsFrom, hpos, hcs]

/-- non-vacuity over the whole input class: every body of the protocol's shape (count byte `n`, then at least `n`
four-byte records) parses, to exactly `n` records — so the theorems above are about all such messages -/
theorem wellformed_parses (n : Byte) (rest : List Byte) (hl : 4 * n.toNat ≤ rest.length) :
    ∃ cs, parseStatpAsync (n :: rest) = some cs ∧ cs.length = n.toNat := by
  unfold parseStatpAsync parseStatp
  exact parseRecordsFrom_wellformed (n :: rest) n.toNat 0 (by simp; omega)

/-- **no replay after a refresh** (instance of `async_equals_reference`, written out): a change at `p`, then a refresh
that overwrites `p` with another value, then an unrelated change at `q`, leaves `p` at the refresh's value — on a
concrete block, with a handler whose pending list starts non-empty -/
example :
    ((PClient.runAsync ⟨List.replicate 8 0, [⟨2, [9]⟩], seqInitAsync, []⟩
        [.statp [1, 0, 2, 0xAA, 0xBB], .refresh 2 [0x11, 0x22], .statp [1, 0, 5, 0xCC]]).map (·.block))
      = some [0, 0, 0x11, 0x22, 0, 0xCC, 0, 0] := by decide +kernel

/-- non-vacuity: two records in one message, repeated position, the simulator's 1-byte form -/
example : parseStatpAsync [2, 0, 3, 1, 2, 0, 3, 7, 8] = some [⟨3, [1, 2]⟩, ⟨3, [7, 8]⟩] := by decide +kernel
example : parseStatpSync [1, 1, 0, 0x5A] = some [⟨256, [0x5A]⟩] := by decide +kernel

/-! ### why the awaitable client applies a partial update in ONE step of the reference above

The skeletons of the acknowledging / decoding handler and of the spa's apply callback are regenerated from the source on every
run; neither contains a suspension point, so between the pop of a STATP and the end of its application the event loop can only
run somebody else at the two awaits of the consumer itself (and `no_suspension_no_aw`: no trace of them suspends). -/
namespace Atomic
open GeckoModel.Coop GeckoModel.Generated.Skeletons

abbrev ackAndDecode := sk_driver_protocol_statusblock__GeckoAsyncPartialStatusBlockProtocolHandler_async_handle
abbrev applyChanges := sk_async_spa__GeckoAsyncSpa__async_on_partial_status_update

theorem partial_update_never_suspends : suspensions ackAndDecode = 0 ∧ suspensions applyChanges = 0 := by decide +kernel

/-- … so every trace of the two is one atomic block: no other task (a refresh, a request, another update) can run inside -/
theorem partial_update_is_atomic (sk : Sk) (h : sk = ackAndDecode ∨ sk = applyChanges) (t : List Ev) (o : Out) (hr : Run sk t o) :
    ∀ e ∈ t, e.isAw = false := by
  rcases h with rfl | rfl
  · exact no_suspension_no_aw _ t o hr partial_update_never_suspends.1
  · exact no_suspension_no_aw _ t o hr partial_update_never_suspends.2

/-- non-vacuity: the handler does acknowledge and the callback does patch the block -/
example : "queue_send" ∈ actions .call ackAndDecode ∧ "self.struct.replace_status_block_segment" ∈ actions .call applyChanges := by
  decide +kernel

end Atomic

/-- what a synchronous method / coroutine writes into its own object and which of its own methods or attributes it calls -/
private def stateOf (sk : Coop.Sk) : List String × List String :=
  (Coop.selfStateWritten sk, (Coop.actions .call sk).filter Coop.isSelfState)

/-- **the partial-update path remembers nothing between messages** (state inventory over the regenerated skeletons): both
long-lived handlers write only the sequence number (and, the awaitable one, the fresh change list) and touch only the counter and
the change list; both apply callbacks write nothing and only patch the block.  A remembered last message, a de-duplication table
or a cached decode would appear here as a new attribute -/
theorem partial_update_path_state_inventory :
    stateOf Skeletons.sk_driver_protocol_statusblock__GeckoAsyncPartialStatusBlockProtocolHandler_async_handle =
      (["self.sequence", "self.changes"], ["self._protocol.get_and_increment_sequence_counter", "self.changes.append"]) ∧
    stateOf Skeletons.sk_driver_protocol_statusblock__GeckoPartialStatusBlockProtocolHandler_handle =
      (["self.sequence"], ["self._socket.get_and_increment_sequence_counter", "self.changes.append"]) ∧
    stateOf Skeletons.sk_async_spa__GeckoAsyncSpa__async_on_partial_status_update = ([], ["self.struct.replace_status_block_segment"]) ∧
    stateOf Skeletons.sk_spa__GeckoSpa__on_partial_status_update = ([], ["self.struct.replace_status_block_segment"]) := by decide +kernel

/-! ### the largest message fits the threaded client's receive buffer -/

/-- **no partial update is too long to be received**: the count of a STATP is one byte, so a message carries at most 255 four-byte
records; framed for any pair of identifiers of up to 7000 bytes together it is still no longer than the buffer the threaded client
reads datagrams into (`recvBufferSize`, regenerated from udp_socket.py) - the OS never truncates one, so "no change is dropped" does
not depend on how many changes the spa reports at once -/
theorem largest_partial_update_fits_the_receive_buffer (p2 p3 recs : Wire.Bytes) (n : Nat) (hn : n ≤ 255) (hr : recs.length = 4 * n)
    (hid : p2.length + p3.length ≤ 7000) :
    (Wire.frame p2 p3 (Generated.WireFormats.STATP_VERB ++ [UInt8.ofNat n] ++ recs)).length ≤ Generated.recvBufferSize := by
  have h1 : Generated.WireFormats.PACKET_OPEN.length = 7 := by decide
  have h2 : Generated.WireFormats.PACKET_CLOSE.length = 8 := by decide
  have h3 : Generated.WireFormats.SRCCN_OPEN.length = 7 := by decide
  have h4 : Generated.WireFormats.SRCCN_CLOSE.length = 8 := by decide
  have h5 : Generated.WireFormats.DESCN_OPEN.length = 7 := by decide
  have h6 : Generated.WireFormats.DESCN_CLOSE.length = 8 := by decide
  have h7 : Generated.WireFormats.DATAS_OPEN.length = 7 := by decide
  have h8 : Generated.WireFormats.DATAS_CLOSE.length = 8 := by decide
  have h9 : Generated.WireFormats.STATP_VERB.length = 5 := by decide
  have hb : Generated.recvBufferSize ≥ 8192 := by decide
  have hp : (Wire.parm Generated.WireFormats.sendSrcIndex p2 p3).length + (Wire.parm Generated.WireFormats.sendDstIndex p2 p3).length ≤ 7000 := by
    simp only [Wire.parm, Generated.WireFormats.sendSrcIndex, Generated.WireFormats.sendDstIndex]; simp; omega
  simp only [Wire.frame, List.length_append, h1, h2, h3, h4, h5, h6, h7, h8, h9, hr, List.length_cons, List.length_nil]
  omega

/-- the count byte is the byte right after the verb: both decoders drop exactly the verb's length (regenerated `verbSkip*` =
`received_bytes[5:]`; a decoder that took the verb off by its LETTERS would also eat a count that happens to be one of them) -/
theorem count_follows_the_verb :
    Generated.verbSkipAsync = Generated.WireFormats.STATP_VERB.length ∧ Generated.verbSkipSync = Generated.WireFormats.STATP_VERB.length ∧
    Generated.countIsFirstByteAsync = true ∧ Generated.countIsFirstByteSync = true := by decide

end GeckoModel.C05
