/-
C07 — Dispatch: each datagram consumed once, only by a capable, addressed consumer.

Model: `Model/Dispatch.lean` — a transition system over the receive queue whose capable consumers and request waiters
are adversarially timed (`popBy`), whose unhandled consumer is an explicit timed process, and whose time is in ms.
Quantifiers: every reachable state = every arrival sequence and timing, every wake-up order / jitter of consumer tasks,
any number of waiters, event-loop stalls (`fair = false`); the head-of-line bound additionally assumes `fair = true`
(the unhandled consumer runs when its timer is due — no event-loop stall), which is the fairness hypothesis of DESIGN C07.
-/
import GeckoModel.Model.Dispatch
import GeckoModel.Model.PacketConsumer
import GeckoModel.Properties.C04
import GeckoModel.Proofs.Coop
import GeckoModel.Generated.Skeletons

namespace GeckoModel.C07
open GeckoModel.Dispatch

/-- safety invariant (all schedules, stalls included) -/
structure Safe (acc : Accepts) (s : Sys) : Prop where
  fifo : s.pops.map (·.2) ++ s.queue = s.puts
  nodup : (s.puts.map (·.id)).Nodup
  capable : ∀ p ∈ s.pops, p.1 = .unhandled ∨ ∃ k, p.1 = .consumer k ∧ acc k p.2.verb = true
  mark : s.marked = true → ∃ d rest w, s.queue = d :: rest ∧ s.markedId = some d.id ∧ s.u = .first w ∧
            w = s.markedAt + poll ∧ s.headSince ≤ s.markedAt ∧ s.markedAt ≤ s.now
  hs : s.headSince ≤ s.now

theorem safe_init (acc : Accepts) : Safe acc init :=
  ⟨rfl, by simp [init], by simp [init], by simp [init], by simp [init]⟩

theorem safe_pop (acc : Accepts) (s : Sys) (h : Safe acc s) (who : Popper)
    (hc : ∀ d rest, s.queue = d :: rest → who = .unhandled ∨ ∃ k, who = .consumer k ∧ acc k d.verb = true) :
    Safe acc (s.pop who) := by
  unfold Sys.pop
  cases hq : s.queue with
  | nil => simp only; exact h
  | cons d rest =>
    simp only
    refine ⟨?_, h.nodup, ?_, by simp, by simp⟩
    · have := h.fifo; rw [hq] at this; simpa using this
    · intro p hp
      simp only [List.mem_append, List.mem_singleton] at hp
      rcases hp with hp | rfl
      · exact h.capable p hp
      · exact hc d rest hq

theorem safe_step (acc : Accepts) (fair : Bool) (s : Sys) (h : Safe acc s) (a : Act) (he : enabled acc fair s a = true) :
    Safe acc (step s a) := by
  cases a with
  | put d =>
    simp only [enabled, Bool.not_eq_true', List.any_eq_false, beq_iff_eq] at he
    simp only [step]
    refine ⟨by have := h.fifo; simp [← this, List.append_assoc], ?_, h.capable, ?_, ?_⟩
    · simp only [List.map_append, List.map_cons, List.map_nil]
      refine List.nodup_append.2 ⟨h.nodup, by simp, ?_⟩
      intro a ha b hb
      simp only [List.mem_singleton] at hb; subst hb
      simp only [List.mem_map] at ha
      obtain ⟨x, hx, rfl⟩ := ha
      intro e; exact he x hx e
    · intro hm
      obtain ⟨d0, rest, w, hq, h1, h2, h3, h4, h5⟩ := h.mark hm
      refine ⟨d0, rest ++ [d], w, by simp [hq], h1, h2, h3, ?_, h5⟩
      simp [hq]; exact h4
    · simp only; split <;> simp [h.hs]
  | popBy k =>
    simp only [step]
    apply safe_pop acc s h
    intro d rest hq
    right
    simp only [enabled, hq] at he
    exact ⟨k, rfl, he⟩
  | ustep =>
    simp only [step]
    cases hu : s.u with
    | first w =>
      simp only
      by_cases hm : s.marked = true
      · simp only [hm, if_true]
        obtain ⟨d0, rest, _, hq, _⟩ := h.mark hm
        have hp := safe_pop acc s h .unhandled (fun _ _ _ => Or.inl rfl)
        simp only [Sys.pop, hq] at hp ⊢
        exact ⟨hp.fifo, hp.nodup, hp.capable, by simp, by simp⟩
      · have hmf : s.marked = false := by simpa using hm
        simp only [hmf, Bool.false_eq_true, if_false]
        exact ⟨h.fifo, h.nodup, h.capable, by simp, h.hs⟩
    | second w =>
      simp only
      cases hq : s.queue with
      | nil =>
        simp only
        have hmk : s.marked = true → False := by
          intro hm; obtain ⟨d0, rest, _, hq', _⟩ := h.mark hm; rw [hq] at hq'; cases hq'
        exact ⟨by simpa [hq] using h.fifo, h.nodup, h.capable, fun hm => (hmk hm).elim, h.hs⟩
      | cons d rest =>
        simp only
        exact ⟨by simpa [hq] using h.fifo, h.nodup, h.capable,
               fun _ => ⟨d, rest, s.now + poll, rfl, rfl, rfl, rfl, h.hs, Nat.le_refl _⟩, h.hs⟩
  | tick dt =>
    simp only [step]
    refine ⟨h.fifo, h.nodup, h.capable, ?_, by have := h.hs; simp only; omega⟩
    intro hm
    obtain ⟨d0, rest, w, hq, h1, h2, h3, h4, h5⟩ := h.mark hm
    exact ⟨d0, rest, w, hq, h1, h2, h3, h4, by simp only; omega⟩

/-- the safety invariant holds in every reachable state, stalls included -/
theorem safe_reach (acc : Accepts) (fair : Bool) (s : Sys) (hr : Reach acc fair s) : Safe acc s := by
  induction hr with
  | init => exact safe_init acc
  | step s a _ he ih => exact safe_step acc fair s ih a he

/-- **exactly once, FIFO**: what has been popped, followed by what is still queued, is exactly what was put, in order;
arrival numbers are distinct — so every datagram leaves the queue at most once, never both taken and discarded -/
theorem popped_exactly_once (acc : Accepts) (fair : Bool) (s : Sys) (hr : Reach acc fair s) :
    s.pops.map (·.2) ++ s.queue = s.puts ∧ ((s.pops.map (·.2.id)) ++ s.queue.map (·.id)).Nodup := by
  have h := safe_reach acc fair s hr
  refine ⟨h.fifo, ?_⟩
  have := h.nodup
  rw [← h.fifo] at this
  simpa [List.map_append, List.map_map, Function.comp_def] using this

/-- **only a capable consumer or the unhandled consumer takes a datagram** -/
theorem popper_is_capable (acc : Accepts) (fair : Bool) (s : Sys) (hr : Reach acc fair s) :
    ∀ p ∈ s.pops, p.1 = .unhandled ∨ ∃ k, p.1 = .consumer k ∧ acc k p.2.verb = true :=
  (safe_reach acc fair s hr).capable

/-- **the mark means "same head"**: whenever the flag is set, the head is the very datagram it was set on and has been
the head since before the mark -/
theorem mark_means_same_head (acc : Accepts) (fair : Bool) (s : Sys) (hr : Reach acc fair s) (hm : s.marked = true) :
    ∃ d rest, s.queue = d :: rest ∧ s.markedId = some d.id ∧ s.headSince ≤ s.markedAt := by
  obtain ⟨d, rest, _, h1, h2, _, _, h3, _⟩ := (safe_reach acc fair s hr).mark hm
  exact ⟨d, rest, h1, h2, h3⟩

/-- **a discard happens only after a full polling interval at the head with nobody claiming it** -/
theorem unhandled_only_after_full_interval (acc : Accepts) (fair : Bool) (s : Sys) (hr : Reach acc fair s)
    (w : Nat) (hu : s.u = .first w) (he : enabled acc fair s .ustep = true) (hm : s.marked = true) :
    ∃ d rest, s.queue = d :: rest ∧ (step s .ustep).pops = s.pops ++ [(.unhandled, d)] ∧
      s.markedId = some d.id ∧ s.markedAt + poll ≤ s.now ∧ s.headSince ≤ s.markedAt := by
  obtain ⟨d, rest, w', hq, h1, h2, h3, h4, _⟩ := (safe_reach acc fair s hr).mark hm
  rw [hu] at h2; cases h2
  refine ⟨d, rest, hq, ?_, h1, ?_, h4⟩
  · simp [step, hu, hm, Sys.pop, hq]
  · simp only [enabled, hu, UPc.wake, decide_eq_true_eq] at he; omega

/-! ### head-of-line bound (no event-loop stall) -/

/-- latest time by which the current head will have left, as a function of the unhandled consumer's position -/
def deadline (s : Sys) : Nat :=
  match s.u with
  | .first w => if s.marked then w else w + 2 * poll
  | .second w => w + poll

structure Timely (s : Sys) : Prop where
  wakeLo : s.now ≤ s.u.wake
  wakeHi : s.u.wake ≤ s.now + poll
  dl : s.queue ≠ [] → deadline s ≤ s.headSince + 3 * poll

theorem timely_init : Timely init := ⟨by simp [init, UPc.wake], by simp [init, UPc.wake], by simp [init]⟩

theorem timely_step (acc : Accepts) (s : Sys) (hs : Safe acc s) (h : Timely s) (a : Act) (he : enabled acc true s a = true) :
    Timely (step s a) := by
  have hlo := h.wakeLo; have hhi := h.wakeHi
  cases a with
  | put d =>
    simp only [step]
    refine ⟨hlo, hhi, ?_⟩
    intro _
    by_cases hq : s.queue = []
    · simp only [hq, List.isEmpty_nil, if_true, deadline]
      have hm : s.marked = false := by
        cases hm : s.marked with
        | false => rfl
        | true => obtain ⟨_, _, _, hq', _⟩ := hs.mark hm; rw [hq] at hq'; cases hq'
      cases hu : s.u <;> simp [hu, UPc.wake, hm] at hlo hhi ⊢ <;> omega
    · have := h.dl hq
      have hne : s.queue.isEmpty = false := by cases hq' : s.queue <;> simp_all
      simp only [hne, Bool.false_eq_true, if_false]
      simpa [deadline] using this
  | popBy k =>
    simp only [step, Sys.pop]
    cases hq : s.queue with
    | nil => simp only; exact h
    | cons d rest =>
      simp only
      refine ⟨hlo, hhi, ?_⟩
      intro _
      cases hu : s.u <;> simp [deadline, hu, UPc.wake] at hlo hhi ⊢ <;> omega
  | ustep =>
    simp only [enabled, decide_eq_true_eq] at he
    simp only [step]
    cases hu : s.u with
    | first w =>
      simp only [hu, UPc.wake] at hlo hhi he
      have hw : w = s.now := by omega
      by_cases hm : s.marked = true
      · simp only [hm, if_true, Sys.pop]
        cases hq : s.queue with
        | nil => simp only; exact ⟨by simp [UPc.wake], by simp [UPc.wake], by intro hq'; exact absurd hq hq'⟩
        | cons d rest => simp only; exact ⟨by simp [UPc.wake], by simp [UPc.wake], by intro _; simp [deadline]; omega⟩
      · have hmf : s.marked = false := by simpa using hm
        simp only [hmf, Bool.false_eq_true, if_false]
        refine ⟨by simp [UPc.wake], by simp [UPc.wake], ?_⟩
        intro hq
        have := h.dl hq
        simp only [deadline, hu, hmf, Bool.false_eq_true, if_false] at this
        simp [deadline]; omega
    | second w =>
      simp only [hu, UPc.wake] at hlo hhi he
      have hw : w = s.now := by omega
      cases hq : s.queue with
      | nil => simp only; exact ⟨by simp [UPc.wake], by simp [UPc.wake], by intro hq'; simp at hq'⟩
      | cons d rest =>
        simp only
        refine ⟨by simp [UPc.wake], by simp [UPc.wake], ?_⟩
        intro _
        have := h.dl (by simp [hq])
        simp only [deadline, hu] at this
        simp [deadline]; omega
  | tick dt =>
    simp only [enabled, if_true, decide_eq_true_eq] at he
    simp only [step]
    refine ⟨by simpa using he, by simp only; omega, ?_⟩
    intro hq
    simpa [deadline] using h.dl hq

theorem timely_reach (acc : Accepts) (s : Sys) (hr : Reach acc true s) : Timely s := by
  induction hr with
  | init => exact timely_init
  | step s a hr' he ih => exact timely_step acc s (safe_reach acc true s hr') ih a he

/-- every deadline lies in the future -/
theorem now_le_deadline (s : Sys) (h : Timely s) : s.now ≤ deadline s := by
  have := h.wakeLo
  unfold deadline
  cases hu : s.u <;> simp [hu, UPc.wake] at this ⊢
  · split <;> omega
  · omega

/-- **head-of-line blocking is bounded**: without event-loop stalls no datagram is at the head of the queue for more
than three polling intervals (300 ms), whatever its verb, whoever else is or is not consuming -/
theorem head_of_line_bounded (acc : Accepts) (s : Sys) (hr : Reach acc true s) (hq : s.queue ≠ []) :
    s.now ≤ s.headSince + 3 * poll := by
  have h := timely_reach acc s hr
  exact Nat.le_trans (now_le_deadline s h) (h.dl hq)

/-- … and the unhandled consumer is never more than one interval away from looking at the queue again -/
theorem unhandled_never_starves (acc : Accepts) (s : Sys) (hr : Reach acc true s) : s.u.wake ≤ s.now + poll :=
  (timely_reach acc s hr).wakeHi

/-! ### addressing -/

/-- **a framed packet whose identifier pair is not this connection's has no effect**: nothing is re-queued -/
theorem misaddressed_no_effect (p : Parms) (sp : SendParms) (inner : Dgram)
    (h : p.ip ≠ sp.ip ∨ p.port ≠ sp.port ∨ p.src ≠ sp.spaId ∨ p.dst ≠ sp.clientId) : onPacket p sp inner = none := by
  unfold onPacket addressed
  rcases h with h | h | h | h <;> simp [h]

theorem addressed_requeued (p : Parms) (sp : SendParms) (inner : Dgram)
    (h : p.ip = sp.ip ∧ p.port = sp.port ∧ p.src = sp.spaId ∧ p.dst = sp.clientId) : onPacket p sp inner = some (.put inner) := by
  unfold onPacket addressed; simp [h.1, h.2.1, h.2.2.1, h.2.2.2]

/-- non-vacuity: an unknown verb (nobody accepts verb 9) is discarded by the unhandled consumer exactly 100 ms after it
was marked; a known verb is taken by its consumer; both within the bound -/
def accEx : Accepts := fun k v => k == v
example : ((run accEx true init [.put ⟨1, 9⟩, .ustep, .tick 100, .ustep]).map (fun s => (s.pops, s.queue.length, s.now))) =
    some ([(.unhandled, ⟨1, 9⟩)], 0, 100) := by decide
example : ((run accEx true init [.put ⟨1, 2⟩, .ustep, .popBy 2, .tick 100, .ustep]).map (fun s => (s.pops, s.marked))) =
    some ([(.consumer 2, ⟨1, 2⟩)], false) := by decide
example : (run accEx true init [.put ⟨1, 9⟩, .tick 150]) = none := by decide   -- a stall is not a fair run

/-! ### addressing at the byte level: the long-lived packet consumer (Model/PacketConsumer.lean over C04's regex model) -/

namespace PC
open GeckoModel.PacketConsumer GeckoModel.Wire GeckoModel.Generated.WireFormats

theorem requeue_handle (sp : Conn) (c : PacketConsumer.PC) (bs ip : Bytes) (port : Nat) :
    requeue sp (handle c bs ip port) = requeueSpec sp (bs, ip, port) := by
  unfold requeue handle requeueSpec
  cases h : extract (sliceNegEnd 7 8 bs) with
  | none => simp
  | some t =>
    obtain ⟨src, dst, data⟩ := t
    by_cases hh : ip = sp.ip ∧ port = sp.port ∧ src = sp.spaId ∧ dst = sp.clientId
    · obtain ⟨h1, h2, h3, h4⟩ := hh
      subst h1; subst h2; subst h3; subst h4; simp
    · simp only [hh, if_false]
      have : ¬ (some (ip, port, some src, some dst) = some (sp.ip, sp.port, some sp.spaId, some sp.clientId)) := by
        intro he
        apply hh
        simp only [Option.some.injEq, Prod.mk.injEq] at he
        exact he
      simp [this]

/-- **history independence and exactness**: over ANY sequence of datagrams popped by the one long-lived packet consumer
of a connection, and whatever the consumer held before, what is re-queued is exactly, in order, the DATAS content of the
datagrams that parse and carry this connection's address and identifier pair - nothing is ever replayed from, or
decided by, an earlier datagram -/
theorem consume_eq_spec (sp : Conn) : ∀ (ds : List (Bytes × Bytes × Nat)) (c : PacketConsumer.PC),
    (consume sp c ds).1 = ds.filterMap (requeueSpec sp) := by
  intro ds
  induction ds with
  | nil => intro c; rfl
  | cons d rest ih =>
    intro c
    obtain ⟨bs, ip, port⟩ := d
    simp only [consume, List.filterMap_cons]
    rw [requeue_handle]
    cases requeueSpec sp (bs, ip, port) with
    | none => simpa using ih _
    | some x => simp [ih]

/-- a datagram whose inner parts do not parse has no effect -/
theorem unparsable_no_effect (sp : Conn) (bs ip : Bytes) (port : Nat) (h : extract (sliceNegEnd 7 8 bs) = none) :
    requeueSpec sp (bs, ip, port) = none := by
  simp [requeueSpec, h]

/-- **a well-formed frame whose identifier pair (or sender address) is not this connection's has no effect**, whatever
its payload -/
theorem misaddressed_frame_no_effect (sp : Conn) (src dst payload ip : Bytes) (port : Nat) (hs : 60 ∉ src) (hd : 60 ∉ dst)
    (h : ip ≠ sp.ip ∨ port ≠ sp.port ∨ src ≠ sp.spaId ∨ dst ≠ sp.clientId) :
    requeueSpec sp (frame dst src payload, ip, port) = none := by
  have hr := C04.frame_roundtrip src dst payload hs hd
  unfold decodePacket at hr
  unfold requeueSpec
  cases he : extract (sliceNegEnd 7 8 (frame dst src payload)) with
  | none => simp
  | some t =>
    obtain ⟨a, b, c⟩ := t
    rw [he] at hr
    simp only [Except.ok.injEq, Decoded.packet.injEq, Option.some.injEq] at hr
    obtain ⟨h1, h2, _⟩ := hr
    subst h1; subst h2
    rcases h with h | h | h | h <;> simp [h]

/-- a frame from this spa to this client is re-queued with exactly its payload, for ARBITRARY payload bytes -/
theorem addressed_frame_requeued (sp : Conn) (payload : Bytes) (hs : 60 ∉ sp.spaId) (hd : 60 ∉ sp.clientId) :
    requeueSpec sp (frame sp.clientId sp.spaId payload, sp.ip, sp.port) = some (some payload) := by
  have hr := C04.frame_roundtrip sp.spaId sp.clientId payload hs hd
  unfold decodePacket at hr
  unfold requeueSpec
  cases he : extract (sliceNegEnd 7 8 (frame sp.clientId sp.spaId payload)) with
  | none => rw [he] at hr; simp at hr
  | some t =>
    obtain ⟨a, b, c⟩ := t
    rw [he] at hr
    simp only [Except.ok.injEq, Decoded.packet.injEq, Option.some.injEq] at hr
    obtain ⟨h1, h2, h3⟩ := hr
    subst h1; subst h2; subst h3
    simp

/-- non-vacuity: genuine frame, then a frame with unparsable inner parts, then a foreign frame, then a genuine one:
two re-queues, in order, nothing replayed -/
example :
    let sp : Conn := ⟨[49], 10022, [83, 80, 65], [73, 79, 83]⟩
    (consume sp {} [(frame [73, 79, 83] [83, 80, 65] [1, 2], [49], 10022),
                    (PACKET_OPEN ++ [120, 120] ++ PACKET_CLOSE, [49], 10022),
                    (frame [73, 79, 83] [88] [9], [49], 10022),
                    (frame [73, 79, 83] [83, 80, 65] [3], [49], 10022)]).1 = [some [1, 2], some [3]] := by decide +kernel

end PC

/-! ### why "a consumer's look at the head, its test and its pop" is ONE step of the model above

`Model/Dispatch.lean` gives every consumer the atomic step "if the head exists and I can handle it: pop".  That is true of the
code only if no suspension point lies between reading the head and popping it.  The SKELETONS of the three consuming
coroutines are regenerated from the source on every run (`Generated/Skeletons.lean`); the static analysis of `Model/Coop.lean`
is proved sound for every trace (`scan_sound`) and `atomic_sections` lifts it to every schedule of the event loop. -/
namespace Atomic
open GeckoModel.Coop GeckoModel.Generated.Skeletons

/-- a section opens when the head (or, in the unhandled consumer, the mark) is looked at … -/
def opens (a : A) : Bool :=
  (a.kind == .read && a.name == "queue.head") || (a.kind == .brT && a.name == "queue.is_marked")

/-- … and closes with the pop, the mark, or any test that came out false (nothing is done with what was seen) -/
def closes (a : A) : Bool :=
  (a.kind == .call && (a.name == "queue.pop" || a.name == "queue.mark")) || a.kind == .brF

abbrev verbConsumer := sk_driver_udp_protocol_handler__GeckoUdpProtocolHandler_consume
abbrev requestWaiter := sk_driver_udp_protocol_handler__GeckoUdpProtocolHandler_wait_for_response
abbrev unhandledConsumer := sk_driver_protocol_unhandled__GeckoUnhandledProtocolHandler_consume

/-- the three coroutines that take datagrams out of the receive queue -/
def consumers : List Sk := [verbConsumer, requestWaiter, unhandledConsumer]

/-- **no consumer can be suspended between looking at the head and popping it** (kernel evaluation of the sound analysis on
the generated skeletons) -/
theorem peek_pop_atomic : ∀ sk ∈ consumers, sectionsAtomic opens closes sk = true := by decide +kernel

/-- hence for EVERY trace of each consumer … -/
theorem peek_pop_atomic_traces (sk : Sk) (h : sk ∈ consumers) (t : List Ev) (o : Out) (hr : Run sk t o) :
    secOK opens closes false t = true :=
  sectionsAtomic_sound opens closes sk (peek_pop_atomic sk h) t o hr

/-- … and for EVERY number of consumers, waiters and other tasks and EVERY schedule of the event loop: while one of them is
between its look at the head and its pop, nobody else runs - the head it pops is the head it tested -/
theorem peek_pop_atomic_in_every_schedule (task : Nat → Sk) (h : ∀ j, task j ∈ consumers)
    (locals : Nat → List Ev) (hrun : ∀ j, ∃ o, Run (task j) (locals j) o) (g : List (Nat × Ev)) (hs : Sched none locals g) :
    GlobalOK opens closes (fun _ => false) g :=
  coop_atomic opens closes task (fun j => peek_pop_atomic _ (h j)) locals hrun g hs

/-- non-vacuity: each consumer really reads the head and pops, and really has suspension points outside the section -/
example : (∀ sk ∈ consumers, "queue.pop" ∈ actions .call sk ∧ "queue.head" ∈ actions .read sk ∧ suspensions sk ≥ 2) := by
  decide +kernel

/-- non-vacuity: the analysis rejects the shape "pop after the handler has been awaited" (pop moved into a `finally`) -/
example : sectionsAtomic opens closes
    (.loop (.seq (.ev (.act ⟨.read, "queue.head"⟩))
      (.seq (.fin (.ev (.aw "self.async_handle")) (.ev (.act ⟨.call, "queue.pop"⟩))) (.ev (.aw "asyncio.sleep"))))) = false := by
  decide +kernel

end Atomic

/-- **the unwrapper forgets the previous datagram** (over the regenerated skeleton of `GeckoPacketProtocolHandler.handle`, the one
long-lived object every framed datagram of a connection passes through): EVERY normal end of `handle` has assigned both the
addressing (`_parms`) and the content (`_packet_content`) from the datagram in hand - there is no path (a malformed framing, a
missing section) that returns with what the PREVIOUS datagram left there, which the consumer loop would then hand on as if it had
just arrived -/
theorem unwrapper_overwrites_its_fields_for_every_datagram :
    GeckoModel.Coop.everyNormalEndDid (GeckoModel.Coop.isSetOf "self._parms") GeckoModel.Generated.Skeletons.sk_driver_protocol_packet__GeckoPacketProtocolHandler_handle = true ∧
    GeckoModel.Coop.everyNormalEndDid (GeckoModel.Coop.isSetOf "self._packet_content") GeckoModel.Generated.Skeletons.sk_driver_protocol_packet__GeckoPacketProtocolHandler_handle = true := by
  decide +kernel

/-- the same over traces: whatever path `handle` takes, if it ends normally it has assigned both fields -/
theorem unwrapper_overwrites_its_fields_traces {t : List GeckoModel.Coop.Ev} {o : GeckoModel.Coop.Out}
    (h : GeckoModel.Coop.Run GeckoModel.Generated.Skeletons.sk_driver_protocol_packet__GeckoPacketProtocolHandler_handle t o) (ho : o = .fall ∨ o = .ret) :
    (∃ a, GeckoModel.Coop.Ev.act a ∈ t ∧ GeckoModel.Coop.isSetOf "self._parms" a = true) ∧ (∃ a, GeckoModel.Coop.Ev.act a ∈ t ∧ GeckoModel.Coop.isSetOf "self._packet_content" a = true) :=
  ⟨GeckoModel.Coop.everyNormalEndDid_sound unwrapper_overwrites_its_fields_for_every_datagram.1 h ho,
   GeckoModel.Coop.everyNormalEndDid_sound unwrapper_overwrites_its_fields_for_every_datagram.2 h ho⟩

/-- non-vacuity: an early return for a malformed packet is a path that keeps the old fields -/
example : GeckoModel.Coop.everyNormalEndDid (GeckoModel.Coop.isSetOf "self._parms")
    (.seq (.alt (.seq (.ev (.act ⟨.brT, "parts is None"⟩)) .exit) (.ev (.act ⟨.brF, "parts is None"⟩))) (.ev (.act ⟨.set, "self._parms"⟩))) = false := by
  decide +kernel

end GeckoModel.C07
