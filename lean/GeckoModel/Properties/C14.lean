/-
C14 — Temperature values, units, limits and heater operation are consistent.

Model: `Generated/TempArith.lean` (the four conversion expressions of `GeckoTempStructAccessor`, the heater's constants,
`temperature_unit` / `min_temp` / `max_temp` and the ladder `current_operation`, all translated from the source on every
run; float arithmetic over exact `Rat` with the rounding of every float operation as a parameter `fl`) +
`Model/Temp.lean` (instantiation `fl := id`, glue to the Word accessor of C02, hand reading of the ladder).

Quantifiers: every stored number `raw : Nat` (not only 16-bit words), every unit string `u` (the code takes the Celsius
formulas for "C" and the Fahrenheit formulas for EVERY other value), every rational temperature `t`, every combination of
the two optional flags and every pair of temperatures.

What is NOT a theorem here: exact read-back through CPython's real floating point.  The standard model of IEEE
arithmetic (`Rounding`: monotone, relative error ≤ ε) does not decide single bits, so `float_bridge` proves order
preservation and "within (1 + 10^-8) steps" for every such rounding, and the one clause "exact read-back through real
floats" is closed by the harness enumerating all 65 536 words × 2 units on the real accessor (evidence:
`float_readback_enumeration`).
-/
import GeckoModel.Proofs.TempLemmas
import GeckoModel.Properties.C02

namespace GeckoModel.C14
open GeckoModel GeckoModel.Generated GeckoModel.Temp GeckoModel.TempLemmas

/-! ### values follow the unit setting -/

/-- temperatures are presented as raw/18 (°C) or (raw+320)/10 (°F) according to the unit setting -/
theorem presented_value (u : String) (raw : Nat) :
    Temp.read u raw = if u = "C" then (raw : Rat) / 18 else ((raw : Rat) + 320) / 10 := read_eq u raw

/-- the integer written for a temperature `t`: `int(18 t)` resp. `int(10 t − 320)`, truncation toward zero -/
theorem written_value (u : String) (t : Rat) :
    write u t = if u = "C" then truncZ (t * 18) else truncZ (t * 10 - 320) := write_eq u t

/-- the blocking and the awaitable write path compute the same integer (both translated from the source) -/
theorem write_sync_async_same : tempWriteSync = tempWriteAsync := rfl

/-- the heater's unit symbol and limits follow the unit setting -/
theorem unit_follows_setting (u : String) :
    heaterView u = if u = "C" then ("°C", 15, 40) else ("°F", 59, 104) := by
  simp only [heaterView, heaterTemperatureUnit, heaterMinTemp, heaterMaxTemp]
  split <;> rfl

/-- the Celsius and the Fahrenheit limits name the same device range: words 270..720 -/
theorem limits_same_device_range :
    write "C" 15 = 270 ∧ write "F" 59 = 270 ∧ write "C" 40 = 720 ∧ write "F" 104 = 720 := by decide +kernel

/-! ### write / read -/

/-- **exact read-back**: every temperature the device can represent (the value presented for ANY stored number, in
either unit) writes back to exactly that number -/
theorem exact_readback (u : String) (raw : Nat) : write u (Temp.read u raw) = raw := by
  rw [write_eq, read_eq]
  split
  · have : (raw : Rat) / 18 * 18 = (raw : Rat) := by grind
    rw [this, truncZ_natCast]
  · have : ((raw : Rat) + 320) / 10 * 10 - 320 = (raw : Rat) := by grind
    rw [this, truncZ_natCast]

/-- **within one step**: any temperature at all lands strictly within one device step of itself -/
theorem within_one_step (u : String) (t : Rat) :
    t - step u < readRat u (write u t) ∧ readRat u (write u t) < t + step u := by
  rw [write_eq]
  simp only [readRat, tempRead, id, step]
  split
  · have := truncZ_bounds (t * 18)
    constructor <;> grind
  · have := truncZ_bounds (t * 10 - 320)
    constructor <;> grind

/-- … and from the temperature of word 0 upwards (0 °C / 32 °F) the written word is the greatest device value not above
`t`: a natural number `raw` with `read raw ≤ t < read (raw+1)` -/
theorem lands_on_step_below (u : String) (t : Rat) (h : Temp.read u 0 ≤ t) :
    ∃ raw : Nat, write u t = raw ∧ Temp.read u raw ≤ t ∧ t < Temp.read u (raw + 1) := by
  rw [read_eq] at h
  rw [write_eq]
  by_cases hu : u = "C"
  · simp only [hu, if_true] at h ⊢
    have hx : (0:Rat) ≤ t * 18 := by grind
    obtain ⟨h0, h1, h2⟩ := truncZ_nonneg hx
    refine ⟨(truncZ (t * 18)).toNat, by omega, ?_, ?_⟩
    all_goals
      rw [read_eq]; simp only [if_true]
      have : (((truncZ (t * 18)).toNat : Nat) : Rat) = ((truncZ (t*18) : Int) : Rat) := by
        rw [← Rat.intCast_natCast]; congr 1; omega
      first | (rw [this]; grind) | (rw [Rat.natCast_add, this]; grind)
  · simp only [hu, if_false] at h ⊢
    have hx : (0:Rat) ≤ t * 10 - 320 := by grind
    obtain ⟨h0, h1, h2⟩ := truncZ_nonneg hx
    refine ⟨(truncZ (t * 10 - 320)).toNat, by omega, ?_, ?_⟩
    all_goals
      rw [read_eq]; simp only [hu, if_false]
      have : (((truncZ (t * 10 - 320)).toNat : Nat) : Rat) = ((truncZ (t*10 - 320) : Int) : Rat) := by
        rw [← Rat.intCast_natCast]; congr 1; omega
      first | (rw [this]; grind) | (rw [Rat.natCast_add, this]; grind)

example : Temp.read "C" 0 ≤ (37 : Rat) + 1 / 3 := by decide +kernel
example : write "C" ((37 : Rat) + 1 / 3) = 672 ∧ write "F" ((986 : Rat) / 10) = 666 := by decide +kernel

/-- **ordering is preserved** by writing … -/
theorem order_preserved_write (u : String) {t t' : Rat} (h : t ≤ t') : write u t ≤ write u t' := by
  rw [write_eq, write_eq]
  split
  · exact truncZ_mono (by grind)
  · exact truncZ_mono (by grind)

/-- … and by reading, both ways and strictly -/
theorem order_preserved_read (u : String) (raw raw' : Nat) :
    (raw ≤ raw' ↔ Temp.read u raw ≤ Temp.read u raw') ∧ (raw < raw' ↔ Temp.read u raw < Temp.read u raw') := by
  rw [read_eq, read_eq]
  have a := @Rat.natCast_le_natCast raw raw'
  have b := @Rat.natCast_lt_natCast raw raw'
  split <;> constructor <;> grind

/-- every temperature inside the heater's limits is written as a word of the device range 270..720, in either unit -/
theorem limits_in_word_range (u : String) (t : Rat) (hmin : (heaterMinTemp u : Rat) ≤ t) (hmax : t ≤ (heaterMaxTemp u : Rat)) :
    270 ≤ write u t ∧ write u t ≤ 720 := by
  have l := order_preserved_write u hmin
  have r := order_preserved_write u hmax
  obtain ⟨a, b, c, d⟩ := limits_same_device_range
  by_cases hu : u = "C"
  · subst hu
    have e1 : ((heaterMinTemp "C" : Int) : Rat) = 15 := by decide +kernel
    have e2 : ((heaterMaxTemp "C" : Int) : Rat) = 40 := by decide +kernel
    rw [e1] at l; rw [e2] at r
    omega
  · have e1 : ((heaterMinTemp u : Int) : Rat) = 59 := by simp only [heaterMinTemp, hu, if_false]; decide +kernel
    have e2 : ((heaterMaxTemp u : Int) : Rat) = 104 := by simp only [heaterMaxTemp, hu, if_false]; decide +kernel
    have wF : ∀ x, write u x = write "F" x := by intro x; rw [write_eq, write_eq]; simp [hu]
    rw [e1, wF, wF] at l; rw [e2, wF, wF] at r
    rw [wF]
    omega

example : (heaterMinTemp "C" : Rat) ≤ 37 ∧ (37 : Rat) ≤ (heaterMaxTemp "C" : Rat) := by decide +kernel

/-- glue to C02: on a well-formed writable temperature item and any 1024-byte block, a temperature whose integer fits
the word is emitted as a device write, the spa can apply it, and the item then presents `read u raw` -/
theorem temp_write_then_read (it : Item) (hw : it.WF) (hk : it.kind = .temp) (hrw : it.rw.isSome = true)
    (b : Block) (hb : b.length = blockSize) (u : String) (t : Rat) (raw : Nat) (hwr : write u t = raw) (hfit : raw < 65536) :
    ∃ w b', Item.tempEncode it b u t = .ok w ∧ applyWrite b w = some b' ∧ Item.tempValue it b' u = .ok (Temp.read u raw) := by
  have hraw : it.toRaw (.int raw) = .ok raw := by simp [Item.toRaw, hk]
  have hcap : raw < it.capacity := by
    obtain ⟨_, _, _, _, _, h6, _⟩ := hw
    obtain ⟨hl, hbp⟩ := h6 (Or.inr (Or.inr hk))
    simp [Item.capacity, hbp, hl]; omega
  obtain ⟨w, b', e1, _, e2, _, _, e3⟩ := C02.read_after_write it hw b hb (.int raw) raw hraw hcap hrw
  refine ⟨w, b', ?_, e2, ?_⟩
  · simp only [Item.tempEncode, hwr]
    exact e1
  · simp [Item.tempValue, e3, Item.decodeRaw, hk]

/-- a shipped item meeting the hypotheses: inyt-cfg-50 SetpointG -/
example : ∃ it : Item, it.WF ∧ it.kind = .temp ∧ it.rw.isSome = true :=
  ⟨⟨"SetpointG", "SetpointG", 1, .temp, 2, none, 0, [], false, none, some "ALL"⟩, by decide, rfl, rfl⟩

/-! ### the heater's operation ladder -/

/-- the hand reading of the ladder is the ladder translated from heater.py -/
theorem ladder_eq_source (h c : Option Bool) (cur tgt : Rat) :
    (ladder h c cur tgt).name = heaterCurrentOperation h c cur tgt := by
  unfold ladder heaterCurrentOperation byTemps
  rcases h with _ | _ | _ <;> rcases c with _ | _ | _ <;> simp <;>
    first | rfl | (split <;> first | rfl | (split <;> rfl))

/-- **ladder**: heating flag on → Heating; else cooling flag on → Cooling; both flags present and off → Idle; in every
remaining case (a flag is missing and no present flag is on) the temperatures decide -/
theorem ladder_spec (h c : Option Bool) (cur tgt : Rat) :
    (h = some true → ladder h c cur tgt = .heating) ∧
    (h ≠ some true → c = some true → ladder h c cur tgt = .cooling) ∧
    (h = some false → c = some false → ladder h c cur tgt = .idle) ∧
    (h ≠ some true → c ≠ some true → (h = none ∨ c = none) → ladder h c cur tgt = byTemps cur tgt) := by
  rcases h with _ | _ | _ <;> rcases c with _ | _ | _ <;> simp [ladder]

/-- the last rung: Heating iff current < target, Cooling iff current > target, Idle iff equal -/
theorem by_temps_spec (cur tgt : Rat) :
    (byTemps cur tgt = .heating ↔ cur < tgt) ∧ (byTemps cur tgt = .cooling ↔ tgt < cur) ∧ (byTemps cur tgt = .idle ↔ cur = tgt) := by
  unfold byTemps
  refine ⟨?_, ?_, ?_⟩ <;> (split <;> try split) <;> grind

/-- the three reported strings are pairwise different (so the string identifies the operation) -/
theorem names_distinct :
    Op.heating.name ≠ Op.cooling.name ∧ Op.heating.name ≠ Op.idle.name ∧ Op.cooling.name ≠ Op.idle.name := by decide

/-- the operation never depends on the unit setting: on stored words the last rung compares the words -/
theorem ladder_unit_independent (u : String) (h c : Option Bool) (rc rt : Nat) :
    ladder h c (Temp.read u rc) (Temp.read u rt) =
      ladder h c (rc : Rat) (rt : Rat) := by
  have key : byTemps (Temp.read u rc) (Temp.read u rt) = byTemps (rc : Rat) (rt : Rat) := by
    have o1 := (order_preserved_read u rc rt).2
    have o2 := (order_preserved_read u rt rc).2
    have a := @Rat.natCast_lt_natCast rc rt
    have b := @Rat.natCast_lt_natCast rt rc
    unfold byTemps
    grind
  unfold ladder
  rw [key]

/-! ### the float path -/

/-- **float_bridge** (`fl` is a parameter with hypotheses, not an axiom).  For every rounding function that is monotone
and has relative error at most ε ≤ 2^-52, the float path of the generated code
 (1) preserves order when writing and when reading,
 (2) reads distinct 16-bit words as distinct, equally ordered values (so the ladder's comparison of two float
     temperatures is the comparison of the stored words), and
 (3) lands within one step + 10^-9 degrees of any temperature of the 16-bit range. -/
theorem float_bridge (fl : Rat → Rat) (ε : Rat) (hr : Rounding fl ε) (hε : ε ≤ eps0) (u : String) :
    (∀ t t', t ≤ t' → writeFl fl u t ≤ writeFl fl u t') ∧
    (∀ raw raw', raw ≤ raw' → readFl fl u raw ≤ readFl fl u raw') ∧
    (∀ raw raw', raw < raw' → raw' ≤ 65535 → readFl fl u raw < readFl fl u raw') ∧
    (∀ rc rt, rc ≤ 65535 → rt ≤ 65535 → byTemps (readFl fl u rc) (readFl fl u rt) = byTemps (Temp.read u rc) (Temp.read u rt)) ∧
    (∀ t, Temp.read u 0 ≤ t → t ≤ Temp.read u 65535 →
      t - step u - 1 / 1000000000 < readRat u (writeFl fl u t) ∧ readRat u (writeFl fl u t) < t + step u + 1 / 1000000000) := by
  have hm := hr.mono
  refine ⟨?_, ?_, fun raw raw' h1 h2 => float_strict_read fl ε hr hε u raw raw' h1 h2, ?_,
    fun t h1 h2 => float_within fl ε hr hε u t h1 h2⟩
  · intro t t' h
    rw [writeFl_eq, writeFl_eq]
    have h1 := hm _ _ h
    split
    · exact truncZ_mono (hm _ _ (by grind))
    · have h2 := hm (fl t * 10) (fl t' * 10) (by grind)
      exact truncZ_mono (hm _ _ (by grind))
  · intro raw raw' h
    rw [readFl_eq, readFl_eq]
    have := @Rat.natCast_le_natCast raw raw'
    split <;> exact hm _ _ (by grind)
  · intro rc rt h1 h2
    have o1 := (order_preserved_read u rc rt).2
    have o2 := (order_preserved_read u rt rc).2
    unfold byTemps
    rcases Nat.lt_trichotomy rc rt with hlt | heq | hgt
    · have := float_strict_read fl ε hr hε u rc rt hlt h2
      grind
    · subst heq; grind
    · have := float_strict_read fl ε hr hε u rt rc hgt h1
      grind

/-- the hypotheses are satisfiable, by exact arithmetic … -/
example : Rounding id 0 := ⟨fun _ _ h => h, fun x => by constructor <;> grind⟩
/-- … and by a rounding that is NOT exact (every value inflated by the factor 1 + 2^-53) -/
example : Rounding (fun x => x * (1 + 1 / 9007199254740992)) (1 / 9007199254740992) ∧ (1 : Rat) / 9007199254740992 ≤ eps0 := by
  refine ⟨⟨fun x y h => ?_, fun x => ?_⟩, by decide +kernel⟩
  · show x * (1 + 1 / 9007199254740992) ≤ y * (1 + 1 / 9007199254740992)
    grind
  · show x - 1 / 9007199254740992 * absQ x ≤ x * (1 + 1 / 9007199254740992) ∧ x * (1 + 1 / 9007199254740992) ≤ x + 1 / 9007199254740992 * absQ x
    unfold absQ
    split <;> constructor <;> grind

end GeckoModel.C14
