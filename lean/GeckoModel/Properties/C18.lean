/-
C18 — Pack tables are well-formed, consistent, and published layouts never change.

The quantifier of this property is a finite table (164 modules, ~20 500 items), so evaluation of the decidable
predicate over the *whole* regenerated table by the kernel (`decide +kernel`) is the proof; nothing is sampled.
`Generated.Packs.*` is regenerated from /repo's working tree on every run (by importing the modules and reading what
the library itself sees); `Generated.Pinned.*` is rendered by the same generator from
`pins/layout-236b7b1.json.gz`, the layout at the audited commit.
-/
import GeckoModel.Generated.PacksIndex
import GeckoModel.Generated.PinnedIndex

import GeckoModel.Model.Coop
import GeckoModel.Generated.Skeletons
namespace GeckoModel.C18
open GeckoModel GeckoModel.Generated

/-- **well-formed and consistent**: every item of every shipped table is addressable (bytes inside the block, bit field
inside its bytes, contiguous mask, every label representable, width matching the kind; `Item.WF`), every advertised
output / user-demand / error key names an item, the module name agrees with the declared platform and version, and the
refresh window lies inside the block.  The only exceptions are the three items of `knownIllFormed` (finding D9). -/
theorem all_modules_ok : ∀ m ∈ Packs.allModules, m.OK := Packs.allModules_ok

/-- the exception list is exact: each listed item exists and really is ill-formed (so it is not a blanket excuse) -/
theorem known_ill_formed_exact :
    (∃ it ∈ Packs.mrsteam_log_1.items, it.tag = "WaterDetected" ∧ ¬ it.WF) ∧
    (∃ it ∈ Packs.mas_ibc_32k_log_1.items, it.tag = "UserDryingDelay" ∧ ¬ it.WF) ∧
    (∃ it ∈ Packs.mas_ibc_32k_log_1.items, it.tag = "PurgeDelayTimer" ∧ ¬ it.WF) ∧
    Packs.mrsteam_log_1.file = "mrsteam-log-1" ∧ Packs.mas_ibc_32k_log_1.file = "mas-ibc-32k-log-1" ∧
    knownIllFormed.length = 3 := by decide +kernel

/-- every config/log table belongs to a shipped platform module -/
theorem tables_have_platform : ∀ m ∈ Packs.allModules, m.kind ≠ .pack →
    ∃ p ∈ Packs.allModules, p.kind = .pack ∧ p.name = m.declPlatform := by decide +kernel

/-- **published layouts never change**: every module pinned at the audited commit is present, field for field
(positions, widths, bit positions, masks, labels, writability, key lists, refresh window, version, pack type),
in the current tables.  New modules are allowed. -/
theorem layout_immutable : ∀ p ∈ Pinned.allModules, ∃ c ∈ Packs.allModules, c = p := Packs.allPinned_present

/-- non-vacuity: the tables are not empty and the predicate is not trivially true -/
example : Packs.allModules.length ≥ 164 ∧ (Packs.allModules.map (·.items.length)).sum ≥ 20000 := by decide +kernel
def badExample : Item := ⟨"x", "x", 1023, .word, 2, none, 0, [], false, none, none⟩
example : ¬ badExample.WF := by decide

/-! ### where the tables are turned into objects: the blocking client's session glue -/

/-- **every connection of the blocking client gets declaration objects of its own** (over the regenerated skeleton of
`GeckoSpa._on_config_received`): on every path that ends normally the pack, the config and the log declaration classes are each
INSTANTIATED (once each, in this order, over this connection's structure) before the full block is requested - none is looked up in
something that outlives the connection (rounds 14 and 15: declaration objects kept per process read another connection's block) -/
theorem blocking_declarations_are_made_for_each_connection :
    Coop.everyNormalEndDid (fun a => a.kind == .call && a.name == "GeckoPack") Skeletons.sk_spa__GeckoSpa__on_config_received = true ∧
    Coop.everyNormalEndDid (fun a => a.kind == .call && a.name == "GeckoConfigStruct") Skeletons.sk_spa__GeckoSpa__on_config_received = true ∧
    Coop.everyNormalEndDid (fun a => a.kind == .call && a.name == "GeckoLogStruct") Skeletons.sk_spa__GeckoSpa__on_config_received = true ∧
    Coop.everyNormalEndDid (fun a => a.kind == .call && a.name == "self.struct.retry_request") Skeletons.sk_spa__GeckoSpa__on_config_received = true ∧
    ((Coop.actions .call Skeletons.sk_spa__GeckoSpa__on_config_received).filter fun n => n == "GeckoPack" || n == "GeckoConfigStruct" || n == "GeckoLogStruct") =
      ["GeckoPack", "GeckoConfigStruct", "GeckoLogStruct"] := by decide +kernel

end GeckoModel.C18
