/-
C09 — Self-healing: the manager returns to CONNECTED once the spa is reachable again.

Model: `Model/Recovery.lean`, a macro-step machine over GENERATED facts (which states the sequence pump acts in, which
states a received ping resets from, where failure events land, whether the pump survives exceptions).  Its record space
is finite, so one-step facts are kernel evaluations over the WHOLE space, lifted to fault scripts of any length by induction.
The FULL statement ("after ANY finite fault pattern, a healthy network leads back to CONNECTED, and the pump never dies")
holds on the current tree (`recovery_after_every_script`, `pump_immortal`) since the `fix:` commits for D8a (a reset inside
`_connect` killed the pump), D8b (a discovery during a blackout parked the manager in ERROR_SPA_NOT_FOUND for good) and D8c (the
late failure report of a connection attempt abandoned by a reset parked it in ERROR_NEEDS_ATTENTION without a spa);
  * `Stuck` (nothing can move the manager any more) is kept as the decidable obstruction: `never_stuck` shows no coherent record
    is stuck, `stuck_never_recovers` that the notion is tight;
  * the time bound is the sum of bounds proved elsewhere (C06, C15, C01), as a numeral from the generated timing tables.
-/
import GeckoModel.Model.Recovery
import GeckoModel.Model.Coop
import GeckoModel.Proofs.Cancel
import GeckoModel.Generated.Skeletons

namespace GeckoModel.C09
open GeckoModel.Recovery GeckoModel.Generated

/-- coherence is an invariant of every fault script -/
theorem coherent_step : ∀ s ∈ allR, Coherent s = true → ∀ i ∈ allIn, Coherent (step s i) = true := by decide +kernel

theorem step_mem_allR : ∀ s ∈ allR, ∀ i ∈ allIn, step s i ∈ allR := by decide +kernel

theorem coherent_run (is : List In) (h : ∀ i ∈ is, i ∈ allIn) : ∀ s ∈ allR, Coherent s = true →
    run s is ∈ allR ∧ Coherent (run s is) = true := by
  induction is with
  | nil => intro s hs hc; exact ⟨hs, hc⟩
  | cons i is ih =>
    intro s hs hc
    have hi := h i (by simp)
    exact ih (fun j hj => h j (by simp [hj])) (step s i) (step_mem_allR s hs i hi) (coherent_step s hs hc i hi)

/-- every fault script leaves the manager in a coherent record of the finite space -/
theorem reachable_coherent (is : List In) (h : ∀ i ∈ is, i ∈ allIn) : run init is ∈ allR ∧ Coherent (run init is) = true :=
  coherent_run is h init (by decide +kernel) (by decide +kernel)

/-- **recovery (partial)**: from every coherent record that is not stuck, a healthy network (next ping answered, two pump
turns) leads to CONNECTED with a facade -/
theorem recovery_partial : ∀ s ∈ allR, Coherent s = true → Stuck s = false → connected (run s healthySeq) = true := by
  decide +kernel

/-- … hence after ANY fault script that does not end stuck -/
theorem recovery_after_any_script (is : List In) (h : ∀ i ∈ is, i ∈ allIn) (hs : Stuck (run init is) = false) :
    connected (run (run init is) healthySeq) = true :=
  recovery_partial _ (reachable_coherent is h).1 (reachable_coherent is h).2 hs

/-- **the obstruction is exactly `Stuck`**: a stuck record stays stuck, and away from CONNECTED, under every healthy input -/
theorem stuck_absorbing : ∀ s ∈ allR, Stuck s = true → ∀ i ∈ [In.ping true, In.pumpTurn true],
    Stuck (step s i) = true ∧ connected (step s i) = false := by decide +kernel

theorem stuck_never_recovers (is : List In) (h : ∀ i ∈ is, i ∈ [In.ping true, In.pumpTurn true]) :
    ∀ s ∈ allR, Stuck s = true → connected (run s is) = false ∧ Stuck (run s is) = true := by
  induction is with
  | nil => intro s _ hs; simp only [run]; refine ⟨?_, hs⟩; simp only [Stuck, Bool.and_eq_true, Bool.not_eq_true'] at hs; exact hs.1
  | cons i is ih =>
    intro s hm hs
    have hi := h i (by simp)
    have h1 := stuck_absorbing s hm hs i hi
    have hall : i ∈ allIn := by
      simp only [List.mem_cons, List.not_mem_nil, or_false] at hi
      rcases hi with rfl | rfl <;> decide
    exact ih (fun j hj => h j (by simp [hj])) (step s i) (step_mem_allR s hm i hall) h1.1

/-- **no coherent record with a live pump is stuck** (it holds since the `fix:` commit that lets the sequence pump search again
after a spa was not found - finding D8b; before it, `run init [.pumpTurn false]` was stuck in ERROR_SPA_NOT_FOUND) -/
theorem never_stuck : ∀ s ∈ allR, Coherent s = true → s.pump = true → Stuck s = false := by decide +kernel

/-- **recovery, FULL statement**: from EVERY coherent record (hence after ANY fault script: packet loss, blackouts, RF-error
periods, user resets at any moment incl. inside a discovery or inside `_connect`), a healthy network - the next ping answered,
two pump turns - leads to CONNECTED with a facade -/
theorem recovery_full : ∀ s ∈ allR, Coherent s = true → s.pump = true → connected (run s healthySeq) = true := by decide +kernel

theorem recovery_after_every_script (is : List In) (h : ∀ i ∈ is, i ∈ allIn) :
    connected (run (run init is) healthySeq) = true := by
  have hc := reachable_coherent is h
  have key : ∀ (is : List In), (∀ i ∈ is, i ∈ allIn) → ∀ s ∈ allR, s.pump = true → (run s is).pump = true := by
    intro is
    induction is with
    | nil => intro _ s _ hp; exact hp
    | cons i is ih =>
      intro h s hs hp
      have hi := h i (by simp)
      have := (by decide +kernel : ∀ s ∈ allR, s.pump = true → ∀ i ∈ allIn, (step s i).pump = true)
      exact ih (fun j hj => h j (by simp [hj])) (step s i) (step_mem_allR s hs i hi) (this s hs hp i hi)
  exact recovery_full _ hc.1 hc.2 (key is h init (by decide +kernel) rfl)

/-- a discovery that coincides with a blackout is retried: the spa-not-found state is left by the pump itself -/
theorem not_found_is_retried :
    (run init [.pumpTurn false]).st = "IDLE" ∧ connected (run init [.pumpTurn false, .pumpTurn false, .pumpTurn true]) = true := by
  decide +kernel

/-- one step never kills the pump (since the `fix:` commit that makes `_sequence_pump` survive exceptions; the generated
fact `pumpCatchesExceptions` is what this evaluates) -/
theorem pump_survives_step : ∀ s ∈ allR, s.pump = true → ∀ i ∈ allIn, (step s i).pump = true := by decide +kernel

/-- **the sequence that drives reconnection never dies** (FULL statement), for every fault script incl. resets that land
inside `_connect` -/
theorem pump_immortal (is : List In) (h : ∀ i ∈ is, i ∈ allIn) : (run init is).pump = true := by
  have key : ∀ (is : List In), (∀ i ∈ is, i ∈ allIn) → ∀ s ∈ allR, s.pump = true → (run s is).pump = true := by
    intro is
    induction is with
    | nil => intro _ s _ hp; exact hp
    | cons i is ih =>
      intro h s hs hp
      have hi := h i (by simp)
      exact ih (fun j hj => h j (by simp [hj])) (step s i) (step_mem_allR s hs i hi) (pump_survives_step s hs hp i hi)
  exact key is h init (by decide +kernel) rfl

/-- a reset that lands inside `_connect` is recovered from like any other reset -/
theorem reset_in_connect_recovers :
    connected (run (run init [.pumpTurn true, .userReset true]) healthySeq) = true := by decide +kernel

/-- **a reset that lands while a discovery is in flight** (the pump's own locate or the one inside `async_connect`: the
narrow window of a second Reconnect press) **is recovered from**, from every coherent record: the discovery's end still
leaves the manager where the pump goes on to connect -/
theorem reset_in_locate_recovers : ∀ s ∈ allR, Coherent s = true → s.pump = true →
    connected (run (step s .resetInLocate) healthySeq) = true := by decide +kernel

/-- why the shape of the LOCATING_FINISHED branch is an obligation: were it guarded by the state LOCATING_STARTED sets, a reset
in that window would leave IDLE with descriptors - a record neither guard of the pump acts on -/
example : let s : R := { (resetR { init with st := stateOnLocatingStarted }) with descriptors := true }
    s.st = "IDLE" ∧ Stuck s = true := by decide +kernel

/-- **a connection attempt that a reset has abandoned cannot move the manager** (it holds since the `fix:` commit that guards
the retry-exceeded branch by "there is a spa"): its late retry-exceeded report leaves every record without a spa unchanged -/
theorem abandoned_attempt_is_ignored : ∀ s ∈ allR, s.spaAlive = false → step s .retryExceeded = s := by decide +kernel

/-- what the guard buys: without it the late report of an attempt abandoned by a reset puts an IDLE manager without a spa into
the retry-exceeded state, an incoherent record that is stuck (only a ping of a live spa leaves it) -/
example : let s : R := { (resetR init) with st := stateOnRetryExceeded }
    Coherent s = false ∧ Stuck s = true ∧ connected (run s healthySeq) = false := by decide +kernel

/-- **reporting an error never silences the spa's ping loop**: among all coroutines of the source tree (regenerated skeletons) the
only one that closes the connection's protocol is `GeckoAsyncSpa.disconnect` - so `spaAlive` (a spa object whose ping loop runs)
stays true in every error state until a reset, which is what lets an answered ping leave ERROR_RF_FAULT / ERROR_PING_MISSED /
ERROR_NEEDS_ATTENTION (`pingResetStates`); in particular the RF-error handler only counts and reports -/
theorem only_disconnect_closes_the_protocol :
    (Skeletons.all.filter fun p => (Coop.actions .call p.2).contains "self._protocol.disconnect").map (·.1) =
      ["async_spa.py:GeckoAsyncSpa.disconnect"] := by decide +kernel

/-- **every answered ping is announced**: in the regenerated skeleton of the ping loop, on every path from "a reply came"
(`ping_handler is not None`) to the end of that iteration the client handler is awaited with RUNNING_PING_RECEIVED - the event
the manager's `pingResetStates` rule needs (the input `.ping true` of the model); it does not depend on whether an earlier ping
was missed, so an error state reached while pings keep being answered (an RFERR to a refresh, exhausted retries) is left too -/
theorem every_answered_ping_is_announced :
    Coop.alwaysResponds (Coop.isBranch true "ping_handler is not None")
      (Coop.isAwaitOf "self._event_handler(GeckoSpaEvent.RUNNING_PING_RECEIVED)") (Coop.isAwaitOf "config_sleep")
      Skeletons.sk_async_spa__GeckoAsyncSpa__ping_loop = true ∧
    "ping_handler is not None" ∈ Coop.actions .brT Skeletons.sk_async_spa__GeckoAsyncSpa__ping_loop := by decide +kernel

/-- non-vacuity: an announcement made only for the first reply after a miss is rejected -/
example : Coop.alwaysResponds (Coop.isBranch true "ping_handler is not None")
    (Coop.isAwaitOf "self._event_handler(GeckoSpaEvent.RUNNING_PING_RECEIVED)") (Coop.isAwaitOf "config_sleep")
    (.loop (.seq (.ev (.act ⟨.brT, "ping_handler is not None"⟩))
      (.seq (.alt (.seq (.ev (.act ⟨.brT, "missed"⟩)) (.ev (.aw "self._event_handler(GeckoSpaEvent.RUNNING_PING_RECEIVED)")))
                  (.ev (.act ⟨.brF, "missed"⟩)))
            (.ev (.aw "config_sleep"))))) = false := by decide +kernel

/-- **an unreachable spa is reported**: from CONNECTED, a ping that stays unanswered beyond the not-responding timeout
takes the manager out of CONNECTED -/
theorem unreachable_reported : ∀ s ∈ allR, Coherent s = true → connected s = true → connected (step s (.ping false)) = false := by
  decide +kernel

/-- a mid-session blackout of any length followed by a healthy network recovers (the pump and the ping loop survive it) -/
theorem midsession_blackout_recovers :
    connected (run (run init [.pumpTurn true]) ([.ping false] ++ healthySeq)) = true := by decide +kernel

/-- the time bounds, as numerals from the generated timing tables (seconds; idle table, then active table) -/
theorem bounds_today :
    recoveryBound Config.idleTable = 369 ∧ recoveryBound Config.activeTable = 311 ∧
    unreachableBound Config.idleTable = 247 ∧ unreachableBound Config.activeTable = 21 := by decide +kernel

/-- **a reset that is slow to announce itself still recovers**: when the client's handlers of the disconnection events take long
enough for the sequence pump to run a whole discovery inside the reset, the reset's last statements forget what that discovery
found (`resetForgetsDescriptorsLast`, regenerated), so the manager lands in IDLE without descriptors and the pump searches again -
from every coherent record a healthy network then leads to CONNECTED.  (Before the repair of finding D16 the reset landed in IDLE
WITH descriptors: neither rule of the pump applies there, and the manager stayed idle for good.) -/
theorem reset_with_a_discovery_inside_recovers : ∀ s ∈ allR, Coherent s = true → s.pump = true →
    Coherent (step s .locateInReset) = true ∧ connected (run (step s .locateInReset) healthySeq) = true := by decide +kernel

/-- non-vacuity / the defect: with a reset that does not forget the descriptors last, the same step from CONNECTED ends in a record
on which neither the pump nor a ping acts -/
example : Stuck { st := "IDLE", descriptors := true, facade := false, spaAlive := false, pump := true } = true := by decide +kernel

/-! ### the sequence pump outlives every failure of what it calls -/

/-- the awaits of the pump that can fail with an ordinary exception: the library coroutines it drives (locate, connect, reset) -
the two sleeps raise nothing but a cancellation -/
def pumpCall : Coop.Ev → Bool
  | .aw n => n != "asyncio.sleep" && n != "config_sleep"
  | .act _ => false

/-- **the background sequence never dies of an exception** (over the regenerated skeleton of `_sequence_pump`, with Python's rule
for which handler gets an exception): whatever `async_locate_spas`, `async_connect` or `async_reset` raise - at whichever point, in
whichever turn of the loop - a handler swallows it and the loop goes on; only a cancellation ends the pump
(`C10.cancellation_ends_every_coroutine`).  This is the structural fact behind the model's `pump_survives_step` -/
theorem pump_survives_every_exception :
    Coop.survivesEveryException pumpCall Skeletons.sk_async_spa_manager__GeckoAsyncSpaMan__sequence_pump = true ∧
    (Coop.awaitsIn Skeletons.sk_async_spa_manager__GeckoAsyncSpaMan__sequence_pump).filter (fun n => pumpCall (.aw n)) =
      ["self.async_locate_spas", "self.async_connect", "self.async_reset"] := by decide +kernel

/-- the same semantically: an exception thrown at any of those awaits never propagates out of the pump -/
theorem pump_contains_every_exception {o : Coop.Out}
    (h : Coop.Thrown Coop.catchesAny pumpCall Skeletons.sk_async_spa_manager__GeckoAsyncSpaMan__sequence_pump o) : o ≠ .exc :=
  Coop.exception_is_contained pump_survives_every_exception.1 h

/-- non-vacuity: the same loop without the inner `except Exception` dies of the first failing call (the state of the tree before
the repair of finding D8a) -/
example : Coop.survivesEveryException pumpCall
    (.tryExc (.loop (.seq (.ev (.aw "self.async_connect")) (.ev (.aw "asyncio.sleep")))) (.seq (.ev (.act ⟨.exc, "asyncio.CancelledError"⟩)) .raise)) = false ∧
    Coop.survivesEveryException pumpCall
    (.tryExc (.loop (.seq (.tryExc (.ev (.aw "self.async_connect")) (.alt (.seq (.ev (.act ⟨.exc, "asyncio.CancelledError"⟩)) .raise) (.ev (.act ⟨.exc, "Exception"⟩))))
      (.ev (.aw "asyncio.sleep")))) (.seq (.ev (.act ⟨.exc, "asyncio.CancelledError"⟩)) .raise)) = true := by decide +kernel

end GeckoModel.C09
